// c09: all interleavings (bounded preemptions) of concurrent address-issuing
// wallet calls under the vsync scheduler.
package main

import (
	"crypto/sha256"
	"encoding/json"
	"fmt"
	"io"
	"os"
	"path/filepath"
	"sort"
	"strings"
	"time"

	"github.com/btcsuite/btcd/btcec/v2"
	"github.com/btcsuite/btcd/btcutil"
	"github.com/btcsuite/btcd/btcutil/hdkeychain"
	"github.com/btcsuite/btcd/btcutil/psbt"
	"github.com/btcsuite/btcd/chaincfg"
	"github.com/btcsuite/btcd/chaincfg/chainhash"
	"github.com/btcsuite/btcd/txscript"
	"github.com/btcsuite/btcd/wire"
	"github.com/btcsuite/btcwallet/snacl"
	"github.com/btcsuite/btcwallet/waddrmgr"
	"github.com/btcsuite/btcwallet/wallet"
	"github.com/btcsuite/btcwallet/walletdb"
	_ "github.com/btcsuite/btcwallet/walletdb/bdb"
	"github.com/btcsuite/btcwallet/wtxmgr"

	"verif/harness/ev"
	"verif/harness/wsim"
	"verif/hsched/vsync"
)

var params = &chaincfg.SimNetParams
var scope = waddrmgr.KeyScopeBIP0084

var (
	pubPass  = []byte("public")
	privPass = []byte("private-pass")
)

func copyFile(src, dst string) {
	in, err := os.Open(src)
	if err != nil {
		ev.Fatal("%v", err)
	}
	defer in.Close()
	out, err := os.Create(dst)
	if err != nil {
		ev.Fatal("%v", err)
	}
	if _, err := io.Copy(out, in); err != nil {
		ev.Fatal("%v", err)
	}
	out.Close()
}

var worldSeq int

type world struct {
	db      walletdb.DB
	w       *wallet.Wallet
	path    string
	renames int // (only touched by the thread the scheduler runs)
}

var (
	coins     []wire.OutPoint // funded outpoints of the template
	extPlan   []string        // the next external addresses a wallet will issue, in order
	intPlan   []string        // the next internal addresses
	int86Plan []string        // the next internal addresses of scope BIP0086
	ext0      uint32
	int0      uint32
	int86_0   uint32
)

func openWorld(path string) *world {
	db, err := walletdb.Open("bdb", path, true, time.Minute, false)
	if err != nil {
		ev.Fatal("open db: %v", err)
	}
	w, err := wallet.OpenWithRetry(db, pubPass, nil, params, 0, time.Second)
	if err != nil {
		ev.Fatal("open wallet: %v", err)
	}
	chain := wsim.NewChain()
	b1 := chain.NewBlock(chain.Tip, "a", nil)
	chain.Tip = b1
	w.VerifSetChainClient(wsim.NewBackend(chain))
	// unlocked, as the public entry points require (CreateSimpleTx holds the unlock): on a
	// locked manager txToOutputs takes every account for watch-only and skips signing
	if err := walletdb.View(db, func(tx walletdb.ReadTx) error {
		return w.Manager.Unlock(tx.ReadBucket([]byte("waddrmgr")), privPass)
	}); err != nil {
		ev.Fatal("unlock: %v", err)
	}
	return &world{db: db, w: w, path: path}
}

func (x *world) close() {
	x.db.Close()
}

// makeTemplate creates a funded wallet file and the plan of addresses it
// will issue next.
func makeTemplate(dir string) string {
	waddrmgr.SetSecretKeyGen(func(p *[]byte, _ *waddrmgr.ScryptOptions) (*snacl.SecretKey, error) {
		return snacl.NewSecretKey(p, 16, 8, 1)
	})
	path := filepath.Join(dir, "c09-template.db")
	os.Remove(path)
	db, err := walletdb.Create("bdb", path, true, time.Minute, false)
	if err != nil {
		ev.Fatal("%v", err)
	}
	seed := sha256.Sum256([]byte("c09-seed"))
	root, _ := hdkeychain.NewMaster(seed[:], params)
	if err := wallet.Create(db, pubPass, privPass, root, params, params.GenesisBlock.Header.Timestamp.Add(49*time.Hour)); err != nil {
		ev.Fatal("create: %v", err)
	}
	db.Close()
	x := openWorld(path)
	w := x.w
	// unlock directly through the manager (the wallet's own goroutines are not started)
	err = walletdb.View(x.db, func(tx walletdb.ReadTx) error {
		return w.Manager.Unlock(tx.ReadBucket([]byte("waddrmgr")), privPass)
	})
	if err != nil {
		ev.Fatal("unlock: %v", err)
	}
	chain := wsim.NewChain()
	b1 := chain.NewBlock(chain.Tip, "a", nil)
	meta := b1.Meta()
	// one used external address (so CurrentAddress must issue a new one) and three coins
	for i := 0; i < 3; i++ {
		addr, err := w.NewAddress(0, scope)
		if err != nil {
			ev.Fatal("template address: %v", err)
		}
		tx := wsim.FundingTx(fmt.Sprintf("c09-%d", i), addr, int64(1e8*(i+1)))
		rec, _ := wtxmgr.NewTxRecordFromMsgTx(tx, meta.Time)
		if err := w.VerifAddRelevantTx(rec, &meta); err != nil {
			ev.Fatal("template fund: %v", err)
		}
		coins = append(coins, wire.OutPoint{Hash: tx.TxHash(), Index: 0})
	}
	// an imported key with one coin: a spend from the imported account takes its
	// change address from account 0 of the change scope
	impSeed := sha256.Sum256([]byte("c09-imported-key"))
	impKey, _ := btcec.PrivKeyFromBytes(impSeed[:])
	wif, err := btcutil.NewWIF(impKey, params, true)
	if err != nil {
		ev.Fatal("wif: %v", err)
	}
	var impAddr btcutil.Address
	err = walletdb.Update(x.db, func(tx walletdb.ReadWriteTx) error {
		sm, err := w.Manager.FetchScopedKeyManager(scope)
		if err != nil {
			return err
		}
		ma, err := sm.ImportPrivateKey(tx.ReadWriteBucket([]byte("waddrmgr")), wif, &waddrmgr.BlockStamp{Hash: *params.GenesisHash})
		if err != nil {
			return err
		}
		impAddr = ma.Address()
		return nil
	})
	if err != nil {
		ev.Fatal("template import: %v", err)
	}
	{
		tx := wsim.FundingTx("c09-imported", impAddr, 7e8)
		rec, _ := wtxmgr.NewTxRecordFromMsgTx(tx, meta.Time)
		if err := w.VerifAddRelevantTx(rec, &meta); err != nil {
			ev.Fatal("template fund imported: %v", err)
		}
	}
	if err := w.VerifConnectBlock(meta); err != nil {
		ev.Fatal("template connect: %v", err)
	}
	x.close()
	// plan: what a single-threaded wallet issues next (on a scratch copy)
	scratch := path + ".plan"
	copyFile(path, scratch)
	y := openWorld(scratch)
	props, err := accountProps(y)
	if err != nil {
		ev.Fatal("%v", err)
	}
	ext0, int0 = props.ExternalKeyCount, props.InternalKeyCount
	if p86, err := accountPropsOf(y, waddrmgr.KeyScopeBIP0086); err == nil {
		int86_0 = p86.InternalKeyCount
	}
	for i := 0; i < 4; i++ {
		a, err := y.w.NewAddress(0, scope)
		if err != nil {
			ev.Fatal("plan: %v", err)
		}
		extPlan = append(extPlan, a.EncodeAddress())
		c, err := y.w.NewChangeAddress(0, scope)
		if err != nil {
			ev.Fatal("plan: %v", err)
		}
		intPlan = append(intPlan, c.EncodeAddress())
		c86, err := y.w.NewChangeAddress(0, waddrmgr.KeyScopeBIP0086)
		if err != nil {
			ev.Fatal("plan: %v", err)
		}
		int86Plan = append(int86Plan, c86.EncodeAddress())
	}
	y.close()
	os.Remove(scratch)
	return path
}

func accountProps(x *world) (*waddrmgr.AccountProperties, error) { return accountPropsOf(x, scope) }

func accountPropsOf(x *world, sc waddrmgr.KeyScope) (*waddrmgr.AccountProperties, error) {
	var p *waddrmgr.AccountProperties
	err := walletdb.View(x.db, func(tx walletdb.ReadTx) error {
		sm, err := x.w.Manager.FetchScopedKeyManager(sc)
		if err != nil {
			return err
		}
		p, err = sm.AccountProperties(tx.ReadBucket([]byte("waddrmgr")), 0)
		return err
	})
	return p, err
}

// result of one thread's call
type result struct {
	op      string
	err     error
	ext     []string // external addresses obtained
	intl    []string // internal (change) addresses obtained
	intl86  []string // internal addresses of scope BIP0086 obtained
	commits bool     // whether a successful call persists its address
}

func extAddr(pk []byte) string {
	_, addrs, _, err := txscript.ExtractPkScriptAddrs(pk, params)
	if err != nil || len(addrs) != 1 {
		return ""
	}
	return addrs[0].EncodeAddress()
}

var payTo = func() []byte {
	h := sha256.Sum256([]byte("c09-external-payee"))
	a, _ := btcutil.NewAddressWitnessPubKeyHash(h[:20], params)
	pk, _ := txscript.PayToAddrScript(a)
	return pk
}()

// ops is the alphabet of address-issuing calls.
var ops = map[string]func(x *world, r *result){
	"NewAddress": func(x *world, r *result) {
		a, err := x.w.NewAddress(0, scope)
		r.err, r.commits = err, true
		if err == nil {
			r.ext = []string{a.EncodeAddress()}
		}
	},
	"NewChangeAddress": func(x *world, r *result) {
		a, err := x.w.NewChangeAddress(0, scope)
		r.err, r.commits = err, true
		if err == nil {
			r.intl = []string{a.EncodeAddress()}
		}
	},
	"CurrentAddress": func(x *world, r *result) {
		a, err := x.w.CurrentAddress(0, scope)
		r.err, r.commits = err, true
		if err == nil {
			r.ext = []string{a.EncodeAddress()}
		}
	},
	"TxWithChange": func(x *world, r *result) {
		out := wire.NewTxOut(5e6, payTo)
		tx, err := x.w.VerifTxToOutputs([]*wire.TxOut{out}, nil, &scope, 0, 1, 1000, wallet.CoinSelectionLargest, false, nil)
		r.err, r.commits = err, true
		if err == nil && tx.ChangeIndex >= 0 {
			r.intl = []string{extAddr(tx.Tx.TxOut[tx.ChangeIndex].PkScript)}
		}
	},
	"TxFromImported": func(x *world, r *result) {
		// coins of the imported account, change from account 0 of the change scope
		out := wire.NewTxOut(5e6, payTo)
		tx, err := x.w.VerifTxToOutputs([]*wire.TxOut{out}, &scope, &scope, waddrmgr.ImportedAddrAccount, 1, 1000, wallet.CoinSelectionLargest, false, nil)
		r.err, r.commits = err, true
		if err == nil && tx.ChangeIndex >= 0 {
			r.intl = []string{extAddr(tx.Tx.TxOut[tx.ChangeIndex].PkScript)}
		}
	},
	"RenameAccount": func(x *world, r *result) {
		// issues nothing; rewrites the account row (and must not write back stale indexes)
		x.renames++
		r.err, r.commits = x.w.RenameAccount(scope, 0, fmt.Sprintf("renamed-%d", x.renames)), true
	},
	"TxDryRun": func(x *world, r *result) {
		out := wire.NewTxOut(5e6, payTo)
		tx, err := x.w.VerifTxToOutputs([]*wire.TxOut{out}, nil, &scope, 0, 1, 1000, wallet.CoinSelectionLargest, true, nil)
		r.err, r.commits = err, false
		if err == nil && tx.ChangeIndex >= 0 {
			r.intl = []string{extAddr(tx.Tx.TxOut[tx.ChangeIndex].PkScript)}
		}
	},
	"TxNilChangeScope": func(x *world, r *result) {
		// no change scope given: the wallet's default change scope (BIP0086) is used
		out := wire.NewTxOut(5e6, payTo)
		tx, err := x.w.VerifTxToOutputs([]*wire.TxOut{out}, nil, nil, 0, 1, 1000, wallet.CoinSelectionLargest, false, nil)
		r.err, r.commits = err, true
		if err == nil && tx.ChangeIndex >= 0 {
			r.intl86 = []string{extAddr(tx.Tx.TxOut[tx.ChangeIndex].PkScript)}
		}
	},
	"NewChangeAddress86": func(x *world, r *result) {
		a, err := x.w.NewChangeAddress(0, waddrmgr.KeyScopeBIP0086)
		r.err, r.commits = err, true
		if err == nil {
			r.intl86 = []string{a.EncodeAddress()}
		}
	},
	"FundPsbtPreset": func(x *world, r *result) {
		out := wire.NewTxOut(5e6, payTo)
		pkt, err := psbt.New([]*wire.OutPoint{&coins[0]}, []*wire.TxOut{out}, 2, 0, []uint32{wire.MaxTxInSequenceNum})
		if err != nil {
			r.err = err
			return
		}
		idx, err := x.w.FundPsbt(pkt, &scope, 1, 0, 1000, wallet.CoinSelectionLargest)
		r.err, r.commits = err, true
		if err == nil && idx >= 0 {
			r.intl = []string{extAddr(pkt.UnsignedTx.TxOut[idx].PkScript)}
		}
	},
}

type scenario struct {
	Threads []string `json:"threads"`
}

// replayMain re-executes one recorded schedule without the explorer.
func replayMain(file string) {
	raw, err := os.ReadFile(file)
	if err != nil {
		ev.Fatal("%v", err)
	}
	var v struct {
		Sig    string `json:"signature"`
		Msg    string `json:"message"`
		Replay struct {
			Scenario scenario `json:"scenario"`
			Schedule []int    `json:"schedule"`
		} `json:"replay"`
	}
	if err := json.Unmarshal(raw, &v); err != nil {
		ev.Fatal("%v", err)
	}
	fmt.Printf("replaying C09 %s\n  recorded: %s\n", v.Sig, v.Msg)
	dir := ev.Scratch()
	tmpl := makeTemplate(dir)
	wpath := filepath.Join(dir, "c09-world.db")
	copyFile(tmpl, wpath)
	vsync.ResetNames()
	cur := openWorld(wpath)
	sc := v.Replay.Scenario
	results := make([]*result, len(sc.Threads))
	var bodies []func()
	for i, name := range sc.Threads {
		i, name := i, name
		results[i] = &result{op: name}
		bodies = append(bodies, func() { ops[name](cur, results[i]) })
	}
	x, err := vsync.Run(bodies, v.Replay.Schedule)
	if err != nil {
		ev.Fatal("replay diverged: %v", err)
	}
	probe := ev.NewRun("C09", "model_checking", []string{"quick"})
	checkExec(probe, sc, x, cur, results, 0)
	cur.close()
	ev.Cleanup()
	if probe.NumSigs() > 0 {
		fmt.Println("replay: violation reproduced")
		os.Exit(1)
	}
	fmt.Println("replay: no oracle failure on this schedule")
	os.Exit(0)
}

func main() {
	args := os.Args[1:]
	if len(args) >= 2 && args[0] == "replay" {
		replayMain(args[1])
	}
	run := ev.NewRun("C09", "model_checking", args)
	if !ev.IsWorker() {
		cov := run.RunSharded(16, args)
		cov["rule"] = c09Rule
		if _, ok := cov["samples"]; !ok {
			cov["samples"] = []string{"(none)"}
		}
		run.Assumption = c09Assumptions
		run.Finish(cov)
		return
	}
	dir := ev.Scratch()
	tmpl := makeTemplate(dir)
	names := []string{"NewAddress", "NewChangeAddress", "CurrentAddress", "TxWithChange", "TxDryRun", "FundPsbtPreset", "TxNilChangeScope", "NewChangeAddress86", "TxFromImported", "RenameAccount"}
	var scenarios []scenario
	for i, a := range names {
		for _, b := range names[i:] {
			scenarios = append(scenarios, scenario{Threads: []string{a, b}})
		}
	}
	bound := 2
	if run.Thorough() {
		bound = 3
		for _, tr := range [][]string{
			{"NewAddress", "NewAddress", "NewAddress"}, {"NewAddress", "CurrentAddress", "NewAddress"},
			{"NewChangeAddress", "TxWithChange", "NewChangeAddress"}, {"TxWithChange", "TxWithChange", "NewChangeAddress"},
			{"NewAddress", "TxWithChange", "TxDryRun"}, {"FundPsbtPreset", "TxWithChange", "NewChangeAddress"},
			{"TxFromImported", "TxWithChange", "NewChangeAddress"},
		} {
			scenarios = append(scenarios, scenario{Threads: tr})
		}
	}
	totalExecs, totalPoints, maxPoints := 0, 0, 0
	outcomes := map[string]bool{}
	perScenario := map[string]int{}
	var samples []string
	complete := true
	_, shardN := ev.Shard()
	for _, sc := range scenarios {
		if run.Expired() {
			complete = false
			break
		}
		scName := strings.Join(sc.Threads, "||")
		if only := os.Getenv("C09_ONLY"); only != "" && !strings.Contains(scName, only) {
			continue // (development aid: restrict the run to some scenarios)
		}
		wpath := filepath.Join(dir, fmt.Sprintf("c09-world-%d.db", worldSeq))
		var cur *world
		var results []*result
		leaked := false // the previous execution left blocked threads (deadlock/panic): its locks are still held
		runOnce := func(prefix []int) (*vsync.Exec, error) {
			if cur != nil && !leaked {
				cur.close()
			}
			if leaked {
				// the leaked world still holds its file lock: continue on a new file
				worldSeq++
				wpath = filepath.Join(dir, fmt.Sprintf("c09-world-%d.db", worldSeq))
			}
			copyFile(tmpl, wpath)
			vsync.ResetNames()
			cur = openWorld(wpath)
			results = make([]*result, len(sc.Threads))
			var bodies []func()
			for i, name := range sc.Threads {
				i, name := i, name
				results[i] = &result{op: name}
				bodies = append(bodies, func() { ops[name](cur, results[i]) })
			}
			x, err := vsync.Run(bodies, prefix)
			leaked = x != nil && (x.Deadlock || len(x.Panics) > 0)
			return x, err
		}
		// CHESS iteration: bound 0, then 1, ... (an execution is checked once per bound it belongs to;
		// counting distinct executions uses the choice vector)
		seenExec := map[string]bool{}
		scBound := bound
		if len(sc.Threads) > 2 && scBound > 2 {
			scBound = 2 // three threads: ~150 scheduling points, bound 3 would be ~10^6 executions per scenario
		}
		// one pass at the final bound (it contains every execution of the lower bounds;
		// witnesses are ranked by size when merged, so the smallest one is still reported)
		for b := scBound; b <= scBound; b++ {
			_, err := vsync.ExploreSharded(b, runOnce, func(x *vsync.Exec) {
				key := fmt.Sprint(x.Choices())
				if seenExec[key] {
					return
				}
				seenExec[key] = true
				totalExecs++
				perScenario[scName]++
				totalPoints += len(x.Points)
				if len(x.Points) > maxPoints {
					maxPoints = len(x.Points)
				}
				oc := checkExec(run, sc, x, cur, results, b)
				outcomes[scName+" => "+oc] = true
				if len(samples) < 3 && totalExecs%211 == 7 {
					samples = append(samples, fmt.Sprintf("%s schedule=%v => %s", scName, x.Choices(), oc))
				}
			}, func(i, alt int) bool {
				// every scenario is split over the worker processes by its top-level subtrees
				// dynamic balancing: a top-level subtree belongs to the first worker that claims it
				if shardN <= 1 {
					return true
				}
				name := filepath.Join(os.Getenv("VERIF_SHARD_DIR"), fmt.Sprintf("claim-%s-%d-%d-%d", strings.ReplaceAll(scName, "|", "_"), b, i, alt))
				f, err := os.OpenFile(name, os.O_CREATE|os.O_EXCL|os.O_WRONLY, 0o600)
				if err != nil {
					return false
				}
				f.Close()
				return true
			})
			if err != nil {
				ev.Fatal("scenario %s: %v", scName, err)
			}
		}
		if cur != nil && !leaked {
			cur.close()
		}
		cur = nil
	}
	if len(samples) == 0 {
		samples = []string{"(none)"}
	}
	var ocl []string
	for o := range outcomes {
		ocl = append(ocl, o)
	}
	sort.Strings(ocl)
	var nontrivial []string
	for k := range outcomes {
		if strings.Count(k, "ok") >= 2 {
			nontrivial = append(nontrivial, k)
		}
	}
	run.Finish(ev.Coverage{
		"states@set":                         ocl,
		"transitions":                        totalPoints,
		"traces_validated_against_impl":      totalExecs,
		"executions":                         totalExecs,
		"evaluations":                        totalExecs,
		"distinct_nontrivial@set":            nontrivial,
		"preemption_bound_completed@max":     bound,
		"preemption_bound_three_threads@max": 2,
		"scenarios@max":                      len(scenarios),
		"executions_per_scenario":            perScenario,
		"max_scheduling_points@max":          maxPoints,
		"exhaustive":                         complete,
		"samples":                            samples,
	})
}

const c09Rule = "for every pair (thorough: + selected triples) of address-issuing calls {NewAddress, NewChangeAddress, CurrentAddress, txToOutputs with change (account 0 / nil change scope / imported account), txToOutputs dry run, FundPsbt with pre-set input, NewChangeAddress of scope 86, RenameAccount (issues nothing, rewrites the account row)} on the same account, every schedule with at most the stated number of preemptions (CHESS iteration 0,1,2,..) is executed on a fresh copy of a funded wallet; oracle: the returned addresses are linearizable w.r.t. a per-branch counter model (implies pairwise distinct fresh addresses and a gap-free range), key counts of the live manager = model = a manager freshly opened on the file; no call fails, no deadlock, no panic; states = distinct (scenario, outcome) pairs, non-trivial = outcomes in which at least two calls succeeded"

var c09Assumptions = []string{
	"scheduling points are the mutex/rwmutex acquisitions of wallet, waddrmgr (sync import rewritten by an overlay generated from the current tree) and bbolt (local copy with the same one-line rewrite); code between two acquisitions runs atomically",
	"the wallet's own goroutines are not started; the backend is attached through a build-tagged hook; CreateSimpleTx is exercised through its body txToOutputs",
	"memory-model effects are outside a cooperative scheduler",
}

// checkExec evaluates the oracle on one complete execution.
func checkExec(run *ev.Run, sc scenario, x *vsync.Exec, w *world, results []*result, bound int) string {
	replay := map[string]interface{}{"kind": "c09", "scenario": sc, "schedule": x.Choices(), "preemption_bound": bound}
	scName := strings.Join(sc.Threads, "||")
	fail := func(sig, msg string) {
		run.Violation(sig, fmt.Sprintf("%s :: threads %s schedule %v", msg, scName, x.Choices()), replay)
	}
	if x.Deadlock {
		fail("deadlock", fmt.Sprintf("no enabled thread, blocked: %v", x.Blocked))
		return "deadlock"
	}
	if len(x.Panics) > 0 {
		fail("panic", strings.Join(x.Panics, "; "))
		return "panic"
	}
	if os.Getenv("C09_DEBUG") != "" {
		df, _ := os.OpenFile(os.Getenv("C09_DEBUG"), os.O_APPEND|os.O_CREATE|os.O_WRONLY, 0o644)
		defer df.Close()
		for _, r := range results {
			fmt.Fprintf(df, "debug: %s err=%v ext=%v int=%v int86=%v locked=%v\n", r.op, r.err, r.ext, r.intl, r.intl86, w.w.Manager.IsLocked())
		}
	}
	var outcome []string
	for _, r := range results {
		if r.err != nil {
			outcome = append(outcome, "err:"+r.err.Error())
		} else {
			outcome = append(outcome, "ok")
		}
	}
	// Linearizability against the per-branch counter model: some sequential
	// order of the calls must explain every returned address. (Each thread
	// makes one call and all calls overlap, so every permutation is allowed.)
	type mstate struct {
		e, i, i86   int
		lastExtUsed bool
	}
	step := func(m mstate, r *result) (mstate, bool) {
		if r.err != nil {
			return m, true // a failed call has no effect
		}
		get := func(plan []string, k int) string {
			if k >= 0 && k < len(plan) {
				return plan[k]
			}
			return "?"
		}
		one := func(l []string) string {
			if len(l) == 1 {
				return l[0]
			}
			return ""
		}
		switch r.op {
		case "NewAddress":
			ok := one(r.ext) == get(extPlan, m.e)
			m.e++
			m.lastExtUsed = false
			return m, ok
		case "CurrentAddress":
			if m.lastExtUsed {
				ok := one(r.ext) == get(extPlan, m.e)
				m.e++
				m.lastExtUsed = false
				return m, ok
			}
			return m, one(r.ext) == get(extPlan, m.e-1)
		case "NewChangeAddress", "TxWithChange", "FundPsbtPreset", "TxFromImported":
			ok := one(r.intl) == get(intPlan, m.i)
			m.i++
			return m, ok
		case "RenameAccount":
			return m, len(r.ext)+len(r.intl)+len(r.intl86) == 0
		case "TxDryRun":
			return m, one(r.intl) == get(intPlan, m.i)
		case "TxNilChangeScope", "NewChangeAddress86":
			ok := one(r.intl86) == get(int86Plan, m.i86)
			m.i86++
			return m, ok
		}
		return m, false
	}
	var final *mstate
	var perm func(rest []int, m mstate) bool
	perm = func(rest []int, m mstate) bool {
		if len(rest) == 0 {
			final = &m
			return true
		}
		for k, idx := range rest {
			m2, ok := step(m, results[idx])
			if !ok {
				continue
			}
			rr := append(append([]int{}, rest[:k]...), rest[k+1:]...)
			if perm(rr, m2) {
				return true
			}
		}
		return false
	}
	idxs := make([]int, len(results))
	for i := range idxs {
		idxs[i] = i
	}
	var got []string
	for _, r := range results {
		got = append(got, fmt.Sprintf("%s=%v%v%v", r.op, r.ext, r.intl, r.intl86))
	}
	for _, r := range results {
		if r.err != nil {
			fail("call-failed:"+r.op, fmt.Sprintf("%s failed: %v", r.op, r.err))
		}
	}
	if !perm(idxs, mstate{lastExtUsed: true}) {
		// classify: duplicate fresh address vs gap
		kind := "not-linearizable"
		fresh := map[string]int{}
		for _, r := range results {
			if r.err == nil && r.op != "CurrentAddress" && r.op != "TxDryRun" {
				for _, a := range append(append(append([]string{}, r.ext...), r.intl...), r.intl86...) {
					fresh[a]++
					if fresh[a] > 1 {
						kind = "duplicate-address"
					}
				}
			}
		}
		fail(kind+":"+pairName(sc.Threads), fmt.Sprintf("no sequential order of the calls explains the addresses obtained %v (next external %v, next internal %v)", got, extPlan[:3], intPlan[:3]))
		return strings.Join(outcome, ",")
	}
	ext := make([]string, final.e)
	intl := make([]string, final.i)
	// memory = model = database
	p, err := accountProps(w)
	if err != nil {
		fail("props-error", err.Error())
		return strings.Join(outcome, ",")
	}
	if p.ExternalKeyCount != ext0+uint32(len(ext)) || p.InternalKeyCount != int0+uint32(len(intl)) {
		fail("memory-count:"+pairName(sc.Threads), fmt.Sprintf("live manager key counts ext=%d int=%d, expected %d and %d (%d external and %d internal addresses were issued)",
			p.ExternalKeyCount, p.InternalKeyCount, ext0+uint32(len(ext)), int0+uint32(len(intl)), len(ext), len(intl)))
	}
	if p86, err := accountPropsOf(w, waddrmgr.KeyScopeBIP0086); err != nil {
		fail("props-error", err.Error())
	} else if p86.InternalKeyCount != int86_0+uint32(final.i86) {
		fail("memory-count:"+pairName(sc.Threads), fmt.Sprintf("live manager BIP0086 internal key count %d, expected %d", p86.InternalKeyCount, int86_0+uint32(final.i86)))
	}
	// fresh manager on a copy of the file
	cp := w.path + ".fresh"
	copyFile(w.path, cp)
	f := openWorld(cp)
	fp, err := accountProps(f)
	fp86, err86 := accountPropsOf(f, waddrmgr.KeyScopeBIP0086)
	lp86, _ := accountPropsOf(w, waddrmgr.KeyScopeBIP0086)
	f.close()
	if err86 == nil && lp86 != nil && fp86.InternalKeyCount != lp86.InternalKeyCount {
		fail("memory-vs-database:"+pairName(sc.Threads), fmt.Sprintf("BIP0086 internal key count live=%d database=%d", lp86.InternalKeyCount, fp86.InternalKeyCount))
	}
	os.Remove(cp)
	if err != nil {
		fail("fresh-props-error", err.Error())
	} else if fp.ExternalKeyCount != p.ExternalKeyCount || fp.InternalKeyCount != p.InternalKeyCount {
		fail("memory-vs-database:"+pairName(sc.Threads), fmt.Sprintf("live manager key counts ext=%d int=%d but a manager freshly opened on the database says ext=%d int=%d",
			p.ExternalKeyCount, p.InternalKeyCount, fp.ExternalKeyCount, fp.InternalKeyCount))
	}
	return strings.Join(outcome, ",")
}

func pairName(t []string) string {
	s := append([]string{}, t...)
	sort.Strings(s)
	return strings.Join(s, "+")
}

func min(a, b int) int {
	if a < b {
		return a
	}
	return b
}

var _ = chainhash.Hash{}
