#!/bin/bash
# run.sh <quick|thorough>: C09 under the controlled scheduler.
# Generates, from the CURRENT /repo tree: (1) fixed-order map iteration for waddrmgr and wallet (replay determinism),
# (2) the sync -> vsync import rewrite for wallet and waddrmgr; uses a local copy of bbolt with the same rewrite.
# exit: 0 held, 1 violation, 2 generator/build/harness error
set -u
export GOFLAGS=-mod=mod GOPROXY=off GOSUMDB=off GOTOOLCHAIN=local
export GOCACHE=/verif/.cache/go-build
tier="${1:-${VERIF_TIER:-quick}}"
ov=/verif/.cache/ov/c09
tp=/verif/.cache/third_party/bbolt
mkdir -p "$ov" /verif/bin /verif/evidence /verif/replays /verif/.cache/third_party || exit 2
fail() { echo "HARNESS-ERROR: c09: $*" >&2; exit 2; }
(
  flock 9
  if [ ! -f "$tp/db.go" ]; then
    src="$(go env GOMODCACHE)/go.etcd.io/bbolt@v1.3.11"
    [ -d "$src" ] || { echo "bbolt v1.3.11 not in module cache" >&2; exit 2; }
    rm -rf "$tp"; cp -r "$src" "$tp" && chmod -R u+w "$tp" && rm -f "$tp"/*_test.go && rm -rf "$tp"/cmd "$tp"/tests
    sed -i 's#^\t"sync"$#\tsync "verif/hsched/vsync"#' "$tp/db.go"
    grep -q 'verif/hsched/vsync' "$tp/db.go" || { echo "bbolt sync rewrite did not apply" >&2; exit 2; }
  fi
  (cd /verif/ovgen && go build -o /verif/bin/ovgen .) || exit 2
  rm -f "$ov/overlay.json"
  /verif/bin/ovgen maporder-all /repo/waddrmgr "$ov" "$ov/overlay.json" || exit 2
  /verif/bin/ovgen maporder-all /repo/wallet "$ov" "$ov/overlay.json" || exit 2
  /verif/bin/ovgen syncshim "$ov" "$ov/overlay.json" verif/hsched/vsync /repo/wallet /repo/waddrmgr || exit 2
  cd /verif/hsched || exit 2
  cat /repo/go.sum /verif/harness/go.sum.extra 2>/dev/null | sort -u > go.sum
  go build -tags verif -overlay "$ov/overlay.json" -o "$ov/vh-c09.new" ./cmd/c09 2>"$ov/build.err" \
     || { echo "HARNESS-ERROR: c09: build failed (a tree that does not compile is not a property verdict)" >&2; cat "$ov/build.err" >&2; exit 2; }
  mv -f "$ov/vh-c09.new" /verif/bin/vh-c09 || exit 2
) 9>"$ov/.lock" || fail "generator or build failed"
[ -n "${VERIF_BUILD_ONLY:-}" ] && exit 0
if [ "$tier" = thorough ]; then
  # supplementary, non-deciding: the same kind of thread bodies free-running under the race detector
  if (cd /verif/harness && go build -race -tags verif -o /verif/bin/racepass ./cmd/racepass) 2>/dev/null; then
    /verif/bin/racepass 20 2>&1 | tail -3 | sed 's/^/SUPPLEMENTARY (race pass, not a verdict): /'
  fi
fi
exec /verif/bin/vh-c09 "$tier"
