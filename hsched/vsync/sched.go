package vsync

import (
	"fmt"
)

// The scheduler. Harness threads are goroutines gated by a baton: exactly one
// runs at a time. A thread reaching a synchronisation point parks and hands
// the baton to the scheduler, which picks the next enabled thread.

type thread struct {
	id      int
	resume  chan struct{}
	site    string      // pending operation
	can     func() bool // whether the pending operation can complete now
	done    bool
	started bool
	body    func()
	panicV  interface{}
}

// Point is one scheduling decision of an execution.
type Point struct {
	Enabled             []int    `json:"enabled"` // canonical order: running thread first if still enabled, then ascending ids
	Chosen              int      `json:"chosen"`  // index into Enabled
	Running             int      `json:"running"` // thread that ran before this point (-1 at start)
	RunningStillEnabled bool     `json:"running_still_enabled"`
	Sites               []string `json:"sites"` // pending site per enabled thread
}

// Exec is the record of one execution.
type Exec struct {
	Points   []Point
	Deadlock bool
	Blocked  []string // pending sites of blocked threads at a deadlock
	Panics   []string
}

type sched struct {
	threads []*thread
	cur     *thread
	events  chan *thread // a thread reached a point or finished
	prefix  []int
	exec    *Exec
}

var active *sched

// point is called by the lock operations. Without an active scheduler it
// returns immediately.
func point(site string, can func() bool) int {
	s := active
	if s == nil || s.cur == nil {
		return -1
	}
	t := s.cur
	t.site, t.can = site, can
	s.events <- t
	<-t.resume
	t.site, t.can = "", nil
	return t.id
}

// Run executes the thread bodies under the scheduler, replaying the choice
// prefix and then always taking choice 0 (continue the running thread if
// enabled, else the lowest id). A choice outside the enabled set aborts with
// an error (replay divergence).
func Run(bodies []func(), prefix []int) (*Exec, error) {
	s := &sched{events: make(chan *thread), prefix: prefix, exec: &Exec{}}
	for i, b := range bodies {
		s.threads = append(s.threads, &thread{id: i, resume: make(chan struct{}), body: b})
	}
	active = s
	defer func() { active = nil }()
	running := -1
	for {
		var enabled []int
		allDone := true
		for _, t := range s.threads {
			if t.done {
				continue
			}
			allDone = false
			if !t.started || t.can == nil || t.can() {
				enabled = append(enabled, t.id)
			}
		}
		if allDone {
			return s.exec, nil
		}
		if len(enabled) == 0 {
			s.exec.Deadlock = true
			for _, t := range s.threads {
				if !t.done {
					s.exec.Blocked = append(s.exec.Blocked, fmt.Sprintf("t%d@%s", t.id, t.site))
				}
			}
			return s.exec, nil
		}
		// canonical order: running thread first if still enabled
		still := false
		for i, id := range enabled {
			if id == running {
				still = true
				enabled[0], enabled[i] = enabled[i], enabled[0]
				// keep the rest ascending
				rest := enabled[1:]
				for a := 1; a < len(rest); a++ {
					for b := a; b > 0 && rest[b] < rest[b-1]; b-- {
						rest[b], rest[b-1] = rest[b-1], rest[b]
					}
				}
			}
		}
		choice := 0
		k := len(s.exec.Points)
		if k < len(prefix) {
			choice = prefix[k]
		}
		if choice >= len(enabled) {
			return s.exec, fmt.Errorf("replay divergence at point %d: choice %d of %d enabled", k, choice, len(enabled))
		}
		p := Point{Enabled: append([]int{}, enabled...), Chosen: choice, Running: running, RunningStillEnabled: still}
		for _, id := range enabled {
			p.Sites = append(p.Sites, s.threads[id].site)
		}
		s.exec.Points = append(s.exec.Points, p)
		t := s.threads[enabled[choice]]
		s.cur = t
		running = t.id
		if !t.started {
			t.started = true
			go func(t *thread) {
				defer func() {
					if r := recover(); r != nil {
						t.panicV = r
					}
					t.done = true
					s.events <- t
				}()
				<-t.resume
				t.body()
			}(t)
		}
		t.resume <- struct{}{}
		ev := <-s.events
		if ev != t {
			return s.exec, fmt.Errorf("scheduler: event from thread %d while thread %d holds the baton", ev.id, t.id)
		}
		if t.done && t.panicV != nil {
			s.exec.Panics = append(s.exec.Panics, fmt.Sprintf("t%d: %v", t.id, t.panicV))
		}
		s.cur = nil
	}
}

// PreemptionsBefore counts the preemptions among the first i points.
func (x *Exec) PreemptionsBefore(i int) int {
	n := 0
	for k := 0; k < i && k < len(x.Points); k++ {
		p := x.Points[k]
		if p.RunningStillEnabled && p.Chosen != 0 {
			n++
		}
	}
	return n
}

// Choices returns the choice vector of the execution.
func (x *Exec) Choices() []int {
	c := make([]int, len(x.Points))
	for i, p := range x.Points {
		c[i] = p.Chosen
	}
	return c
}

// Explore runs the CHESS iteration for one preemption bound: every execution
// with at most bound preemptions. run must create a fresh world and call Run
// with the given prefix; check is called for every complete execution.
func Explore(bound int, run func(prefix []int) (*Exec, error), check func(x *Exec)) (execs int, err error) {
	return ExploreSharded(bound, run, check, nil)
}

// ExploreSharded is Explore where only the top-level subtrees (first deviation
// from the default schedule at point i with alternative alt) accepted by mine
// are explored; the default execution itself is always run (and checked only
// if mine(-1,0) is true). Used to split one scenario over worker processes.
func ExploreSharded(bound int, run func(prefix []int) (*Exec, error), check func(x *Exec), mine func(i, alt int) bool) (execs int, err error) {
	var rec func(prefix []int, parent *Exec) error
	rec = func(prefix []int, parent *Exec) error {
		x, err := run(prefix)
		if err != nil {
			return err
		}
		// divergence check against the parent on the shared prefix
		if parent != nil {
			for i := 0; i < len(prefix)-1 && i < len(parent.Points) && i < len(x.Points); i++ {
				a, b := parent.Points[i], x.Points[i]
				if fmt.Sprint(a.Enabled, a.Sites) != fmt.Sprint(b.Enabled, b.Sites) {
					return fmt.Errorf("replay divergence at point %d: %v %v vs %v %v", i, a.Enabled, a.Sites, b.Enabled, b.Sites)
				}
			}
		}
		if parent != nil || mine == nil || mine(-1, 0) {
			execs++
			check(x)
		}
		for i := len(prefix); i < len(x.Points); i++ {
			p := x.Points[i]
			cost := x.PreemptionsBefore(i)
			if p.RunningStillEnabled {
				cost++
			}
			if cost > bound {
				continue
			}
			for alt := 1; alt < len(p.Enabled); alt++ {
				if parent == nil && mine != nil && !mine(i, alt) {
					continue
				}
				np := append(append([]int{}, x.Choices()[:i]...), alt)
				if err := rec(np, x); err != nil {
					return err
				}
			}
		}
		return nil
	}
	err = rec(nil, nil)
	return execs, err
}
