// Package vsync is a drop-in replacement for the parts of package sync that
// btcwallet (wallet, waddrmgr) and bbolt use. Mutex and RWMutex keep their
// state here and call the scheduler before every acquisition, so that the
// harness decides which thread runs at every synchronisation point. Without an
// active scheduler (set-up code) they behave as plain single-threaded locks.
package vsync

import (
	"fmt"
	gosync "sync"
)

// Types that are never held across a scheduling point are the real ones.
type (
	WaitGroup = gosync.WaitGroup
	Once      = gosync.Once
	Pool      = gosync.Pool
	Map       = gosync.Map
	Locker    = gosync.Locker
	Cond      = gosync.Cond
)

// NewCond mirrors sync.NewCond.
func NewCond(l Locker) *Cond { return gosync.NewCond(l) }

var lockSeq int

func nextName(kind string) string {
	lockSeq++
	return fmt.Sprintf("%s#%d", kind, lockSeq)
}

// ResetNames restarts lock numbering (called at the start of each execution so
// that lock names are reproducible).
func ResetNames() { lockSeq = 0 }

// Mutex replaces sync.Mutex.
type Mutex struct {
	name   string
	held   bool
	holder int
}

func (m *Mutex) id() string {
	if m.name == "" {
		m.name = nextName("M")
	}
	return m.name
}

// Lock acquires the mutex (scheduling point).
func (m *Mutex) Lock() {
	t := point(m.id()+".Lock", func() bool { return !m.held })
	if m.held {
		panic("vsync: Mutex.Lock on a held mutex without scheduler (self-deadlock in set-up code): " + m.id())
	}
	m.held, m.holder = true, t
}

// TryLock mirrors sync.Mutex.TryLock.
func (m *Mutex) TryLock() bool {
	t := point(m.id()+".TryLock", func() bool { return true })
	if m.held {
		return false
	}
	m.held, m.holder = true, t
	return true
}

// Unlock releases the mutex.
func (m *Mutex) Unlock() {
	if !m.held {
		panic("vsync: unlock of unlocked mutex " + m.id())
	}
	m.held = false
}

// RWMutex replaces sync.RWMutex.
type RWMutex struct {
	name    string
	writer  bool
	readers int
}

func (m *RWMutex) id() string {
	if m.name == "" {
		m.name = nextName("RW")
	}
	return m.name
}

// Lock acquires the write lock (scheduling point).
func (m *RWMutex) Lock() {
	point(m.id()+".Lock", func() bool { return !m.writer && m.readers == 0 })
	if m.writer || m.readers != 0 {
		panic("vsync: RWMutex.Lock would block without scheduler: " + m.id())
	}
	m.writer = true
}

// Unlock releases the write lock.
func (m *RWMutex) Unlock() {
	if !m.writer {
		panic("vsync: unlock of unlocked RWMutex " + m.id())
	}
	m.writer = false
}

// RLock acquires a read lock (scheduling point).
func (m *RWMutex) RLock() {
	point(m.id()+".RLock", func() bool { return !m.writer })
	if m.writer {
		panic("vsync: RWMutex.RLock would block without scheduler: " + m.id())
	}
	m.readers++
}

// RUnlock releases a read lock.
func (m *RWMutex) RUnlock() {
	if m.readers <= 0 {
		panic("vsync: RUnlock of unlocked RWMutex " + m.id())
	}
	m.readers--
}

// TryLock mirrors sync.RWMutex.TryLock.
func (m *RWMutex) TryLock() bool {
	point(m.id()+".TryLock", func() bool { return true })
	if m.writer || m.readers != 0 {
		return false
	}
	m.writer = true
	return true
}

// TryRLock mirrors sync.RWMutex.TryRLock.
func (m *RWMutex) TryRLock() bool {
	point(m.id()+".TryRLock", func() bool { return true })
	if m.writer {
		return false
	}
	m.readers++
	return true
}

// RLocker mirrors sync.RWMutex.RLocker.
func (m *RWMutex) RLocker() Locker { return (*rlocker)(m) }

type rlocker RWMutex

func (r *rlocker) Lock()   { (*RWMutex)(r).RLock() }
func (r *rlocker) Unlock() { (*RWMutex)(r).RUnlock() }
