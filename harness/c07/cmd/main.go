// Development entry point for check C07.
package main

import (
	"os"

	"verif/harness/c07"
)

func main() { c07.Run(os.Args[1:]) }
