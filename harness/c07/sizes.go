package c07

// Independent size arithmetic, written from the Bitcoin serialization rules
// (BIP144 / BIP141) and the default mempool dust rule. Nothing here calls
// txsizes or txrules: it is the reference side of the oracle.

// inType is the script type of a coin offered to the author.
type inType int

const (
	inP2PKH inType = iota
	inNested
	inP2WPKH
	inP2TR
	numInTypes
)

var inNames = [...]string{"p2pkh", "np2wpkh", "p2wpkh", "p2tr"}

// compactSize is the length of the Bitcoin variable-length integer encoding n.
func compactSize(n int) int {
	switch {
	case n < 0xfd:
		return 1
	case n <= 0xffff:
		return 3
	case n <= 0xffffffff:
		return 5
	}
	return 9
}

// worstIn returns the worst-case signature-script length and witness item
// lengths (nil: input carries no witness) of a signed input of type t.
// ECDSA: 72-byte DER signature + 1 sighash byte, 33-byte compressed key.
// Taproot key spend: schnorrLen bytes (64 with the default sighash, 65 with an
// explicit sighash byte).
func worstIn(t inType, schnorrLen int) (sigScript int, witness []int) {
	switch t {
	case inP2PKH:
		// push(73) + push(33)
		return 1 + 73 + 1 + 33, nil
	case inNested:
		// push of the 22-byte witness program
		return 1 + 22, []int{73, 33}
	case inP2WPKH:
		return 0, []int{73, 33}
	case inP2TR:
		return 0, []int{schnorrLen}
	}
	panic("bad input type")
}

// txWeight computes the weight of a transaction from the lengths of its parts.
// witness[i] == nil means input i has an empty witness stack.
func txWeight(sigScripts []int, witness [][]int, nOut int, outBytes int) int {
	base := 4 + compactSize(len(sigScripts)) + compactSize(nOut) + outBytes + 4
	anyWit := false
	for i, ss := range sigScripts {
		base += 32 + 4 + compactSize(ss) + ss + 4
		if witness[i] != nil {
			anyWit = true
		}
	}
	wit := 0
	if anyWit {
		wit = 2 // marker + flag
		for i := range sigScripts {
			wit += compactSize(len(witness[i]))
			for _, l := range witness[i] {
				wit += compactSize(l) + l
			}
		}
	}
	return 4*base + wit
}

func vsizeOfWeight(w int) int { return (w + 3) / 4 }

// outBytes is the serialized size of one output with a script of n bytes.
func outBytes(scriptLen int) int { return 8 + compactSize(scriptLen) + scriptLen }

// worstVsize is the harness's own worst-case signed virtual size for the given
// inputs, nReq requested outputs of total serialized size reqBytes and, if
// changeScriptLen > 0, one more output with a script of that length.
func worstVsize(ins []inType, nReq, reqBytes, changeScriptLen, schnorrLen int) int {
	ss := make([]int, len(ins))
	wit := make([][]int, len(ins))
	for i, t := range ins {
		ss[i], wit[i] = worstIn(t, schnorrLen)
	}
	n, b := nReq, reqBytes
	if changeScriptLen > 0 {
		n++
		b += outBytes(changeScriptLen)
	}
	return vsizeOfWeight(txWeight(ss, wit, n, b))
}

// slackVsize is the allowance (in vbytes) for conventions of a worst-case
// estimator that are still "worst case": 1 WU per witness input for counting
// the witness items differently, 1 WU per taproot input for a 65-byte signature
// (explicit sighash byte), plus 3 WU of rounding; computed in weight units and
// rounded up.
func slackVsize(ins []inType) int {
	wu := 3
	for _, t := range ins {
		if t != inP2PKH {
			wu++
		}
		if t == inP2TR {
			wu++
		}
	}
	return (wu + 3) / 4
}

// marginalVsize is a lower bound of what one more input of type t adds to the
// virtual size (used only to give the non-boundary coins sensible amounts).
func marginalVsize(t inType) int {
	ss, wit := worstIn(t, 64)
	w := 4 * (32 + 4 + compactSize(ss) + ss + 4)
	if wit != nil {
		w += compactSize(len(wit))
		for _, l := range wit {
			w += compactSize(l) + l
		}
	}
	return w / 4
}

// refFee is "the rate applied to a size": sat/kvB times vbytes, whole satoshis.
func refFee(rate int64, vsize int) int64 { return rate * int64(vsize) / 1000 }

// refDust is the smallest non-dust value of an output with the given script at
// a relay fee of relay sat/kvB: an output is dust when paying for it and for
// the input that later spends it (41 bytes + 107 bytes of signature data,
// witness-discounted for witness programs) at three times the relay fee costs
// more than its value.
func refDust(script []byte, relay int64) int64 {
	size := outBytes(len(script)) + 41
	if isWitnessProgram(script) {
		size += 107 / 4
	} else {
		size += 107
	}
	// dust <=> value*1000/(3*size) < relay
	v := 3 * int64(size) * relay / 1000
	for v*1000/(3*int64(size)) < relay {
		v++
	}
	for v > 0 && (v-1)*1000/(3*int64(size)) >= relay {
		v--
	}
	return v
}

func isWitnessProgram(s []byte) bool {
	if len(s) < 4 || len(s) > 42 {
		return false
	}
	if s[0] != 0x00 && (s[0] < 0x51 || s[0] > 0x60) {
		return false
	}
	return int(s[1]) == len(s)-2 && s[1] >= 2 && s[1] <= 40
}
