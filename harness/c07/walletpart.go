//go:build verif

package c07

import (
	"crypto/sha256"
	"fmt"
	"os"
	"path/filepath"
	"time"

	"github.com/btcsuite/btcd/blockchain"
	"github.com/btcsuite/btcd/btcec/v2"
	"github.com/btcsuite/btcd/btcutil"
	"github.com/btcsuite/btcd/btcutil/hdkeychain"
	"github.com/btcsuite/btcd/txscript"
	"github.com/btcsuite/btcd/wire"
	"github.com/btcsuite/btcwallet/snacl"
	"github.com/btcsuite/btcwallet/waddrmgr"
	rwallet "github.com/btcsuite/btcwallet/wallet"
	"github.com/btcsuite/btcwallet/wallet/txrules"
	"github.com/btcsuite/btcwallet/walletdb"
	_ "github.com/btcsuite/btcwallet/walletdb/bdb"
	"github.com/btcsuite/btcwallet/wtxmgr"

	"verif/harness/ev"
	"verif/harness/wsim"
)

// Wallet-level part of C07. The enumeration above drives txauthor with change
// sources of the harness; in the wallet the change source (script size used
// for the estimate, script actually produced) comes from
// wallet.addrMgrWithChangeSource and depends on the change key scope and on
// the address schema of the ACCOUNT (imported accounts override the scope's
// schema). Here the real wallet authors (txToOutputs, the body of
// CreateSimpleTx) for every
//   - default account 0 of each default scope x change scope of each default
//     scope (signed by the wallet), and
//   - account imported from an extended public key into each default scope x
//     each address schema override (none, nested/nested, nested/p2wkh,
//     p2wkh/p2wkh, p2tr/p2tr, p2pkh/p2pkh), watch-only, signed by the harness
//     with the keys it derived itself,
// x fee rate x 1|2 coins; oracle: inputs = outputs + fee, the change output
// pays a script of the account's internal address type, the change is not
// dust, and fee >= rate applied to the REAL signed virtual size.

type wpStats struct {
	cases, evals, signedByWallet, signedByHarness, skipped int
	samples                                               []string
}

type schemaCase struct {
	name string
	sch  *waddrmgr.ScopeAddrSchema
}

func scriptClassOf(t waddrmgr.AddressType) txscript.ScriptClass {
	switch t {
	case waddrmgr.PubKeyHash:
		return txscript.PubKeyHashTy
	case waddrmgr.NestedWitnessPubKey:
		return txscript.ScriptHashTy
	case waddrmgr.WitnessPubKey:
		return txscript.WitnessV0PubKeyHashTy
	case waddrmgr.TaprootPubKey:
		return txscript.WitnessV1TaprootTy
	}
	return txscript.NonStandardTy
}

func walletPart(run *ev.Run) wpStats {
	var st wpStats
	params := wsim.Params
	waddrmgr.SetSecretKeyGen(func(p *[]byte, _ *waddrmgr.ScryptOptions) (*snacl.SecretKey, error) {
		return snacl.NewSecretKey(p, 16, 8, 1)
	})
	pub, priv := []byte("public"), []byte("c07-private")
	path := filepath.Join(ev.Scratch(), "c07-wallet.db")
	os.Remove(path)
	db, err := walletdb.Create("bdb", path, true, time.Minute, false)
	must(err)
	defer func() { db.Close(); os.Remove(path) }()
	seed := sha256.Sum256([]byte("c07-wallet-seed"))
	root, err := hdkeychain.NewMaster(seed[:], params)
	must(err)
	must(rwallet.Create(db, pub, priv, root, params, params.GenesisBlock.Header.Timestamp.Add(49*time.Hour)))
	w, err := rwallet.OpenWithRetry(db, pub, nil, params, 0, time.Second)
	must(err)
	chain := wsim.NewChain()
	b1 := chain.NewBlock(chain.Tip, "a", nil)
	chain.Tip = b1
	w.VerifSetChainClient(wsim.NewBackend(chain))
	must(walletdb.View(db, func(tx walletdb.ReadTx) error {
		return w.Manager.Unlock(tx.ReadBucket([]byte("waddrmgr")), priv)
	}))
	meta := b1.Meta()

	// the harness' own keys for imported accounts
	sec := &secrets{keys: map[string]*btcec.PrivateKey{}, scripts: map[string][]byte{}, params: params}
	known := func(k *hdkeychain.ExtendedKey) {
		pk, err := k.ECPrivKey()
		must(err)
		pubc := pk.PubKey().SerializeCompressed()
		h := btcutil.Hash160(pubc)
		a1, _ := btcutil.NewAddressPubKeyHash(h, params)
		a2, _ := btcutil.NewAddressWitnessPubKeyHash(h, params)
		ws, _ := txscript.PayToAddrScript(a2)
		a3, _ := btcutil.NewAddressScriptHash(ws, params)
		a4, _ := btcutil.NewAddressTaproot(txscriptSchnorr(pk.PubKey()), params)
		for _, a := range []btcutil.Address{a1, a2, a3, a4} {
			sec.keys[a.EncodeAddress()] = pk
		}
		sec.scripts[a3.EncodeAddress()] = ws
	}

	type account struct {
		desc      string
		scope     waddrmgr.KeyScope
		change    waddrmgr.KeyScope
		num       uint32
		internal  waddrmgr.AddressType
		watchOnly bool
		coins     []wire.OutPoint
		values    map[wire.OutPoint]int64
		pkScripts map[wire.OutPoint][]byte
	}
	var accts []*account
	fundN := 0
	fund := func(a *account, n int) {
		for i := 0; i < n; i++ {
			addr, err := w.NewAddress(a.num, a.scope)
			if err != nil {
				ev.Fatal("c07 wallet part: address for %s: %v", a.desc, err)
			}
			fundN++
			val := int64(600_000 + 1000*fundN)
			tx := wsim.FundingTx(fmt.Sprintf("c07w-%d", fundN), addr, val)
			rec, _ := wtxmgr.NewTxRecordFromMsgTx(tx, meta.Time)
			must(w.VerifAddRelevantTx(rec, &meta))
			op := wire.OutPoint{Hash: tx.TxHash(), Index: 0}
			a.coins = append(a.coins, op)
			a.values[op] = val
			a.pkScripts[op] = tx.TxOut[0].PkScript
		}
	}
	newAcct := func(desc string, scope, change waddrmgr.KeyScope, num uint32, internal waddrmgr.AddressType, wo bool) *account {
		a := &account{desc: desc, scope: scope, change: change, num: num, internal: internal, watchOnly: wo,
			values: map[wire.OutPoint]int64{}, pkScripts: map[wire.OutPoint][]byte{}}
		accts = append(accts, a)
		return a
	}
	scopes := []waddrmgr.KeyScope{waddrmgr.KeyScopeBIP0044, waddrmgr.KeyScopeBIP0049Plus, waddrmgr.KeyScopeBIP0084, waddrmgr.KeyScopeBIP0086}
	// default accounts: coins of scope s (funded once per scope), change in scope c
	base := map[waddrmgr.KeyScope]*account{}
	for _, s := range scopes {
		a := newAcct(fmt.Sprintf("default account 0, coins of scope %v", s), s, s, 0, waddrmgr.ScopeAddrMap[s].InternalAddrType, false)
		fund(a, 2)
		base[s] = a
		accts = accts[:len(accts)-1]
	}
	for _, s := range scopes {
		for _, c := range scopes {
			a := *base[s]
			a.change = c
			a.internal = waddrmgr.ScopeAddrMap[c].InternalAddrType
			a.desc = fmt.Sprintf("default account 0, coins of scope %v, change scope %v", s, c)
			accts = append(accts, &a)
		}
	}
	// imported accounts
	schemas := []schemaCase{
		{"scope default", nil},
		{"nested/nested", &waddrmgr.ScopeAddrSchema{ExternalAddrType: waddrmgr.NestedWitnessPubKey, InternalAddrType: waddrmgr.NestedWitnessPubKey}},
		{"nested/p2wkh", &waddrmgr.ScopeAddrSchema{ExternalAddrType: waddrmgr.NestedWitnessPubKey, InternalAddrType: waddrmgr.WitnessPubKey}},
		{"p2wkh/p2wkh", &waddrmgr.ScopeAddrSchema{ExternalAddrType: waddrmgr.WitnessPubKey, InternalAddrType: waddrmgr.WitnessPubKey}},
		{"p2tr/p2tr", &waddrmgr.ScopeAddrSchema{ExternalAddrType: waddrmgr.TaprootPubKey, InternalAddrType: waddrmgr.TaprootPubKey}},
		{"p2pkh/p2pkh", &waddrmgr.ScopeAddrSchema{ExternalAddrType: waddrmgr.PubKeyHash, InternalAddrType: waddrmgr.PubKeyHash}},
	}
	impN := 0
	for _, s := range scopes {
		for _, sc := range schemas {
			impN++
			iseed := sha256.Sum256([]byte(fmt.Sprintf("c07-imported-%d", impN)))
			iroot, err := hdkeychain.NewMaster(iseed[:], params)
			must(err)
			acctKey := iroot
			for _, ch := range []uint32{s.Purpose + hdkeychain.HardenedKeyStart, s.Coin + hdkeychain.HardenedKeyStart, hdkeychain.HardenedKeyStart + 7} {
				acctKey, err = acctKey.Derive(ch)
				must(err)
			}
			xpub, err := acctKey.Neuter()
			must(err)
			name := fmt.Sprintf("imp-%d", impN)
			var props *waddrmgr.AccountProperties
			if sc.sch == nil {
				props, err = w.ImportAccountWithScope(name, xpub, 0x1234, s, waddrmgr.ScopeAddrMap[s])
			} else {
				props, err = w.ImportAccountWithScope(name, xpub, 0x1234, s, *sc.sch)
			}
			if err != nil {
				// (a combination the wallet refuses is not a case)
				st.skipped++
				continue
			}
			internal := waddrmgr.ScopeAddrMap[s].InternalAddrType
			if sc.sch != nil {
				internal = sc.sch.InternalAddrType
			}
			// keys of both branches, first indices
			for br := uint32(0); br <= 1; br++ {
				bk, err := acctKey.Derive(br)
				must(err)
				for i := uint32(0); i < 40; i++ {
					ck, err := bk.Derive(i)
					if err != nil {
						continue
					}
					known(ck)
				}
			}
			a := newAcct(fmt.Sprintf("account imported from an xpub into scope %v, schema %s", s, sc.name), s, s, props.AccountNumber, internal, true)
			fund(a, 2)
		}
	}
	must(w.VerifConnectBlock(meta))

	rates := []int64{1000, 2500, 10000}
	dest := reqScript(2, 0)
	for _, a := range accts {
		for _, rate := range rates {
			for ncoins := 1; ncoins <= 2; ncoins++ {
				st.cases++
				var total int64
				sel := a.coins[:ncoins]
				for _, op := range sel {
					total += a.values[op]
				}
				amt := total - 300_000 // leaves a change far above dust
				outs := []*wire.TxOut{wire.NewTxOut(amt, append([]byte{}, dest...))}
				scope, change := a.scope, a.change
				where := fmt.Sprintf("%s, %d coin(s) %v, pay %d, rate %d sat/kvB", a.desc, ncoins, sel, amt, rate)
				replay := map[string]interface{}{"kind": "c07-wallet", "case": where}
				at, err := w.VerifTxToOutputs(outs, &scope, &change, a.num, 1, btcutil.Amount(rate), rwallet.CoinSelectionLargest, false, append([]wire.OutPoint{}, sel...))
				st.evals++
				if err != nil {
					run.Violation("wallet:author-failed", fmt.Sprintf("%s: txToOutputs failed although the selected coins cover the payment and any fee: %v", where, err), replay)
					continue
				}
				tx := at.Tx
				var sumIn, sumOut int64
				okIns := len(tx.TxIn) == ncoins
				for _, in := range tx.TxIn {
					v, ok := a.values[in.PreviousOutPoint]
					okIns = okIns && ok
					sumIn += v
				}
				for _, o := range tx.TxOut {
					sumOut += o.Value
				}
				fee := sumIn - sumOut
				st.evals++
				if !okIns || int64(at.TotalInput) != sumIn || fee < 0 {
					run.Violation("wallet:conservation", fmt.Sprintf("%s: inputs %d (reported %d), outputs %d, fee %d, selected inputs as requested: %v", where, sumIn, at.TotalInput, sumOut, fee, okIns), replay)
					continue
				}
				st.evals++
				if at.ChangeIndex < 0 || at.ChangeIndex >= len(tx.TxOut) {
					run.Violation("wallet:no-change", fmt.Sprintf("%s: no change output although %d sat are left over", where, total-amt), replay)
					continue
				}
				chg := tx.TxOut[at.ChangeIndex]
				st.evals++
				if got, want := txscript.GetScriptClass(chg.PkScript), scriptClassOf(a.internal); got != want {
					run.Violation("wallet:change-script-type", fmt.Sprintf("%s: change output pays a %v script, the internal address type of the change account is %v", where, got, want), replay)
				}
				st.evals++
				if txrules.IsDustOutput(chg, txrules.DefaultRelayFeePerKb) || chg.Value <= 0 {
					run.Violation("wallet:change-dust", fmt.Sprintf("%s: change of %d sat", where, chg.Value), replay)
				}
				// sign what the wallet did not sign
				if a.watchOnly {
					at.PrevScripts = nil
					at.PrevInputValues = nil
					for _, in := range tx.TxIn {
						at.PrevScripts = append(at.PrevScripts, a.pkScripts[in.PreviousOutPoint])
						at.PrevInputValues = append(at.PrevInputValues, btcutil.Amount(a.values[in.PreviousOutPoint]))
					}
					if err := at.AddAllInputScripts(sec); err != nil {
						ev.Fatal("c07 wallet part: signing %s: %v", where, err)
					}
					st.signedByHarness++
				} else {
					st.signedByWallet++
				}
				// every input verifies
				fetcher := txscript.NewMultiPrevOutFetcher(nil)
				for _, in := range tx.TxIn {
					fetcher.AddPrevOut(in.PreviousOutPoint, wire.NewTxOut(a.values[in.PreviousOutPoint], a.pkScripts[in.PreviousOutPoint]))
				}
				sh := txscript.NewTxSigHashes(tx, fetcher)
				valid := true
				for i, in := range tx.TxIn {
					vm, err := txscript.NewEngine(a.pkScripts[in.PreviousOutPoint], tx, i, txscript.StandardVerifyFlags, nil, sh, a.values[in.PreviousOutPoint], fetcher)
					if err == nil {
						err = vm.Execute()
					}
					st.evals++
					if err != nil {
						valid = false
						run.Violation("wallet:signature-invalid", fmt.Sprintf("%s: input %d does not verify: %v", where, i, err), replay)
					}
				}
				if !valid {
					continue
				}
				vsize := (blockchain.GetTransactionWeight(btcutil.NewTx(tx)) + 3) / 4
				need := int64(txrules.FeeForSerializeSize(btcutil.Amount(rate), int(vsize)))
				st.evals++
				if fee < need {
					run.Violation("wallet:fee-below-rate", fmt.Sprintf("%s: signed transaction has %d vB, the rate asks for %d sat, the fee is %d sat (change script %d bytes)", where, vsize, need, fee, len(chg.PkScript)), replay)
				}
				if len(st.samples) < 3 && st.cases%37 == 5 {
					st.samples = append(st.samples, fmt.Sprintf("%s -> %d vB, fee %d >= %d, change %v", where, vsize, fee, need, txscript.GetScriptClass(chg.PkScript)))
				}
			}
		}
	}
	return st
}

func txscriptSchnorr(pk *btcec.PublicKey) []byte {
	return txscript.ComputeTaprootKeyNoScript(pk).SerializeCompressed()[1:]
}
