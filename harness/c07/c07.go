//go:build verif

// Package c07 checks property C07: authored transactions conserve value and pay
// at least the requested fee rate.
//
// Bounded exhaustive enumeration on the real txauthor.NewUnsignedTransaction
// with real signing (AuthoredTx.AddAllInputScripts) and script verification.
package c07

import (
	"bytes"
	"crypto/sha256"
	"errors"
	"fmt"
	"sort"
	"strings"
	"sync"
	"sync/atomic"

	"github.com/btcsuite/btcd/blockchain"
	"github.com/btcsuite/btcd/btcec/v2"
	"github.com/btcsuite/btcd/btcec/v2/schnorr"
	"github.com/btcsuite/btcd/btcutil"
	"github.com/btcsuite/btcd/chaincfg"
	"github.com/btcsuite/btcd/chaincfg/chainhash"
	"github.com/btcsuite/btcd/txscript"
	"github.com/btcsuite/btcd/wire"
	rwallet "github.com/btcsuite/btcwallet/wallet"
	"github.com/btcsuite/btcwallet/wallet/txauthor"
	"github.com/btcsuite/btcwallet/wallet/txrules"
	"github.com/btcsuite/btcwallet/wallet/txsizes"

	"verif/harness/ev"
)

const (
	workers   = 16
	outAmount = 100000 // value of every requested output
	laterCoin = 200000 // value of coins behind the boundary prefix
)

var deltas = []int64{-2, -1, 0, 1, 2}

// Grid modes. X is what the first k coins total beyond sum(outputs):
//
//	full: X in {fee without change, fee with change, fee with change + dust} + delta, every delta
//	spec: X in {fee without change, fee with change + dust} + delta, every delta
//	lean: X in {fee without change, fee with change + dust - 1, fee with change + dust}
const (
	gridFull = iota
	gridSpec
	gridLean
)

// ---------------------------------------------------------------- keys

type secrets struct {
	keys    map[string]*btcec.PrivateKey
	scripts map[string][]byte
	params  *chaincfg.Params
}

func (s *secrets) GetKey(a btcutil.Address) (*btcec.PrivateKey, bool, error) {
	k, ok := s.keys[a.EncodeAddress()]
	if !ok {
		return nil, false, fmt.Errorf("no key for %s", a.EncodeAddress())
	}
	return k, true, nil
}

func (s *secrets) GetScript(a btcutil.Address) ([]byte, error) {
	sc, ok := s.scripts[a.EncodeAddress()]
	if !ok {
		return nil, fmt.Errorf("no script for %s", a.EncodeAddress())
	}
	return sc, nil
}

func (s *secrets) ChainParams() *chaincfg.Params { return s.params }

type wallet struct {
	pk  [numInTypes][]byte // previous output script per coin type
	sec *secrets
}

func must(err error) {
	if err != nil {
		ev.Fatal("setup: %v", err)
	}
}

func newWallet() *wallet {
	params := &chaincfg.MainNetParams
	w := &wallet{sec: &secrets{keys: map[string]*btcec.PrivateKey{}, scripts: map[string][]byte{}, params: params}}
	for t := inType(0); t < numInTypes; t++ {
		seed := sha256.Sum256([]byte("c07-key-" + inNames[t]))
		priv, pub := btcec.PrivKeyFromBytes(seed[:])
		h160 := btcutil.Hash160(pub.SerializeCompressed())
		var addr btcutil.Address
		var err error
		switch t {
		case inP2PKH:
			addr, err = btcutil.NewAddressPubKeyHash(h160, params)
		case inP2WPKH:
			addr, err = btcutil.NewAddressWitnessPubKeyHash(h160, params)
		case inNested:
			var wa btcutil.Address
			wa, err = btcutil.NewAddressWitnessPubKeyHash(h160, params)
			must(err)
			var prog []byte
			prog, err = txscript.PayToAddrScript(wa)
			must(err)
			addr, err = btcutil.NewAddressScriptHash(prog, params)
			must(err)
			w.sec.scripts[addr.EncodeAddress()] = prog
		case inP2TR:
			tk := txscript.ComputeTaprootKeyNoScript(pub)
			addr, err = btcutil.NewAddressTaproot(schnorr.SerializePubKey(tk), params)
		}
		must(err)
		sc, err := txscript.PayToAddrScript(addr)
		must(err)
		w.pk[t] = sc
		w.sec.keys[addr.EncodeAddress()] = priv
	}
	want := [numInTypes]txscript.ScriptClass{txscript.PubKeyHashTy, txscript.ScriptHashTy, txscript.WitnessV0PubKeyHashTy, txscript.WitnessV1TaprootTy}
	for t := range w.pk {
		if c := txscript.GetScriptClass(w.pk[t]); c != want[t] {
			ev.Fatal("coin script %s has class %v", inNames[t], c)
		}
	}
	return w
}

// ---------------------------------------------------------------- requested outputs

var outTypeNames = []string{"p2pkh", "p2sh", "p2wpkh", "p2wsh", "p2tr"}

func reqScript(typ, idx int) []byte {
	h := sha256.Sum256([]byte(fmt.Sprintf("c07-out-%d-%d", typ, idx)))
	switch typ {
	case 0:
		return append(append([]byte{0x76, 0xa9, 0x14}, h[:20]...), 0x88, 0xac)
	case 1:
		return append(append([]byte{0xa9, 0x14}, h[:20]...), 0x87)
	case 2:
		return append([]byte{0x00, 0x14}, h[:20]...)
	case 3:
		return append([]byte{0x00, 0x20}, h[:]...)
	case 4:
		return append([]byte{0x51, 0x20}, h[:]...)
	}
	panic("bad output type")
}

type outCfg struct {
	n       int
	typ     int
	values  []int64
	scripts [][]byte
	sum     int64
	bytes   int // own serialized size of all requested outputs
	class   string
}

func (o *outCfg) String() string {
	if o.n == 0 {
		return "0 outputs"
	}
	return fmt.Sprintf("%d x %s output of %d sat", o.n, outTypeNames[o.typ], outAmount)
}

func newOutCfg(n, typ int) *outCfg {
	o := &outCfg{n: n, typ: typ}
	for i := 0; i < n; i++ {
		s := reqScript(typ, i)
		o.values = append(o.values, outAmount)
		o.scripts = append(o.scripts, s)
		o.sum += outAmount
		o.bytes += outBytes(len(s))
	}
	switch {
	case n < 252:
		o.class = "lt252"
	case n == 252:
		o.class = "eq252"
	default:
		o.class = "gt252"
	}
	return o
}

func (o *outCfg) build() []*wire.TxOut {
	outs := make([]*wire.TxOut, o.n)
	for i := range outs {
		outs[i] = wire.NewTxOut(o.values[i], append([]byte(nil), o.scripts[i]...))
	}
	return outs
}

// ---------------------------------------------------------------- input source

type coin struct {
	typ inType
	val int64
}

// newSource is the wallet's own input source of automatic coin selection
// (wallet.makeInputSource through the build-tagged hook), over the coins in
// the fixed order of the sequence; the targets it is asked for are recorded.
func newSource(w *wallet, coins []coin, calls *[]int64) txauthor.InputSource {
	el := make([]rwallet.Coin, len(coins))
	for i, c := range coins {
		el[i] = rwallet.Coin{
			TxOut:    wire.TxOut{Value: c.val, PkScript: w.pk[c.typ]},
			OutPoint: coinOutPoint(i),
		}
	}
	src := rwallet.VerifMakeInputSource(el)
	return func(target btcutil.Amount) (btcutil.Amount, []*wire.TxIn, []btcutil.Amount, [][]byte, error) {
		*calls = append(*calls, int64(target))
		if len(*calls) > len(coins)+2 {
			// every new request follows a fee increase, which needs a new input: more
			// requests than coins means author and source no longer settle
			return 0, nil, nil, nil, fmt.Errorf("the author asked the input source %d times for %d coins (targets %v): the selection does not settle", len(*calls), len(coins), *calls)
		}
		return src(target)
	}
}

var coinHashes [8]chainhash.Hash

func init() {
	for i := range coinHashes {
		coinHashes[i] = chainhash.Hash(sha256.Sum256([]byte(fmt.Sprintf("c07-coin-%d", i))))
	}
}

func coinOutPoint(i int) wire.OutPoint { return wire.OutPoint{Hash: coinHashes[i], Index: uint32(i)} }

// ---------------------------------------------------------------- enumeration

type unit struct {
	oc   *outCfg
	rate int64
	seq  []inType
	k    int // boundary prefix length
	chg  inType
	mode int // gridFull, gridSpec or gridLean (see Run)
}

type classStats struct {
	Evaluations, Successes, Insufficient, WithChange, NoChange, SignedVerified, InputsSigned int
}

type gkey struct{ clause, change, class string }

type agg struct {
	count   int
	order   [2]int
	msg     string
	replay  interface{}
	andMask int
}

type worker struct {
	w          *wallet
	stats      map[string]*classStats
	viol       map[gkey]*agg
	nontrivial int

	estimateChecks int
	belowCount     int
	belowOrder     [2]int
	belowExample   string
	flips          int
	multiCoin      int
	skipped        int
	maxInputs      int
	samples        map[int]string
	outcomes       map[string]int
}

func typeMask(ts []inType) int {
	m := 0
	for _, t := range ts {
		m |= 1 << uint(t)
	}
	return m
}

func maskNames(m int) string {
	var s []string
	for t := inType(0); t < numInTypes; t++ {
		if m&(1<<uint(t)) != 0 {
			s = append(s, inNames[t])
		}
	}
	return strings.Join(s, "+")
}

func seqNames(ts []inType) string {
	var s []string
	for _, t := range ts {
		s = append(s, inNames[t])
	}
	return strings.Join(s, ",")
}

func (wk *worker) violate(k gkey, order [2]int, mask int, msg func() (string, interface{})) {
	a := wk.viol[k]
	if a == nil {
		a = &agg{order: order, andMask: mask}
		a.msg, a.replay = msg()
		wk.viol[k] = a
	} else if order[0] < a.order[0] || order[0] == a.order[0] && order[1] < a.order[1] {
		a.order = order
		a.msg, a.replay = msg()
	}
	a.count++
	a.andMask &= mask
}

// checkEstimate compares txsizes.EstimateVirtualSize with the harness's own
// worst-case signed size for the same inputs and outputs.
func (wk *worker) checkEstimate(ui int, u *unit, ins []inType, outs []*wire.TxOut, changeLen int) {
	oc := u.oc
	wk.estimateChecks++
	est := txsizesEstimate(ins, outs, changeLen)
	own := worstVsize(ins, oc.n, oc.bytes, changeLen, 64)
	slack := slackVsize(ins)
	if est >= own && est <= own+slack {
		return
	}
	change := "no"
	chgName := "no change output"
	if changeLen > 0 {
		change = "yes"
		chgName = fmt.Sprintf("%s change output (%d-byte script)", inNames[u.chg], changeLen)
	}
	order := [2]int{ui, -len(ins)}
	if est < own {
		// (h) informational only: the property bounds the fee by the real
		// signed size (clause c), not the estimator by a hypothetical
		// 73-byte-signature worst case.
		wk.belowCount++
		if wk.belowExample == "" || order[0] < wk.belowOrder[0] || order[0] == wk.belowOrder[0] && order[1] < wk.belowOrder[1] {
			wk.belowOrder = order
			wk.belowExample = fmt.Sprintf("inputs %s, %s, %s: txsizes.EstimateVirtualSize = %d vB, harness worst case (72-byte DER + sighash byte and 33-byte key for ECDSA inputs, 64-byte taproot signature) = %d vB",
				seqNames(ins), oc, chgName, est, own)
		}
		return
	}
	clause := "estimate:above-true-worst-case"
	wk.violate(gkey{clause, change, oc.class}, order, typeMask(ins), func() (string, interface{}) {
		ss := make([]int, len(ins))
		wit := make([][]int, len(ins))
		for i, t := range ins {
			ss[i], wit[i] = worstIn(t, 64)
		}
		nOut, ob := oc.n, oc.bytes
		if changeLen > 0 {
			nOut++
			ob += outBytes(changeLen)
		}
		weight := txWeight(ss, wit, nOut, ob)
		d := map[string]interface{}{
			"inputs": seqNames(ins), "requested_outputs": oc.String(), "change": chgName,
			"txsizes_estimate_vB": est, "own_worst_case_vB": own, "own_worst_case_weight": weight,
			"allowed_slack_vB": slack, "own_worst_sigscript_lengths": ss, "own_worst_witness_item_lengths": wit,
		}
		return fmt.Sprintf("inputs %s, %s, %s: txsizes.EstimateVirtualSize = %d vB; harness worst case (72-byte DER + sighash byte and 33-byte key for ECDSA inputs, 64-byte taproot signature; sigScript lengths %v, witness item lengths %v) has weight %d = %d vB; allowed range [%d, %d+%d]",
			seqNames(ins), oc, chgName, est, ss, wit, weight, own, own, own, slack), d
	})
}

// txsizesEstimate is the wallet's worst-case size estimate for the inputs,
// requested outputs and (changeLen > 0) a change output.
func txsizesEstimate(ins []inType, outs []*wire.TxOut, changeLen int) int {
	var c [numInTypes]int
	for _, t := range ins {
		c[t]++
	}
	return txsizes.EstimateVirtualSize(c[inP2PKH], c[inP2TR], c[inP2WPKH], c[inNested], outs, changeLen)
}

func hasType(ts []inType, t inType) bool {
	for _, x := range ts {
		if x == t {
			return true
		}
	}
	return false
}

func (wk *worker) do(ui int, u *unit) {
	w := wk.w
	oc := u.oc
	chgScript := w.pk[u.chg]
	chgLen := len(chgScript)
	dust := refDust(chgScript, 1000)
	prefix := u.seq[:u.k]

	// (g)/(h): the wallet's size estimate against the harness's own worst
	// case, for every prefix of the sequence, with and without change.
	if u.k == 1 {
		estOuts := oc.build()
		for k := 1; k <= len(u.seq); k++ {
			for _, cl := range []int{chgLen, 0} {
				wk.checkEstimate(ui, u, u.seq[:k], estOuts, cl)
			}
		}
	}

	// Boundary grid from the harness's own size arithmetic.
	tset := map[int64]bool{}
	schnorrs := []int{64}
	if hasType(prefix, inP2TR) && u.mode != gridLean {
		schnorrs = append(schnorrs, 65)
	}
	for _, sl := range schnorrs {
		nc := refFee(u.rate, worstVsize(prefix, oc.n, oc.bytes, 0, sl))
		wc := refFee(u.rate, worstVsize(prefix, oc.n, oc.bytes, chgLen, sl))
		if u.mode == gridLean {
			tset[oc.sum+nc] = true
			tset[oc.sum+wc+dust-1] = true
			tset[oc.sum+wc+dust] = true
			continue
		}
		if sl == 64 {
			// exactly what the insufficient-funds clause counts as covered
			tset[oc.sum+refFee(u.rate, worstVsize(prefix, oc.n, oc.bytes, chgLen, 64)+slackVsize(prefix))] = true
		}
		for _, d := range deltas {
			tset[oc.sum+nc+d] = true      // just covers a transaction without change
			tset[oc.sum+wc+dust+d] = true // smallest non-dust change
			if u.mode == gridFull {
				tset[oc.sum+wc+d] = true // just covers a transaction with a (worthless) change output
			}
		}
	}
	ts := make([]int64, 0, len(tset))
	for t := range tset {
		ts = append(ts, t)
	}
	sort.Slice(ts, func(i, j int) bool { return ts[i] < ts[j] })

	coins := make([]coin, len(u.seq))
	var earlier int64
	for j, t := range u.seq {
		coins[j].typ = t
		switch {
		case j < u.k-1:
			coins[j].val = oc.sum/int64(u.k) + refFee(u.rate, marginalVsize(t))
			earlier += coins[j].val
		case j >= u.k:
			coins[j].val = laterCoin
		}
	}

	outs := oc.build()
	codes := make([]int, len(ts))
	sel := make([]int, len(ts))
	for ti, T := range ts {
		coins[u.k-1].val = T - earlier
		if coins[u.k-1].val <= 0 {
			wk.skipped++
			codes[ti] = -1
			continue
		}
		var altered bool
		codes[ti], sel[ti], altered = wk.eval([2]int{ui, ti}, u, coins, outs, chgScript, dust)
		if altered {
			outs = oc.build()
		}
	}
	for i := range ts {
		if codes[i] < 0 {
			continue
		}
		flip := i > 0 && codes[i-1] >= 0 && ts[i]-ts[i-1] == 1 && codes[i-1] != codes[i] ||
			i+1 < len(ts) && codes[i+1] >= 0 && ts[i+1]-ts[i] == 1 && codes[i+1] != codes[i]
		if i > 0 && codes[i-1] >= 0 && ts[i]-ts[i-1] == 1 && codes[i-1] != codes[i] {
			wk.flips++
		}
		if flip || sel[i] >= 2 {
			wk.nontrivial++
		}
		if sel[i] >= 2 {
			wk.multiCoin++
		}
	}
}

type caseDesc struct {
	Outputs        string                 `json:"requested_outputs"`
	NumOutputs     int                    `json:"num_requested_outputs"`
	OutputType     string                 `json:"requested_output_type"`
	OutputAmount   int64                  `json:"requested_output_amount_each"`
	Rate           int64                  `json:"fee_rate_sat_per_kvB"`
	CoinTypes      []string               `json:"offered_coin_types_in_order"`
	CoinAmounts    []int64                `json:"offered_coin_amounts_in_order"`
	ChangeType     string                 `json:"change_script_type"`
	ChangeScriptSz int                    `json:"change_script_size"`
	Detail         map[string]interface{} `json:"observed"`
}

func describe(u *unit, coins []coin, chgLen int) *caseDesc {
	d := &caseDesc{Outputs: u.oc.String(), NumOutputs: u.oc.n, OutputAmount: outAmount, Rate: u.rate,
		ChangeType: inNames[u.chg], ChangeScriptSz: chgLen, Detail: map[string]interface{}{}}
	if u.oc.n > 0 {
		d.OutputType = outTypeNames[u.oc.typ]
	}
	for _, c := range coins {
		d.CoinTypes = append(d.CoinTypes, inNames[c.typ])
		d.CoinAmounts = append(d.CoinAmounts, c.val)
	}
	return d
}

func coinsString(coins []coin) string {
	var s []string
	for _, c := range coins {
		s = append(s, fmt.Sprintf("%s:%d", inNames[c.typ], c.val))
	}
	return "[" + strings.Join(s, " ") + "]"
}

// eval runs one case. It returns an outcome code (0 insufficient funds,
// otherwise 2*inputs + 1 if change was added), the number of inputs selected
// and whether the caller's output slice was found altered.
func (wk *worker) eval(order [2]int, u *unit, coins []coin, outs []*wire.TxOut, chgScript []byte, dust int64) (int, int, bool) {
	w := wk.w
	oc := u.oc
	st := wk.stats[oc.class]
	st.Evaluations++
	chgLen := len(chgScript)
	types := make([]inType, len(coins))
	for i, c := range coins {
		types[i] = c.typ
	}
	head := func() string {
		return fmt.Sprintf("%s, rate %d sat/kvB, coins offered in order %s, %s change script (%d bytes)",
			oc, u.rate, coinsString(coins), inNames[u.chg], chgLen)
	}

	// the caller's slice has spare capacity (a slice built by append usually has): the
	// author must not use it
	outs = append(make([]*wire.TxOut, 0, len(outs)+2), outs...)
	var calls []int64
	src := newSource(w, coins, &calls)
	newScripts := 0
	cs := &txauthor.ChangeSource{
		NewScript:  func() ([]byte, error) { newScripts++; return append([]byte(nil), chgScript...), nil },
		ScriptSize: chgLen,
	}
	at, err := txauthor.NewUnsignedTransaction(outs, btcutil.Amount(u.rate), src, cs)

	// The caller's outputs must be untouched whatever happened.
	altered := len(outs) != oc.n
	for i := 0; !altered && i < oc.n; i++ {
		altered = outs[i] == nil || outs[i].Value != oc.values[i] || !bytes.Equal(outs[i].PkScript, oc.scripts[i])
	}
	if altered {
		wk.violate(gkey{"outputs:caller-slice-altered", "-", oc.class}, order, typeMask(types), func() (string, interface{}) {
			return head() + ": the requested output list passed in was modified by the call", describe(u, coins, chgLen)
		})
	}

	if err != nil {
		var ise txauthor.InputSourceError
		if !errors.As(err, &ise) {
			wk.outcomes["other-error"]++
			wk.violate(gkey{"failure:other-error", "-", oc.class}, order, typeMask(types), func() (string, interface{}) {
				return head() + ": failed with an error that is not an insufficient-funds error although neither source fails: " + err.Error(), describe(u, coins, chgLen)
			})
			return 0, 0, altered
		}
		st.Insufficient++
		wk.outcomes["insufficient-funds"]++
		// Insufficient funds is only right if no prefix of the offered
		// coins covers the outputs plus the required fee: the rate applied
		// to the worst-case size WITH a change output (own arithmetic) plus
		// the slack granted to a worst-case estimator's conventions.
		var run int64
		covered := 0
		var rows []string
		for k := 1; k <= len(coins); k++ {
			run += coins[k-1].val
			wcV := worstVsize(types[:k], oc.n, oc.bytes, chgLen, 64)
			slack := slackVsize(types[:k])
			need := oc.sum + refFee(u.rate, wcV+slack)
			if covered == 0 && run >= need {
				covered = k
			}
			rows = append(rows, fmt.Sprintf("first %d coin(s) total %d: own worst-case signed size with change %d vB + slack %d vB -> required %d+%d=%d; wallet estimate txsizes.EstimateVirtualSize %d vB -> %d",
				k, run, wcV, slack, oc.sum, refFee(u.rate, wcV+slack), need, txsizesEstimate(types[:k], outs, chgLen), oc.sum+refFee(u.rate, txsizesEstimate(types[:k], outs, chgLen))))
		}
		if covered > 0 {
			wk.violate(gkey{"insufficient:although-covered", "-", oc.class}, order, typeMask(types), func() (string, interface{}) {
				d := describe(u, coins, chgLen)
				d.Detail["result"] = err.Error()
				d.Detail["input_source_targets_requested"] = calls
				d.Detail["per_prefix"] = rows
				d.Detail["covering_prefix"] = covered
				return fmt.Sprintf("%s: reported \"%v\" although the first %d coin(s) cover the outputs plus the fee of the worst-case signed transaction with a change output (incl. estimator slack). %s. Input source was asked for targets %v",
					head(), err, covered, strings.Join(rows, "; "), calls), d
			})
		}
		wk.sample(order[0], 18, func() string {
			return fmt.Sprintf("%s -> %v (covering prefix: %d)", head(), err, covered)
		})
		return 0, 0, altered
	}

	// ---- success
	st.Successes++
	tx := at.Tx
	nsel := len(tx.TxIn)
	if nsel > wk.maxInputs {
		wk.maxInputs = nsel
	}
	selTypes := types
	if nsel <= len(types) {
		selTypes = types[:nsel]
	}
	mask := typeMask(selTypes)
	changeFlag := "no"
	if at.ChangeIndex >= 0 {
		changeFlag = "yes"
		st.WithChange++
	} else {
		st.NoChange++
	}
	code := 2 * nsel
	if at.ChangeIndex >= 0 {
		code++
	}
	wk.outcomes[fmt.Sprintf("%d-input(s),change=%s", nsel, changeFlag)]++

	// (f) selected inputs: a duplicate-free prefix of the offered sequence.
	okPrefix := nsel >= 1 && nsel <= len(coins) && len(at.PrevScripts) == nsel && len(at.PrevInputValues) == nsel
	var sumIn int64
	for i := 0; okPrefix && i < nsel; i++ {
		okPrefix = tx.TxIn[i].PreviousOutPoint == coinOutPoint(i) &&
			int64(at.PrevInputValues[i]) == coins[i].val && bytes.Equal(at.PrevScripts[i], w.pk[coins[i].typ])
		sumIn += coins[i].val
	}
	if !okPrefix {
		wk.violate(gkey{"inputs:not-a-prefix-of-offered-coins", changeFlag, oc.class}, order, mask, func() (string, interface{}) {
			var ops []string
			for _, in := range tx.TxIn {
				ops = append(ops, in.PreviousOutPoint.String())
			}
			return fmt.Sprintf("%s: selected inputs %v with values %v are not the first coins of the offered sequence, each once", head(), ops, at.PrevInputValues), describe(u, coins, chgLen)
		})
		return code, nsel, altered
	}

	// (a) requested outputs unchanged and in order, at most one change output.
	okOuts := at.ChangeIndex < 0 && len(tx.TxOut) == oc.n || at.ChangeIndex == oc.n && len(tx.TxOut) == oc.n+1
	for i := 0; okOuts && i < oc.n; i++ {
		okOuts = tx.TxOut[i].Value == oc.values[i] && bytes.Equal(tx.TxOut[i].PkScript, oc.scripts[i])
	}
	if okOuts && at.ChangeIndex >= 0 {
		okOuts = bytes.Equal(tx.TxOut[oc.n].PkScript, chgScript)
	}
	if !okOuts {
		wk.violate(gkey{"outputs:requested-outputs-changed", changeFlag, oc.class}, order, mask, func() (string, interface{}) {
			return fmt.Sprintf("%s: transaction has %d outputs (change index %d); the requested outputs do not appear unchanged in order followed by at most one change output paying the change script", head(), len(tx.TxOut), at.ChangeIndex), describe(u, coins, chgLen)
		})
		return code, nsel, altered
	}

	// (b) conservation.
	var sumOut int64
	for _, o := range tx.TxOut {
		sumOut += o.Value
	}
	fee := sumIn - sumOut
	var changeVal int64
	if at.ChangeIndex >= 0 {
		changeVal = tx.TxOut[at.ChangeIndex].Value
	}
	if int64(at.TotalInput) != sumIn || fee < 0 {
		wk.violate(gkey{"conservation:inputs!=outputs+fee", changeFlag, oc.class}, order, mask, func() (string, interface{}) {
			return fmt.Sprintf("%s: selected coins total %d, reported TotalInput %d, outputs incl. change total %d, fee %d", head(), sumIn, at.TotalInput, sumOut, fee), describe(u, coins, chgLen)
		})
	}

	// (e) change is never zero and never dust.
	if at.ChangeIndex >= 0 {
		co := tx.TxOut[at.ChangeIndex]
		if co.Value <= 0 {
			wk.violate(gkey{"change:zero-or-negative-value", changeFlag, oc.class}, order, mask, func() (string, interface{}) {
				return fmt.Sprintf("%s: change output of %d sat added", head(), co.Value), describe(u, coins, chgLen)
			})
		} else if txrules.IsDustOutput(co, txrules.DefaultRelayFeePerKb) || co.Value < dust {
			wk.violate(gkey{"change:dust", changeFlag, oc.class}, order, mask, func() (string, interface{}) {
				d := describe(u, coins, chgLen)
				d.Detail["change_value"] = co.Value
				d.Detail["dust_threshold"] = dust
				return fmt.Sprintf("%s: change output of %d sat added, below the dust threshold %d of a %s output at the 1000 sat/kvB relay fee (inputs total %d, fee %d)", head(), co.Value, dust, inNames[u.chg], sumIn, fee), d
			})
		}
	}

	// (g) authoring again from the same requested outputs (other change script) leaves
	// this transaction's outputs alone.
	if at.ChangeIndex >= 0 {
		snap := func() string {
			var sb strings.Builder
			for _, o := range tx.TxOut {
				fmt.Fprintf(&sb, "%d:%x ", o.Value, o.PkScript)
			}
			return sb.String()
		}
		before := snap()
		var calls2 []int64
		other := append([]byte(nil), chgScript...)
		other[len(other)-1] ^= 0x55
		cs2 := &txauthor.ChangeSource{NewScript: func() ([]byte, error) { return other, nil }, ScriptSize: chgLen}
		_, _ = txauthor.NewUnsignedTransaction(outs, btcutil.Amount(u.rate), newSource(w, coins, &calls2), cs2)
		if after := snap(); after != before {
			wk.violate(gkey{"outputs:altered-by-later-authoring", changeFlag, oc.class}, order, mask, func() (string, interface{}) {
				return fmt.Sprintf("%s: after a second NewUnsignedTransaction from the same requested outputs (slice with spare capacity) the outputs of the first transaction changed from [%s] to [%s]", head(), before, after), describe(u, coins, chgLen)
			})
			return code, nsel, altered
		}
	}

	// Sign with the real code and verify every input, then measure.
	if err := at.AddAllInputScripts(w.sec); err != nil {
		ev.Fatal("signing failed for %s: %v", head(), err)
	}
	fetcher := txscript.NewMultiPrevOutFetcher(nil)
	for i := 0; i < nsel; i++ {
		fetcher.AddPrevOut(tx.TxIn[i].PreviousOutPoint, wire.NewTxOut(coins[i].val, w.pk[coins[i].typ]))
	}
	sh := txscript.NewTxSigHashes(tx, fetcher)
	ss := make([]int, nsel)
	wit := make([][]int, nsel)
	for i := 0; i < nsel; i++ {
		vm, err := txscript.NewEngine(w.pk[coins[i].typ], tx, i, txscript.StandardVerifyFlags, nil, sh, coins[i].val, fetcher)
		if err == nil {
			err = vm.Execute()
		}
		if err != nil {
			ev.Fatal("signed input %d (%s) of %s does not verify: %v", i, inNames[coins[i].typ], head(), err)
		}
		ss[i] = len(tx.TxIn[i].SignatureScript)
		if len(tx.TxIn[i].Witness) > 0 {
			for _, it := range tx.TxIn[i].Witness {
				wit[i] = append(wit[i], len(it))
			}
		}
	}
	st.SignedVerified++
	st.InputsSigned += nsel
	weight := int(blockchain.GetTransactionWeight(btcutil.NewTx(tx)))
	vsize := vsizeOfWeight(weight)
	// Harness self-checks of the independent size arithmetic.
	outB := 0
	for _, o := range tx.TxOut {
		outB += outBytes(len(o.PkScript))
	}
	if own := txWeight(ss, wit, len(tx.TxOut), outB); own != weight {
		ev.Fatal("own weight %d != serialized weight %d for %s", own, weight, head())
	}
	ownChg := 0
	if at.ChangeIndex >= 0 {
		ownChg = chgLen
	}
	ownWorst := worstVsize(selTypes, oc.n, oc.bytes, ownChg, 64)
	if vsize > ownWorst {
		ev.Fatal("signed vsize %d exceeds own worst case %d for %s", vsize, ownWorst, head())
	}

	required := refFee(u.rate, vsize)
	est := txsizesEstimate(selTypes, outs, chgLen)
	upper := refFee(u.rate, est) + dust
	detail := func() *caseDesc {
		d := describe(u, coins, chgLen)
		d.Detail["selected_inputs"] = seqNames(selTypes)
		d.Detail["inputs_total"] = sumIn
		d.Detail["outputs_total_incl_change"] = sumOut
		d.Detail["change_value"] = changeVal
		d.Detail["change_index"] = at.ChangeIndex
		d.Detail["fee"] = fee
		d.Detail["signed_weight"] = weight
		d.Detail["signed_vsize"] = vsize
		d.Detail["signed_serialize_size"] = tx.SerializeSize()
		d.Detail["signed_stripped_size"] = tx.SerializeSizeStripped()
		d.Detail["fee_required_at_rate_for_signed_vsize"] = required
		d.Detail["txsizes_estimate_vB"] = est
		d.Detail["own_worst_case_vB"] = ownWorst
		d.Detail["sigscript_lengths"] = ss
		d.Detail["witness_item_lengths"] = wit
		d.Detail["change_dust_threshold"] = dust
		return d
	}
	// (c) fee at least the rate applied to the real signed virtual size.
	if fee < required {
		wk.violate(gkey{"fee:below-rate", changeFlag, oc.class}, order, mask, func() (string, interface{}) {
			return fmt.Sprintf("%s: authored with inputs %s totalling %d, %d outputs totalling %d (change %d), fee %d; the signed, script-verified transaction has weight %d = %d vB (serialized %d, stripped %d; sigScript lengths %v, witness item lengths %v), so the requested rate needs %d*%d/1000 = %d sat: fee is %d sat short. Wallet estimate txsizes.EstimateVirtualSize = %d vB (fee %d), harness worst case for this shape = %d vB",
				head(), seqNames(selTypes), sumIn, len(tx.TxOut), sumOut, changeVal, fee, weight, vsize, tx.SerializeSize(), tx.SerializeSizeStripped(), ss, wit, u.rate, vsize, required, required-fee, est, refFee(u.rate, est), ownWorst), detail()
		})
	}
	// (d) fee at most the rate applied to the worst-case estimate plus one dust threshold.
	if fee > upper {
		wk.violate(gkey{"fee:above-estimate-plus-dust", changeFlag, oc.class}, order, mask, func() (string, interface{}) {
			return fmt.Sprintf("%s: authored with inputs %s totalling %d, outputs totalling %d (change %d), fee %d > rate applied to the worst-case estimate %d vB (%d) + dust threshold %d = %d",
				head(), seqNames(selTypes), sumIn, sumOut, changeVal, fee, est, refFee(u.rate, est), dust, upper), detail()
		})
	}
	wk.sample(order[0], 17, func() string {
		return fmt.Sprintf("%s -> %d input(s) %s, change %d at index %d, fee %d, signed %d vB (weight %d), required %d, txsizes estimate %d vB, upper bound %d",
			head(), nsel, seqNames(selTypes), changeVal, at.ChangeIndex, fee, vsize, weight, required, est, upper)
	})
	return code, nsel, altered
}

// sample keeps the first case of every 9973rd work unit as a written-out sample.
func (wk *worker) sample(ui, residue int, f func() string) {
	if ui%9973 != residue {
		return
	}
	if _, ok := wk.samples[ui]; !ok {
		wk.samples[ui] = f()
	}
}

func sequences(l int) [][]inType {
	if l == 0 {
		return [][]inType{nil}
	}
	var out [][]inType
	for _, p := range sequences(l - 1) {
		for t := inType(0); t < numInTypes; t++ {
			out = append(out, append(append([]inType(nil), p...), t))
		}
	}
	return out
}

// Run is the entry point of the check.
func Run(args []string) {
	run := ev.NewRun("C07", "exploration", args)
	w := newWallet()

	maxLen := 3
	rates := []int64{1000, 1001, 1999, 2500, 10000, 250000}
	smallN := []int{1, 2, 3, 0} // the degenerate empty request after the ordinary ones
	largeN := []int{251, 252, 253, 254}
	if run.Thorough() {
		maxLen = 4
	}
	var ocs []*outCfg
	for _, n := range smallN {
		for typ := 0; typ < len(outTypeNames); typ++ {
			if n == 0 && typ > 0 {
				continue
			}
			ocs = append(ocs, newOutCfg(n, typ))
		}
	}
	for _, n := range largeN {
		ocs = append(ocs, newOutCfg(n, 2))
	}
	// Self-check of script templates.
	wantClass := []txscript.ScriptClass{txscript.PubKeyHashTy, txscript.ScriptHashTy, txscript.WitnessV0PubKeyHashTy, txscript.WitnessV0ScriptHashTy, txscript.WitnessV1TaprootTy}
	for typ := range outTypeNames {
		if c := txscript.GetScriptClass(reqScript(typ, 0)); c != wantClass[typ] {
			ev.Fatal("requested output template %s has class %v", outTypeNames[typ], c)
		}
	}

	// Grid per unit. Signing and verifying one input costs 0.3-0.5 ms, so the
	// full boundary grid is used where it is most informative.
	modeOf := func(l, k int) int {
		switch {
		case run.Thorough() && l <= 3:
			return gridFull
		case k < l:
			return gridLean
		case l <= 2:
			return gridFull
		}
		return gridSpec
	}
	gridRule := "quick tier: full grid for sequences of length 1 and 2 when the boundary prefix is the whole sequence (k == L), spec grid for length 3 with k == 3, lean grid for k < L"
	if run.Thorough() {
		gridRule = "thorough tier: full grid for every k of sequences up to length 3; sequences of length 4 only for requests of 1 output (every type), 0, 252 and 253 outputs, with the spec grid for k == 4 and the lean grid for k < 4"
	}
	// Simplest first: fewest offered coins, then fewest outputs.
	var units []unit
	nseq := 0
	for l := 1; l <= maxLen; l++ {
		seqs := sequences(l)
		nseq += len(seqs)
		for _, oc := range ocs {
			if l == 4 && !(oc.n <= 1 || oc.n == 252 || oc.n == 253) {
				continue
			}
			for _, rate := range rates {
				for _, seq := range seqs {
					for k := 1; k <= l; k++ {
						for chg := inType(0); chg < numInTypes; chg++ {
							units = append(units, unit{oc, rate, seq, k, chg, modeOf(l, k)})
						}
					}
				}
			}
		}
	}

	var next int64
	var expired int32
	wks := make([]*worker, workers)
	var wg sync.WaitGroup
	for i := range wks {
		wk := &worker{w: w, stats: map[string]*classStats{"lt252": {}, "eq252": {}, "gt252": {}}, viol: map[gkey]*agg{}, samples: map[int]string{}, outcomes: map[string]int{}}
		wks[i] = wk
		wg.Add(1)
		go func() {
			defer wg.Done()
			for {
				ui := int(atomic.AddInt64(&next, 1)) - 1
				if ui >= len(units) {
					return
				}
				if ui%64 == 0 && run.Expired() {
					atomic.StoreInt32(&expired, 1)
				}
				if atomic.LoadInt32(&expired) != 0 {
					return
				}
				wk.do(ui, &units[ui])
			}
		}()
	}
	wg.Wait()

	// Merge.
	stats := map[string]*classStats{"lt252": {}, "eq252": {}, "gt252": {}}
	tot := &classStats{}
	viol := map[gkey]*agg{}
	outcomes := map[string]int{}
	nontrivial, flips, multi, skipped, maxInputs, estimateChecks, belowCount := 0, 0, 0, 0, 0, 0, 0
	var belowOrder [2]int
	belowExample := ""
	sampleAt := map[int]string{}
	for _, wk := range wks {
		for c, s := range wk.stats {
			for _, d := range []*classStats{stats[c], tot} {
				d.Evaluations += s.Evaluations
				d.Successes += s.Successes
				d.Insufficient += s.Insufficient
				d.WithChange += s.WithChange
				d.NoChange += s.NoChange
				d.SignedVerified += s.SignedVerified
				d.InputsSigned += s.InputsSigned
			}
		}
		for k, a := range wk.viol {
			m := viol[k]
			if m == nil {
				c := *a
				viol[k] = &c
				continue
			}
			if a.order[0] < m.order[0] || a.order[0] == m.order[0] && a.order[1] < m.order[1] {
				m.order, m.msg, m.replay = a.order, a.msg, a.replay
			}
			m.count += a.count
			m.andMask &= a.andMask
		}
		for k, v := range wk.outcomes {
			outcomes[k] += v
		}
		for k, v := range wk.samples {
			sampleAt[k] = v
		}
		nontrivial += wk.nontrivial
		estimateChecks += wk.estimateChecks
		belowCount += wk.belowCount
		if wk.belowExample != "" && (belowExample == "" || wk.belowOrder[0] < belowOrder[0] || wk.belowOrder[0] == belowOrder[0] && wk.belowOrder[1] < belowOrder[1]) {
			belowOrder, belowExample = wk.belowOrder, wk.belowExample
		}
		flips += wk.flips
		multi += wk.multiCoin
		skipped += wk.skipped
		if wk.maxInputs > maxInputs {
			maxInputs = wk.maxInputs
		}
	}

	// Signatures: clause + exposing dimensions. The input/coin script types
	// are named only if every failing case of the class involves them.
	// The output-count classes that fail the same way share one signature.
	type ck struct{ clause, change, inputs string }
	byClause := map[ck][]gkey{}
	for k, a := range viol {
		inputs := "any"
		if a.andMask != 0 {
			inputs = maskNames(a.andMask)
		}
		c := ck{k.clause, k.change, inputs}
		byClause[c] = append(byClause[c], k)
	}
	for c, ks := range byClause {
		sort.Slice(ks, func(i, j int) bool { return ks[i].class > ks[j].class }) // lt252, gt252, eq252
		first := viol[ks[0]]
		n := 0
		var classes []string
		for _, k := range ks {
			a := viol[k]
			classes = append(classes, k.class)
			n += a.count
			if a.order[0] < first.order[0] || a.order[0] == first.order[0] && a.order[1] < first.order[1] {
				first = a
			}
		}
		class := strings.Join(classes, "+")
		if len(classes) == 3 {
			class = "any"
		}
		dim := "inputs"
		if strings.HasPrefix(c.clause, "insufficient") || strings.HasPrefix(c.clause, "failure") {
			dim = "coins"
		}
		sig := c.clause + ":outputs=" + class
		if c.change != "-" {
			sig += ":change=" + c.change
		}
		sig += ":" + dim + "=" + c.inputs
		msg := fmt.Sprintf("[%d failing cases; first in simplest-first order:] %s", n, first.msg)
		for i := 0; i < n; i++ {
			run.Violation(sig, msg, first.replay)
		}
	}

	var samples []string
	var sk []int
	for k := range sampleAt {
		sk = append(sk, k)
	}
	sort.Ints(sk)
	for _, k := range sk {
		if sampleAt[k] != "" && len(samples) < 8 {
			samples = append(samples, sampleAt[k])
		}
	}
	if len(samples) == 0 {
		samples = []string{"(no successful case sampled)"}
	}
	var ocNames []string
	for _, oc := range ocs {
		ocNames = append(ocNames, oc.String())
	}
	run.Assumption = []string{
		"'the rate applied to a size' is rate*vsize/1000 in whole satoshis (rounded down), as the wallet's own fee formula does",
		"'worst-case size estimate' in the upper fee bound is txsizes.EstimateVirtualSize for the selected inputs, the requested outputs and a change output of the change script's size (the estimate always includes the change output, also when the change was dropped as dust); the dust threshold is that of the change script at 1000 sat/kvB",
		"'required fee' in the insufficient-funds clause is the rate applied to the harness's own worst-case signed size WITH a change output (72-byte DER + sighash byte + 33-byte key for ECDSA inputs, 64-byte signature for taproot key spends) plus a slack of ceil((witness inputs + taproot inputs + 3)/4) vB for estimator conventions, over every prefix of the offered coin order",
		"clause (g): txsizes.EstimateVirtualSize must not exceed own worst case + slack, for every prefix of every coin sequence, every requested output list and every change type (and without change); an estimate below the own (73-byte ECDSA signature) worst case is only counted (estimator_below_own_worst_case_cases), not a violation: the property bounds the fee by the real signed size (clause c)",
		"coins are offered in a fixed order by the wallet's own input source (wallet.makeInputSource through a build-tagged hook); keys are compressed; taproot coins are BIP86 key-spend",
	}
	wp := walletPart(run)
	samples = append(samples, wp.samples...)
	cov := ev.Coverage{
		"evaluations":                              tot.Evaluations + wp.evals,
		"wallet_level_cases":                       wp.cases,
		"wallet_level_signed_by_wallet":            wp.signedByWallet,
		"wallet_level_signed_by_harness":           wp.signedByHarness,
		"wallet_level_import_combinations_refused": wp.skipped,
		"wallet_level_rule":                        "the real wallet authors (txToOutputs) from default account 0 of every default scope x change scope of every default scope, and from accounts imported from an extended public key into every default scope x address schema override {none, nested/nested, nested/p2wkh, p2wkh/p2wkh, p2tr/p2tr, p2pkh/p2pkh} (watch-only, signed by the harness with keys it derived itself) x rate {1000, 2500, 10000} x 1|2 coins: inputs = outputs + fee, change pays the internal address type of the change account, change not dust, every input verifies, fee >= rate applied to the real signed virtual size",
		"distinct_nontrivial":                      nontrivial,
		"rule":                                     "every case is a distinct tuple (requested outputs, fee rate, ordered coin sequence, boundary prefix k, change script type, total of the first k coins); non-trivial = the authored transaction needed >= 2 coins, or the case sits next to (1 sat from) a case of the same tuple with a different outcome (insufficient / no change / change / number of inputs), i.e. on a decision boundary of the implementation",
		"grid": fmt.Sprintf("requested outputs: %s (each %d sat); fee rates %v sat/kvB; coin sequences: all %d ordered sequences of length 1..%d over {p2pkh, nested p2wpkh, p2wpkh, p2tr}; for each sequence each boundary prefix length k; change script of each of the 4 types; total of the first k coins = sum(outputs) + X. Full grid: X = F + delta, delta in %v, F in {own worst-case fee without change, own worst-case fee with change, own worst-case fee with change + dust threshold of the change script}, for prefixes containing p2tr additionally with F computed for a 65-byte taproot signature. Every full/spec grid also contains X = own worst-case fee with change incl. estimator slack (the smallest total the insufficient-funds clause counts as covered). Spec grid: the same without the middle F. Lean grid: X in {fee without change, fee with change + dust - 1, fee with change + dust}. %s. Coins before the boundary coin get sum(outputs)/k + their own marginal fee (so k coins are needed), coins after it %d sat",
			strings.Join(ocNames, "; "), outAmount, rates, nseq, maxLen, deltas, gridRule, laterCoin),
		"estimate_vs_own_worst_case_checks":      estimateChecks,
		"estimator_below_own_worst_case_cases":   belowCount,
		"estimator_below_own_worst_case_example": belowExample,
		"work_units":                             len(units),
		"coin_sequences":                         nseq,
		"successes":                              tot.Successes,
		"insufficient_funds_results":             tot.Insufficient,
		"with_change":                            tot.WithChange,
		"no_change":                              tot.NoChange,
		"signed_and_script_verified_txs":         tot.SignedVerified,
		"inputs_signed_and_verified":             tot.InputsSigned,
		"cases_needing_two_or_more_coins":        multi,
		"decision_boundaries_straddled":          flips,
		"max_inputs_in_authored_tx":              maxInputs,
		"grid_points_skipped_nonpositive_coin":   skipped,
		"per_output_count_class":                 stats,
		"distinct_outcomes":                      outcomes,
		"violation_classes_before_known":         len(viol),
		"exhaustive":                             expired == 0,
		"samples":                                samples,
	}
	run.Finish(cov)
}
