package c17

import (
	"bytes"
	"crypto/sha256"
	"fmt"

	"github.com/btcsuite/btcwallet/snacl"
)

// nearMiss is one passphrase that differs slightly from the right one.
type nearMiss struct {
	class string
	pos   int
	vari  int
	pw    []byte
	desc  string
}

var classIdx = map[string]int{"bitflip": 0, "drop": 1, "duplicate": 2, "insert": 3, "caseswap": 4, "prefix": 5, "suffix": 6}

// hmacBlock is the 64-byte HMAC-SHA256 key block a passphrase is turned into by
// PBKDF2 inside scrypt: longer than 64 bytes -> SHA-256, then zero padded.
func hmacBlock(p []byte) [64]byte {
	var b [64]byte
	if len(p) > 64 {
		h := sha256.Sum256(p)
		copy(b[:], h[:])
	} else {
		copy(b[:], p)
	}
	return b
}

// nulPadded reports whether q differs from p only by trailing NUL bytes in a
// way that PBKDF2-HMAC cannot see (same HMAC key block).
func nulPadded(p, q []byte) bool {
	return !bytes.Equal(p, q) && hmacBlock(p) == hmacBlock(q)
}

// nearMisses enumerates the near-miss passphrases of p, simplest class order
// fixed. full=false keeps only first/middle/last positions and bits 0 and 7
// (used where every candidate costs a database operation).
func nearMisses(p []byte, full bool, insertVals, suffixVals []byte) []nearMiss {
	n := len(p)
	positions := func(cnt int) []int {
		var ps []int
		if full || cnt <= 3 {
			for i := 0; i < cnt; i++ {
				ps = append(ps, i)
			}
			return ps
		}
		return []int{0, cnt / 2, cnt - 1}
	}
	var out []nearMiss
	seen := map[string]bool{string(p): true}
	add := func(class string, pos, vari int, pw []byte, desc string) {
		if seen[string(pw)] {
			return
		}
		seen[string(pw)] = true
		out = append(out, nearMiss{class, pos, vari, pw, desc})
	}
	cp := func() []byte { return append([]byte(nil), p...) }

	// every proper prefix (shortest first), which includes the empty passphrase
	for _, l := range positions(n) {
		add("prefix", l, 0, cp()[:l], fmt.Sprintf("prefix of length %d", l))
	}
	for _, i := range positions(n) {
		bits := []int{0, 1, 2, 3, 4, 5, 6, 7}
		if !full {
			bits = []int{0, 7}
		}
		for _, b := range bits {
			q := cp()
			q[i] ^= 1 << uint(b)
			add("bitflip", i, b, q, fmt.Sprintf("bit %d of byte %d flipped", b, i))
		}
	}
	for _, i := range positions(n) {
		q := append(cp()[:i], p[i+1:]...)
		add("drop", i, 0, q, fmt.Sprintf("byte %d dropped", i))
	}
	for _, i := range positions(n) {
		q := append(cp()[:i+1], p[i:]...)
		add("duplicate", i, 0, q, fmt.Sprintf("byte %d duplicated", i))
	}
	for _, i := range positions(n) {
		ch := p[i]
		if (ch >= 'a' && ch <= 'z') || (ch >= 'A' && ch <= 'Z') {
			q := cp()
			q[i] ^= 0x20
			add("caseswap", i, 0, q, fmt.Sprintf("case of letter %d swapped", i))
		}
	}
	for _, i := range positions(n + 1) {
		for _, v := range insertVals {
			q := append(cp()[:i], v)
			q = append(q, p[i:]...)
			add("insert", i, int(v), q, fmt.Sprintf("byte 0x%02x inserted at position %d", v, i))
		}
	}
	for _, v := range suffixVals {
		add("suffix", n, int(v), append(cp(), v), fmt.Sprintf("byte 0x%02x appended", v))
	}
	return out
}

func allBytes() []byte {
	b := make([]byte, 256)
	for i := range b {
		b[i] = byte(i)
	}
	return b
}

type passCase struct {
	name string
	pw   []byte
}

func passphrases(thorough bool) []passCase {
	long := make([]byte, 100)
	for i := range long {
		long[i] = byte(33 + (i*37)%90)
	}
	b64 := make([]byte, 64)
	for i := range b64 {
		b64[i] = byte('A' + i%26)
	}
	ps := []passCase{
		{"empty", []byte{}},
		{"3-byte", []byte("abc")},
		{"ascii", []byte("Correct Horse 9!")},
		{"non-utf8", []byte{0xff, 0xfe, 'p', 0x00, 'w', 0xc3, 0x28, 0x80}},
		{"64-byte", b64},
		{"long-100", long},
	}
	if thorough {
		l2 := make([]byte, 300)
		for i := range l2 {
			l2[i] = byte(i*13 + 5)
		}
		ps = append(ps, passCase{"65-byte", append(append([]byte{}, b64...), '!')}, passCase{"long-300-binary", l2})
	}
	return ps
}

type passReplay struct {
	Kind       string `json:"kind"`
	Passphrase string `json:"passphrase_hex"`
	Tried      string `json:"tried_passphrase_hex"`
	Mutation   string `json:"mutation"`
	Params     string `json:"marshalled_params_hex"`
	N          int    `json:"N"`
	R          int    `json:"R"`
	P          int    `json:"P"`
	GotErr     string `json:"returned_error"`
}

// derivePhase is phase 2: NewSecretKey / Marshal / Unmarshal / DeriveKey.
func derivePhase(c *ctx) {
	thorough := c.run.Thorough()
	ps := passphrases(thorough)
	insertVals := []byte{0x00, 0x20, 'a', 0xff}
	suffixVals := []byte{0x00, 0x01, ' ', '\n', 'a', 0x80, 0xff}

	type prepared struct {
		pc   passCase
		blob []byte
		pt   []byte
		ct   []byte
		nms  []nearMiss
	}
	var prep []*prepared
	st := newStats()
	for pi, pc := range ps {
		pw := append([]byte(nil), pc.pw...)
		sk0, err := snacl.NewSecretKey(&pw, 16, 8, 1)
		if err != nil {
			if len(pc.pw) == 0 {
				c.observe("newsecretkey_empty_passphrase", "rejected: "+err.Error())
				continue
			}
			e := err
			c.col.add("newsecretkey:error", [3]int{2, pi, 0}, func() (string, interface{}) {
				return fmt.Sprintf("snacl.NewSecretKey(%q,16,8,1) failed: %v", pc.pw, e), passReplay{Kind: "newsecretkey", Passphrase: hx(pc.pw), GotErr: errStr(e)}
			})
			continue
		}
		if len(pc.pw) == 0 {
			c.observe("newsecretkey_empty_passphrase", "accepted")
		}
		pt := []byte(fmt.Sprintf("secret protected by passphrase #%d", pi))
		ct, err := sk0.Encrypt(pt)
		if err != nil {
			e := err
			c.col.add("encrypt:error", [3]int{2, pi, 1}, func() (string, interface{}) {
				return "SecretKey.Encrypt failed: " + e.Error(), nil
			})
			continue
		}
		blob := sk0.Marshal()

		// Restart: fresh SecretKey from the stored blob, exact passphrase.
		var sk1 snacl.SecretKey
		uerr := sk1.Unmarshal(append([]byte(nil), blob...))
		st.pos("unmarshal-roundtrip")
		if uerr != nil || sk1.Parameters != sk0.Parameters {
			c.col.add("marshal:roundtrip-mismatch", [3]int{2, pi, 2}, func() (string, interface{}) {
				return fmt.Sprintf("Unmarshal(Marshal()) of the parameters of a key for passphrase %q: err=%v, got %+v want %+v", pc.pw, uerr, sk1.Parameters, sk0.Parameters),
					passReplay{Kind: "marshal-roundtrip", Passphrase: hx(pc.pw), Params: hx(blob), GotErr: errStr(uerr)}
			})
			continue
		}
		pw = append([]byte(nil), pc.pw...)
		derr := sk1.DeriveKey(&pw)
		st.pos("derivekey-exact")
		if derr != nil {
			c.col.add("derivekey:exact-rejected", [3]int{2, pi, 3}, func() (string, interface{}) {
				return fmt.Sprintf("after Marshal->Unmarshal, DeriveKey with the exact passphrase %q returned %v", pc.pw, derr),
					passReplay{Kind: "derive-exact", Passphrase: hx(pc.pw), Tried: hx(pc.pw), Params: hx(blob), N: 16, R: 8, P: 1, GotErr: errStr(derr)}
			})
			continue
		}
		out, xerr := sk1.Decrypt(ct)
		st.pos("rederived-key-decrypts")
		if xerr != nil || !bytes.Equal(out, pt) || *sk1.Key != *sk0.Key {
			c.col.add("derivekey:rederived-key-differs", [3]int{2, pi, 4}, func() (string, interface{}) {
				return fmt.Sprintf("after Marshal->Unmarshal->DeriveKey(%q) the key does not decrypt a ciphertext made before: data=%x err=%v key-equal=%v", pc.pw, out, xerr, *sk1.Key == *sk0.Key),
					passReplay{Kind: "rederive", Passphrase: hx(pc.pw), Tried: hx(pc.pw), Params: hx(blob), N: 16, R: 8, P: 1, GotErr: errStr(xerr)}
			})
			continue
		}
		// Zero then DeriveKey on the original object.
		sk0.Zero()
		pw = append([]byte(nil), pc.pw...)
		derr = sk0.DeriveKey(&pw)
		st.pos("derivekey-exact")
		out, xerr = sk0.Decrypt(ct)
		if derr != nil || xerr != nil || !bytes.Equal(out, pt) {
			c.col.add("derivekey:exact-rejected", [3]int{2, pi, 5}, func() (string, interface{}) {
				return fmt.Sprintf("after Zero, DeriveKey with the exact passphrase %q returned %v; decrypt err=%v", pc.pw, derr, xerr),
					passReplay{Kind: "derive-exact-after-zero", Passphrase: hx(pc.pw), Tried: hx(pc.pw), Params: hx(blob), N: 16, R: 8, P: 1, GotErr: errStr(derr)}
			})
		}

		iv, sv := insertVals, suffixVals
		if thorough && len(pc.pw) <= 16 {
			iv, sv = allBytes(), allBytes()
		} else if thorough {
			sv = allBytes()
		}
		nms := nearMisses(pc.pw, true, iv, sv)
		// every other passphrase of the set
		for oi, o := range ps {
			if oi != pi && !bytes.Equal(o.pw, pc.pw) {
				nms = append(nms, nearMiss{"other-passphrase", oi, 0, o.pw, "passphrase " + o.name + " of the set"})
			}
		}
		prep = append(prep, &prepared{pc, blob, pt, ct, nms})
	}
	c.mergeStats(st)

	// Near misses, in chunks over the workers; each chunk has its own
	// SecretKey restored from the stored blob.
	type job struct {
		pi, lo, hi int
	}
	const chunk = 24
	var jobs []job
	for pi, p := range prep {
		for lo := 0; lo < len(p.nms); lo += chunk {
			hi := lo + chunk
			if hi > len(p.nms) {
				hi = len(p.nms)
			}
			jobs = append(jobs, job{pi, lo, hi})
		}
	}
	c.parallel(len(jobs), func(ji int, st *stats) {
		j := jobs[ji]
		p := prep[j.pi]
		var sk snacl.SecretKey
		if err := sk.Unmarshal(append([]byte(nil), p.blob...)); err != nil {
			return // reported above
		}
		for k := j.lo; k < j.hi; k++ {
			nm := p.nms[k]
			ord := [3]int{2, 1000 + j.pi, k}
			try := append([]byte(nil), nm.pw...)
			err := sk.DeriveKey(&try)
			equiv := nulPadded(p.pc.pw, nm.pw)
			cls := "passphrase-" + nm.class
			if equiv {
				cls = "passphrase-nul-padded"
			}
			st.neg(cls, j.pi, nm.pos, nm.vari)
			mk := func() (string, interface{}) {
				return fmt.Sprintf("key created from passphrase %q (N=16,r=8,p=1), restored with Unmarshal: DeriveKey(%q) [%s] returned %v; want snacl.ErrInvalidPassword", p.pc.pw, nm.pw, nm.desc, err),
					passReplay{Kind: "derive-near-miss", Passphrase: hx(p.pc.pw), Tried: hx(nm.pw), Mutation: nm.desc, Params: hx(p.blob), N: 16, R: 8, P: 1, GotErr: errStr(err)}
			}
			switch {
			case err == nil && equiv:
				// Same HMAC key block: PBKDF2 cannot tell the two apart.
				c.col.add("passphrase-nul-padding-accepted:derivekey", ord, mk)
			case err == nil:
				c.col.add("derivekey:near-miss-accepted", ord, mk)
			case err != snacl.ErrInvalidPassword:
				c.col.add("derivekey:near-miss-wrong-error", ord, mk)
			}
			// The right passphrase still works afterwards and gives the same key.
			pw := append([]byte(nil), p.pc.pw...)
			derr := sk.DeriveKey(&pw)
			st.pos("derivekey-exact-after-near-miss")
			var out []byte
			var xerr error
			if derr == nil {
				out, xerr = sk.Decrypt(p.ct)
			}
			if derr != nil || xerr != nil || !bytes.Equal(out, p.pt) {
				c.col.add("derivekey:exact-rejected-after-near-miss", ord, func() (string, interface{}) {
					return fmt.Sprintf("after the rejected attempt %q, DeriveKey with the exact passphrase %q returned %v, decrypt of the earlier ciphertext: %x err=%v", nm.pw, p.pc.pw, derr, out, xerr),
						passReplay{Kind: "derive-exact-after-near-miss", Passphrase: hx(p.pc.pw), Tried: hx(nm.pw), Mutation: nm.desc, Params: hx(p.blob), N: 16, R: 8, P: 1, GotErr: errStr(derr)}
				})
			}
		}
		if j.lo == 0 && (p.pc.name == "3-byte" || p.pc.name == "non-utf8") {
			c.sample(12, "passphrase %q (%s): stored params %x; exact passphrase re-derives the key after Unmarshal; %d near misses executed, e.g. %q (%s)",
				p.pc.pw, p.pc.name, p.blob, len(p.nms), p.nms[len(p.nms)/2].pw, p.nms[len(p.nms)/2].desc)
		}
	})

	// Every single-bit flip of the stored salt and digest: the exact
	// passphrase no longer fits the stored verifier.
	type fjob struct{ pi, bit int }
	var fjobs []fjob
	for pi, p := range prep {
		if len(p.pc.pw) > 16 {
			continue
		}
		for bit := 0; bit < 8*(snacl.KeySize+sha256.Size); bit++ {
			fjobs = append(fjobs, fjob{pi, bit})
		}
	}
	c.parallel(len(fjobs), func(ji int, st *stats) {
		j := fjobs[ji]
		p := prep[j.pi]
		blob := append([]byte(nil), p.blob...)
		blob[j.bit/8] ^= 1 << uint(j.bit%8)
		var sk snacl.SecretKey
		if err := sk.Unmarshal(blob); err != nil {
			return // a same-length blob; reported by paramsPhase if this happens
		}
		pw := append([]byte(nil), p.pc.pw...)
		err := sk.DeriveKey(&pw)
		st.neg("stored-salt-or-digest-bitflip", j.pi, j.bit, 0)
		if err == nil {
			field := "salt"
			if j.bit/8 >= snacl.KeySize {
				field = "digest"
			}
			c.col.add("derivekey:altered-params-accepted", [3]int{2, 5000 + j.pi, j.bit}, func() (string, interface{}) {
				return fmt.Sprintf("stored parameters of the key for passphrase %q with bit %d of byte %d (%s) flipped: DeriveKey(%q) returned nil, the passphrase was accepted against a verifier it was not created with", p.pc.pw, j.bit%8, j.bit/8, field, p.pc.pw),
					passReplay{Kind: "derive-altered-params", Passphrase: hx(p.pc.pw), Tried: hx(p.pc.pw), Mutation: fmt.Sprintf("stored blob bit %d flipped", j.bit), Params: hx(blob), N: 16, R: 8, P: 1}
			})
		}
	})
}

type paramsReplay struct {
	Kind   string `json:"kind"`
	Blob   string `json:"blob_hex"`
	Len    int    `json:"blob_len"`
	Want   string `json:"want"`
	GotErr string `json:"returned_error"`
}

// paramsPhase is phase 1: Marshal/Unmarshal encodings and malformed blobs.
func paramsPhase(c *ctx) {
	st := newStats()
	defer c.mergeStats(st)
	vals := []int{0, 1, 2, 8, 16, 255, 256, 16384, 262144, 1<<31 - 1, 1 << 31, 1<<62 + 12345, -1}
	var fills [3][32]byte
	for i := 0; i < 32; i++ {
		fills[1][i] = 0xff
		fills[2][i] = byte(i*5 + 1)
	}
	seq := 0
	var firstBlob []byte
	for fi, f := range fills {
		for _, n := range vals {
			for _, r := range vals {
				for _, p := range vals {
					seq++
					var a snacl.SecretKey
					a.Parameters.Salt = f
					a.Parameters.Digest = fills[(fi+1)%3]
					a.Parameters.N, a.Parameters.R, a.Parameters.P = n, r, p
					blob := a.Marshal()
					if firstBlob == nil {
						firstBlob = blob
					}
					var b snacl.SecretKey
					err := b.Unmarshal(append([]byte(nil), blob...))
					st.pos("params-roundtrip")
					if err != nil || b.Parameters != a.Parameters || !bytes.Equal(b.Marshal(), blob) {
						c.col.add("marshal:roundtrip-mismatch", [3]int{1, 0, seq}, func() (string, interface{}) {
							return fmt.Sprintf("Unmarshal(Marshal(params)) err=%v: got %+v want %+v", err, b.Parameters, a.Parameters),
								paramsReplay{Kind: "params-roundtrip", Blob: hx(blob), Len: len(blob), Want: fmt.Sprintf("%+v", a.Parameters), GotErr: errStr(err)}
						})
					}
				}
			}
		}
	}

	// Malformed blobs: every truncation and 1..2 appended bytes, into a
	// fresh SecretKey and into one that was used before.
	var a snacl.SecretKey
	a.Parameters.Salt, a.Parameters.Digest = fills[2], fills[1]
	a.Parameters.N, a.Parameters.R, a.Parameters.P = 16, 8, 1
	good := a.Marshal()
	type mal struct {
		blob []byte
		desc string
		a, b int
	}
	var mals []mal
	mals = append(mals, mal{nil, "nil blob", -1, 0})
	for n := 0; n < len(good); n++ {
		mals = append(mals, mal{append([]byte{}, good[:n]...), fmt.Sprintf("truncated to %d of %d bytes", n, len(good)), n, 0})
	}
	for n := 1; n <= 2; n++ {
		for vi, v := range []byte{0x00, 0xff} {
			m := append([]byte(nil), good...)
			for k := 0; k < n; k++ {
				m = append(m, v)
			}
			mals = append(mals, mal{m, fmt.Sprintf("%d byte(s) 0x%02x appended", n, v), len(good) + n, vi})
		}
	}
	for mi, m := range mals {
		for target := 0; target < 2; target++ {
			var sk snacl.SecretKey
			if target == 1 {
				if err := sk.Unmarshal(good); err != nil {
					break
				}
			}
			err := sk.Unmarshal(m.blob)
			st.neg("malformed-blob", m.a, m.b, target)
			if err != snacl.ErrMalformed {
				m := m
				c.col.add("unmarshal:malformed-accepted", [3]int{1, 1, mi*2 + target}, func() (string, interface{}) {
					return fmt.Sprintf("SecretKey.Unmarshal of a %d-byte blob (%s; the format is exactly %d bytes) returned %v; want snacl.ErrMalformed", len(m.blob), m.desc, len(good), err),
						paramsReplay{Kind: "unmarshal-malformed", Blob: hx(m.blob), Len: len(m.blob), Want: "ErrMalformed", GotErr: errStr(err)}
				})
			}
		}
	}
	c.sample(12, "parameter blob %x (%d bytes): %d N/R/P/salt/digest encodings put through Marshal->Unmarshal->Marshal; %d truncated/extended variants of the blob given to Unmarshal", good, len(good), seq, len(mals))
}
