// Development entry point for check C17.
package main

import (
	"os"

	"verif/harness/c17"
)

func main() { c17.Run(os.Args[1:]) }
