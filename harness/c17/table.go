package c17

import (
	"bytes"
	"encoding/hex"
	"fmt"

	"github.com/btcsuite/btcwallet/snacl"
)

// box is one encrypt/decrypt pair bound to one key.
type box struct {
	name string // e.g. "snacl key#2 (seq)" or "manager#1 CKTPrivate"
	key  string // hex of the key if known (replay only)
	enc  func([]byte) ([]byte, error)
	dec  func([]byte) ([]byte, error)
	// zeroProbe: also try the all-zero key, which everybody knows. If it
	// opens the ciphertext, that (and every wrong-key acceptance that follows
	// from it) is reported under its own clause.
	zeroProbe bool
}

type tableReplay struct {
	Kind       string `json:"kind"`
	Box        string `json:"box"`
	Key        string `json:"key_hex_or_manager_passphrases,omitempty"`
	OtherBox   string `json:"decrypting_box,omitempty"`
	Plaintext  string `json:"plaintext_hex"`
	Ciphertext string `json:"ciphertext_hex"`
	Input      string `json:"decrypt_input_hex"`
	Mutation   string `json:"mutation"`
	GotData    string `json:"returned_data_hex"`
	GotErr     string `json:"returned_error"`
}

// plaintext returns the deterministic plaintext of length n, content variant v.
func plaintext(n, v int) []byte {
	p := make([]byte, n)
	if v == 1 {
		for i := range p {
			p[i] = byte(i*7 + n + 1)
		}
	}
	return p
}

func errStr(err error) string {
	if err == nil {
		return "<nil>"
	}
	return err.Error()
}

// mustFail checks the "fails with an error instead of returning data" clause for
// one decrypt call.
func mustFail(c *ctx, pfx, clause string, ord [3]int, b, by *box, pt, ct, in []byte, mut string) {
	out, err := by.dec(in)
	if err != nil && len(out) == 0 {
		return
	}
	sig := pfx + "decrypt:" + clause + "-accepted"
	if err != nil {
		sig = pfx + "decrypt:" + clause + "-error-with-data"
	}
	c.col.add(sig, ord, func() (string, interface{}) {
		r := tableReplay{Kind: "decrypt-negative", Box: b.name, Key: b.key, Plaintext: hx(pt), Ciphertext: hx(ct),
			Input: hx(in), Mutation: mut, GotData: hx(out), GotErr: errStr(err)}
		if by != b {
			r.OtherBox = by.name
		}
		made := ""
		if by != b {
			made = " made by " + b.name
		}
		return fmt.Sprintf("%s: Decrypt of a ciphertext%s of the %d-byte plaintext %x after [%s] returned err=%v and %d data bytes (%x); it must return an error and no data",
			by.name, made, len(pt), pt, mut, err, len(out), out), r
	})
}

// tableOne runs the whole encrypt/decrypt table for one box and one plaintext.
// others are boxes holding different keys. ordBase orders witnesses.
func tableOne(c *ctx, st *stats, pfx string, ordBase [2]int, b *box, others []*box, pt []byte) (ct []byte) {
	L := len(pt)
	seq := 0
	ord := func() [3]int { seq++; return [3]int{ordBase[0], ordBase[1], seq} }

	encrypt := func() []byte {
		ct, err := b.enc(append([]byte(nil), pt...))
		st.pos(pfx + "encrypt")
		if err != nil {
			c.col.add(pfx+"encrypt:error", ord(), func() (string, interface{}) {
				return fmt.Sprintf("%s: Encrypt of a %d-byte plaintext failed: %v", b.name, L, err),
					tableReplay{Kind: "encrypt", Box: b.name, Key: b.key, Plaintext: hx(pt), GotErr: errStr(err)}
			})
			return nil
		}
		return ct
	}
	ct = encrypt()
	if ct == nil {
		return nil
	}

	// Round trip.
	out, err := b.dec(append([]byte(nil), ct...))
	st.pos(pfx + "roundtrip")
	if err != nil || !bytes.Equal(out, pt) {
		c.col.add(pfx+"roundtrip:mismatch", ord(), func() (string, interface{}) {
			return fmt.Sprintf("%s: Decrypt(Encrypt(p)) for a %d-byte plaintext %x returned %x, err=%v", b.name, L, pt, out, err),
				tableReplay{Kind: "roundtrip", Box: b.name, Key: b.key, Plaintext: hx(pt), Ciphertext: hx(ct), Input: hx(ct), GotData: hx(out), GotErr: errStr(err)}
		})
	}

	// Equal plaintexts never give equal ciphertexts.
	ct2, ct3 := encrypt(), encrypt()
	for _, pair := range [][2][]byte{{ct, ct2}, {ct, ct3}, {ct2, ct3}} {
		if pair[0] == nil || pair[1] == nil {
			continue
		}
		st.neg(pfx+"equal-plaintext-ciphertexts-differ", L, 0, 0)
		if bytes.Equal(pair[0], pair[1]) {
			x := pair[0]
			c.col.add(pfx+"encrypt:nonce-reuse", ord(), func() (string, interface{}) {
				return fmt.Sprintf("%s: two encryptions of the same %d-byte plaintext gave the identical ciphertext %x", b.name, L, x),
					tableReplay{Kind: "encrypt-twice", Box: b.name, Key: b.key, Plaintext: hx(pt), Ciphertext: hx(x)}
			})
		}
	}
	// The later ciphertexts must decrypt as well.
	for _, x := range [][]byte{ct2, ct3} {
		if x == nil {
			continue
		}
		out, err := b.dec(append([]byte(nil), x...))
		st.pos(pfx + "roundtrip")
		if err != nil || !bytes.Equal(out, pt) {
			c.col.add(pfx+"roundtrip:mismatch", ord(), func() (string, interface{}) {
				return fmt.Sprintf("%s: Decrypt(Encrypt(p)) for a %d-byte plaintext %x returned %x, err=%v", b.name, L, pt, out, err),
					tableReplay{Kind: "roundtrip", Box: b.name, Key: b.key, Plaintext: hx(pt), Ciphertext: hx(x), Input: hx(x), GotData: hx(out), GotErr: errStr(err)}
			})
		}
	}

	// Every truncation length (shortest first), also the nil slice.
	st.neg(pfx+"truncation", L, -1, 0)
	mustFail(c, pfx, "truncation", ord(), b, b, pt, ct, nil, "nil input")
	for n := 0; n < len(ct); n++ {
		st.neg(pfx+"truncation", L, n, 0)
		mustFail(c, pfx, "truncation", ord(), b, b, pt, ct, append([]byte{}, ct[:n]...), fmt.Sprintf("truncated to %d of %d bytes", n, len(ct)))
	}

	// Every single-bit flip of nonce||box.
	for i := 0; i < 8*len(ct); i++ {
		m := append([]byte(nil), ct...)
		m[i/8] ^= 1 << uint(i%8)
		st.neg(pfx+"bitflip", L, i, 0)
		where := "nonce"
		if i/8 >= snacl.NonceSize {
			where = "box"
		}
		mustFail(c, pfx, "bitflip", ord(), b, b, pt, ct, m, fmt.Sprintf("bit %d of byte %d (%s) flipped", i%8, i/8, where))
	}

	// 1..3 appended bytes.
	for n := 1; n <= 3; n++ {
		for vi, v := range []byte{0x00, 0xff} {
			m := append([]byte(nil), ct...)
			for k := 0; k < n; k++ {
				m = append(m, v)
			}
			st.neg(pfx+"extension", L, n, vi)
			mustFail(c, pfx, "extension", ord(), b, b, pt, ct, m, fmt.Sprintf("%d byte(s) 0x%02x appended", n, v))
		}
	}

	// Every other key.
	wk := "wrong-key"
	if b.zeroProbe {
		var zk snacl.CryptoKey
		zb := snaclBox("snacl all-zero key", &zk)
		st.neg(pfx+"all-zero-key", L, 0, 0)
		// The box really holds the all-zero key iff the zero key recovers a
		// non-empty probe plaintext (a decrypt that merely swallows errors
		// does not).
		probe := []byte("c17 zero key probe")
		if pct, err := b.enc(append([]byte(nil), probe...)); err == nil {
			if out, err := zb.dec(pct); err == nil && bytes.Equal(out, probe) {
				wk = "all-zero-key"
			}
		}
		zmut := "unaltered ciphertext, decrypted with the all-zero snacl.CryptoKey"
		if wk == "all-zero-key" {
			zmut += fmt.Sprintf("; the all-zero key also recovered the probe plaintext %q sealed by %s, i.e. that box holds the all-zero key", probe, b.name)
		}
		mustFail(c, pfx, wk, ord(), b, zb, pt, ct, append([]byte(nil), ct...), zmut)
	}
	for oi, o := range others {
		st.neg(pfx+"wrong-key", L, oi, 0)
		mustFail(c, pfx, wk, ord(), b, o, pt, ct, append([]byte(nil), ct...), "unaltered ciphertext, different key "+o.name)
	}
	return ct
}

// snaclBox wraps a snacl.CryptoKey.
func snaclBox(name string, k *snacl.CryptoKey) *box {
	return &box{name: name, key: hx(k[:]), enc: k.Encrypt, dec: k.Decrypt}
}

// snaclKeys returns the key set: fixed patterns, two one-bit neighbours of a
// pattern, and one key from snacl.GenerateCryptoKey.
func snaclKeys(c *ctx) []*box {
	var zero, ff, seq, n1, n2 snacl.CryptoKey
	for i := range seq {
		ff[i] = 0xff
		seq[i] = byte(i*11 + 3)
	}
	n1, n2 = seq, seq
	n1[0] ^= 0x01
	n2[31] ^= 0x80
	gen, err := snacl.GenerateCryptoKey()
	if err != nil {
		c.col.add("generatecryptokey:error", [3]int{0, 0, 0}, func() (string, interface{}) {
			return "snacl.GenerateCryptoKey failed: " + err.Error(), nil
		})
		gen = &snacl.CryptoKey{0x42}
	}
	return []*box{
		snaclBox("snacl key#0 (all zero)", &zero),
		snaclBox("snacl key#1 (sequence)", &seq),
		snaclBox("snacl key#2 (sequence, bit 0 of byte 0 flipped)", &n1),
		snaclBox("snacl key#3 (sequence, bit 7 of byte 31 flipped)", &n2),
		snaclBox("snacl key#4 (all 0xff)", &ff),
		snaclBox("snacl key#5 (GenerateCryptoKey)", gen),
	}
}

// snaclTable is phase 0: snacl.CryptoKey.Encrypt/Decrypt.
func snaclTable(c *ctx, maxLen int) {
	keys := snaclKeys(c)
	// distinct keys (GenerateCryptoKey could in principle collide with a pattern)
	for i := range keys {
		for j := i + 1; j < len(keys); j++ {
			if keys[i].key == keys[j].key {
				keys = append(keys[:j], keys[j+1:]...)
				break
			}
		}
	}
	type job struct{ L, v, k int }
	var jobs []job
	for L := 0; L <= maxLen; L++ {
		for v := 0; v < 2; v++ {
			if L == 0 && v == 1 {
				continue
			}
			for k := range keys {
				jobs = append(jobs, job{L, v, k})
			}
		}
	}
	c.parallel(len(jobs), func(i int, st *stats) {
		j := jobs[i]
		b := keys[j.k]
		var others []*box
		for k, o := range keys {
			if k != j.k {
				others = append(others, o)
			}
		}
		pt := plaintext(j.L, j.v)
		ct := tableOne(c, st, "", [2]int{0, i}, b, others, pt)
		if ct == nil {
			return
		}
		// Every single-bit neighbour of the key.
		var base snacl.CryptoKey
		kb, _ := hex.DecodeString(b.key)
		copy(base[:], kb)
		for bit := 0; bit < 8*snacl.KeySize; bit++ {
			nk := base
			nk[bit/8] ^= 1 << uint(bit%8)
			nb := snaclBox(fmt.Sprintf("%s with key bit %d flipped", b.name, bit), &nk)
			st.neg("wrong-key-one-bit", j.L, bit, 0)
			mustFail(c, "", "wrong-key", [3]int{0, i, 1 << 20}, b, nb, pt, ct, append([]byte(nil), ct...), fmt.Sprintf("unaltered ciphertext, key differs in bit %d", bit))
		}
		if j.k == 1 && j.v == 1 && (j.L == 1 || j.L == 32) {
			c.sample(12, "%s, %d-byte plaintext %x -> ciphertext %x: executed round trip, 3 encryptions compared, %d bit flips, %d truncations, 6 extensions, %d other keys and 256 one-bit key neighbours",
				b.name, j.L, pt, ct, 8*len(ct), len(ct)+1, len(others))
		}
	})
}
