// Package c17 checks property C17 "Stored ciphertexts are authenticated and
// bound to the right passphrase" by bounded exhaustive enumeration against the
// real snacl and waddrmgr code.
//
// Nothing random decides a verdict: every plaintext length, every single-bit
// flip, every truncation length, every near-miss passphrase of the classes
// below and every truncation of the parameter blob is executed. (The code under
// test draws its own nonces/salts from crypto/rand; the oracle never depends on
// their values, and the replay object records them.)
package c17

import (
	"encoding/hex"
	"fmt"
	"sort"
	"sync"

	"verif/harness/ev"
)

const workers = 16

// dkey identifies one distinct negative case: class plus length/position.
type dkey struct {
	class   string
	a, b, c int
}

// stats are the measured counts. Workers fill a private copy and merge it.
type stats struct {
	evals    int
	class    map[string]int
	distinct map[dkey]struct{}
}

func newStats() *stats {
	return &stats{class: map[string]int{}, distinct: map[dkey]struct{}{}}
}

// pos counts one checked positive evaluation (round trip, exact passphrase...).
func (s *stats) pos(class string) {
	s.evals++
	s.class[class]++
}

// neg counts one checked negative evaluation of the distinct case (class,a,b,c).
func (s *stats) neg(class string, a, b, c int) {
	s.evals++
	s.class[class]++
	s.distinct[dkey{class, a, b, c}] = struct{}{}
}

func (s *stats) merge(o *stats) {
	s.evals += o.evals
	for k, v := range o.class {
		s.class[k] += v
	}
	for k := range o.distinct {
		s.distinct[k] = struct{}{}
	}
}

// collector keeps, per signature, the witness that is smallest in enumeration
// order (workers run in parallel, so "first seen" is not "smallest").
type collector struct {
	mu sync.Mutex
	m  map[string]*witness
}

type witness struct {
	ord    [3]int
	msg    string
	replay interface{}
	count  int
}

func less(a, b [3]int) bool {
	for i := range a {
		if a[i] != b[i] {
			return a[i] < b[i]
		}
	}
	return false
}

// add records a failure of class sig at enumeration position ord. mk builds
// the message and replay object and is only called for a new smallest witness.
func (c *collector) add(sig string, ord [3]int, mk func() (string, interface{})) {
	c.mu.Lock()
	defer c.mu.Unlock()
	w := c.m[sig]
	if w == nil {
		w = &witness{ord: ord}
		w.msg, w.replay = mk()
		c.m[sig] = w
	} else if less(ord, w.ord) {
		w.ord = ord
		w.msg, w.replay = mk()
	}
	w.count++
}

func (c *collector) flush(run *ev.Run) {
	var sigs []string
	for s := range c.m {
		sigs = append(sigs, s)
	}
	sort.Strings(sigs)
	for _, s := range sigs {
		w := c.m[s]
		for i := 0; i < w.count; i++ {
			run.Violation(s, w.msg, w.replay)
		}
	}
}

// ctx is what every phase shares.
type ctx struct {
	run      *ev.Run
	col      *collector
	mu       sync.Mutex
	st       *stats
	samples  []string
	observed map[string]string
	expired  bool
}

func (c *ctx) mergeStats(s *stats) {
	c.mu.Lock()
	c.st.merge(s)
	c.mu.Unlock()
}

func (c *ctx) sample(max int, format string, a ...interface{}) {
	c.mu.Lock()
	if len(c.samples) < max {
		c.samples = append(c.samples, fmt.Sprintf(format, a...))
	}
	c.mu.Unlock()
}

func (c *ctx) observe(k, v string) {
	c.mu.Lock()
	c.observed[k] = v
	c.mu.Unlock()
}

// stop reports (and remembers) that the internal deadline passed.
func (c *ctx) stop() bool {
	if c.run.Expired() {
		c.mu.Lock()
		c.expired = true
		c.mu.Unlock()
		return true
	}
	return false
}

func hx(b []byte) string { return hex.EncodeToString(b) }

// parallel runs job(i, st) for i in [0,n) on `workers` goroutines, handing the
// jobs out in ascending order.
func (c *ctx) parallel(n int, job func(i int, st *stats)) {
	ch := make(chan int)
	var wg sync.WaitGroup
	for w := 0; w < workers; w++ {
		wg.Add(1)
		go func() {
			defer wg.Done()
			st := newStats()
			for i := range ch {
				if c.stop() {
					continue
				}
				job(i, st)
			}
			c.mergeStats(st)
		}()
	}
	for i := 0; i < n; i++ {
		ch <- i
	}
	close(ch)
	wg.Wait()
}

// Run is the entry point: args[0] is quick or thorough.
func Run(args []string) {
	run := ev.NewRun("C17", "exploration", args)
	c := &ctx{run: run, col: &collector{m: map[string]*witness{}}, st: newStats(), observed: map[string]string{}}

	maxLen, mgrMaxLen := 48, 24
	if run.Thorough() {
		maxLen, mgrMaxLen = 160, 48
	}

	snaclTable(c, maxLen)
	paramsPhase(c)
	derivePhase(c)
	managerPhase(c, mgrMaxLen)

	c.col.flush(run)

	st := c.st
	perClass := map[string]int{}
	for k, v := range st.class {
		perClass[k] = v
	}
	distinctPer := map[string]int{}
	for k := range st.distinct {
		distinctPer[k.class]++
	}
	if len(c.samples) == 0 {
		c.samples = []string{"(none)"}
	}
	run.Assumption = []string{
		"scrypt cost parameters N=16,r=8,p=1 (snacl.NewSecretKey(...,16,8,1) and waddrmgr.FastScryptOptions) are used instead of the production defaults; the code path is identical",
		"nonces, salts and one of the crypto keys come from the code's own crypto/rand source; no verdict depends on their value",
		"a wrong key or altered ciphertext passing the Poly1305 tag by chance (2^-128) is ignored",
	}
	run.Finish(ev.Coverage{
		"evaluations":         st.evals,
		"distinct_nontrivial": len(st.distinct),
		"rule": fmt.Sprintf("snacl.CryptoKey: plaintext lengths 0..%d x 2 contents x 6 keys: round trip, 3 encryptions pairwise different, EVERY single-bit flip of nonce||box, EVERY truncation length 0..len-1 (+nil), 1..3 appended bytes (0x00/0xff), every other key and every single-bit neighbour of the key. "+
			"snacl.SecretKey: Marshal/Unmarshal round trip over a grid of N,R,P,salt,digest encodings, every truncation and 1..2-byte extension of the blob -> ErrMalformed; per passphrase (empty, 3-byte, ASCII, non-UTF8, 64-byte, long): Marshal->Unmarshal->DeriveKey(exact) re-derives the same key, EVERY near miss (each bit flip of each byte, drop/duplicate of each byte, insert of a byte at each position, ASCII case swap of each letter, every proper prefix, passphrase+suffix byte, every other passphrase of the set) -> ErrInvalidPassword followed by a successful exact DeriveKey, every single-bit flip of stored salt/digest rejects the exact passphrase. "+
			"waddrmgr.Manager (real bdb database per manager): the same table for CKTPrivate/CKTScript/CKTPublic with plaintext lengths 0..%d, cross key type and cross manager decryption, restart (close, reopen, Open, Unlock) keeps old ciphertexts readable, near-miss public passphrases fail Open, near-miss private passphrases fail Unlock from the locked and from the unlocked state. "+
			"distinct_nontrivial = distinct (negative class, plaintext length or passphrase/blob index, position, variant) tuples executed; positive evaluations and repetitions over keys/contents are not counted as distinct", maxLen, mgrMaxLen),
		"evaluations_per_class":       perClass,
		"distinct_negative_per_class": distinctPer,
		"negative_classes":            len(distinctPer),
		"max_plaintext_len":           maxLen,
		"manager_max_plaintext_len":   mgrMaxLen,
		"observed":                    c.observed,
		"exhaustive":                  !c.expired,
		"samples":                     c.samples,
	})
}
