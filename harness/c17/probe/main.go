package main

import (
	"fmt"

	"github.com/btcsuite/btcwallet/snacl"
)

func main() {
	for _, p := range []string{"", "abc", "correct horse"} {
		pass := []byte(p)
		sk, err := snacl.NewSecretKey(&pass, 16, 8, 1)
		fmt.Println("new", err)
		blob := sk.Marshal()
		var sk2 snacl.SecretKey
		fmt.Println(sk2.Unmarshal(blob))
		q := append([]byte(p), 0)
		fmt.Printf("%q+NUL -> %v\n", p, sk2.DeriveKey(&q))
		q = append([]byte(p), 0, 0)
		fmt.Printf("%q+NUL NUL -> %v\n", p, sk2.DeriveKey(&q))
		q = append([]byte(p), 1)
		fmt.Printf("%q+0x01 -> %v\n", p, sk2.DeriveKey(&q))
	}
}
