package c17

import (
	"bytes"
	"fmt"
	"path/filepath"
	"sync"
	"time"

	"github.com/btcsuite/btcd/btcutil/hdkeychain"
	"github.com/btcsuite/btcd/chaincfg"
	"github.com/btcsuite/btcwallet/waddrmgr"
	"github.com/btcsuite/btcwallet/walletdb"
	_ "github.com/btcsuite/btcwallet/walletdb/bdb"

	"verif/harness/ev"
)

var (
	nsKey = []byte("waddrmgrNamespace")
	seed  = []byte{
		0x2a, 0x64, 0xdf, 0x08, 0x5e, 0xef, 0xed, 0xd8, 0xbf,
		0xdb, 0xb3, 0x31, 0x76, 0xb5, 0xba, 0x2e, 0x62, 0xe8,
		0xbe, 0x8b, 0x56, 0xc8, 0x83, 0x77, 0x95, 0x59, 0x8b,
		0xb6, 0xc4, 0x40, 0xc0, 0x64,
	}
	keyTypes = []struct {
		t    waddrmgr.CryptoKeyType
		name string
	}{{waddrmgr.CKTPublic, "CKTPublic"}, {waddrmgr.CKTPrivate, "CKTPrivate"}, {waddrmgr.CKTScript, "CKTScript"}}
)

type mgrCase struct {
	idx       int
	pub, priv []byte
	path      string
	db        walletdb.DB
	mgr       *waddrmgr.Manager
	saved     [3]struct{ pt, ct []byte } // one ciphertext per key type made before restart
	ok        bool
}

type mgrReplay struct {
	Kind     string `json:"kind"`
	Pub      string `json:"public_passphrase_hex"`
	Priv     string `json:"private_passphrase_hex"`
	Tried    string `json:"tried_passphrase_hex,omitempty"`
	Mutation string `json:"mutation,omitempty"`
	State    string `json:"state,omitempty"`
	KeyType  string `json:"key_type,omitempty"`
	Pt       string `json:"plaintext_hex,omitempty"`
	Ct       string `json:"ciphertext_hex,omitempty"`
	GotErr   string `json:"returned_error"`
	Note     string `json:"note"`
}

const mgrNote = "seed = waddrmgr test seed, chaincfg.MainNetParams, waddrmgr.FastScryptOptions, bdb database"

func (m *mgrCase) box(k int) *box {
	kt := keyTypes[k]
	return &box{
		name: fmt.Sprintf("manager#%d %s", m.idx, kt.name),
		key:  fmt.Sprintf("manager#%d: public passphrase %q, private passphrase %q; %s", m.idx, m.pub, m.priv, mgrNote),
		enc:  func(in []byte) ([]byte, error) { return m.mgr.Encrypt(kt.t, in) },
		dec:  func(in []byte) ([]byte, error) { return m.mgr.Decrypt(kt.t, in) },

		zeroProbe: true,
	}
}

// view runs f with the manager namespace of a read transaction.
func (m *mgrCase) view(f func(ns walletdb.ReadBucket) error) error {
	return walletdb.View(m.db, func(tx walletdb.ReadTx) error {
		ns := tx.ReadBucket(nsKey)
		if ns == nil {
			ev.Fatal("manager namespace missing in %s", m.path)
		}
		return f(ns)
	})
}

func (m *mgrCase) open(pub []byte) (*waddrmgr.Manager, error) {
	var mgr *waddrmgr.Manager
	err := m.view(func(ns walletdb.ReadBucket) error {
		var err error
		mgr, err = waddrmgr.Open(ns, append([]byte(nil), pub...), &chaincfg.MainNetParams)
		return err
	})
	return mgr, err
}

func (m *mgrCase) unlock(priv []byte) error {
	return m.view(func(ns walletdb.ReadBucket) error {
		return m.mgr.Unlock(ns, append([]byte(nil), priv...))
	})
}

func (m *mgrCase) replay(kind string) mgrReplay {
	return mgrReplay{Kind: kind, Pub: hx(m.pub), Priv: hx(m.priv), Note: mgrNote}
}

// unlockExact unlocks with the right passphrase; a failure is a violation.
func (m *mgrCase) unlockExact(c *ctx, st *stats, ord [3]int, when string) bool {
	err := m.unlock(m.priv)
	st.pos("manager-unlock-exact")
	if err != nil || m.mgr.IsLocked() {
		c.col.add("manager-unlock:exact-rejected", ord, func() (string, interface{}) {
			r := m.replay("unlock-exact")
			r.State, r.GotErr = when, errStr(err)
			return fmt.Sprintf("manager#%d: Unlock with the exact private passphrase %q %s returned %v (locked=%v)", m.idx, m.priv, when, err, m.mgr.IsLocked()), r
		})
		return false
	}
	return true
}

// checkSaved decrypts the ciphertexts made before the restart.
func (m *mgrCase) checkSaved(c *ctx, st *stats, ord [3]int, when string, kts ...int) {
	for _, k := range kts {
		s := m.saved[k]
		if s.ct == nil {
			continue
		}
		out, err := m.mgr.Decrypt(keyTypes[k].t, append([]byte(nil), s.ct...))
		st.pos("manager-old-ciphertext-decrypts")
		if err != nil || !bytes.Equal(out, s.pt) {
			k := k
			c.col.add("manager-restart:old-ciphertext-unreadable", ord, func() (string, interface{}) {
				r := m.replay("restart-decrypt")
				r.State, r.KeyType, r.Pt, r.Ct, r.GotErr = when, keyTypes[k].name, hx(s.pt), hx(s.ct), errStr(err)
				return fmt.Sprintf("manager#%d %s: %s, Decrypt of a ciphertext produced before the restart returned %x err=%v; want %x", m.idx, keyTypes[k].name, when, out, err, s.pt), r
			})
		}
	}
}

// managerPhase is phase 3.
func managerPhase(c *ctx, maxLen int) {
	rootKey, err := hdkeychain.NewMaster(seed, &chaincfg.MainNetParams)
	if err != nil {
		ev.Fatal("hdkeychain.NewMaster: %v", err)
	}
	long := func(n int, mul int) []byte {
		b := make([]byte, n)
		for i := range b {
			b[i] = byte(33 + (i*mul)%90)
		}
		return b
	}
	cases := []*mgrCase{
		{pub: []byte("public"), priv: []byte("abc")},
		{pub: []byte{}, priv: []byte("Correct Horse 9!")},
		{pub: []byte{'p', 0xff, 0xfe, 'b'}, priv: []byte{0xc3, 0x28, 0xff, ' ', 'p', 0x00, 's', 0x80}},
		{pub: long(100, 41), priv: long(150, 29)},
	}
	scratch := ev.Scratch()
	birthday := time.Unix(1600000000, 0)

	// An empty private passphrase: follow the API, whatever it says.
	{
		path := filepath.Join(scratch, "c17-mgr-empty.db")
		db, err := walletdb.Create("bdb", path, true, time.Minute, false)
		if err != nil {
			ev.Fatal("walletdb.Create %s: %v", path, err)
		}
		err = walletdb.Update(db, func(tx walletdb.ReadWriteTx) error {
			ns, err := tx.CreateTopLevelBucket(nsKey)
			if err != nil {
				ev.Fatal("CreateTopLevelBucket: %v", err)
			}
			return waddrmgr.Create(ns, rootKey, []byte("public"), []byte{}, &chaincfg.MainNetParams, &waddrmgr.FastScryptOptions, birthday)
		})
		if err != nil {
			c.observe("manager_create_empty_private_passphrase", "rejected: "+err.Error())
		} else {
			c.observe("manager_create_empty_private_passphrase", "accepted")
		}
		db.Close()
	}

	// Step A (parallel, one database per manager): create, open, unlock, table.
	var wg sync.WaitGroup
	for i, m := range cases {
		m.idx = i
		m.path = filepath.Join(scratch, fmt.Sprintf("c17-mgr-%d.db", i))
		wg.Add(1)
		go func(m *mgrCase) {
			defer wg.Done()
			st := newStats()
			defer c.mergeStats(st)
			db, err := walletdb.Create("bdb", m.path, true, time.Minute, false)
			if err != nil {
				ev.Fatal("walletdb.Create %s: %v", m.path, err)
			}
			m.db = db
			err = walletdb.Update(db, func(tx walletdb.ReadWriteTx) error {
				ns, err := tx.CreateTopLevelBucket(nsKey)
				if err != nil {
					ev.Fatal("CreateTopLevelBucket: %v", err)
				}
				return waddrmgr.Create(ns, rootKey, append([]byte(nil), m.pub...), append([]byte(nil), m.priv...),
					&chaincfg.MainNetParams, &waddrmgr.FastScryptOptions, birthday)
			})
			if err != nil {
				if len(m.pub) == 0 {
					c.observe("manager_create_empty_public_passphrase", "rejected: "+err.Error())
					return
				}
				ev.Fatal("waddrmgr.Create manager#%d: %v", m.idx, err)
			}
			if len(m.pub) == 0 {
				c.observe("manager_create_empty_public_passphrase", "accepted")
			}
			mgr, err := m.open(m.pub)
			st.pos("manager-open-exact")
			if err != nil || mgr == nil {
				c.col.add("manager-open:exact-rejected", [3]int{3, m.idx, 0}, func() (string, interface{}) {
					r := m.replay("open-exact")
					r.GotErr = errStr(err)
					return fmt.Sprintf("manager#%d: Open with the exact public passphrase %q right after Create returned %v", m.idx, m.pub, err), r
				})
				return
			}
			m.mgr = mgr
			if !m.unlockExact(c, st, [3]int{3, m.idx, 1}, "after Create+Open") {
				return
			}
			m.ok = true
		}(m)
	}
	wg.Wait()

	var live []*mgrCase
	for _, m := range cases {
		if m.ok {
			live = append(live, m)
		}
	}

	// Table: jobs (manager, key type, length, content) over the workers. The
	// manager serialises on its own mutex; different managers run in parallel.
	type job struct{ m, k, L, v int }
	var jobs []job
	for L := 0; L <= maxLen; L++ {
		for v := 0; v < 2; v++ {
			if L == 0 && v == 1 {
				continue
			}
			for k := range keyTypes {
				for mi := range live {
					jobs = append(jobs, job{mi, k, L, v})
				}
			}
		}
	}
	var savedMu sync.Mutex
	c.parallel(len(jobs), func(ji int, st *stats) {
		j := jobs[ji]
		m := live[j.m]
		b := m.box(j.k)
		var others []*box
		for k := range keyTypes {
			if k != j.k {
				others = append(others, m.box(k)) // other key type, same manager
			}
		}
		for mi, o := range live {
			if mi != j.m {
				others = append(others, o.box(j.k)) // same key type, other manager
			}
		}
		pt := plaintext(j.L, j.v)
		ct := tableOne(c, st, "manager-", [2]int{4, ji}, b, others, pt)
		if ct != nil && j.v == 1 && j.L == 17 {
			savedMu.Lock()
			m.saved[j.k].pt, m.saved[j.k].ct = pt, ct
			savedMu.Unlock()
			if j.m == 0 {
				c.sample(12, "%s (pub=%q priv=%q), %d-byte plaintext %x -> ciphertext %x: executed round trip, 3 encryptions compared, %d bit flips, %d truncations, 6 extensions, the all-zero key, %d other key types/managers",
					b.name, m.pub, m.priv, j.L, pt, ct, 8*len(ct), len(ct)+1, len(others))
			}
		}
	})
	if maxLen < 17 {
		ev.Fatal("manager table too short to keep a ciphertext for the restart step")
	}

	// Step B (parallel): restart and passphrase near misses.
	insertVals := []byte{0x00, 'a', 0xff}
	suffixVals := []byte{0x00, ' ', 'a', 0xff}
	for _, m := range live {
		wg.Add(1)
		go func(m *mgrCase) {
			defer wg.Done()
			st := newStats()
			defer c.mergeStats(st)
			base := 5000 + m.idx*100000
			seq := 0
			ord := func() [3]int { seq++; return [3]int{5, base, seq} }

			m.mgr.Close()
			if err := m.db.Close(); err != nil {
				ev.Fatal("closing %s: %v", m.path, err)
			}
			db, err := walletdb.Open("bdb", m.path, true, time.Minute, false)
			if err != nil {
				ev.Fatal("walletdb.Open %s: %v", m.path, err)
			}
			m.db = db
			defer db.Close()

			// Near-miss public passphrases must not open the manager.
			full := len(m.pub) <= 3
			for _, nm := range nearMisses(m.pub, full, insertVals, suffixVals) {
				if c.stop() {
					return
				}
				mgr, err := m.open(nm.pw)
				equiv := nulPadded(m.pub, nm.pw)
				cls := "manager-open-" + nm.class
				if equiv {
					cls = "manager-open-nul-padded"
				}
				st.neg(cls, m.idx, nm.pos, nm.vari)
				if err == nil || mgr != nil {
					sig := "manager-open:near-miss-accepted"
					if equiv {
						sig = "passphrase-nul-padding-accepted:manager-open"
					}
					nm := nm
					c.col.add(sig, ord(), func() (string, interface{}) {
						r := m.replay("open-near-miss")
						r.Tried, r.Mutation, r.GotErr = hx(nm.pw), nm.desc, errStr(err)
						return fmt.Sprintf("manager#%d created with public passphrase %q: after restart Open(%q) [%s] returned err=%v manager=%v; want an error and no manager", m.idx, m.pub, nm.pw, nm.desc, err, mgr != nil), r
					})
					if mgr != nil {
						mgr.Close()
					}
				}
			}

			// The exact public passphrase opens it; public data is readable
			// while locked.
			mgr, err := m.open(m.pub)
			st.pos("manager-open-exact")
			if err != nil || mgr == nil {
				c.col.add("manager-open:exact-rejected", ord(), func() (string, interface{}) {
					r := m.replay("open-exact-after-restart")
					r.GotErr = errStr(err)
					return fmt.Sprintf("manager#%d: after restart Open with the exact public passphrase %q returned %v", m.idx, m.pub, err), r
				})
				return
			}
			m.mgr = mgr
			defer mgr.Close()
			m.checkSaved(c, st, ord(), "after restart, still locked", 0)

			nms := nearMisses(m.priv, len(m.priv) <= 3, insertVals, suffixVals)

			// From the locked state: a near miss must fail and leave it locked.
			for _, nm := range nms {
				if c.stop() {
					return
				}
				if !m.mgr.IsLocked() {
					if err := m.mgr.Lock(); err != nil {
						ev.Fatal("Lock: %v", err)
					}
				}
				err := m.unlock(nm.pw)
				equiv := nulPadded(m.priv, nm.pw)
				cls := "manager-unlock-" + nm.class
				if equiv {
					cls = "manager-unlock-nul-padded"
				}
				st.neg(cls, m.idx, nm.pos, nm.vari)
				if err == nil || !m.mgr.IsLocked() {
					sig := "manager-unlock:near-miss-accepted"
					if equiv {
						sig = "passphrase-nul-padding-accepted:manager-unlock"
					}
					nm := nm
					locked := m.mgr.IsLocked()
					c.col.add(sig, ord(), func() (string, interface{}) {
						r := m.replay("unlock-near-miss")
						r.Tried, r.Mutation, r.State, r.GotErr = hx(nm.pw), nm.desc, "locked", errStr(err)
						return fmt.Sprintf("manager#%d created with private passphrase %q: after restart Unlock(%q) [%s] on the locked manager returned %v, locked=%v; want an error and a locked manager", m.idx, m.priv, nm.pw, nm.desc, err, locked), r
					})
				}
			}
			if !m.mgr.IsLocked() {
				if err := m.mgr.Lock(); err != nil {
					ev.Fatal("Lock: %v", err)
				}
			}
			if !m.unlockExact(c, st, ord(), "after restart and rejected near misses") {
				return
			}
			m.checkSaved(c, st, ord(), "after restart and Unlock with the same passphrase", 0, 1, 2)

			// From the unlocked state: a near miss must return an error
			// (whether the manager stays unlocked is left open), and the
			// exact passphrase works afterwards.
			for _, nm := range nms {
				if c.stop() {
					return
				}
				if m.mgr.IsLocked() {
					if !m.unlockExact(c, st, ord(), "after a rejected near miss on the unlocked manager") {
						return
					}
				}
				err := m.unlock(nm.pw)
				equiv := nulPadded(m.priv, nm.pw)
				cls := "manager-unlock-while-unlocked-" + nm.class
				if equiv {
					cls = "manager-unlock-while-unlocked-nul-padded"
				}
				st.neg(cls, m.idx, nm.pos, nm.vari)
				if err == nil {
					sig := "manager-unlock:near-miss-accepted-while-unlocked"
					if equiv {
						sig = "passphrase-nul-padding-accepted:manager-unlock-while-unlocked"
					}
					nm := nm
					c.col.add(sig, ord(), func() (string, interface{}) {
						r := m.replay("unlock-near-miss")
						r.Tried, r.Mutation, r.State = hx(nm.pw), nm.desc, "unlocked"
						return fmt.Sprintf("manager#%d created with private passphrase %q: Unlock(%q) [%s] on the unlocked manager returned nil; want an error", m.idx, m.priv, nm.pw, nm.desc), r
					})
				}
			}
			if m.mgr.IsLocked() {
				if !m.unlockExact(c, st, ord(), "at the end") {
					return
				}
			}
			m.checkSaved(c, st, ord(), "at the end, unlocked with the same passphrase", 0, 1, 2)
			if m.idx == 0 {
				c.sample(12, "manager#0 pub=%q priv=%q: executed close/reopen/Open/Unlock, decrypt of the 3 ciphertexts made before, %d near-miss private passphrases (all %d single-bit flips of %q among them) tried with Unlock from the locked and from the unlocked state",
					m.pub, m.priv, len(nms), 8*len(m.priv), m.priv)
			}
		}(m)
	}
	wg.Wait()
}
