package c16

import (
	"fmt"
	"math"
	"sort"
	"strings"
	"time"

	"github.com/btcsuite/btcd/chaincfg/chainhash"
	"github.com/btcsuite/btcd/wire"
	"github.com/btcsuite/btcwallet/waddrmgr"
	"github.com/btcsuite/btcwallet/walletdb"

	"verif/harness/ev"
	"verif/harness/wsim"
)

const seedName = "R"

var (
	nsAddr = []byte("waddrmgr")
	nsTx   = []byte("wtxmgr")
)

// failure is one oracle failure.
type failure struct{ sig, msg string }

// result is what one execution reports.
type result struct {
	fails     []failure
	evals     int
	obs       string // observation vector (state of the model-checking evidence)
	calls     int    // eligible backend calls of the run (fault positions)
	trace     []string
	recovered int // number of end-to-end recoveries executed (1, or 2 when restarted)
	filtered  [][]int32
	startedAt int32 // lowest height ever submitted to FilterBlocks (0 = none)
	birthday  int32 // height of the stored birthday block
}

// birthdayOf returns the wallet birthday handed to wallet.Create.
func birthdayOf(sc *Scenario) time.Time {
	g := wsim.Params.GenesisBlock.Header.Timestamp
	if !sc.PartB {
		// real birthday = genesis time: every model block could pay the wallet
		return g
	}
	return g.Add(-time.Duration(sc.GenHour) * time.Hour).Add(48 * time.Hour)
}

// execute runs one scenario on a fresh wallet restored from the seed.
func execute(worker int, sc *Scenario, ref *Ref) result {
	var res result
	m, err := buildModel(sc, ref)
	if err != nil {
		ev.Fatal("scenario: %v", err)
	}
	s, err := newSim(ev.Scratch(), worker, seedName, birthdayOf(sc), m.Chain)
	if err != nil {
		ev.Fatal("sim: %v", err)
	}
	defer s.Close()
	prefix := "recovery"
	switch {
	case sc.FailAt > 0 && sc.Mode == "restart":
		prefix = "resume"
	case sc.FailAt > 0 && sc.Mode == "lock":
		prefix = "lock-interrupt"
	case sc.FailAt > 0:
		prefix = "retry"
	}
	fail := func(clause, format string, a ...interface{}) {
		res.fails = append(res.fails, failure{prefix + ":" + clause, fmt.Sprintf(format, a...)})
	}
	open := func() {
		if err := s.Open(sc.W); err != nil {
			ev.Fatal("open: %v", err)
		}
		if sc.Unlocked {
			if err := s.Unlock(); err != nil {
				ev.Fatal("unlock: %v", err)
			}
		}
	}
	open()
	r := s.attach(sc.FailAt, sc.Mode)
	res.recovered = 1
	calls, _, _, trace, filtered := s.be.snapshot()
	res.calls, res.trace = calls, trace
	res.filtered = append(res.filtered, filtered...)
	switch r {
	case attachStuck:
		_, inj, att, tr, _ := s.be.snapshot()
		fail("sync-keeps-failing", "start-up synchronisation failed %d times with %d injected backend failures (last backend calls %v)", att-1, inj, tail(tr, 6))
		return res
	case attachFailing:
		// interrupted: stop the wallet while its sync is failing, reopen
		// the same file with a healthy backend and resume
		s.Stop()
		open()
		if r2 := s.attach(0, ""); r2 != attachDone {
			_, _, att, tr, _ := s.be.snapshot()
			fail("sync-keeps-failing", "after restart the synchronisation failed %d times against a healthy backend (last backend calls %v)", att-1, tail(tr, 6))
			return res
		}
		res.recovered = 2
		_, _, _, _, f2 := s.be.snapshot()
		res.filtered = append(res.filtered, f2...)
	}
	s.finishRescans()
	for _, f := range res.filtered {
		for _, h := range f {
			if res.startedAt == 0 || h < res.startedAt {
				res.startedAt = h
			}
		}
	}
	res.evals += checkOracle(s, sc, m, &res, fail)
	return res
}

func tail(s []string, n int) []string {
	if len(s) > n {
		return s[len(s)-n:]
	}
	return s
}

// checkOracle compares the restored wallet with the ledger truth of the model.
func checkOracle(s *sim, sc *Scenario, m *model, res *result, fail func(clause, format string, a ...interface{})) int {
	evals := 0
	w := s.W
	var obs []string

	// (1) synced to the model tip
	st := w.Manager.SyncedTo()
	evals++
	if st.Height != m.Chain.Tip.Height || st.Hash != m.Chain.Tip.Hash {
		fail("synced-to", "SyncedTo = %d %v, model tip = %d %v", st.Height, st.Hash, m.Chain.Tip.Height, m.Chain.Tip.Hash)
	}

	// (2) every paid address is known, belongs to the right scope/branch/index, and is used
	seen := map[string]bool{}
	err := walletdb.View(s.DB, func(tx walletdb.ReadTx) error {
		ans := tx.ReadBucket(nsAddr)
		tns := tx.ReadBucket(nsTx)
		for _, o := range m.Outs {
			key := o.Addr.EncodeAddress()
			if seen[key] {
				continue
			}
			seen[key] = true
			evals++
			ma, err := w.Manager.Address(ans, o.Addr)
			if err != nil {
				fail("address-missed:"+o.Pair.BranchName(), "address %s#%d (%s) paid at height %d is unknown to the restored wallet: %v", o.Pair, o.Index, key, o.Height, err)
				continue
			}
			if pk, ok := ma.(waddrmgr.ManagedPubKeyAddress); ok {
				scope, path, ok := pk.DerivationInfo()
				if ok && (scope != o.Pair.Scope() || path.Branch != o.Pair.Branch || path.Index != o.Index || path.InternalAccount != 0) {
					fail("address-wrong-path", "address %s#%d known as scope %v path %+v", o.Pair, o.Index, scope, path)
				}
			}
			if ma.Internal() != (o.Pair.Branch == waddrmgr.InternalBranch) {
				fail("address-wrong-path", "address %s#%d Internal()=%v", o.Pair, o.Index, ma.Internal())
			}
			evals++
			if !ma.Used(ans) {
				fail("not-marked-used", "address %s#%d paid at height %d is not marked used", o.Pair, o.Index, o.Height)
			}
		}
		// (3) every paying / spending transaction is recorded in its block
		var hs []chainhash.Hash
		for h := range m.Txs {
			hs = append(hs, h)
		}
		sort.Slice(hs, func(i, j int) bool {
			return m.Txs[hs[i]] < m.Txs[hs[j]] || (m.Txs[hs[i]] == m.Txs[hs[j]] && hs[i].String() < hs[j].String())
		})
		for _, h := range hs {
			h := h
			evals++
			d, err := w.TxStore.TxDetails(tns, &h)
			isSpend := m.SpendTx != nil && *m.SpendTx == h
			if err != nil || d == nil {
				if isSpend {
					fail("spend-missed", "the transaction spending a recovered output at height %d is not recorded (%v)", m.Txs[h], err)
				} else {
					fail("tx-missing", "the transaction paying the wallet at height %d is not recorded (%v)", m.Txs[h], err)
				}
				continue
			}
			blk := m.Chain.AtHeight(m.Txs[h])
			if d.Block.Height != m.Txs[h] || d.Block.Hash != blk.Hash {
				fail("tx-wrong-block", "transaction of height %d recorded at height %d hash %v", m.Txs[h], d.Block.Height, d.Block.Hash)
			}
			// credits / debits of the record
			wantCredits := 0
			for _, o := range m.Outs {
				if o.OP.Hash == h {
					wantCredits++
				}
			}
			evals++
			if len(d.Credits) != wantCredits {
				fail("tx-credits", "transaction at height %d has %d credits recorded, %d of its outputs pay the wallet", m.Txs[h], len(d.Credits), wantCredits)
			}
			if isSpend {
				evals++
				if len(d.Debits) != 1 {
					fail("spend-missed", "spending transaction at height %d recorded with %d debits, want 1", m.Txs[h], len(d.Debits))
				}
			}
		}
		return nil
	})
	if err != nil {
		ev.Fatal("view: %v", err)
	}

	// (4) balance and unspent set
	wantU, wantBal := m.truth()
	bal, err := w.CalculateBalance(1)
	evals++
	if err != nil {
		fail("balance", "CalculateBalance: %v", err)
	} else if int64(bal) != wantBal {
		clause := "balance"
		if m.SpendTx != nil && int64(bal) > wantBal {
			clause = "balance-counts-spent-output"
		}
		fail(clause, "CalculateBalance(1) = %d, ledger truth %d", int64(bal), wantBal)
	}
	lus, err := w.ListUnspent(1, math.MaxInt32, "")
	evals++
	if err != nil {
		fail("unspent", "ListUnspent: %v", err)
	} else {
		got := map[wire.OutPoint]int64{}
		for _, u := range lus {
			h, _ := chainhash.NewHashFromStr(u.TxID)
			got[wire.OutPoint{Hash: *h, Index: u.Vout}] = int64(math.Round(u.Amount * 1e8))
		}
		for op, a := range wantU {
			if g, ok := got[op]; !ok {
				fail("unspent-missing", "unspent output %v (%d) of the model is not listed", op, a)
			} else if g != a {
				fail("unspent-amount", "unspent output %v listed with %d, want %d", op, g, a)
			}
		}
		for op := range got {
			if _, ok := wantU[op]; !ok {
				clause := "unspent-extra"
				for _, o := range m.Outs {
					if o.OP == op && o.Spent {
						clause = "spend-missed"
					}
				}
				fail(clause, "ListUnspent lists %v which is not unspent in the model", op)
			}
		}
	}

	// (5) next index of every used branch above the highest used index
	for _, p := range sortedPairs(m.HiUsed) {
		props, err := w.AccountProperties(p.Scope(), 0)
		evals++
		if err != nil {
			fail("account-properties", "AccountProperties(%v,0): %v", p.Scope(), err)
			continue
		}
		n := props.ExternalKeyCount
		if p.Branch == waddrmgr.InternalBranch {
			n = props.InternalKeyCount
		}
		if int64(n) <= m.HiUsed[p] {
			fail("next-index-not-above-highest-used", "%s: next index %d, highest used index %d", p, n, m.HiUsed[p])
		}
	}
	// observation vector: key counts of all scopes, balance, records, batches
	for _, ksc := range waddrmgr.DefaultKeyScopes {
		props, err := w.AccountProperties(ksc, 0)
		if err == nil {
			obs = append(obs, fmt.Sprintf("%d:%d/%d", ksc.Purpose, props.ExternalKeyCount, props.InternalKeyCount))
		}
	}
	obs = append(obs, fmt.Sprintf("bal=%d utxo=%d txs=%d tip=%d", int64(bal), len(lus), len(m.Txs), st.Height))
	obs = append(obs, "filter="+rangesText(res.filtered))

	// (6) scanning starts no later than the first block that could pay the wallet
	bb, _, berr := birthdayBlock(s)
	if berr == nil {
		res.birthday = bb
	}
	evals += checkStart(sc, m, res, bb, berr, fail)
	obs = append(obs, fmt.Sprintf("bday=%d", bb))
	res.obs = strings.Join(obs, " ")
	return evals
}

func birthdayBlock(s *sim) (int32, bool, error) {
	var h int32
	var verified bool
	err := walletdb.View(s.DB, func(tx walletdb.ReadTx) error {
		bs, v, err := s.W.Manager.BirthdayBlock(tx.ReadBucket(nsAddr))
		h, verified = bs.Height, v
		return err
	})
	return h, verified, err
}

// firstPossible returns the height of the first block after genesis whose time
// stamp is not before the real birthday (stored birthday + 48h margin), 0 if
// there is none. Only such a block can pay an address of the wallet.
func firstPossible(sc *Scenario, m *model) int32 {
	real := birthdayOf(sc)
	for h := int32(1); h <= m.Chain.Tip.Height; h++ {
		if !m.Chain.AtHeight(h).Header.Timestamp.Before(real) {
			return h
		}
	}
	return 0
}

// checkStart: the first block whose transactions are examined is never later
// than the first block that could pay the wallet. The wallet examines blocks
// from birthdayBlock+1 on (the birthday block itself is stored as synced).
func checkStart(sc *Scenario, m *model, res *result, bb int32, berr error, fail func(clause, format string, a ...interface{})) int {
	fp := firstPossible(sc, m)
	if fp == 0 {
		return 1
	}
	if berr != nil {
		fail("birthday-block", "no birthday block stored after start-up: %v", berr)
		return 1
	}
	// The observed scan start; with a fault+restart the first (failing)
	// attempt's requests are part of res.filtered as well.
	if res.startedAt != 0 && res.startedAt > fp {
		res.fails = append(res.fails, failure{"birthday:start-after-first-possible-payment",
			fmt.Sprintf("the first block handed to FilterBlocks has height %d but the block at height %d (time stamp >= real birthday) could already pay the wallet; birthday block = %d", res.startedAt, fp, bb)})
	}
	if bb >= fp {
		res.fails = append(res.fails, failure{"birthday:start-after-first-possible-payment",
			fmt.Sprintf("birthday block height %d (scan resumes at %d) is not before the first block that could pay the wallet (height %d)", bb, bb+1, fp)})
	}
	return 2
}

// rangesText renders FilterBlocks requests compactly ("1-2 2-2 3-4").
func rangesText(f [][]int32) string {
	var parts []string
	for _, r := range f {
		if len(r) == 0 {
			parts = append(parts, "-")
			continue
		}
		parts = append(parts, fmt.Sprintf("%d-%d", r[0], r[len(r)-1]))
	}
	return "[" + strings.Join(parts, " ") + "]"
}
