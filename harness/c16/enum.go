package c16

// Bounded exhaustive enumeration of usage patterns. Everything is generated in
// a fixed simplest-first order; a scenario's position in that order decides the
// shard that executes it.

// blockSets enumerates, for ONE branch, every sequence of n per-block index
// sets that satisfies the look-ahead condition of the statement for window W:
// each paid index is < W beyond the highest index paid in EARLIER blocks.
// Bounds: at most maxPer payments per block; per block the candidate indices
// are all W fresh ones (hi+1 .. hi+W: jumps of 0..W-1 unused indices), the
// highest index already paid (address re-use) and the lowest index below it
// that was skipped so far (late use of a skipped address).
func blockSets(W uint32, n, maxPer int, f func([][]uint32)) {
	cur := make([][]uint32, 0, n)
	paid := map[uint32]int{}
	var rec func(t int, hi int64)
	rec = func(t int, hi int64) {
		if t == n {
			out := make([][]uint32, n)
			for i := range cur {
				out[i] = append([]uint32{}, cur[i]...)
			}
			f(out)
			return
		}
		var cand []uint32
		if hi >= 0 {
			for i := uint32(0); int64(i) < hi; i++ {
				if paid[i] == 0 {
					cand = append(cand, i)
					break
				}
			}
			cand = append(cand, uint32(hi))
		}
		for d := int64(1); d <= int64(W); d++ {
			cand = append(cand, uint32(hi+d))
		}
		// subsets of size 0..maxPer, ascending, smallest first
		var sub func(start int, set []uint32)
		emit := func(set []uint32) {
			nh := hi
			for _, i := range set {
				paid[i]++
				if int64(i) > nh {
					nh = int64(i)
				}
			}
			cur = append(cur, append([]uint32{}, set...))
			rec(t+1, nh)
			cur = cur[:len(cur)-1]
			for _, i := range set {
				paid[i]--
			}
		}
		for size := 0; size <= maxPer; size++ {
			sub = func(start int, set []uint32) {
				if len(set) == size {
					emit(set)
					return
				}
				for k := start; k < len(cand); k++ {
					sub(k+1, append(set, cand[k]))
				}
			}
			sub(0, nil)
		}
	}
	rec(0, -1)
}

func nonEmpty(b []uint32) bool { return len(b) > 0 }

// singlePair emits the scenarios of one pair: patterns of exactly n blocks
// whose first and last block pay (leading empty blocks are the Lead parameter,
// a trailing empty block adds nothing the recovery looks at).
func singlePair(group string, W uint32, pair Pair, n, maxPer, lead int, unlocked bool, f func(*Scenario)) {
	blockSets(W, n, maxPer, func(sets [][]uint32) {
		if n > 0 && (!nonEmpty(sets[0]) || !nonEmpty(sets[n-1])) {
			return
		}
		sc := &Scenario{Group: group, W: W, Pairs: []Pair{pair}, Lead: lead, Unlocked: unlocked}
		for _, s := range sets {
			var blk []Pay
			for _, i := range s {
				blk = append(blk, Pay{0, i})
			}
			sc.Blocks = append(sc.Blocks, blk)
		}
		f(sc)
	})
}

// multiPair emits the product of the per-pair patterns of several pairs over
// the same n blocks (first and last block pay on at least one pair).
func multiPair(group string, W uint32, pairs []Pair, n, maxPer, lead int, unlocked bool, f func(*Scenario)) {
	var all [][][]uint32
	blockSets(W, n, maxPer, func(sets [][]uint32) { all = append(all, sets) })
	idx := make([]int, len(pairs))
	var rec func(k int)
	rec = func(k int) {
		if k == len(pairs) {
			sc := &Scenario{Group: group, W: W, Pairs: append([]Pair{}, pairs...), Lead: lead, Unlocked: unlocked}
			used := make([]bool, len(pairs))
			for t := 0; t < n; t++ {
				var blk []Pay
				for pi := range pairs {
					for _, i := range all[idx[pi]][t] {
						blk = append(blk, Pay{pi, i})
						used[pi] = true
					}
				}
				sc.Blocks = append(sc.Blocks, blk)
			}
			for _, u := range used {
				if !u {
					return // a pair that is never paid: covered by the smaller pair sets
				}
			}
			if n > 0 && (len(sc.Blocks[0]) == 0 || len(sc.Blocks[n-1]) == 0) {
				return
			}
			f(sc)
			return
		}
		for i := range all {
			idx[k] = i
			rec(k + 1)
		}
	}
	rec(0)
}

// withSpends emits, for a base scenario, every spend of one paid output in its
// own or a later block, without change and with every internal-branch payment
// of the spending block as the change output.
func withSpends(base *Scenario, sameBlock bool, f func(*Scenario)) {
	type po struct{ ord, blk int }
	var pays []po
	ord := 0
	for t, blk := range base.Blocks {
		for range blk {
			pays = append(pays, po{ord, t})
			ord++
		}
	}
	for _, of := range pays {
		for t := of.blk; t < len(base.Blocks); t++ {
			if t == of.blk && !sameBlock {
				continue
			}
			c := *base
			c.Spend = &Spend{Block: t, Of: of.ord, Change: -1}
			f(&c)
			for _, ch := range pays {
				if ch.blk != t || ch.ord == of.ord {
					continue
				}
				p := payAt(base, ch.ord)
				if base.Pairs[p.Pair].Branch != 1 {
					continue
				}
				c2 := *base
				c2.Spend = &Spend{Block: t, Of: of.ord, Change: ch.ord}
				f(&c2)
			}
		}
	}
}

func payAt(sc *Scenario, ord int) Pay {
	o := 0
	for _, blk := range sc.Blocks {
		for _, p := range blk {
			if o == ord {
				return p
			}
			o++
		}
	}
	return Pay{}
}

// pairCombos returns all k-subsets of AllPairs (in AllPairs order).
func pairCombos(k int, from []Pair) [][]Pair {
	var out [][]Pair
	var rec func(start int, cur []Pair)
	rec = func(start int, cur []Pair) {
		if len(cur) == k {
			out = append(out, append([]Pair{}, cur...))
			return
		}
		for i := start; i < len(from); i++ {
			rec(i+1, append(cur, from[i]))
		}
	}
	rec(0, nil)
	return out
}

// monotone enumerates all non-decreasing sequences of length n over grid.
func monotone(grid []int, n int, f func([]int)) {
	cur := make([]int, 0, n)
	var rec func(start int)
	rec = func(start int) {
		if len(cur) == n {
			f(append([]int{}, cur...))
			return
		}
		for i := start; i < len(grid); i++ {
			cur = append(cur, grid[i])
			rec(i)
			cur = cur[:len(cur)-1]
		}
	}
	rec(0)
}
