package c16

import (
	"encoding/json"
	"fmt"
	"hash/fnv"
	"os"
	"os/exec"
	"reflect"
	"sort"
	"strings"
	"syscall"

	"verif/harness/ev"
)

// job is one unit of sharded work: a scenario, optionally followed by every
// fault position of its clean run in both interruption modes.
type job struct {
	sc     *Scenario
	faults bool
	// modes of interruption (nil = all three); local = the owning shard runs
	// the clean run and all its interruption positions (no redundant clean
	// runs in the other shards; used where a clean run is expensive or the
	// positions are few); afterFirstFilter = only positions after the first
	// FilterBlocks call (real batch size: after the first 2000-block batch)
	modes            []string
	local            bool
	afterFirstFilter bool
}

// grid of PART B: hours relative to the STORED birthday; the thresholds of
// locateBirthdayBlock are -2h / +2h (strict), a block can pay from +48h on.
var bGrid = []int{-3, -2, 0, 2, 3, 47, 48, 50}

// generate emits the jobs of a role in a fixed simplest-first order. The
// sizes are chosen for ~20k (quick) / ~130k (thorough) end-to-end recoveries.
func generate(role string, thorough bool, only map[string]bool, emit func(job)) {
	p84e, p84i := AllPairs[0], AllPairs[1]
	plain := func(sc *Scenario) { emit(job{sc: sc}) }
	faulty := func(sc *Scenario) { emit(job{sc: sc, faults: true}) }
	spends := func(same bool, f func(*Scenario)) func(*Scenario) {
		return func(sc *Scenario) { withSpends(sc, same, f) }
	}
	if role == "b2" {
		// A1: one branch in depth (<=2 payments per block), both batch-cut parities
		if wants(only, "A1") {
			singlePair("A1", 1, p84e, 0, 2, 3, false, plain) // nothing is ever paid
			type cfg struct {
				W     uint32
				n     int
				leads []int
			}
			both := []int{0, 1}
			cfgs := []cfg{{1, 1, both}, {2, 1, both}, {3, 1, both}, {1, 2, both}, {2, 2, both}, {3, 2, both},
				{1, 3, both}, {2, 3, both}, {3, 3, both}, {1, 4, both}, {2, 4, []int{0}}}
			if thorough {
				cfgs = append(cfgs, cfg{2, 4, []int{1}}, cfg{1, 5, both}, cfg{3, 4, both}, cfg{2, 5, []int{0}})
			}
			for _, c := range cfgs {
				for _, lead := range c.leads {
					singlePair("A1", c.W, p84e, c.n, 2, lead, false, plain)
				}
			}
		}
		// A2: every (scope, branch) pair, locked and unlocked
		if wants(only, "A2") {
			for n := 1; n <= 3; n++ {
				for W := uint32(1); W <= 3; W++ {
					if n == 3 && !thorough {
						continue
					}
					maxPer := 2
					if n == 3 && W == 3 {
						maxPer = 1
					}
					for _, p := range AllPairs {
						for _, unl := range []bool{false, true} {
							singlePair("A2", W, p, n, maxPer, 0, unl, plain)
						}
					}
				}
			}
		}
		// A3: two (thorough: also three) pairs interleaved over the same blocks
		if wants(only, "A3") {
			combos := pairCombos(2, AllPairs)
			for n := 1; n <= 2; n++ {
				for W := uint32(1); W <= 3; W++ {
					for ci, cb := range combos {
						if !thorough && W == 3 && n == 2 && ci%4 != 0 {
							continue
						}
						multiPair("A3", W, cb, n, 1, 0, (thorough && ci%4 == 1) || ci%7 == 1, plain)
					}
				}
			}
			if thorough {
				for W := uint32(1); W <= 2; W++ {
					for ci, cb := range combos {
						if ci%3 == 0 {
							multiPair("A3", W, cb, 2, 2, 1, false, plain)
						}
					}
				}
				for W := uint32(1); W <= 2; W++ {
					for si := 0; si < 4; si++ {
						if W == 2 && si%3 != 0 {
							continue
						}
						multiPair("A3", W, []Pair{AllPairs[2*si], AllPairs[2*si+1]}, 3, 1, 0, si%2 == 0, plain)
					}
				}
				for ci, cb := range pairCombos(3, AllPairs) {
					for n := 1; n <= 2; n++ {
						multiPair("A3", 1, cb, n, 1, 0, false, plain)
						if ci%7 == 0 {
							multiPair("A3", 2, cb, n, 1, 0, ci%2 == 1, plain)
						}
					}
				}
			}
		}
		// A4: spends of recovered outputs (same or later block), with and without in-window change
		if wants(only, "A4") {
			for n := 1; n <= 3; n++ {
				for W := uint32(1); W <= 2; W++ {
					for lead := 0; lead <= 1; lead++ {
						singlePair("A4", W, p84e, n, 1, lead, false, spends(true, plain))
					}
				}
			}
			for n := 1; n <= 2; n++ {
				for W := uint32(1); W <= 2; W++ {
					for si := 0; si < 4; si++ {
						if !thorough && n == 2 && si > 1 {
							continue
						}
						multiPair("A4", W, []Pair{AllPairs[2*si], AllPairs[2*si+1]}, n, 1, 0, si%2 == 1, spends(true, plain))
					}
				}
			}
			if thorough {
				singlePair("A4", 2, p84e, 3, 2, 0, false, spends(true, plain))
			}
		}
		// A5: interruption at every backend call position, self-retry and stop+reopen
		if wants(only, "A5") {
			for n := 1; n <= 2; n++ {
				for W := uint32(1); W <= 2; W++ {
					for lead := 0; lead <= 1; lead++ {
						singlePair("A5", W, p84e, n, 2, lead, false, faulty)
					}
				}
			}
			// quick: the bases below are interrupted by retry and restart only
			// (Wallet.Lock() during the call is exercised on the bases above)
			faulty2 := faulty
			if !thorough {
				faulty2 = func(sc *Scenario) { emit(job{sc: sc, faults: true, modes: []string{"retry", "restart"}}) }
			}
			for W := uint32(1); W <= 2; W++ {
				multiPair("A5", W, []Pair{p84e, p84i}, 2, 1, 0, W == 1, func(sc *Scenario) {
					faulty2(sc)
					if thorough || W == 1 {
						withSpends(sc, false, faulty2)
					}
				})
			}
			singlePair("A5", 1, p84e, 3, 2, 0, false, faulty2)
			// spends whose funding output was committed by an earlier batch
			for lead := 0; lead <= 1; lead++ {
				singlePair("A5", 1, p84e, 2, 1, lead, false, spends(false, faulty2))
				singlePair("A5", 2, p84e, 2, 1, lead, lead == 1, spends(false, faulty2))
			}
			singlePair("A5", 1, p84e, 3, 1, 0, false, spends(false, faulty2))
			if thorough {
				singlePair("A5", 1, p84e, 3, 2, 1, false, faulty)
				singlePair("A5", 2, p84e, 3, 1, 0, false, faulty)
				singlePair("A5", 3, p84e, 2, 1, 1, false, faulty)
				for _, cb := range [][]Pair{{AllPairs[2], AllPairs[7]}, {AllPairs[4], AllPairs[5]}} {
					multiPair("A5", 2, cb, 2, 1, 1, false, faulty)
				}
			}
		}
		// A6: resume after a committed batch with asymmetric branch usage: one
		// branch of a scope is ahead of the other by W or W+1 keys when the
		// recovery is interrupted; the next payments on both branches follow.
		// Stop+reopen at every backend call position, both batch-cut parities.
		if wants(only, "A6") {
			scopes := []int{0}
			if thorough {
				scopes = []int{0, 1, 2, 3}
			}
			asymBases("A6", scopes, func(si int) bool { return si%2 == 1 }, func(int) []int { return []int{0, 1} }, func(sc *Scenario) {
				modes := []string{"restart"}
				if thorough && sc.Pairs[0].Purpose == 84 {
					modes = []string{"restart", "retry"}
				}
				emit(job{sc: sc, faults: true, modes: modes, local: true})
			})
		}
		return
	}
	// ---- real recoveryBatchSize
	if wants(only, "R1") {
		// full size: 2000+ blocks, the pattern straddles the cut after block 2000
		leads := []int{1998, 1999}
		if thorough {
			leads = []int{1997, 1998, 1999}
		}
		allPay := func(f func(*Scenario)) func(*Scenario) {
			return func(sc *Scenario) {
				for _, b := range sc.Blocks {
					if len(b) == 0 {
						return
					}
				}
				f(sc)
			}
		}
		for _, lead := range leads {
			for W := uint32(1); W <= 3; W++ {
				if W == 3 && !thorough {
					continue
				}
				singlePair("R1", W, p84e, 3, 1, lead, false, allPay(plain))
			}
		}
		for _, lead := range leads[len(leads)-2:] {
			multiPair("R1", 1, []Pair{AllPairs[2], AllPairs[5]}, 2, 1, lead, true, allPay(spends(false, plain)))
			if thorough {
				multiPair("R1", 1, []Pair{AllPairs[6], AllPairs[7]}, 2, 1, lead, false, allPay(spends(false, plain)))
			}
		}
	}
	// R2: every pair with the real constant (no batch cut on short chains)
	if wants(only, "R2") {
		for n := 1; n <= 2; n++ {
			for W := uint32(1); W <= 3; W++ {
				for pi, p := range AllPairs {
					singlePair("R2", W, p, n, 2, 0, pi%2 == 1, plain)
				}
			}
		}
	}
	// R3: the asymmetric resume family with the real constant: the blocks before
	// the interruption close the first 2000-block batch, the later ones are in
	// the second; stop+reopen at every call position after the first FilterBlocks.
	if wants(only, "R3") {
		scopes := []int{0}
		if thorough {
			scopes = []int{0, 2}
		}
		asymBases("R3", scopes, func(si int) bool { return si == 2 }, func(npre int) []int { return []int{2000 - npre} }, func(sc *Scenario) {
			emit(job{sc: sc, faults: true, modes: []string{"restart"}, local: true, afterFirstFilter: true})
		})
	}
	// B: all monotone time-stamp sequences (genesis first) on the threshold grid
	if wants(only, "B") {
		maxL := 6
		if thorough {
			maxL = 7
		}
		for L := 2; L <= maxL; L++ {
			monotone(bGrid, L, func(seq []int) {
				sc := &Scenario{Group: "B", W: 1, Pairs: []Pair{p84e}, PartB: true, GenHour: seq[0], Hours: seq[1:]}
				// every block that could pay the wallet pays the next index
				idx := uint32(0)
				for _, h := range sc.Hours {
					if h >= 48 {
						sc.Blocks = append(sc.Blocks, []Pay{{0, idx}})
						idx++
					} else {
						sc.Blocks = append(sc.Blocks, nil)
					}
				}
				emit(job{sc: sc})
			})
		}
	}
}

// selfCheckBatch makes sure this binary has the batch size its role claims:
// on a chain of five empty blocks the wallet asks for one FilterBlocks range
// per batch.
func selfCheckBatch(role string, ref *Ref) {
	sc := &Scenario{Group: "selfcheck", W: 1, Pairs: []Pair{AllPairs[0]}, Lead: 5}
	w, _ := ev.Shard()
	res := execute(1000+w, sc, ref)
	want := [][]int32{{1, 2, 3, 4, 5}}
	if role == "b2" {
		want = [][]int32{{1, 2}, {3, 4}, {5}}
	}
	if !reflect.DeepEqual(res.filtered, want) {
		ev.Fatal("batch self-check: role %q expects FilterBlocks ranges %v, the wallet asked for %v (wrong binary / overlay not applied)", role, want, res.filtered)
	}
	if len(res.fails) > 0 {
		ev.Fatal("batch self-check: oracle failed on the empty chain: %v", res.fails)
	}
}

func scopeKey(sc *Scenario) []string {
	seen := map[string]bool{}
	var out []string
	for _, p := range sc.Pairs {
		k := fmt.Sprint(p.Purpose)
		if !seen[k] {
			seen[k] = true
			out = append(out, k)
		}
	}
	return out
}

// account one executed scenario.
func account(run *ev.Run, st *stats, sc *Scenario, res result, m *model) {
	st.runs++
	st.recoveries += res.recovered
	st.evals += res.evals
	for _, f := range res.filtered {
		st.transitions += len(f)
	}
	st.perW[fmt.Sprint(sc.W)]++
	for _, k := range scopeKey(sc) {
		st.perScope[k]++
	}
	st.perGroup[sc.Group]++
	if sc.Unlocked {
		st.perLock["unlocked"]++
	} else {
		st.perLock["locked"]++
	}
	switch {
	case sc.FailAt > 0 && sc.Mode == "restart":
		st.perFault["stop-and-reopen"]++
	case sc.FailAt > 0 && sc.Mode == "lock":
		st.perFault["lock-during-sync"]++
	case sc.FailAt > 0:
		st.perFault["self-retry"]++
	default:
		st.perFault["none"]++
	}
	cut := m.CutInMid
	if os.Getenv(envRole) != "b2" {
		cut = false
		// real batch size: a cut after height 2000 between two paying blocks
		lo, hi := int32(0), int32(0)
		for _, h := range m.Txs {
			if lo == 0 || h < lo {
				lo = h
			}
			if h > hi {
				hi = h
			}
		}
		cut = lo != 0 && lo <= 2000 && hi > 2000
	}
	if m.Jump || cut || sc.FailAt > 0 {
		// distinct: the same scenario reached through two groups counts once
		c := *sc
		c.Group = ""
		h := fnv.New64a()
		fmt.Fprintf(h, "%s|%s", os.Getenv(envRole), c.String())
		st.nontrivial[fmt.Sprintf("%016x", h.Sum64())] = true
	}
	if sc.PartB {
		st.partB++
		if res.birthday > 0 {
			st.partBNontrivial++
		}
		st.bdayOutcomes[fmt.Sprintf("tip=%d first-possible=%d birthday-block=%d scan-start=%d", m.Chain.Tip.Height, firstPossible(sc, m), res.birthday, res.startedAt)] = true
	}
	if res.obs != "" {
		st.states[res.obs] = true
	}
	if len(st.samples) < 3 && (st.runs == 1 || st.runs%211 == 7) {
		st.samples = append(st.samples, sc.String()+" => "+res.obs)
	}
	// One root cause shows up in several clauses (a missed address also means
	// missing credits, balance, unspent outputs, next index). Per execution the
	// highest-priority failing ledger clause and the birthday clause are
	// reported; the order below is from cause to consequence.
	reported := map[bool]bool{}
	fails := append([]failure{}, res.fails...)
	sort.SliceStable(fails, func(i, j int) bool { return clauseRank(fails[i].sig) < clauseRank(fails[j].sig) })
	for _, f := range fails {
		isBirthday := strings.HasPrefix(f.sig, "birthday:")
		if reported[isBirthday] {
			continue
		}
		reported[isBirthday] = true
		run.Violation(f.sig, f.msg+" :: "+sc.String(), map[string]interface{}{"kind": "c16", "role": os.Getenv(envRole), "scenario": sc})
	}
}

var clauseOrder = []string{"sync-keeps-failing", "address-missed", "address-wrong-path", "tx-missing", "spend-missed", "tx-wrong-block",
	"tx-credits", "not-marked-used", "balance-counts-spent-output", "unspent-extra", "unspent-missing", "unspent-amount", "balance",
	"next-index-not-above-highest-used", "account-properties", "synced-to"}

func clauseRank(sig string) int {
	for i, c := range clauseOrder {
		if strings.Contains(sig, ":"+c) {
			return i
		}
	}
	return len(clauseOrder)
}

func runJob(run *ev.Run, st *stats, worker int, ref *Ref, j job, mine bool, faultCtr *int) {
	if (!j.faults || j.local) && !mine {
		return
	}
	m, err := buildModel(j.sc, ref)
	if err != nil {
		ev.Fatal("scenario: %v", err)
	}
	c0 := cpuMs()
	res := execute(worker, j.sc, ref)
	if mine {
		account(run, st, j.sc, res, m)
		st.groupMs[j.sc.Group] += cpuMs() - c0
	}
	if !j.faults || len(res.fails) > 0 {
		return
	}
	modes := j.modes
	if modes == nil {
		modes = []string{"retry", "restart", "lock"}
	}
	first := 1
	if j.afterFirstFilter {
		first = res.calls + 1
		for i, c := range res.trace {
			if strings.HasPrefix(c, "filter:") {
				first = i + 2
				break
			}
		}
	}
	for p := first; p <= res.calls; p++ {
		for _, mode := range modes {
			own := mine
			if !j.local {
				own = ev.Mine(*faultCtr)
				*faultCtr++
			}
			if !own {
				continue
			}
			if run.Expired() {
				st.exhaustive = false
				return
			}
			c := *j.sc
			c.FailAt, c.Mode = p, mode
			c1 := cpuMs()
			r2 := execute(worker, &c, ref)
			st.faultPositions++
			account(run, st, &c, r2, m)
			st.groupMs[c.Group+"-faults"] += cpuMs() - c1
		}
	}
}

// asymmetric builds a base pattern for the resume group A6/R3: before the
// interruption one branch of a scope gets ahead of the other by d keys
// (behind = number of keys the other branch has used: 0 or 1), afterwards the
// branch that was ahead is paid at its next in-window index (jump: at the far
// end of the window), the other branch at its next index, and one block later
// the ahead branch once more. npre returns the number of blocks before that.
func asymmetric(group string, W uint32, si int, d int, aheadInternal bool, behind int, jump bool, lead int, unlocked bool) (*Scenario, int) {
	sc := &Scenario{Group: group, W: W, Pairs: []Pair{AllPairs[2*si], AllPairs[2*si+1]}, Lead: lead, Unlocked: unlocked}
	ai, bi := 0, 1
	if aheadInternal {
		ai, bi = 1, 0
	}
	c := behind + d // key count the ahead branch reaches
	npre := 0
	for k := 0; ; k++ {
		idx := (k+1)*int(W) - 1
		if idx > c-1 {
			idx = c - 1
		}
		blk := []Pay{{ai, uint32(idx)}}
		if k == 0 && behind == 1 {
			blk = append(blk, Pay{bi, 0})
		}
		sort.Slice(blk, func(i, j int) bool { return blk[i].Pair < blk[j].Pair })
		sc.Blocks = append(sc.Blocks, blk)
		npre++
		if idx == c-1 {
			break
		}
	}
	next := c
	if jump {
		next = c + int(W) - 1
	}
	post := []Pay{{ai, uint32(next)}, {bi, uint32(behind)}}
	sort.Slice(post, func(i, j int) bool { return post[i].Pair < post[j].Pair })
	sc.Blocks = append(sc.Blocks, post, []Pay{{ai, uint32(next + 1)}})
	return sc, npre
}

// asymBases enumerates the asymmetric family for the given scopes.
func asymBases(group string, scopes []int, unlockedFor func(si int) bool, leadOf func(npre int) []int, f func(*Scenario)) {
	for W := uint32(1); W <= 3; W++ {
		for _, si := range scopes {
			for _, d := range []int{int(W), int(W) + 1} {
				for _, aheadInt := range []bool{true, false} {
					for behind := 0; behind <= 1; behind++ {
						for _, jump := range []bool{false, true} {
							if jump && W == 1 {
								continue
							}
							_, npre := asymmetric(group, W, si, d, aheadInt, behind, jump, 0, false)
							for _, lead := range leadOf(npre) {
								sc, _ := asymmetric(group, W, si, d, aheadInt, behind, jump, lead, unlockedFor(si))
								f(sc)
							}
						}
					}
				}
			}
		}
	}
}

// countOnly prints the number of jobs per group (development aid).
func countOnly(run *ev.Run) {
	for _, role := range []string{"", "b2"} {
		for _, th := range []bool{false, true} {
			per := map[string]int{}
			generate(role, th, nil, func(j job) {
				k := j.sc.Group
				if j.faults {
					k += "(x faults)"
				}
				per[k]++
			})
			var ks []string
			tot := 0
			for k, v := range per {
				ks = append(ks, fmt.Sprintf("%s=%d", k, v))
				tot += v
			}
			sort.Strings(ks)
			fmt.Printf("role=%q thorough=%v total=%d %v\n", role, th, tot, ks)
		}
	}
	ev.Cleanup()
	os.Exit(0)
}

// replay re-executes the scenario of a replay file: replay <file> [times].
func replay(args []string) {
	if len(args) < 1 {
		ev.Fatal("usage: replay <replay.json>")
	}
	b, err := os.ReadFile(args[0])
	if err != nil {
		ev.Fatal("%v", err)
	}
	var v struct {
		Replay struct {
			Kind     string    `json:"kind"`
			Role     string    `json:"role"`
			Scenario *Scenario `json:"scenario"`
			Window   uint32    `json:"window"`
			Invalid  []uint32  `json:"invalid"`
			Ops      []cOp     `json:"ops"`
		} `json:"replay"`
	}
	if err := json.Unmarshal(b, &v); err != nil {
		ev.Fatal("%v", err)
	}
	fails := 0
	if v.Replay.Kind == "c16-partc" {
		_, _, fs, _ := cReplay(cConfig{W: v.Replay.Window, Invalid: v.Replay.Invalid}, v.Replay.Ops)
		for _, f := range fs {
			fmt.Printf("  FAIL %s: %s\n", f.sig, f.msg)
			fails++
		}
	} else {
		if v.Replay.Role == "b2" && os.Getenv(envRole) != "b2" {
			// recorded by the batch-size-2 variant: hand over to that binary
			c := exec.Command(b2Path(), "replay", args[0])
			c.Env = append(os.Environ(), envRole+"=b2")
			c.Stdout, c.Stderr = os.Stdout, os.Stderr
			err := c.Run()
			ev.Cleanup()
			if ee, ok := err.(*exec.ExitError); ok {
				os.Exit(ee.ExitCode())
			}
			if err != nil {
				ev.Fatal("cannot run %s: %v", b2Path(), err)
			}
			os.Exit(0)
		}
		ref, err := NewRef(seedName)
		if err != nil {
			ev.Fatal("%v", err)
		}
		res := execute(0, v.Replay.Scenario, ref)
		fmt.Printf("scenario: %s\nbackend calls: %v\nfilter ranges: %s\nobservation: %s\n", v.Replay.Scenario, tail(res.trace, 40), rangesText(res.filtered), res.obs)
		for _, f := range res.fails {
			fmt.Printf("  FAIL %s: %s\n", f.sig, f.msg)
			fails++
		}
	}
	ev.Cleanup()
	if fails > 0 {
		fmt.Println("replay: violation reproduced")
		os.Exit(1)
	}
	fmt.Println("replay: no oracle failure")
	os.Exit(0)
}

// cpuMs returns the CPU time (user+system) of this process in milliseconds
// (reported per group as a sizing aid; no oracle looks at it).
func cpuMs() int {
	var ru syscall.Rusage
	if syscall.Getrusage(syscall.RUSAGE_SELF, &ru) != nil {
		return 0
	}
	return int(ru.Utime.Sec*1000+ru.Utime.Usec/1000) + int(ru.Stime.Sec*1000+ru.Stime.Usec/1000)
}
