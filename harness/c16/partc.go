package c16

import (
	"crypto/sha256"
	"fmt"
	"sort"
	"strings"

	"github.com/btcsuite/btcd/btcutil"
	"github.com/btcsuite/btcwallet/wallet"

	"verif/harness/wsim"
)

// PART C: explicit-state search of wallet.BranchRecoveryState against a
// set-based reference. Operations: "expand" = ExtendHorizon followed by the
// derivation loop of expandScopeHorizons (AddAddr for valid children,
// MarkInvalidChild for the chosen invalid ones), "found(i)" = ReportFound(i)
// for a valid index below the horizon. The object cannot be copied, so every
// state is re-reached by replaying its shortest operation sequence.

type cOp struct {
	Expand bool   `json:"expand,omitempty"`
	Found  uint32 `json:"found"`
}

func (o cOp) String() string {
	if o.Expand {
		return "expand"
	}
	return fmt.Sprintf("found(%d)", o.Found)
}

type cConfig struct {
	W       uint32
	Invalid []uint32
}

type cRef struct {
	found   map[uint32]bool
	derived map[uint32]bool
	horizon uint32 // next index the derivation loop would look at
}

func fakeAddr(i uint32) btcutil.Address {
	h := sha256.Sum256([]byte(fmt.Sprintf("c16-partc-%d", i)))
	a, _ := btcutil.NewAddressPubKeyHash(h[:20], wsim.Params)
	return a
}

type cFail struct{ sig, msg string }

// cReplay runs ops on a fresh BranchRecoveryState and the reference; the
// invariants are evaluated after every operation.
func cReplay(cfg cConfig, ops []cOp) (brs *wallet.BranchRecoveryState, ref *cRef, fails []cFail, evals int) {
	inv := map[uint32]bool{}
	for _, i := range cfg.Invalid {
		inv[i] = true
	}
	brs = wallet.NewBranchRecoveryState(cfg.W)
	ref = &cRef{found: map[uint32]bool{}, derived: map[uint32]bool{}}
	fail := func(sig, f string, a ...interface{}) {
		fails = append(fails, cFail{"branch-state:" + sig, fmt.Sprintf(f, a...)})
	}
	for _, op := range ops {
		if op.Expand {
			cur, delta := brs.ExtendHorizon()
			// the loop of expandScopeHorizons
			count, child := uint32(0), cur
			for count < delta {
				if inv[child] {
					brs.MarkInvalidChild(child)
					child++
					continue
				}
				brs.AddAddr(child, fakeAddr(child))
				ref.derived[child] = true
				child++
				count++
			}
			if delta > 0 || child > ref.horizon {
				ref.horizon = child
			}
			// invariant 1: W valid derived addresses beyond the last found one
			nu := refNextUnfound(ref)
			valid := 0
			for i := range brs.Addrs() {
				if i >= nu {
					valid++
				}
			}
			evals++
			if uint32(valid) < cfg.W {
				fail("window-short", "after expand only %d derived addresses at or beyond index %d (next unfound), window %d", valid, nu, cfg.W)
			}
			// invariant 2: no holes: every valid index below the horizon is watched
			evals++
			for i := uint32(0); i < child; i++ {
				if inv[i] {
					continue
				}
				a := brs.GetAddr(i)
				if a == nil {
					fail("hole-in-horizon", "valid index %d below the horizon %d has no watched address", i, child)
					break
				}
				if a.String() != fakeAddr(i).String() {
					fail("wrong-address", "index %d maps to the address registered for another index", i)
					break
				}
			}
			// invariant 3: a second expand derives nothing
			evals++
			if _, d2 := brs.ExtendHorizon(); d2 != 0 {
				fail("expand-not-idempotent", "ExtendHorizon directly after a completed expansion asks for %d more addresses", d2)
			}
		} else {
			brs.ReportFound(op.Found)
			ref.found[op.Found] = true
		}
		// invariant 4: NextUnfound = highest found + 1
		evals++
		if got, want := brs.NextUnfound(), refNextUnfound(ref); got != want {
			fail("next-unfound", "NextUnfound() = %d, highest reported index + 1 = %d", got, want)
		}
		// invariant 5: invalid children between next unfound and horizon are counted
		evals++
		wantInv := uint32(0)
		for i := range inv {
			if i >= refNextUnfound(ref) && i < ref.horizon && cInvalidSeen(inv, ref, i) {
				wantInv++
			}
		}
		if got := brs.NumInvalidInHorizon(); got != wantInv {
			fail("invalid-count", "NumInvalidInHorizon() = %d, reference %d", got, wantInv)
		}
	}
	return
}

// cInvalidSeen: an invalid index is known to the state once the derivation
// loop has walked over it (it is below the reference horizon).
func cInvalidSeen(inv map[uint32]bool, ref *cRef, i uint32) bool { return inv[i] && i < ref.horizon }

func refNextUnfound(ref *cRef) uint32 {
	nu := uint32(0)
	for i := range ref.found {
		if i+1 > nu {
			nu = i + 1
		}
	}
	return nu
}

func cStateKey(cfg cConfig, brs *wallet.BranchRecoveryState, ref *cRef) string {
	var ks []int
	for i := range brs.Addrs() {
		ks = append(ks, int(i))
	}
	sort.Ints(ks)
	return fmt.Sprintf("W%d inv%v nu=%d hz=%d ninv=%d addrs=%v", cfg.W, cfg.Invalid, brs.NextUnfound(), ref.horizon, brs.NumInvalidInHorizon(), ks)
}

type cStats struct {
	states, transitions, evals, withInvalid int
}

// partC explores one configuration to the bound (next unfound < maxNU).
func partC(cfg cConfig, maxNU uint32, violation func(sig, msg string, replay interface{})) cStats {
	var st cStats
	type node struct{ ops []cOp }
	visited := map[string]bool{}
	queue := []node{{}}
	{
		brs, ref, _, _ := cReplay(cfg, nil)
		visited[cStateKey(cfg, brs, ref)] = true
		st.states++
	}
	for len(queue) > 0 {
		n := queue[0]
		queue = queue[1:]
		brs, _, _, _ := cReplay(cfg, n.ops)
		if brs.NextUnfound() >= maxNU {
			continue
		}
		// successors
		var succ []cOp
		succ = append(succ, cOp{Expand: true})
		var ks []int
		for i := range brs.Addrs() {
			ks = append(ks, int(i))
		}
		sort.Ints(ks)
		for _, i := range ks {
			succ = append(succ, cOp{Found: uint32(i)})
		}
		for _, op := range succ {
			ops := append(append([]cOp{}, n.ops...), op)
			b2, r2, fails, evals := cReplay(cfg, ops)
			st.transitions++
			st.evals += evals
			for _, f := range fails {
				var names []string
				for _, o := range ops {
					names = append(names, o.String())
				}
				violation(f.sig, fmt.Sprintf("%s :: W=%d invalid children %v ops [%s]", f.msg, cfg.W, cfg.Invalid, strings.Join(names, " ")),
					map[string]interface{}{"kind": "c16-partc", "window": cfg.W, "invalid": cfg.Invalid, "ops": ops})
			}
			if len(fails) > 0 {
				continue
			}
			k := cStateKey(cfg, b2, r2)
			if !visited[k] {
				visited[k] = true
				st.states++
				if b2.NumInvalidInHorizon() > 0 {
					st.withInvalid++
				}
				queue = append(queue, node{ops})
			}
		}
	}
	return st
}

// cConfigs: windows 1..3, at most two invalid children among the first 8 indices.
func cConfigs() []cConfig {
	var out []cConfig
	for W := uint32(1); W <= 3; W++ {
		out = append(out, cConfig{W: W})
		for a := uint32(0); a < 8; a++ {
			out = append(out, cConfig{W: W, Invalid: []uint32{a}})
		}
		for a := uint32(0); a < 8; a++ {
			for b := a + 1; b < 8; b++ {
				out = append(out, cConfig{W: W, Invalid: []uint32{a, b}})
			}
		}
	}
	return out
}
