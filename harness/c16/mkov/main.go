// mkov generates the build overlays of C16 from the CURRENT tree:
//
//	ov-b2.json    /repo/wallet/wallet.go with recoveryBatchSize rewritten to 2
//	ov-main.json  nothing replaced (or only the files of a demonstration mutation)
//
// -mut N additionally applies one property-breaking change (used only to show
// that the check detects it; /repo is never edited). Any pattern that does not
// match exactly as often as expected is a loud failure (exit 2).
package main

import (
	"encoding/json"
	"flag"
	"fmt"
	"os"
	"os/exec"
	"path/filepath"
	"regexp"
	"strings"
)

type edit struct {
	file     string
	old, new string
	count    int
}

var mutations = map[int][]edit{
	// 1: ExtendHorizon off by one (window-1)
	1: {{"/repo/wallet/recovery.go", "minValidHorizon := brs.nextUnfound + brs.recoveryWindow + nInvalid",
		"minValidHorizon := brs.nextUnfound + brs.recoveryWindow - 1 + nInvalid", 1}},
	// 2: extendFoundAddresses extends the external branch to lastFound-1 only
	2: {{"/repo/wallet/wallet.go", "err := scopedMgr.ExtendExternalAddresses(\n\t\t\tns, waddrmgr.DefaultAccountNum, exLastFound,",
		"if exLastFound > 0 {\n\t\t\texLastFound--\n\t\t}\n\t\terr := scopedMgr.ExtendExternalAddresses(\n\t\t\tns, waddrmgr.DefaultAccountNum, exLastFound,", 1}},
	// 3: MarkUsed skipped in extendFoundAddresses
	3: {{"/repo/wallet/wallet.go", "err := scopedMgr.MarkUsed(ns, addr)", "var err error\n\t\t\t_ = addr", 2}},
	// 4: recoverScopedAddresses does not continue with the rest of the batch after a match
	4: {{"/repo/wallet/wallet.go", "\tif len(batch) > 0 {\n\t\tgoto expandHorizons\n\t}",
		"\tif len(batch) > 0 {\n\t\tif len(batch) < 0 {\n\t\t\tgoto expandHorizons\n\t\t}\n\t\treturn nil\n\t}", 1}},
	// 5: BlockFilterer ignores internal addresses
	5: {{"/repo/chain/block_filterer.go", "if scopedIndex, ok := bf.InReverseFilter[addrStr]; ok {",
		"if scopedIndex, ok := bf.InReverseFilter[addrStr]; ok && len(addrStr) == 0 {", 1}},
	// 6: found outpoints are not added to the watched set (later spends missed)
	6: {{"/repo/wallet/wallet.go", "recoveryState.AddWatchedOutPoint(&outPoint, addr)", "_, _ = outPoint, addr", 1}},
	// 8: like 3 but ALSO in addRelevantTx (3 alone is masked: every found address
	// comes with its relevant transaction, whose addRelevantTx marks it used again)
	8: {{"/repo/wallet/wallet.go", "err := scopedMgr.MarkUsed(ns, addr)", "var err error\n\t\t\t_ = addr", 2},
		{"/repo/wallet/chainntfns.go", "err = w.Manager.MarkUsed(addrmgrNs, addr)", "err = nil", 1}},
	// 9: Resurrect does not put the credits found before an interruption back
	// into the watched set (a resumed recovery misses their spends)
	9: {{"/repo/wallet/recovery.go", "rm.state.AddWatchedOutPoint(&credit.OutPoint, addrs[0])", "_ = addrs", 1}},
	// 10: one-line equivalent of the seeded change /verif/seeded/C16-1: Resurrect
	// restores the INTERNAL branch with the EXTERNAL key count
	10: {{"/repo/wallet/recovery.go", "internalCount := acctProperties.InternalKeyCount", "internalCount := acctProperties.ExternalKeyCount", 1}},
	// 90: NOT a mutation but a diagnostic: candidate repair for the finding
	// "retry:address-missed" (extendAddresses updates next index / cache in memory
	// inside the transaction; here the update is deferred to OnCommit as
	// nextAddresses does). Used to confirm the root cause only.
	90: {{"/repo/waddrmgr/scoped_manager.go", "\t// Finally update the next address tracking and add the addresses to\n\t// the cache after the newly generated addresses have been successfully\n\t// added to the db.\n\tfor _, info := range addressInfo {",
		"\tns.Tx().OnCommit(func() {\n\ts.mtx.Lock()\n\tdefer s.mtx.Unlock()\n\tfor _, info := range addressInfo {", 1},
		{"/repo/waddrmgr/scoped_manager.go", "\t\tacctInfo.lastExternalAddr = ma\n\t}\n\n\treturn nil\n}", "\t\tacctInfo.lastExternalAddr = ma\n\t}\n\t})\n\n\treturn nil\n}", 1}},
	// 7: locateBirthdayBlock moves the lower bound past the probed block
	7: {{"/repo/wallet/wallet.go", "\t\t\tleft = mid\n", "\t\t\tleft = mid + 1\n", 1}},
}

func die(f string, a ...interface{}) {
	fmt.Fprintf(os.Stderr, "HARNESS-ERROR: c16/mkov: "+f+"\n", a...)
	os.Exit(2)
}

func main() {
	out := flag.String("out", "", "output directory")
	mut := flag.Int("mut", 0, "demonstration mutation (0 = none)")
	batch := flag.Int("batch", 2, "scaled recoveryBatchSize")
	patchFile := flag.String("patch", "", "unified diff (paths a/.. b/.. relative to /repo) applied to copies of the tree files (demonstration)")
	flag.Parse()
	if *out == "" {
		die("-out required")
	}
	if err := os.MkdirAll(*out, 0o755); err != nil {
		die("%v", err)
	}
	// file -> current content (starting from the tree)
	content := map[string]string{}
	load := func(f string) string {
		if s, ok := content[f]; ok {
			return s
		}
		b, err := os.ReadFile(f)
		if err != nil {
			die("%v", err)
		}
		content[f] = string(b)
		return content[f]
	}
	mutated := map[string]bool{}
	if *mut != 0 {
		eds, ok := mutations[*mut]
		if !ok {
			die("unknown mutation %d", *mut)
		}
		for _, e := range eds {
			s := load(e.file)
			if n := strings.Count(s, e.old); n != e.count {
				die("mutation %d: pattern %q occurs %d times in %s, expected %d", *mut, e.old, n, e.file, e.count)
			}
			content[e.file] = strings.ReplaceAll(s, e.old, e.new)
			mutated[e.file] = true
		}
	}
	if *patchFile != "" {
		// apply the diff to copies of the touched files with patch(1)
		pb, err := os.ReadFile(*patchFile)
		if err != nil {
			die("%v", err)
		}
		tmp := filepath.Join(*out, "patchtree")
		os.RemoveAll(tmp)
		var files []string
		for _, line := range strings.Split(string(pb), "\n") {
			if strings.HasPrefix(line, "+++ b/") {
				files = append(files, strings.TrimSpace(strings.TrimPrefix(line, "+++ b/")))
			}
		}
		if len(files) == 0 {
			die("no '+++ b/<path>' line in %s", *patchFile)
		}
		for _, f := range files {
			dst := filepath.Join(tmp, f)
			if err := os.MkdirAll(filepath.Dir(dst), 0o755); err != nil {
				die("%v", err)
			}
			if err := os.WriteFile(dst, []byte(load("/repo/"+f)), 0o644); err != nil {
				die("%v", err)
			}
		}
		abs, _ := filepath.Abs(*patchFile)
		cmd := exec.Command("patch", "-p1", "--no-backup-if-mismatch", "-d", tmp, "-i", abs)
		if o, err := cmd.CombinedOutput(); err != nil {
			die("patch does not apply to the current tree: %v\n%s", err, o)
		}
		for _, f := range files {
			b, err := os.ReadFile(filepath.Join(tmp, f))
			if err != nil {
				die("%v", err)
			}
			content["/repo/"+f] = string(b)
			mutated["/repo/"+f] = true
		}
	}
	const wgo = "/repo/wallet/wallet.go"
	src := load(wgo)
	re := regexp.MustCompile(`(?m)^(\s*recoveryBatchSize\s*=\s*)\d+\s*$`)
	locs := re.FindAllStringIndex(src, -1)
	if len(locs) != 1 {
		die("declaration `recoveryBatchSize = <n>` found %d times in %s, expected exactly once", len(locs), wgo)
	}
	b2src := re.ReplaceAllString(src, fmt.Sprintf("${1}%d", *batch))
	if b2src == src {
		die("recoveryBatchSize is already %d", *batch)
	}
	write := func(name, s string) string {
		p := filepath.Join(*out, name)
		if err := os.WriteFile(p, []byte(s), 0o644); err != nil {
			die("%v", err)
		}
		return p
	}
	mainRep := map[string]string{}
	b2Rep := map[string]string{}
	for f := range mutated {
		p := write("mut-"+strings.ReplaceAll(strings.TrimPrefix(f, "/repo/"), "/", "_"), content[f])
		mainRep[f] = p
		b2Rep[f] = p
	}
	b2Rep[wgo] = write("b2-wallet.go", b2src)
	for name, rep := range map[string]map[string]string{"ov-main.json": mainRep, "ov-b2.json": b2Rep} {
		j, _ := json.MarshalIndent(map[string]interface{}{"Replace": rep}, "", " ")
		write(name, string(j))
	}
}
