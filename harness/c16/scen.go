package c16

import (
	"crypto/sha256"
	"fmt"
	"sort"
	"strings"
	"time"

	"github.com/btcsuite/btcd/btcutil"
	"github.com/btcsuite/btcd/chaincfg/chainhash"
	"github.com/btcsuite/btcd/txscript"
	"github.com/btcsuite/btcd/wire"

	"verif/harness/wsim"
)

// Pay is one payment: an output paying the address pair/index.
type Pay struct {
	Pair  int    `json:"pair"` // index into Scenario.Pairs
	Index uint32 `json:"index"`
}

// Spend is a transaction spending the output of an earlier payment.
type Spend struct {
	Block  int `json:"block"`  // pattern block (0-based) that mines the spending tx
	Of     int `json:"of"`     // ordinal (block-major) of the spent payment
	Change int `json:"change"` // ordinal of the payment of block Block carried as the change output, -1 = none
}

// Scenario is one usage pattern plus the way the wallet is restored.
type Scenario struct {
	Group    string  `json:"group"`
	W        uint32  `json:"window"`
	Pairs    []Pair  `json:"pairs"`
	Lead     int     `json:"lead_empty_blocks"` // empty blocks before the pattern (shifts the batch cuts)
	Blocks   [][]Pay `json:"blocks"`            // pattern blocks
	Spend    *Spend  `json:"spend,omitempty"`
	Unlocked bool    `json:"unlocked"`
	// interruption at the FailAt-th eligible backend call (GetBlockHash /
	// FilterBlocks) of the start-up synchronisation. Mode:
	//   "retry"   that one call fails; the running wallet retries by itself
	//   "restart" that call and every later one fail; the wallet is stopped
	//             while failing, reopened on the same file and re-attached
	//   "lock"    the call is held while Wallet.Lock() is requested (locking
	//             ends a running recovery: "forced shutdown"), then answered;
	//             the wallet retries by itself, now locked
	FailAt int    `json:"fail_at,omitempty"`
	Mode   string `json:"mode,omitempty"`
	// Part B: explicit header time stamps (hours relative to the stored
	// birthday) for genesis' successor blocks and the birthday shift.
	Hours   []int `json:"hours,omitempty"`    // per block (Lead+pattern), hours relative to the STORED birthday
	GenHour int   `json:"gen_hour,omitempty"` // genesis time stamp relative to the stored birthday, hours
	PartB   bool  `json:"part_b,omitempty"`
}

func (sc *Scenario) String() string {
	var b strings.Builder
	fmt.Fprintf(&b, "%s W=%d", sc.Group, sc.W)
	if sc.Lead > 0 {
		fmt.Fprintf(&b, " lead=%d", sc.Lead)
	}
	for t, blk := range sc.Blocks {
		fmt.Fprintf(&b, " b%d{", t+1+sc.Lead)
		for i, p := range blk {
			if i > 0 {
				b.WriteString(",")
			}
			fmt.Fprintf(&b, "%s#%d", sc.Pairs[p.Pair], p.Index)
		}
		b.WriteString("}")
	}
	if sc.Spend != nil {
		fmt.Fprintf(&b, " spend(pay%d in b%d change=%d)", sc.Spend.Of, sc.Spend.Block+1+sc.Lead, sc.Spend.Change)
	}
	if sc.Unlocked {
		b.WriteString(" unlocked")
	}
	if sc.FailAt > 0 {
		fmt.Fprintf(&b, " fault@%d/%s", sc.FailAt, sc.Mode)
	}
	if sc.PartB {
		fmt.Fprintf(&b, " genesis=%+dh blocks=%v (hours relative to stored birthday)", sc.GenHour, sc.Hours)
	}
	return b.String()
}

// out is one paid output of the model.
type out struct {
	Ord    int
	Pair   Pair
	Index  uint32
	Addr   btcutil.Address
	Amount int64
	OP     wire.OutPoint
	Height int32
	Spent  bool
}

// model is the chain plus the ledger truth derived from it.
type model struct {
	Chain   *wsim.Chain
	Outs    []*out
	Txs     map[chainhash.Hash]int32 // relevant tx -> height
	SpendTx *chainhash.Hash
	HiUsed  map[Pair]int64 // highest paid index per pair
	// non-triviality facts
	Jump     bool // some first use jumped over at least one unused index
	CutInMid bool // a batch cut (size 2) lies between two paying blocks
}

func amountOf(ord int) int64 { return int64(1) << uint(12+ord) }

func externalInput(tag string) *wire.TxIn {
	h := sha256.Sum256([]byte("c16-external-" + tag))
	return wire.NewTxIn(&wire.OutPoint{Hash: chainhash.Hash(h), Index: 0}, nil, nil)
}

// foreignScript pays somebody else.
func foreignScript(tag string) []byte {
	h := sha256.Sum256([]byte("c16-foreign-" + tag))
	a, _ := btcutil.NewAddressPubKeyHash(h[:20], wsim.Params)
	pk, _ := txscript.PayToAddrScript(a)
	return pk
}

// buildModel validates the look-ahead condition of the statement and builds
// chain and ledger. An invalid scenario is a harness error.
func buildModel(sc *Scenario, ref *Ref) (*model, error) {
	c := wsim.NewChain()
	m := &model{Chain: c, Txs: map[chainhash.Hash]int32{}, HiUsed: map[Pair]int64{}}
	stored := c.Genesis.Header.Timestamp.Add(-time.Duration(sc.GenHour) * time.Hour)
	tsOf := func(pos int) time.Time {
		if !sc.PartB {
			return time.Time{}
		}
		return stored.Add(time.Duration(sc.Hours[pos]) * time.Hour)
	}
	for i := 0; i < sc.Lead; i++ {
		addBlock(c, nil, tsOf(i))
	}
	hi := map[int]int64{}
	paidSoFar := map[[2]int64]bool{}
	for i := range sc.Pairs {
		hi[i] = -1
	}
	ord := 0
	// ordinal -> block for validation of the spend
	var ordBlock []int
	for _, blk := range sc.Blocks {
		for range blk {
			ordBlock = append(ordBlock, 0)
		}
	}
	o := 0
	for t, blk := range sc.Blocks {
		for range blk {
			ordBlock[o] = t
			o++
		}
	}
	if sp := sc.Spend; sp != nil {
		if sp.Of < 0 || sp.Of >= len(ordBlock) || sp.Block < ordBlock[sp.Of] || sp.Block >= len(sc.Blocks) {
			return nil, fmt.Errorf("invalid spend %+v", *sp)
		}
		if sp.Change >= 0 && (sp.Change >= len(ordBlock) || ordBlock[sp.Change] != sp.Block || sp.Change == sp.Of) {
			return nil, fmt.Errorf("invalid change %+v", *sp)
		}
	}
	firstPaying, lastPaying := int32(0), int32(0)
	for t, blk := range sc.Blocks {
		height := int32(sc.Lead + t + 1)
		var txs []*wire.MsgTx
		byPair := map[int]*wire.MsgTx{}
		var pairOrder []int
		type pend struct {
			o   *out
			tx  *wire.MsgTx
			idx uint32
		}
		var pends []pend
		var spendTx *wire.MsgTx
		if sc.Spend != nil && sc.Spend.Block == t {
			spendTx = wire.NewMsgTx(2)
		}
		newHi := map[int]int64{}
		for _, p := range blk {
			if p.Pair < 0 || p.Pair >= len(sc.Pairs) {
				return nil, fmt.Errorf("bad pair index")
			}
			// the statement's condition: index < W beyond the highest index paid in EARLIER blocks
			if int64(p.Index) >= hi[p.Pair]+1+int64(sc.W) {
				return nil, fmt.Errorf("scenario violates the look-ahead condition: %s", sc)
			}
			if v, ok := newHi[p.Pair]; !ok || int64(p.Index) > v {
				newHi[p.Pair] = int64(p.Index)
			}
			pair := sc.Pairs[p.Pair]
			addr, err := ref.Addr(pair, p.Index)
			if err != nil {
				return nil, err
			}
			pk, err := txscript.PayToAddrScript(addr)
			if err != nil {
				return nil, err
			}
			ot := &out{Ord: ord, Pair: pair, Index: p.Index, Addr: addr, Amount: amountOf(ord), Height: height}
			var tx *wire.MsgTx
			if spendTx != nil && sc.Spend.Change == ord {
				tx = spendTx
			} else {
				tx = byPair[p.Pair]
				if tx == nil {
					tx = wire.NewMsgTx(2)
					tx.AddTxIn(externalInput(fmt.Sprintf("h%d-pair%d", height, p.Pair)))
					byPair[p.Pair] = tx
					pairOrder = append(pairOrder, p.Pair)
				}
			}
			tx.AddTxOut(wire.NewTxOut(ot.Amount, pk))
			pends = append(pends, pend{ot, tx, uint32(len(tx.TxOut) - 1)})
			m.Outs = append(m.Outs, ot)
			if v, ok := m.HiUsed[pair]; !ok || int64(p.Index) > v {
				m.HiUsed[pair] = int64(p.Index)
			}
			ord++
		}
		for _, p := range blk {
			paidSoFar[[2]int64{int64(p.Pair), int64(p.Index)}] = true
		}
		for k, v := range newHi {
			if v > hi[k] {
				hi[k] = v
				// a jump: the new highest index leaves an index below it that
				// has never been paid (in this or an earlier block)
				for i := int64(0); i < v; i++ {
					if !paidSoFar[[2]int64{int64(k), i}] {
						m.Jump = true
					}
				}
			}
		}
		for _, pi := range pairOrder {
			txs = append(txs, byPair[pi])
		}
		// outpoints of this block's funding outputs are final now
		for _, pe := range pends {
			if pe.tx != spendTx {
				pe.o.OP = wire.OutPoint{Hash: pe.tx.TxHash(), Index: pe.idx}
			}
		}
		if spendTx != nil {
			spent := m.Outs[sc.Spend.Of]
			spendTx.TxIn = append([]*wire.TxIn{wire.NewTxIn(&spent.OP, nil, nil)}, spendTx.TxIn...)
			if len(spendTx.TxOut) == 0 {
				spendTx.AddTxOut(wire.NewTxOut(spent.Amount-1, foreignScript("spend")))
			}
			spent.Spent = true
			txs = append(txs, spendTx)
			for _, pe := range pends {
				if pe.tx == spendTx {
					pe.o.OP = wire.OutPoint{Hash: spendTx.TxHash(), Index: pe.idx}
				}
			}
			h := spendTx.TxHash()
			m.SpendTx = &h
		}
		for _, tx := range txs {
			m.Txs[tx.TxHash()] = height
		}
		if len(txs) > 0 {
			if firstPaying == 0 {
				firstPaying = height
			}
			if lastPaying != 0 && (height-1)/2 != (lastPaying-1)/2 {
				// with batches of two blocks [1,2][3,4].. two paying
				// blocks in different batches have a cut between them
				m.CutInMid = true
			}
			lastPaying = height
		}
		addBlock(c, txs, tsOf(sc.Lead+t))
	}
	return m, nil
}

// truth returns the ledger truth: unspent outputs keyed by outpoint, balance.
func (m *model) truth() (map[wire.OutPoint]int64, int64) {
	u := map[wire.OutPoint]int64{}
	var bal int64
	for _, o := range m.Outs {
		if !o.Spent {
			u[o.OP] = o.Amount
			bal += o.Amount
		}
	}
	return u, bal
}

func sortedPairs(m map[Pair]int64) []Pair {
	var ps []Pair
	for p := range m {
		ps = append(ps, p)
	}
	sort.Slice(ps, func(i, j int) bool {
		if ps[i].Purpose != ps[j].Purpose {
			return ps[i].Purpose < ps[j].Purpose
		}
		return ps[i].Branch < ps[j].Branch
	})
	return ps
}
