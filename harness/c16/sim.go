package c16

import (
	"errors"
	"fmt"
	"os"
	"path/filepath"
	"sync"
	"time"

	"github.com/btcsuite/btcd/btcutil/hdkeychain"
	"github.com/btcsuite/btcd/chaincfg/chainhash"
	"github.com/btcsuite/btcd/wire"
	"github.com/btcsuite/btcwallet/chain"
	"github.com/btcsuite/btcwallet/snacl"
	"github.com/btcsuite/btcwallet/waddrmgr"
	"github.com/btcsuite/btcwallet/wallet"
	"github.com/btcsuite/btcwallet/walletdb"
	_ "github.com/btcsuite/btcwallet/walletdb/bdb"

	"verif/harness/wsim"
)

// ---------------------------------------------------------------------------
// wallet files

var (
	fastOnce sync.Once
	tmplMu   sync.Mutex
	tmpls    = map[string]string{}
)

func fastScrypt() {
	fastOnce.Do(func() {
		waddrmgr.SetSecretKeyGen(func(p *[]byte, _ *waddrmgr.ScryptOptions) (*snacl.SecretKey, error) {
			return snacl.NewSecretKey(p, 16, 8, 1)
		})
	})
}

// template is wsim.template with an explicit birthday: a wallet file created
// by the REAL wallet.Create from the named seed. waddrmgr stores birthday-48h.
func template(dir, seedName string, birthday time.Time) (string, error) {
	tmplMu.Lock()
	defer tmplMu.Unlock()
	key := fmt.Sprintf("%s|%s|%d", dir, seedName, birthday.Unix())
	if p, ok := tmpls[key]; ok {
		return p, nil
	}
	fastScrypt()
	path := filepath.Join(dir, fmt.Sprintf("c16-tmpl-%s-%d.db", seedName, birthday.Unix()))
	os.Remove(path)
	db, err := walletdb.Create("bdb", path, true, time.Minute, false)
	if err != nil {
		return "", err
	}
	root, err := hdkeychain.NewMaster(wsim.Seed(seedName), wsim.Params)
	if err != nil {
		db.Close()
		return "", err
	}
	err = wallet.Create(db, wsim.PubPass, wsim.PrivPass, root, wsim.Params, birthday)
	db.Close()
	if err != nil {
		return "", err
	}
	tmpls[key] = path
	return path, nil
}

func copyFile(src, dst string) error {
	b, err := os.ReadFile(src)
	if err != nil {
		return err
	}
	return os.WriteFile(dst, b, 0o644)
}

// ---------------------------------------------------------------------------
// backend: wsim's fake chain.Interface (model-backed answers, REAL
// chain.BlockFilterer) plus a notification channel owned by this package, a
// call trace, fault injection by call position and a record of the block
// ranges the wallet asked to filter.

var errInjected = errors.New("backend: injected failure")

type backend struct {
	*wsim.Backend
	ntfns chan interface{}

	mu       sync.Mutex
	calls    int           // fault-eligible calls so far (GetBlockHash, FilterBlocks)
	trace    []string      // fault-eligible calls in order
	failAt   int           // 1-based call number to fail; 0 = never
	mode     string        // retry | restart (fail every call from failAt on) | lock (hold the call)
	held     chan struct{} // signalled when the call of mode lock is being held
	release  chan struct{}
	injected int
	attempts int // syncWithChain attempts (it asks BackEnd() once per attempt)
	filtered [][]int32
	events   chan struct{} // poked on injected failure and on every attempt
}

func newBackend(c *wsim.Chain) *backend {
	return &backend{Backend: wsim.NewBackend(c), ntfns: make(chan interface{}), events: make(chan struct{}, 1),
		held: make(chan struct{}, 1), release: make(chan struct{})}
}

var _ chain.Interface = (*backend)(nil)

func (b *backend) Notifications() <-chan interface{} { return b.ntfns }

func (b *backend) poke() {
	select {
	case b.events <- struct{}{}:
	default:
	}
}

func (b *backend) BackEnd() string {
	b.mu.Lock()
	b.attempts++
	b.mu.Unlock()
	b.poke()
	return b.Backend.BackEnd()
}

// fault decides whether the eligible call fails (or is held, mode lock).
func (b *backend) fault(what string) bool {
	b.mu.Lock()
	b.calls++
	b.trace = append(b.trace, what)
	n := b.calls
	if b.failAt == 0 {
		b.mu.Unlock()
		return false
	}
	if b.mode == "lock" {
		b.mu.Unlock()
		if n == b.failAt {
			b.held <- struct{}{}
			<-b.release
		}
		return false
	}
	defer b.mu.Unlock()
	if n == b.failAt || (b.mode == "restart" && n > b.failAt) {
		b.injected++
		b.poke()
		return true
	}
	return false
}

func (b *backend) GetBlockHash(h int64) (*chainhash.Hash, error) {
	if b.fault(fmt.Sprintf("hash:%d", h)) {
		return nil, errInjected
	}
	return b.Backend.GetBlockHash(h)
}

func (b *backend) FilterBlocks(req *chain.FilterBlocksRequest) (*chain.FilterBlocksResponse, error) {
	var hs []int32
	for _, m := range req.Blocks {
		hs = append(hs, m.Height)
	}
	what := "filter:"
	if len(hs) > 0 {
		what = fmt.Sprintf("filter:%d-%d", hs[0], hs[len(hs)-1])
	}
	if b.fault(what) {
		return nil, errInjected
	}
	b.mu.Lock()
	b.filtered = append(b.filtered, hs)
	b.mu.Unlock()
	return b.Backend.FilterBlocks(req)
}

func (b *backend) snapshot() (calls, injected, attempts int, trace []string, filtered [][]int32) {
	b.mu.Lock()
	defer b.mu.Unlock()
	return b.calls, b.injected, b.attempts, append([]string{}, b.trace...), append([][]int32{}, b.filtered...)
}

// ---------------------------------------------------------------------------
// driver

type barrier struct{}

// sim is one wallet file driven against a model chain.
type sim struct {
	*wsim.Sim
	be *backend
}

func newSim(dir string, id int, seedName string, birthday time.Time, c *wsim.Chain) (*sim, error) {
	tp, err := template(dir, seedName, birthday)
	if err != nil {
		return nil, err
	}
	s := &wsim.Sim{Dir: dir, ID: id, SeedName: seedName, Chain: c,
		Path: filepath.Join(dir, fmt.Sprintf("c16-%d.db", id))}
	if err := copyFile(tp, s.Path); err != nil {
		return nil, err
	}
	return &sim{Sim: s}, nil
}

// attachResult says how the start-up synchronisation ended.
type attachResult int

const (
	attachDone    attachResult = iota // ClientConnected fully processed (sync succeeded)
	attachFailing                     // the injected permanent failure (mode restart) was hit; the wallet is retrying
	attachStuck                       // sync keeps failing although nothing (more) is injected
)

// attach connects a fresh backend and feeds ClientConnected. failAt/mode
// configure the interruption. Whether the wallet is stuck is decided by
// counting its sync attempts at the backend (event based, no clock).
func (x *sim) attach(failAt int, mode string) attachResult {
	x.be = newBackend(x.Chain)
	x.be.failAt, x.be.mode = failAt, mode
	locks := 0
	x.W.SynchronizeRPC(x.be)
	done := make(chan struct{})
	stop := make(chan struct{})
	go func() {
		select {
		case x.be.ntfns <- chain.ClientConnected{}:
		case <-stop:
			return
		}
		select {
		case x.be.ntfns <- barrier{}:
			close(done)
		case <-stop:
		}
	}()
	for {
		select {
		case <-done:
			return attachDone
		case <-x.be.held:
			// mode lock: request the lock while the call is pending, then answer it
			x.W.Lock()
			locks++
			close(x.be.release)
		case <-x.be.events:
			_, injected, attempts, _, _ := x.be.snapshot()
			if mode == "restart" && injected > 0 {
				close(stop)
				return attachFailing
			}
			// transient or no fault: one attempt per injected failure
			// plus one successful attempt is all a correct wallet needs.
			if attempts > injected+locks+3 {
				close(stop)
				return attachStuck
			}
		}
	}
}

func (x *sim) feed(n interface{}) {
	x.be.ntfns <- n
	x.be.ntfns <- barrier{}
}

// finishRescans answers the Rescan request with RescanFinished at the tip.
func (x *sim) finishRescans() {
	t := x.Chain.Tip
	h := t.Hash
	x.feed(&chain.RescanFinished{Hash: &h, Height: t.Height, Time: t.Header.Timestamp})
	x.Quiesce()
}

// ---------------------------------------------------------------------------
// chain helpers

// addBlock appends a block to the best chain; ts, when non-zero, replaces the
// default time stamp (prev + 10 min) before the hash is computed.
func addBlock(c *wsim.Chain, txs []*wire.MsgTx, ts time.Time) *wsim.Block {
	b := c.NewBlock(c.Tip, "a", txs)
	if !ts.IsZero() {
		delete(c.ByHash, b.Hash)
		b.Header.Timestamp = ts
		b.Hash = b.Header.BlockHash()
		c.ByHash[b.Hash] = b
	}
	c.Tip = b
	return b
}
