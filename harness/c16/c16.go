// Package c16 checks property C16 "Recovery from seed finds every used address
// within the look-ahead window" by bounded exhaustive enumeration of usage
// patterns executed on the REAL wallet (wsim: ClientConnected ->
// birthdaySanityCheck -> syncWithChain -> locateBirthdayBlock -> recovery ->
// FilterBlocks with the real chain.BlockFilterer -> rollback loop -> rescan)
// and by an explicit-state search of wallet.BranchRecoveryState.
//
// Two binaries take part: the one built from the unchanged tree (real
// recoveryBatchSize) and "-b2", built with an overlay that scales
// recoveryBatchSize to 2 so that every batch cut position occurs on chains of a
// few blocks. Each shard worker of the first runs the second as a child for the
// same shard and merges its result, so there is ONE evidence file.
package c16

import (
	"encoding/json"
	"fmt"
	"os"
	"os/exec"
	"path/filepath"
	"sort"
	"strings"

	"verif/harness/ev"
)

// ShardArgsPrefix is prepended to the arguments of the shard workers (the
// integration binary runs this check under a subcommand).
var ShardArgsPrefix []string

const (
	envRole  = "C16_ROLE"   // "" (real batch size) or "b2"
	envB2Bin = "C16_B2_BIN" // path of the binary built with recoveryBatchSize = 2
	envOnly  = "C16_ONLY"   // dev: comma separated list of groups to run
	defB2Bin = "/verif/bin/vh-c16-b2"
	nShards  = 16
)

// stats are the measured counts of one process; merged by summation / union.
type stats struct {
	runs, recoveries, evals, transitions        int
	nontrivial                                  map[string]bool // hashes of distinct non-trivial scenarios
	perW, perScope, perGroup, perFault, perLock map[string]int
	groupMs                                     map[string]int
	states                                      map[string]bool
	samples                                     []string
	faultPositions                              int
	partB, partBNontrivial                      int
	bdayOutcomes                                map[string]bool
	c                                           cStats
	exhaustive                                  bool
}

func newStats() *stats {
	return &stats{perW: map[string]int{}, perScope: map[string]int{}, perGroup: map[string]int{},
		perFault: map[string]int{}, perLock: map[string]int{}, states: map[string]bool{}, groupMs: map[string]int{},
		bdayOutcomes: map[string]bool{}, nontrivial: map[string]bool{}, exhaustive: true}
}

func (st *stats) coverage() ev.Coverage {
	set := func(m map[string]bool) []string {
		var l []string
		for k := range m {
			l = append(l, k)
		}
		sort.Strings(l)
		return l
	}
	return ev.Coverage{
		"states@set":                    set(st.states),
		"partc_states":                  st.c.states,
		"partc_transitions":             st.c.transitions,
		"partc_evaluations":             st.c.evals,
		"partc_states_with_invalid":     st.c.withInvalid,
		"transitions":                   st.transitions + st.c.transitions,
		"traces_validated_against_impl": st.recoveries,
		"scenarios":                     st.runs,
		"evaluations":                   st.evals + st.c.evals,
		"distinct_nontrivial@set":       set(st.nontrivial),
		"fault_positions":               st.faultPositions,
		"per_window":                    st.perW,
		"per_scope":                     st.perScope,
		"per_group":                     st.perGroup,
		"per_interruption":              st.perFault,
		"per_lock_state":                st.perLock,
		"group_cpu_ms":                  st.groupMs,
		"partb_scenarios":               st.partB,
		"partb_birthday_not_genesis":    st.partBNontrivial,
		"partb_outcomes@set":            set(st.bdayOutcomes),
		"samples":                       st.samples,
		"exhaustive":                    st.exhaustive,
	}
}

// mergeCov adds src into dst with the rules of ev.RunSharded.
func mergeCov(dst ev.Coverage, src map[string]interface{}) {
	for k, v := range src {
		switch x := v.(type) {
		case float64:
			switch old := dst[k].(type) {
			case int:
				dst[k] = old + int(x)
			case nil:
				dst[k] = int(x)
			}
		case bool:
			if old, ok := dst[k].(bool); ok {
				dst[k] = old && x
			} else {
				dst[k] = x
			}
		case []interface{}:
			var l []string
			if old, ok := dst[k].([]string); ok {
				l = old
			}
			seen := map[string]bool{}
			for _, s := range l {
				seen[s] = true
			}
			for _, e := range x {
				s := fmt.Sprint(e)
				if strings.HasSuffix(k, "@set") && seen[s] {
					continue
				}
				if !strings.HasSuffix(k, "@set") && len(l) >= 6 {
					break
				}
				seen[s] = true
				l = append(l, s)
			}
			dst[k] = l
		case map[string]interface{}:
			old, _ := dst[k].(map[string]int)
			if old == nil {
				old = map[string]int{}
			}
			for kk, vv := range x {
				if f, ok := vv.(float64); ok {
					old[kk] += int(f)
				}
			}
			dst[k] = old
		}
	}
}

// Run is the entry point: args[0] = quick | thorough.
func Run(args []string) {
	run := ev.NewRun("C16", "model_checking", args)
	fastScrypt()
	role := os.Getenv(envRole)
	if len(args) > 0 && args[0] == "count" {
		countOnly(run)
		return
	}
	if len(args) > 0 && args[0] == "replay" {
		replay(args[1:])
		return
	}
	if !ev.IsWorker() {
		b2 := b2Path()
		if _, err := os.Stat(b2); err != nil {
			ev.Fatal("the batch-size-2 binary %s is missing (build it with /verif/harness/c16/run.sh): %v", b2, err)
		}
		cov := run.RunSharded(nShards, append(append([]string{}, ShardArgsPrefix...), args...))
		cov["rule"] = "PART A: every usage pattern inside the bounds (per (scope,branch) pair a sequence of per-block index sets, each index < W beyond the highest index paid in earlier blocks; spends; lead blocks; lock state; interruption position x {backend call fails once and the wallet retries by itself, backend fails permanently and the wallet is stopped+reopened+re-attached, Wallet.Lock() requested during the call}) is executed on a fresh wallet restored from the seed against a model chain paying reference-derived addresses; oracle = ledger truth of the model (addresses known+used, transactions recorded in their block, balance, unspent set, next index above highest used, synced to tip, scan start <= first block that could pay). non-trivial = a new highest index leaves a never-paid index below it (jump), or a batch cut (size 2 / real 2000) lies between two paying blocks, or the recovery was interrupted; distinct = counted by scenario hash. PART B: all monotone time-stamp sequences on the threshold grid x birthdays. PART C: BFS of BranchRecoveryState vs a set reference."
		cov["bounds"] = boundsText(run.Thorough())
		// states = distinct observation vectors of the end-to-end runs + PART C states
		ov, _ := cov["states"].(int)
		pc, _ := cov["partc_states"].(int)
		cov["observation_vectors"] = ov
		cov["states"] = ov + pc
		if _, ok := cov["samples"]; !ok {
			cov["samples"] = []string{"(none)"}
		}
		run.Assumption = []string{
			"invalid BIP32 children cannot be produced end to end (probability 2^-127 per index); they are covered by PART C on BranchRecoveryState with chosen invalid indices",
			"the fake backend answers FilterBlocks with the real chain.BlockFilterer exactly as the btcd/bitcoind clients do; neutrino's own filter matching is not exercised",
			"a block 'could pay the wallet' iff its height is >= 1 and its time stamp is >= the real birthday (stored birthday + 48h)",
			"payments are unsigned model transactions (the wallet does not validate chain transactions)",
		}
		run.Finish(cov)
		return
	}
	// ---- shard worker
	st := newStats()
	ref, err := NewRef(seedName)
	if err != nil {
		ev.Fatal("reference keys: %v", err)
	}
	selfCheckBatch(role, ref)
	worker, _ := ev.Shard()
	k, kf := 0, 0
	emit := func(j job) {
		mine := ev.Mine(k)
		k++
		if run.Expired() {
			st.exhaustive = false
			return
		}
		runJob(run, st, worker, ref, j, mine, &kf)
	}
	generate(role, run.Thorough(), only(), emit)
	cov := st.coverage()
	if role == "" {
		// Part C lives in the real binary; then the b2 child of this shard
		if wants(only(), "C") {
			for i, cfg := range cConfigs() {
				if !ev.Mine(i) {
					continue
				}
				maxNU := uint32(5)
				if run.Thorough() {
					maxNU = 7
				}
				cs := partC(cfg, maxNU, func(sig, msg string, rp interface{}) { run.Violation(sig, msg, rp) })
				st.c.states += cs.states
				st.c.transitions += cs.transitions
				st.c.evals += cs.evals
				st.c.withInvalid += cs.withInvalid
			}
			cov = st.coverage()
		}
		runChild(run, cov)
	}
	run.Finish(cov)
}

func b2Path() string {
	if p := os.Getenv(envB2Bin); p != "" {
		return p
	}
	return defB2Bin
}

func only() map[string]bool {
	s := os.Getenv(envOnly)
	if s == "" {
		return nil
	}
	m := map[string]bool{}
	for _, g := range strings.Split(s, ",") {
		m[g] = true
	}
	return m
}

func wants(o map[string]bool, g string) bool { return o == nil || o[g] }

// runChild executes the b2 binary for this shard and merges its result.
func runChild(run *ev.Run, cov ev.Coverage) {
	i, n := ev.Shard()
	dir := filepath.Join(ev.Scratch(), "b2child")
	os.MkdirAll(dir, 0o755)
	c := exec.Command(b2Path(), run.Tier)
	c.Env = append(os.Environ(), envRole+"=b2", "VERIF_SHARD_DIR="+dir, fmt.Sprintf("VERIF_SHARD=%d/%d", i, n), "VERIF_TIER="+run.Tier)
	out, err := c.CombinedOutput()
	if err != nil {
		ev.Fatal("b2 child of shard %d failed: %v\n%s", i, err, string(out))
	}
	b, err := os.ReadFile(filepath.Join(dir, fmt.Sprintf("shard-%d.json", i)))
	if err != nil {
		ev.Fatal("b2 child of shard %d wrote no result: %v\n%s", i, err, string(out))
	}
	var so struct {
		Violations []*ev.Violation        `json:"violations"`
		Cov        map[string]interface{} `json:"coverage"`
	}
	if err := json.Unmarshal(b, &so); err != nil {
		ev.Fatal("b2 child result: %v", err)
	}
	for _, v := range so.Violations {
		for c := 0; c < v.Count; c++ {
			run.Violation(v.Sig, v.Msg, v.Replay)
		}
	}
	// normalise own lists to []string before merging
	for k, v := range cov {
		if l, ok := v.([]string); ok {
			cov[k] = append([]string{}, l...)
		}
	}
	mergeCov(cov, so.Cov)
}

func boundsText(thorough bool) string {
	if thorough {
		return "W in {1,2,3}; <=5 pattern blocks (+<=1 lead block); <=2 payments per block per pair; <=3 pairs of the 8 (scope,branch) pairs; 1 spend with optional change; recoveryBatchSize 2 (overlay) everywhere and 2000 (real) on 2000+-block chains; every GetBlockHash/FilterBlocks call position of the start-up sync as interruption x {retry, restart, lock} on the A5 base patterns; A6/R3: asymmetric branch usage (one branch of a scope ahead of the other by W or W+1 keys, other branch 0 or 1 keys, <=5 blocks) x stop+reopen at every call position (R3: after the first 2000-block batch); PART B length<=7 incl. genesis on grid {-3,-2,0,2,3,47,48,50}h; PART C next-unfound<7, <=2 invalid children among indices 0..7"
	}
	return "W in {1,2,3}; <=4 pattern blocks (+<=1 lead block); <=2 payments per block per pair; <=2 pairs of the 8 (scope,branch) pairs; 1 spend with optional change; recoveryBatchSize 2 (overlay) everywhere and 2000 (real) on 2000+-block chains; every GetBlockHash/FilterBlocks call position of the start-up sync as interruption x {retry, restart, lock} on the A5 base patterns; A6/R3: asymmetric branch usage (one branch of a scope ahead of the other by W or W+1 keys, other branch 0 or 1 keys, <=5 blocks) x stop+reopen at every call position (R3: after the first 2000-block batch); PART B length<=6 incl. genesis on grid {-3,-2,0,2,3,47,48,50}h; PART C next-unfound<5, <=2 invalid children among indices 0..7"
}
