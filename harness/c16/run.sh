#!/bin/bash
# run.sh <quick|thorough>   C16: generate the recoveryBatchSize=2 overlay from the CURRENT
# /repo/wallet/wallet.go, build both variants and run the check (sharded over 16 worker
# processes; each worker runs the -b2 binary for its shard and merges the result into the
# ONE evidence file /verif/evidence/C16.json).
#   C16_MUT=<n>     demonstration only: additionally apply one property-breaking overlay (see mkov/main.go)
#   C16_PATCH=<f>   demonstration only: apply a unified diff (a/ b/ paths relative to /repo) as an overlay
#                   (binaries and overlays then live under /verif/.cache/ov/c16/m<N>/ or .../patch/, never in /verif/bin)
# exit: 0 held, 1 violation, 2 generator/build/harness error
set -u
export GOFLAGS=-mod=mod GOPROXY=off GOSUMDB=off GOTOOLCHAIN=local
export GOCACHE=/verif/.cache/go-build
tier="${1:-${VERIF_TIER:-quick}}"
mut="${C16_MUT:-0}"
ov=/verif/.cache/ov/c16
bin_main=/verif/bin/vh-c16
bin_b2=/verif/bin/vh-c16-b2
patch="${C16_PATCH:-}"
if [ "$mut" != 0 ]; then
  ov="$ov/m$mut"; bin_main="$ov/vh-c16"; bin_b2="$ov/vh-c16-b2"
elif [ -n "$patch" ]; then
  ov="$ov/patch"; bin_main="$ov/vh-c16"; bin_b2="$ov/vh-c16-b2"
fi
mkdir -p "$ov" /verif/bin /verif/evidence /verif/replays || exit 2
cd /verif/harness || exit 2
(
  flock 9
  go build -o "$ov/mkov" ./c16/mkov 2>"$ov/build.err" || { cat "$ov/build.err" >&2; exit 2; }
  "$ov/mkov" -out "$ov" -mut "$mut" ${patch:+-patch "$patch"} || exit 2
  go build -tags verif -overlay "$ov/ov-main.json" -o "$ov/vh-c16.new" ./c16/cmd 2>"$ov/build.err" \
      || { echo "HARNESS-ERROR: c16: build failed (a tree that does not compile is not a property verdict)" >&2; cat "$ov/build.err" >&2; exit 2; }
  go build -tags verif -overlay "$ov/ov-b2.json" -o "$ov/vh-c16-b2.new" ./c16/cmd 2>"$ov/build.err" \
      || { echo "HARNESS-ERROR: c16: build of the batch-size-2 variant failed" >&2; cat "$ov/build.err" >&2; exit 2; }
  mv -f "$ov/vh-c16.new" "$bin_main" && mv -f "$ov/vh-c16-b2.new" "$bin_b2" || exit 2
) 9>"$ov/.lock" || { echo "HARNESS-ERROR: c16: generator or build failed" >&2; exit 2; }
[ -n "${VERIF_BUILD_ONLY:-}" ] && exit 0
C16_B2_BIN="$bin_b2" exec "$bin_main" "$tier"
