//go:build verif

package main

import (
	"os"

	"verif/harness/c16"
)

func main() { c16.Run(os.Args[1:]) }
