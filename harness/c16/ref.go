package c16

import (
	"fmt"

	"github.com/btcsuite/btcd/btcec/v2"
	"github.com/btcsuite/btcd/btcutil"
	"github.com/btcsuite/btcd/txscript"
	"github.com/btcsuite/btcwallet/waddrmgr"

	"verif/harness/refbip32"
	"verif/harness/wsim"
)

// The reference side: the addresses of a seed are computed WITHOUT the wallet
// (refbip32 = HMAC-SHA512 + secp256k1 only; the encoder below is a copy of
// amgr.EncodeAddress parametrised with the simnet parameters wsim uses). The
// restored wallet is never asked which addresses it is supposed to find.

// Pair is one (key scope, branch) of the default account.
type Pair struct {
	Purpose uint32 `json:"purpose"`
	Branch  uint32 `json:"branch"` // 0 external, 1 internal
}

func (p Pair) String() string {
	b := "ext"
	if p.Branch == waddrmgr.InternalBranch {
		b = "int"
	}
	return fmt.Sprintf("%d/%s", p.Purpose, b)
}

// Scope returns the key scope (coin type 0 for every default scope).
func (p Pair) Scope() waddrmgr.KeyScope { return waddrmgr.KeyScope{Purpose: p.Purpose, Coin: 0} }

// BranchName is used in signatures.
func (p Pair) BranchName() string {
	if p.Branch == waddrmgr.InternalBranch {
		return "internal"
	}
	return "external"
}

// AllPairs lists the 8 (scope, branch) pairs of the default scopes in a
// simplest-first order.
var AllPairs = []Pair{
	{84, 0}, {84, 1}, {44, 0}, {44, 1}, {49, 0}, {49, 1}, {86, 0}, {86, 1},
}

// Ref derives reference addresses of one seed.
type Ref struct {
	acct  map[uint32]refbip32.Key // purpose -> account key m/purpose'/0'/0'
	cache map[string]btcutil.Address
}

// NewRef builds the reference for a named wsim seed.
func NewRef(seedName string) (*Ref, error) {
	r := &Ref{acct: map[uint32]refbip32.Key{}, cache: map[string]btcutil.Address{}}
	master := refbip32.Master(wsim.Seed(seedName))
	for _, sc := range waddrmgr.DefaultKeyScopes {
		k, err := master.Path(sc.Purpose+refbip32.Hardened, sc.Coin+refbip32.Hardened, 0+refbip32.Hardened)
		if err != nil {
			return nil, err
		}
		r.acct[sc.Purpose] = k
	}
	return r, nil
}

func addrType(p Pair) (waddrmgr.AddressType, error) {
	sch, ok := waddrmgr.ScopeAddrMap[p.Scope()]
	if !ok {
		return 0, fmt.Errorf("no schema for scope %v", p.Scope())
	}
	if p.Branch == waddrmgr.InternalBranch {
		return sch.InternalAddrType, nil
	}
	return sch.ExternalAddrType, nil
}

func encodeAddress(pub *btcec.PublicKey, t waddrmgr.AddressType) (btcutil.Address, error) {
	h160 := btcutil.Hash160(pub.SerializeCompressed())
	switch t {
	case waddrmgr.PubKeyHash:
		return btcutil.NewAddressPubKeyHash(h160, wsim.Params)
	case waddrmgr.WitnessPubKey:
		return btcutil.NewAddressWitnessPubKeyHash(h160, wsim.Params)
	case waddrmgr.NestedWitnessPubKey:
		prog := append([]byte{0x00, 0x14}, h160...)
		return btcutil.NewAddressScriptHash(prog, wsim.Params)
	case waddrmgr.TaprootPubKey:
		tk := txscript.ComputeTaprootKeyNoScript(pub)
		return btcutil.NewAddressTaproot(tk.SerializeCompressed()[1:], wsim.Params)
	}
	return nil, fmt.Errorf("unsupported address type %v", t)
}

// Addr returns the reference address of pair/index.
func (r *Ref) Addr(p Pair, index uint32) (btcutil.Address, error) {
	key := fmt.Sprintf("%d/%d/%d", p.Purpose, p.Branch, index)
	if a, ok := r.cache[key]; ok {
		return a, nil
	}
	ak, ok := r.acct[p.Purpose]
	if !ok {
		return nil, fmt.Errorf("no account key for purpose %d", p.Purpose)
	}
	ck, err := ak.Path(p.Branch, index)
	if err != nil {
		return nil, err
	}
	t, err := addrType(p)
	if err != nil {
		return nil, err
	}
	a, err := encodeAddress(ck.Pub, t)
	if err != nil {
		return nil, err
	}
	r.cache[key] = a
	return a, nil
}
