package c11

import (
	"fmt"
	"os"
	"sort"
	"strconv"
	"strings"
	"time"

	"github.com/btcsuite/btcwallet/walletdb"

	"verif/harness/ev"
)

var (
	locRoot = []string{}
	locX    = []string{"x"}
	locY    = []string{"y"}
	locXY   = []string{"x", "y"}
)

func kv(pairs ...string) *mbucket {
	b := newBucket()
	for i := 0; i+1 < len(pairs); i += 2 {
		b.ent[pairs[i]] = &ment{val: pairs[i+1]}
	}
	return b
}

// fullSeed is a namespace holding every key of the alphabet at every level,
// with buckets interleaved between the plain keys.
func fullSeed() *mbucket {
	leaf := func(seq uint64) *mbucket {
		b := kv("a", "1", "b", "", "ab", "1", "\x00", "", "\xff", "1")
		b.seq = seq
		return b
	}
	root := leaf(5)
	x := leaf(1)
	x.ent["x"] = &ment{sub: leaf(0)}
	x.ent["y"] = &ment{sub: leaf(2)}
	root.ent["x"] = &ment{sub: x}
	root.ent["y"] = &ment{sub: leaf(0)}
	return newTop(root)
}

func universes(thorough bool) []*Universe {
	pick := func(q, t int) int {
		if thorough {
			return t
		}
		return q
	}
	all := []string{"a", "b", "ab", "\x00", "\xff", ""}
	keyVals := []string{"1"}
	nestKeys, nestNames := []string{"a"}, []string{"x", "y"}
	if thorough {
		keyVals = []string{"", "1"}
		nestKeys, nestNames = []string{"a", "x"}, []string{"x", "y", ""}
	}
	inX := func(o Op) Op { o.Root = "x"; return o }
	inY := func(o Op) Op { o.Root = "y"; return o }
	us := []*Universe{
		{
			// top-level buckets next to the namespace bucket: created, deleted, looked up and
			// listed through the transaction, with reads and writes inside looked-up buckets
			Name: "toplevel", TopNames: []string{"x", "y"}, TopRecreate: []string{"x"},
			TopOps: []Op{
				inX(Op{Kind: opPut, K: "a", V: "1"}), inX(Op{Kind: opGet, K: "a"}), inX(Op{Kind: opDel, K: "a"}),
				inY(Op{Kind: opPut, K: "a", V: "1"}),
				{Kind: opGet, K: "a"},
			},
			MaxOps: 3, BatchOps: 2, ReopenAll: true, MaxEntries: 5,
		},
		{
			// sequence numbers per bucket, reset by delete + recreate
			Name: "sequence", Locs: [][]string{locRoot, locX}, BNames: []string{"x"}, Seq: true,
			MaxOps: pick(2, 3), BatchOps: 2, ReopenAll: true, MaxEntries: 1, SeqMax: 6,
		},
		{
			// empty versus non-empty values, overwrite, delete
			Name: "values", Locs: [][]string{locRoot}, Keys: []string{"a", "\xff", ""}, SeekKeys: []string{"a", "b"},
			Vals: []string{"", "1"}, Walk: true, CurDel: true,
			MaxOps: pick(2, 3), BatchOps: 2, ReopenAll: true, MaxEntries: 2,
		},
		{
			// byte order of the whole key alphabet in one bucket
			Name: "keys", Locs: [][]string{locRoot}, Keys: all, SeekKeys: all, Vals: keyVals, Walk: true, CurDel: true,
			MaxOps: 2, ReopenAll: true, MaxEntries: 5,
		},
		{
			// nested buckets as independent namespaces; key "x" doubles as plain key and bucket name
			Name: "nesting", Locs: [][]string{locRoot, locX, locY, locXY}, Keys: nestKeys, Vals: []string{"1"},
			BNames: nestNames, Walk: true, CurDel: true,
			MaxOps: 2, MaxEntries: pick(2, 3),
		},
		{
			// the whole alphabet, one operation per transaction
			Name: "full-alphabet", Locs: [][]string{locRoot, locX, locY, locXY},
			Keys: append(append([]string{}, all...), "x"), SeekKeys: append(append([]string{}, all...), "x"),
			Vals: []string{"", "1"}, BNames: []string{"x", "y", "a", ""}, Seq: true, Walk: true, CurDel: true,
			MaxOps: 1, MaxEntries: pick(1, 3), SeqMax: 0, Seeds: []*mbucket{fullSeed()},
		},
	}
	if thorough {
		us = append(us, &Universe{
			// sequences, empty values, nesting and cursors together, two operations per transaction
			Name: "mixed", Locs: [][]string{locRoot, locX}, Keys: []string{"a", "\xff"}, SeekKeys: []string{"a", "b"},
			Vals: []string{"", "1"}, BNames: []string{"x"}, Seq: true, Walk: true, CurDel: true,
			MaxOps: 2, MaxEntries: 3, SeqMax: 1,
		}, &Universe{
			// three operations per transaction across two nesting levels
			Name: "nesting-3ops", Locs: [][]string{locRoot, locX}, Keys: []string{"a"}, Vals: []string{"1"},
			BNames: []string{"x"}, Walk: false, CurDel: false, Seq: false,
			MaxOps: 3, MaxEntries: 3,
		})
	}
	for _, u := range us {
		if u.MaxStates == 0 {
			u.MaxStates = 200000
		}
	}
	return us
}

// BeforeExit, when set (development main: CPU profile), runs before the process exits.
var BeforeExit func()

// Run is the entry point of check C11.
func Run(args []string) {
	run := ev.NewRun("C11", "model_checking", args)
	g := &global{run: run, viol: map[string]*vrec{}, samples: map[string]*sample{}, allState: map[string]bool{}, t0: time.Now()}
	g.tot.perKO = map[string]int{}
	g.tot.roNotConverted = map[string]int{}
	// wall budget: a run on an overloaded machine stops early (exhaustive:false) instead of overrunning its tier
	g.budget = 52 * time.Second
	if run.Thorough() {
		g.budget = 560 * time.Second
	}
	g.hang = 30 * time.Second
	if s := os.Getenv("C11_HANG_S"); s != "" {
		if n, err := strconv.Atoi(s); err == nil && n > 0 {
			g.hang = time.Duration(n) * time.Second
		}
	}
	for i := 0; i < nWorkers; i++ {
		w := &worker{id: i, g: g, path: scratchPath(i), nofl: i%2 == 0}
		opened, err := w.setup()
		if err != nil && !opened {
			ev.Fatal("worker %d: cannot create database: %v", i, err)
		}
		if err != nil {
			// The file opened but plain committed Updates did not take
			// effect: that is the property failing, not the harness.
			g.viol["setup:committed-update-not-visible"] = &vrec{sig: "setup:committed-update-not-visible", count: 1,
				msg: "preparing the database: " + err.Error(), replay: map[string]string{"stage": "setup", "error": err.Error()}}
			g.notExh = append(g.notExh, "setup failed")
			g.finish()
		}
		g.workers = append(g.workers, w)
	}
	_, g.haveBatch = g.workers[0].db.(walletdb.BatchDB)
	g.batchFast = true
	for _, w := range g.workers {
		g.batchFast = g.batchFast && w.batchFast
	}

	us := universes(run.Thorough())
	only := os.Getenv("C11_ONLY")
	go g.monitor()
	for i, u := range us {
		if only != "" && !strings.Contains(","+only+",", ","+u.Name+",") {
			continue
		}
		u.build(g.batchFast, g.haveBatch)
		g.explore(u, i)
		if os.Getenv("C11_VERBOSE") != "" {
			g.mu.Lock()
			fmt.Fprintf(os.Stderr, "%v\n", g.ustats[len(g.ustats)-1])
			for k, v := range g.tot.perKOns {
				fmt.Fprintf(os.Stderr, "  %-22s n=%-9d avg=%.1fus\n", k, g.tot.perKO[k], float64(v)/1e3/float64(g.tot.perKO[k]))
			}
			g.mu.Unlock()
		}
		if (run.Expired() || time.Since(g.t0) > g.budget) && i+1 < len(us) {
			g.noteNotExhaustive(fmt.Sprintf("wall budget reached: %d universe(s) not run", len(us)-i-1))
			break
		}
	}
	g.co = g.coalesce(run.Thorough())
	if g.co.skipped != "" {
		g.noteNotExhaustive("coalesced-batch part not run: " + g.co.skipped)
	}
	g.finish()
}

// finish flushes violations and evidence; it may be called by the watchdog.
func (g *global) finish() {
	g.finishOnce.Do(func() {
		g.mu.Lock()
		defer g.mu.Unlock()
		run := g.run
		var vs []*vrec
		for _, v := range g.viol {
			vs = append(vs, v)
		}
		sort.Slice(vs, func(i, j int) bool { return vs[i].order < vs[j].order })
		for _, v := range vs {
			for i := 0; i < v.count; i++ {
				run.Violation(v.sig, v.msg, v.replay)
			}
		}
		// distinct non-trivial transitions
		nt := g.tot.nontrivial
		sort.Slice(nt, func(i, j int) bool { return nt[i] < nt[j] })
		distinct := 0
		for i := range nt {
			if i == 0 || nt[i] != nt[i-1] {
				distinct++
			}
		}
		var ss []*sample
		for _, s := range g.samples {
			ss = append(ss, s)
		}
		sort.Slice(ss, func(i, j int) bool { return ss[i].order < ss[j].order })
		var samples []string
		for _, s := range ss {
			samples = append(samples, s.text)
		}
		if len(samples) == 0 {
			samples = []string{"(none)"}
		}
		run.Assumption = []string{
			"bbolt's public MaxBatchSize knob is set to 1 on each opened handle (reflection) so that a lone Batch call starts immediately; this changes latency only",
			"coalesced batches: MaxBatchSize n and MaxBatchDelay 1h (same knobs) make the n calls of an execution share one bbolt batch; the arrival order is fixed by starting a caller only when the previous one is parked inside bbolt.DB.Batch (goroutine state); the order in which bbolt re-runs the surviving closures is left open (any order of the successful calls is accepted)",
			"each database file is grown once at creation so that no write transaction has to remap the file while the isolation check holds a read transaction open in the same goroutine (a documented bbolt restriction)",
			"a call that makes no progress for " + g.hang.String() + " counts as a deadlock",
			"states are restored by clearing the namespace and writing the model in one Update; every restore is verified by a dump before it is used",
		}
		cov := ev.Coverage{
			"states":                                   len(g.allState),
			"states_reached_beyond_bound":              g.boundary,
			"transitions":                              g.tot.transitions,
			"traces_validated_against_impl":            g.tot.transitions,
			"evaluations":                              g.tot.evals,
			"distinct_nontrivial":                      distinct,
			"nontrivial_transitions_total":             len(nt),
			"rule":                                     "a transition is one whole transaction (kind x program x closure outcome) run against the real bdb database from a model state, or close+reopen; after the search every state's whole history of committed transactions is replayed on one handle without restoring in between (chains), each step preceded by the same program under a failing and a panicking Update; every read result and mutator error inside it, the fresh-read dump after it (and after reopen where marked) are compared with the nested-map model. distinct_nontrivial = distinct (state, program, kind, outcome) in read-write transactions that do not commit (closure error, closure panic, manual Rollback) whose program changed the in-transaction view at least once, i.e. a rollback really had something to undo",
			"per_kind_outcome":                         g.tot.perKO,
			"operations_skipped_bucket_absent":         g.tot.skipped,
			"restores_verified":                        g.tot.restores,
			"reopens":                                  g.tot.reopens,
			"fresh_read_dumps":                         g.tot.dumps,
			"closure_invocations":                      g.tot.closureCalls,
			"panics_propagated_to_caller":              g.tot.panicsPropagated,
			"commits_changing_state":                   g.tot.commitsChanging,
			"chains_replayed_without_restore":          g.tot.chainPaths,
			"chain_steps":                              g.tot.chainSteps,
			"chain_steps_on_unrestored_state":          g.tot.chainNoRestore,
			"bfs_max_depth":                            g.maxDepth,
			"universes":                                g.ustats,
			"bounds":                                   g.bounds,
			"batch_available":                          g.haveBatch,
			"coalesced_batch_executions":               g.co.execs,
			"coalesced_batch_with_failing_sibling":     g.co.withFailingSibling,
			"coalesced_batch_closure_reruns":           g.co.reruns,
			"batch_immediate":                          g.batchFast,
			"workers":                                  nWorkers,
			"exhaustive":                               len(g.notExh) == 0,
			"not_exhaustive_because":                   append([]string{}, g.notExh...),
			"observed_error_classes_left_open_by_docs": g.tot.roNotConverted,
			"samples":                                  samples,
		}
		if BeforeExit != nil {
			BeforeExit()
		}
		run.Finish(cov)
	})
}
