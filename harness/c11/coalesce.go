package c11

import (
	"errors"
	"fmt"
	"os"
	"reflect"
	"runtime"
	"sort"
	"strings"
	"time"

	"github.com/btcsuite/btcwallet/walletdb"
)

// Coalesced batches. walletdb.Batch hands the closure to bbolt's DB.Batch,
// which runs the closures of several concurrent callers inside ONE
// transaction; when one of them fails, the transaction is rolled back, the
// failing closure gets its error and the others are run again. All-or-nothing
// must hold per CALL: a call that returned nil has its writes in the file, a
// call that returned its closure's error has none.
//
// The explorer above makes a lone Batch call start at once (MaxBatchSize 1).
// Here MaxBatchSize is n (2, 3) and MaxBatchDelay an hour, so the n calls of an
// execution are guaranteed to share one batch: call i+1 is started only when
// call i is parked inside bbolt (goroutine state, no timing), the n-th call
// triggers the batch. Every n-tuple of closures over a small alphabet, in
// every arrival order (the tuples are ordered), is one execution on a fresh
// file.

type bclosure struct {
	name string
	run  func(b walletdb.ReadWriteBucket) error
	fail bool
	// effect on the model (only applied for closures that must take effect)
	apply func(m map[string]string)
}

var errBatchClosure = errors.New("c11: batched closure fails")

func batchAlphabet() []bclosure {
	put := func(k, v string) bclosure {
		return bclosure{name: "put(" + k + "," + v + ")",
			run:   func(b walletdb.ReadWriteBucket) error { return b.Put([]byte(k), []byte(v)) },
			apply: func(m map[string]string) { m[k] = v }}
	}
	del := func(k string) bclosure {
		return bclosure{name: "delete(" + k + ")",
			run:   func(b walletdb.ReadWriteBucket) error { return b.Delete([]byte(k)) },
			apply: func(m map[string]string) { delete(m, k) }}
	}
	failing := func(k, v string) bclosure {
		return bclosure{name: "put(" + k + "," + v + ");fail", fail: true,
			run: func(b walletdb.ReadWriteBucket) error {
				if err := b.Put([]byte(k), []byte(v)); err != nil {
					return err
				}
				return errBatchClosure
			}}
	}
	return []bclosure{put("a", "1"), put("a", "2"), put("b", "1"), del("a"), failing("a", "9"), failing("c", "9")}
}

// parkedInBatch counts goroutines blocked inside bbolt's DB.Batch.
func parkedInBatch(buf []byte) int {
	n := runtime.Stack(buf, true)
	cnt := 0
	for _, g := range strings.Split(string(buf[:n]), "\n\n") {
		if !strings.Contains(g, "bbolt.(*DB).Batch") {
			continue
		}
		hdr := g
		if i := strings.IndexByte(g, '\n'); i >= 0 {
			hdr = g[:i]
		}
		if strings.Contains(hdr, "[chan receive") {
			cnt++
		}
	}
	return cnt
}

func setBatchKnobs(db walletdb.DB, size int, delay time.Duration) (ok bool) {
	defer func() {
		if recover() != nil {
			ok = false
		}
	}()
	v := reflect.ValueOf(db)
	if v.Kind() != reflect.Ptr || v.Elem().Kind() != reflect.Struct {
		return false
	}
	f := v.Elem().FieldByName("MaxBatchSize")
	d := v.Elem().FieldByName("MaxBatchDelay")
	if !f.IsValid() || !f.CanSet() || !d.IsValid() || !d.CanSet() {
		return false
	}
	f.SetInt(int64(size))
	d.SetInt(int64(delay))
	return true
}

type coalesceStats struct {
	execs, evals, withFailingSibling, reruns int
	skipped                                  string
}

func (g *global) coalesceViolation(sig, msg string, replay interface{}) {
	g.mu.Lock()
	defer g.mu.Unlock()
	v := g.viol[sig]
	if v == nil {
		v = &vrec{sig: sig, order: ^uint64(0) - 1, msg: msg, replay: replay}
		g.viol[sig] = v
	}
	v.count++
}

// coalesce runs every n-tuple (n = 2, and 3 in the thorough tier) of closures.
func (g *global) coalesce(thorough bool) coalesceStats {
	var st coalesceStats
	if !g.haveBatch {
		st.skipped = "database has no Batch"
		return st
	}
	alpha := batchAlphabet()
	sizes := []int{2}
	if thorough {
		sizes = append(sizes, 3)
	}
	buf := make([]byte, 1<<20)
	ns := []byte("ns")
	for _, n := range sizes {
		idx := make([]int, n)
		for {
			// one execution
			tuple := make([]bclosure, n)
			var names []string
			for i, k := range idx {
				tuple[i] = alpha[k]
				names = append(names, alpha[k].name)
			}
			replay := map[string]interface{}{"kind": "c11-coalesced-batch", "calls_in_arrival_order": names, "max_batch_size": n}
			where := fmt.Sprintf("%d concurrent Batch calls sharing one bbolt batch, arrival order %v, initial content {a=0}", n, names)
			path := scratchPath(200 + n)
			os.Remove(path)
			db, err := walletdb.Create("bdb", path, true, time.Minute, false)
			if err != nil {
				st.skipped = "create: " + err.Error()
				return st
			}
			err = walletdb.Update(db, func(tx walletdb.ReadWriteTx) error {
				b, err := tx.CreateTopLevelBucket(ns)
				if err != nil {
					return err
				}
				return b.Put([]byte("a"), []byte("0"))
			})
			if err != nil || !setBatchKnobs(db, n, time.Hour) {
				db.Close()
				st.skipped = fmt.Sprintf("cannot prepare (err=%v) or batch knobs not settable", err)
				return st
			}
			errs := make([]error, n)
			calls := make([]int, n)
			done := make(chan int, n)
			stuck := false
			for i := 0; i < n && !stuck; i++ {
				i := i
				go func() {
					errs[i] = walletdb.Batch(db, func(tx walletdb.ReadWriteTx) error {
						calls[i]++
						return tuple[i].run(tx.ReadWriteBucket(ns))
					})
					done <- i
				}()
				if i < n-1 {
					// the next caller arrives only once this one is parked inside bbolt
					deadline := time.Now().Add(60 * time.Second)
					for parkedInBatch(buf) < i+1 {
						if time.Now().After(deadline) {
							stuck = true
							break
						}
						runtime.Gosched()
					}
				}
			}
			if stuck {
				// (not a verdict: the harness could not line the callers up)
				st.skipped = "callers did not park inside bbolt.DB.Batch"
				return st
			}
			finished := 0
			timeout := time.After(120 * time.Second)
		wait:
			for finished < n {
				select {
				case <-done:
					finished++
				case <-timeout:
					break wait
				}
			}
			st.execs++
			if finished < n {
				g.coalesceViolation("batch:coalesced:call-never-returned", where+": only "+fmt.Sprint(finished)+" of the calls returned within 120 s", replay)
				// the handle is unusable; leave it
				goto next
			}
			{
				// oracle
				anyFail := false
				var okIdx []int
				for i, c := range tuple {
					st.evals++
					if calls[i] > 1 {
						st.reruns++
					}
					if c.fail {
						anyFail = true
						if !errors.Is(errs[i], errBatchClosure) {
							g.coalesceViolation("batch:coalesced:failure-not-reported", fmt.Sprintf("%s: call #%d (%s) returned %v instead of its closure's error", where, i+1, c.name, errs[i]), replay)
						}
					} else {
						okIdx = append(okIdx, i)
						if errs[i] != nil {
							g.coalesceViolation("batch:coalesced:good-call-failed", fmt.Sprintf("%s: call #%d (%s) returned %v although its closure succeeded", where, i+1, c.name, errs[i]), replay)
						}
					}
				}
				if anyFail {
					st.withFailingSibling++
				}
				// allowed contents: the successful closures applied in any order
				allowed := map[string]bool{}
				perm := append([]int{}, okIdx...)
				var rec func(k int)
				rec = func(k int) {
					if k == len(perm) {
						m := map[string]string{"a": "0"}
						for _, i := range perm {
							if errs[i] == nil {
								tuple[i].apply(m)
							}
						}
						allowed[renderMap(m)] = true
						return
					}
					for j := k; j < len(perm); j++ {
						perm[k], perm[j] = perm[j], perm[k]
						rec(k + 1)
						perm[k], perm[j] = perm[j], perm[k]
					}
				}
				rec(0)
				read := func() string {
					m := map[string]string{}
					walletdb.View(db, func(tx walletdb.ReadTx) error {
						return tx.ReadBucket(ns).ForEach(func(k, v []byte) error {
							m[string(k)] = string(v)
							return nil
						})
					})
					return renderMap(m)
				}
				st.evals++
				got := read()
				var al []string
				for k := range allowed {
					al = append(al, k)
				}
				sort.Strings(al)
				if !allowed[got] {
					g.coalesceViolation("batch:coalesced:content", fmt.Sprintf("%s: results %v; content afterwards %s, but the calls that returned nil applied in any order give one of %v (a call that returned nil lost its writes, or a failed call left some)", where, errs, got, al), replay)
				}
				db.Close()
				db2, err := walletdb.Open("bdb", path, true, time.Minute, false)
				if err == nil {
					db = db2
					st.evals++
					if got2 := read(); got2 != got {
						g.coalesceViolation("batch:coalesced:reopen", fmt.Sprintf("%s: content %s before and %s after reopening", where, got, got2), replay)
					}
				}
				db.Close()
				os.Remove(path)
			}
		next:
			// odometer
			k := n - 1
			for k >= 0 {
				idx[k]++
				if idx[k] < len(alpha) {
					break
				}
				idx[k] = 0
				k--
			}
			if k < 0 {
				break
			}
		}
	}
	return st
}

func renderMap(m map[string]string) string {
	var ks []string
	for k := range m {
		ks = append(ks, k)
	}
	sort.Strings(ks)
	var sb strings.Builder
	sb.WriteString("{")
	for i, k := range ks {
		if i > 0 {
			sb.WriteString(" ")
		}
		sb.WriteString(k + "=" + m[k])
	}
	sb.WriteString("}")
	return sb.String()
}
