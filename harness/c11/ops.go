package c11

import (
	"fmt"
	"strconv"
	"strings"
)

type opKind uint8

const (
	opPut opKind = iota
	opDel
	opGet
	opCreate
	opCINE
	opDelB
	opNested
	opNextSeq
	opSetSeq
	opSeq
	opForEach
	opFwd
	opBwd
	opSeek
	opFirstDel
	opLastDel
	opSeekDel
	// operations on the transaction itself (top-level buckets)
	opTopCreate
	opTopDelete
	opTopLookup
	opTopForEach
	opTopRecreate
	nOpKinds
)

var opNames = [...]string{"put", "delete", "get", "createbucket", "createbucketifnotexists", "deletenestedbucket",
	"nestedbucket", "nextsequence", "setsequence", "sequence", "foreach", "cursor-first-next", "cursor-last-prev",
	"cursor-seek-next", "cursor-first-delete", "cursor-last-delete", "cursor-seek-delete",
	"createtoplevelbucket", "deletetoplevelbucket", "toplevel-lookup", "foreachbucket", "toplevel-delete+create"}

// Op is one bucket operation applied at the bucket reached from a top-level
// bucket (Root; "" is the namespace bucket) through Loc, or an operation on the
// transaction's top-level buckets.
type Op struct {
	Root string
	Loc  []string
	Kind opKind
	K, V string
	N    uint64
}

func (o Op) mutator() bool {
	switch o.Kind {
	case opPut, opDel, opCreate, opCINE, opDelB, opNextSeq, opSetSeq, opFirstDel, opLastDel, opSeekDel, opTopCreate, opTopDelete, opTopRecreate:
		return true
	}
	return false
}

func (o Op) name() string { return opNames[o.Kind] }

func (o Op) topLevel() bool { return o.Kind >= opTopCreate }

// rootName is the top-level bucket the operation starts from.
func (o Op) rootName() string {
	if o.Root == "" {
		return string(nsKey)
	}
	return o.Root
}

func (o Op) locString() string {
	r := "ns"
	if o.Root != "" {
		r = "top[" + strconv.Quote(o.Root) + "]"
	}
	if len(o.Loc) == 0 {
		return r
	}
	return r + "/" + strings.Join(o.Loc, "/")
}

func (o Op) String() string {
	q := strconv.Quote
	var s string
	switch o.Kind {
	case opPut:
		s = fmt.Sprintf("Put(%s,%s)", q(o.K), q(o.V))
	case opDel:
		s = fmt.Sprintf("Delete(%s)", q(o.K))
	case opGet:
		s = fmt.Sprintf("Get(%s)", q(o.K))
	case opCreate:
		s = fmt.Sprintf("CreateBucket(%s)", q(o.K))
	case opCINE:
		s = fmt.Sprintf("CreateBucketIfNotExists(%s)", q(o.K))
	case opDelB:
		s = fmt.Sprintf("DeleteNestedBucket(%s)", q(o.K))
	case opNested:
		s = fmt.Sprintf("NestedReadBucket(%s)", q(o.K))
	case opNextSeq:
		s = "NextSequence()"
	case opSetSeq:
		s = fmt.Sprintf("SetSequence(%d)", o.N)
	case opSeq:
		s = "Sequence()"
	case opForEach:
		s = "ForEach"
	case opFwd:
		s = "Cursor.First+Next*"
	case opBwd:
		s = "Cursor.Last+Prev*"
	case opSeek:
		s = fmt.Sprintf("Cursor.Seek(%s)+Next*", q(o.K))
	case opFirstDel:
		s = "Cursor.First+Delete"
	case opLastDel:
		s = "Cursor.Last+Delete"
	case opSeekDel:
		s = fmt.Sprintf("Cursor.Seek(%s)+Delete", q(o.K))
	case opTopCreate:
		return fmt.Sprintf("tx.CreateTopLevelBucket(%s)", q(o.K))
	case opTopDelete:
		return fmt.Sprintf("tx.DeleteTopLevelBucket(%s)", q(o.K))
	case opTopLookup:
		return fmt.Sprintf("tx.ReadWriteBucket/ReadBucket(%s)", q(o.K))
	case opTopForEach:
		return "tx.ForEachBucket"
	case opTopRecreate:
		return fmt.Sprintf("tx.DeleteTopLevelBucket(%s)+tx.CreateTopLevelBucket(%s)", q(o.K), q(o.K))
	}
	return o.locString() + "." + s
}

type txKind uint8

const (
	kUpdate txKind = iota
	kView
	kBatch
	kRWCommit
	kRWRollback
	kRORollback
	kSnapshot
)

var kindNames = [...]string{"update", "view", "batch", "commit", "rollback", "readtx", "snapshot"}
var kindLong = [...]string{"walletdb.Update", "walletdb.View", "walletdb.Batch", "BeginReadWriteTx+Commit",
	"BeginReadWriteTx+Rollback", "BeginReadTx+Rollback", "walletdb.Update while an earlier BeginReadTx is still open"}

type outcome uint8

const (
	oNil outcome = iota
	oErr
	oPanic
)

var outNames = [...]string{"nil", "error", "panic"}

// KO is a transaction kind with the outcome of its closure.
type KO struct {
	Kind   txKind
	Out    outcome
	MaxOps int  // 0: the universe's maximum; otherwise programs up to this length only
	Reopen bool // close and reopen the file right after the transaction
}

func (k KO) readonly() bool { return k.Kind == kView || k.Kind == kRORollback }

func (k KO) commits() bool {
	switch k.Kind {
	case kUpdate, kBatch, kSnapshot:
		return k.Out == oNil
	case kRWCommit:
		return true
	}
	return false
}

func (k KO) String() string {
	s := kindLong[k.Kind]
	switch k.Kind {
	case kUpdate, kView, kBatch, kSnapshot:
		s += " closure:" + outNames[k.Out]
	}
	if k.Reopen {
		s += " then close+reopen"
	}
	return s
}

// label is the evidence-count key.
func (k KO) label() string {
	s := kindNames[k.Kind]
	switch k.Kind {
	case kUpdate, kView, kBatch:
		s += "/" + outNames[k.Out]
	}
	if k.Reopen {
		s += "+reopen"
	}
	return s
}

// Universe is one bounded alphabet explored to fixpoint.
type Universe struct {
	Name     string
	Locs     [][]string // buckets (paths below the namespace bucket) at which operations are applied
	Keys     []string   // Put / Delete / Get keys
	SeekKeys []string   // Seek keys
	Vals     []string
	BNames   []string // names for CreateBucket / CreateBucketIfNotExists / DeleteNestedBucket / NestedReadBucket
	Seq      bool
	Walk     bool
	CurDel   bool
	// TopNames: top-level buckets next to the namespace bucket that programs create,
	// delete, look up and list through the transaction; TopOps: bucket operations
	// inside looked-up top-level buckets (Root set).
	TopNames []string
	TopOps   []Op
	// TopRecreate: buckets that programs also drop and re-create in one operation
	TopRecreate []string
	MaxOps      int // program length
	BatchOps    int // program length under walletdb.Batch (a goroutine hand-off per call makes it the slowest kind)
	// ReopenAll: every kind/outcome is also run with close+reopen after it (one-operation programs);
	// otherwise only walletdb.Update returning nil is.
	ReopenAll bool
	// State bounds: a reached state is expanded only when it has at most
	// MaxEntries pairs+buckets and no sequence above SeqMax (reached states
	// beyond the bound are still verified by dump comparison).
	MaxEntries int
	SeqMax     uint64
	Seeds      []*mbucket // extra initial states besides the empty namespace
	MaxStates  int

	ops   []Op
	progs [][]uint16
	kos   []KO
	items []item
}

type item struct {
	prog int32 // -1: the reopen transition
	ko   int16
}

const maxDepth = 2

func (u *Universe) build(batchFast, haveBatch bool) {
	u.ops = nil
	for _, loc := range u.Locs {
		add := func(o Op) { o.Loc = loc; u.ops = append(u.ops, o) }
		for _, k := range u.Keys {
			for _, v := range u.Vals {
				add(Op{Kind: opPut, K: k, V: v})
			}
		}
		for _, k := range u.Keys {
			add(Op{Kind: opDel, K: k})
		}
		for _, k := range u.Keys {
			add(Op{Kind: opGet, K: k})
		}
		if len(loc) < maxDepth {
			for _, n := range u.BNames {
				add(Op{Kind: opCreate, K: n})
			}
			for _, n := range u.BNames {
				add(Op{Kind: opCINE, K: n})
			}
			for _, n := range u.BNames {
				add(Op{Kind: opDelB, K: n})
			}
			for _, n := range u.BNames {
				add(Op{Kind: opNested, K: n})
			}
		}
		if u.Seq {
			add(Op{Kind: opNextSeq})
			add(Op{Kind: opSetSeq, N: 0})
			add(Op{Kind: opSetSeq, N: 5})
			add(Op{Kind: opSeq})
		}
		if u.Walk {
			add(Op{Kind: opForEach})
			add(Op{Kind: opFwd})
			add(Op{Kind: opBwd})
			for _, k := range u.SeekKeys {
				add(Op{Kind: opSeek, K: k})
			}
		}
		if u.CurDel {
			add(Op{Kind: opFirstDel})
			add(Op{Kind: opLastDel})
			for _, k := range u.SeekKeys {
				add(Op{Kind: opSeekDel, K: k})
			}
		}
	}
	for _, n := range u.TopNames {
		u.ops = append(u.ops, Op{Kind: opTopCreate, K: n}, Op{Kind: opTopDelete, K: n}, Op{Kind: opTopLookup, K: n})
	}
	if len(u.TopNames) > 0 {
		u.ops = append(u.ops, Op{Kind: opTopForEach})
	}
	for _, n := range u.TopRecreate {
		u.ops = append(u.ops, Op{Kind: opTopRecreate, K: n})
	}
	u.ops = append(u.ops, u.TopOps...)
	if len(u.ops) > 60000 {
		panic("too many ops")
	}
	// Programs, simplest first. Programs of two or more operations contain
	// at least one mutator (read-only sequences add nothing over the single
	// reads).
	n := len(u.ops)
	u.progs = nil
	for i := 0; i < n; i++ {
		u.progs = append(u.progs, []uint16{uint16(i)})
	}
	if u.MaxOps >= 2 {
		for i := 0; i < n; i++ {
			for j := 0; j < n; j++ {
				if u.ops[i].mutator() || u.ops[j].mutator() {
					u.progs = append(u.progs, []uint16{uint16(i), uint16(j)})
				}
			}
		}
	}
	if u.MaxOps >= 3 {
		for i := 0; i < n; i++ {
			for j := 0; j < n; j++ {
				for k := 0; k < n; k++ {
					if u.ops[i].mutator() || u.ops[j].mutator() || u.ops[k].mutator() {
						u.progs = append(u.progs, []uint16{uint16(i), uint16(j), uint16(k)})
					}
				}
			}
		}
	}

	// Kinds/outcomes of one program. The variants that close and reopen the
	// file afterwards come first: a transaction left open by a read-only kind
	// only shows when Close blocks, and this way it shows in the transition
	// that leaked it.
	u.kos = nil
	if u.ReopenAll {
		u.kos = append(u.kos,
			KO{Kind: kView, Out: oNil, MaxOps: 1, Reopen: true},
			KO{Kind: kView, Out: oErr, MaxOps: 1, Reopen: true},
			KO{Kind: kView, Out: oPanic, MaxOps: 1, Reopen: true},
			KO{Kind: kRORollback, MaxOps: 1, Reopen: true},
			KO{Kind: kUpdate, Out: oNil, MaxOps: 1, Reopen: true},
			KO{Kind: kRWCommit, MaxOps: 1, Reopen: true},
			KO{Kind: kUpdate, Out: oErr, MaxOps: 1, Reopen: true},
			KO{Kind: kUpdate, Out: oPanic, MaxOps: 1, Reopen: true},
			KO{Kind: kRWRollback, MaxOps: 1, Reopen: true},
		)
		if haveBatch {
			u.kos = append(u.kos, KO{Kind: kBatch, Out: oNil, MaxOps: 1, Reopen: true})
		}
	} else {
		u.kos = append(u.kos,
			KO{Kind: kUpdate, Out: oNil, MaxOps: 1, Reopen: true},
			KO{Kind: kView, Out: oErr, MaxOps: 1},
			KO{Kind: kView, Out: oPanic, MaxOps: 1},
		)
	}
	u.kos = append(u.kos,
		KO{Kind: kUpdate, Out: oNil},
		KO{Kind: kUpdate, Out: oErr},
		KO{Kind: kUpdate, Out: oPanic},
		KO{Kind: kRWCommit},
		KO{Kind: kRWRollback},
		KO{Kind: kView, Out: oNil},
		KO{Kind: kRORollback},
	)
	if haveBatch {
		bmax := u.BatchOps
		if !batchFast || bmax == 0 {
			bmax = 1 // without the knob every Batch call waits for bbolt's 10ms batch timer
		}
		u.kos = append(u.kos,
			KO{Kind: kBatch, Out: oNil, MaxOps: bmax},
			KO{Kind: kBatch, Out: oErr, MaxOps: bmax},
			KO{Kind: kBatch, Out: oPanic, MaxOps: 1},
		)
	}
	u.kos = append(u.kos, KO{Kind: kSnapshot, Out: oNil, MaxOps: 1})

	// Transitions of one state: the reopen transition, then every program
	// (shortest first) under every kind/outcome.
	u.items = []item{{prog: -1}}
	for pi, p := range u.progs {
		for ki, ko := range u.kos {
			if ko.MaxOps != 0 && len(p) > ko.MaxOps {
				continue
			}
			u.items = append(u.items, item{prog: int32(pi), ko: int16(ki)})
		}
	}
}

// within applies the state bound; the namespace bucket itself is not counted.
func (u *Universe) within(m *mbucket) bool {
	n := m.size()
	if m.sub(string(nsKey)) != nil {
		n--
	}
	return n <= u.MaxEntries && m.maxSeq() <= u.SeqMax
}

func (u *Universe) progStrings(p []uint16) []string {
	s := make([]string, len(p))
	for i, oi := range p {
		s[i] = u.ops[oi].String()
	}
	return s
}

func (u *Universe) progHasMutator(p []uint16) bool {
	for _, oi := range p {
		if u.ops[oi].mutator() {
			return true
		}
	}
	return false
}

func (u *Universe) bounds() string {
	locs := make([]string, len(u.Locs))
	for i, l := range u.Locs {
		locs[i] = Op{Loc: l}.locString()
	}
	var tops []string
	for _, o := range u.TopOps {
		tops = append(tops, o.String())
	}
	top := ""
	if len(u.TopNames) > 0 {
		top = fmt.Sprintf("top-level buckets %q created/deleted/looked up/listed through the transaction, operations inside them %v; ", u.TopNames, tops)
	}
	return top + fmt.Sprintf("%s: buckets %v keys %q seek %q values %q bucket-names %q seq-ops=%v walks=%v cursor-delete=%v programs<=%d ops (%d ops, %d programs, %d transitions per state); states expanded while entries<=%d and sequences<=%d; %d seed state(s)",
		u.Name, locs, u.Keys, u.SeekKeys, u.Vals, u.BNames, u.Seq, u.Walk, u.CurDel, u.MaxOps, len(u.ops), len(u.progs), len(u.items), u.MaxEntries, u.SeqMax, 1+len(u.Seeds))
}
