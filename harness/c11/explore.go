package c11

import (
	"errors"
	"fmt"
	"os"
	"path/filepath"
	"reflect"
	"sort"
	"sync"
	"sync/atomic"
	"time"

	"github.com/btcsuite/btcwallet/walletdb"
	_ "github.com/btcsuite/btcwallet/walletdb/bdb"

	"verif/harness/ev"
)

const nWorkers = 16

var verbose = os.Getenv("C11_VERBOSE") != ""

const blockSize = 256

// state is one explored model state.
type state struct {
	m      *mbucket
	key    string
	idx    int
	parent int // -1: initial
	via    int // item index in the parent
	depth  int
	expand bool
	disc   uint64 // discovery order inside the level
}

type heartbeat struct {
	phase string
	since time.Time
	u     *Universe
	st    *state
	item  int
}

type wstats struct {
	transitions, evals, skipped, restores, reopens, dumps int
	closureCalls, panicsPropagated, commitsChanging       int
	chainPaths, chainSteps, chainNoRestore                int
	perKO                                                 map[string]int
	perKOns                                               map[string]int64
	nontrivial                                            []uint64
	roNotConverted                                        map[string]int
}

func (s *wstats) add(o *wstats) {
	s.transitions += o.transitions
	s.evals += o.evals
	s.skipped += o.skipped
	s.restores += o.restores
	s.reopens += o.reopens
	s.dumps += o.dumps
	s.closureCalls += o.closureCalls
	s.panicsPropagated += o.panicsPropagated
	s.commitsChanging += o.commitsChanging
	s.chainPaths += o.chainPaths
	s.chainSteps += o.chainSteps
	s.chainNoRestore += o.chainNoRestore
	if s.perKO == nil {
		s.perKO = map[string]int{}
		s.roNotConverted = map[string]int{}
	}
	if s.perKOns == nil {
		s.perKOns = map[string]int64{}
	}
	for k, v := range o.perKOns {
		s.perKOns[k] += v
	}
	for k, v := range o.perKO {
		s.perKO[k] += v
	}
	for k, v := range o.roNotConverted {
		s.roNotConverted[k] += v
	}
	s.nontrivial = append(s.nontrivial, o.nontrivial...)
}

type vrec struct {
	sig    string
	count  int
	order  uint64
	msg    string
	replay interface{}
}

type sample struct {
	order uint64
	text  string
}

type global struct {
	run       *ev.Run
	workers   []*worker
	haveBatch bool
	batchFast bool
	hang      time.Duration
	budget    time.Duration

	mu       sync.Mutex
	viol     map[string]*vrec
	samples  map[string]*sample
	tot      wstats
	allState map[string]bool
	ustats   []map[string]interface{}
	bounds   []string
	notExh   []string
	boundary int
	maxDepth int

	finishOnce sync.Once
	t0         time.Time
	co         coalesceStats
}

type explorer struct {
	g      *global
	u      *Universe
	uidx   int
	states []*state
	index  map[string]int

	mu       sync.Mutex
	pending  map[string]*state
	boundary map[string]bool
	capped   bool
}

type worker struct {
	id   int
	g    *global
	ex   *explorer
	db   walletdb.DB
	path string
	nofl bool
	cur  string // verified content of the real namespace; "" when unknown

	batchFast bool
	sampled   map[string]uint64
	hb        atomic.Pointer[heartbeat]
	st        wstats
}

func (w *worker) open(create bool) error {
	var err error
	if create {
		os.Remove(w.path)
		w.db, err = walletdb.Create("bdb", w.path, w.nofl, time.Minute, false)
	} else {
		w.db, err = walletdb.Open("bdb", w.path, w.nofl, time.Minute, false)
	}
	if err != nil {
		return err
	}
	fast := w.tuneBatch()
	if create {
		w.batchFast = fast
	} else if fast != w.batchFast {
		return fmt.Errorf("MaxBatchSize knob settable=%v after reopen, %v at creation", fast, w.batchFast)
	}
	return nil
}

// tuneBatch sets bbolt's MaxBatchSize knob to 1 on the opened handle so that a
// lone Batch call starts at once instead of waiting for the 10ms batch timer.
// It changes latency only.
func (w *worker) tuneBatch() (ok bool) {
	defer func() {
		if recover() != nil {
			ok = false
		}
	}()
	v := reflect.ValueOf(w.db)
	if v.Kind() != reflect.Ptr || v.Elem().Kind() != reflect.Struct {
		return false
	}
	f := v.Elem().FieldByName("MaxBatchSize")
	if f.IsValid() && f.CanSet() && f.Kind() == reflect.Int {
		f.SetInt(1)
		return true
	}
	return false
}

func (w *worker) beat(phase string, st *state, it int) {
	w.hb.Store(&heartbeat{phase: phase, since: time.Now(), u: w.ex.u, st: st, item: it})
}

// setup creates the file, grows it once (so that later small transactions never
// need to remap the file while a read transaction is open) and creates the
// empty namespace bucket.
func (w *worker) setup() (opened bool, err error) {
	if err := w.open(true); err != nil {
		return false, err
	}
	err = walletdb.Update(w.db, func(tx walletdb.ReadWriteTx) error {
		b, err := tx.CreateTopLevelBucket([]byte("grow"))
		if err != nil {
			return err
		}
		return b.Put([]byte("k"), make([]byte, 256<<10))
	})
	if err != nil {
		return true, fmt.Errorf("first Update (create a top-level bucket, put one value): %v", err)
	}
	err = walletdb.Update(w.db, func(tx walletdb.ReadWriteTx) error {
		if err := tx.DeleteTopLevelBucket([]byte("grow")); err != nil {
			return fmt.Errorf("DeleteTopLevelBucket of the bucket committed by the previous Update: %v", err)
		}
		_, err := tx.CreateTopLevelBucket(nsKey)
		return err
	})
	if err != nil {
		return true, fmt.Errorf("second Update: %v", err)
	}
	if _, k := w.dump(); k != newTop(newBucket()).String() {
		return true, fmt.Errorf("after the Update that created the namespace bucket a fresh read transaction shows %s", k)
	}
	return true, nil
}

func (w *worker) restore(m *mbucket) (err error) {
	w.st.restores++
	defer func() {
		if r := recover(); r != nil {
			err = fmt.Errorf("panic: %v", r)
		}
	}()
	return walletdb.Update(w.db, func(tx walletdb.ReadWriteTx) error {
		var names [][]byte
		if err := tx.ForEachBucket(func(k []byte) error {
			names = append(names, append([]byte{}, k...))
			return nil
		}); err != nil {
			return err
		}
		for _, n := range names {
			if err := tx.DeleteTopLevelBucket(n); err != nil {
				return err
			}
		}
		for _, k := range m.keys() {
			b, err := tx.CreateTopLevelBucket([]byte(k))
			if err != nil {
				return err
			}
			if err := writeModel(b, m.ent[k].sub); err != nil {
				return err
			}
		}
		return nil
	})
}

// dump reads every top-level bucket through a fresh read transaction.
func (w *worker) dump() (*mbucket, string) {
	w.st.dumps++
	tx, err := w.db.BeginReadTx()
	if err != nil {
		return nil, "<BeginReadTx: " + err.Error() + ">"
	}
	m := readTop(tx)
	key := m.String()
	if err := tx.Rollback(); err != nil {
		return m, key + " <Rollback: " + err.Error() + ">"
	}
	return m, key
}

func (w *worker) reopen() error {
	w.st.reopens++
	if err := w.db.Close(); err != nil {
		return fmt.Errorf("close: %v", err)
	}
	if err := w.open(false); err != nil {
		return fmt.Errorf("open: %v", err)
	}
	return nil
}

// reopenOrRecreate closes and reopens the file. A file that cannot be closed
// or opened any more is a violation; the worker then continues on a new file.
func (w *worker) reopenOrRecreate(st *state, ii int) bool {
	err := w.reopen()
	if err == nil {
		return true
	}
	w.violation("reopen:failed", st, ii, "the database cannot be closed and reopened: "+err.Error())
	w.cur = ""
	if _, err := w.setup(); err != nil {
		ev.Fatal("worker %d: cannot recreate the database after a failed reopen: %v", w.id, err)
	}
	return false
}

func order(uidx, sidx, item int) uint64 {
	return uint64(uidx)<<56 | uint64(sidx)<<28 | uint64(item)
}

type trStep struct {
	Tx      string   `json:"transaction"`
	Program []string `json:"program"`
}

type replay struct {
	Universe   string   `json:"universe"`
	Path       []trStep `json:"transactions_from_empty_namespace"`
	State      string   `json:"state_before"`
	Transition trStep   `json:"failing_transaction"`
}

func (ex *explorer) step(ii int) trStep {
	it := ex.u.items[ii]
	if it.prog < 0 {
		return trStep{Tx: "db.Close + walletdb.Open"}
	}
	return trStep{Tx: ex.u.kos[it.ko].String(), Program: ex.u.progStrings(ex.u.progs[it.prog])}
}

func (ex *explorer) replayFor(st *state, ii int) replay {
	var path []trStep
	for s := st; s.parent >= 0; s = ex.states[s.parent] {
		path = append([]trStep{ex.step(s.via)}, path...)
	}
	if st.parent < 0 && st.idx != 0 {
		path = []trStep{{Tx: "seed state written directly"}}
	}
	return replay{Universe: ex.u.Name, Path: path, State: st.key, Transition: ex.step(ii)}
}

func (w *worker) violation(sig string, st *state, ii int, msg string) {
	g := w.g
	o := order(w.ex.uidx, st.idx, ii)
	g.mu.Lock()
	defer g.mu.Unlock()
	v := g.viol[sig]
	if v == nil {
		v = &vrec{sig: sig, order: ^uint64(0)}
		g.viol[sig] = v
	}
	v.count++
	if o < v.order {
		v.order = o
		tr := w.ex.step(ii)
		v.msg = fmt.Sprintf("[%s] state %s; %s %v: %s", w.ex.u.Name, st.key, tr.Tx, tr.Program, msg)
		v.replay = w.ex.replayFor(st, ii)
	}
}

func koTag(ko KO) string {
	switch ko.Kind {
	case kUpdate, kSnapshot:
		return "update:" + outNames[ko.Out]
	case kView:
		return "view:" + outNames[ko.Out]
	case kBatch:
		return "batch:" + outNames[ko.Out]
	case kRWCommit:
		return "commit"
	case kRWRollback:
		return "rollback"
	}
	return "readtx"
}

// runTx runs the program in a transaction of the given kind.
func (w *worker) runTx(ko KO, x *txrun) (ret error, pv interface{}, panicked bool) {
	defer func() {
		if r := recover(); r != nil {
			pv, panicked = r, true
		}
	}()
	end := func() error {
		switch {
		case ko.Out == oPanic:
			panic(panicSentinel{})
		case ko.Out == oErr, x.poisoned:
			// after a panic inside the adapter the transaction is never committed
			return errSentinel
		}
		return nil
	}
	rw := func(tx walletdb.ReadWriteTx) error {
		tx.OnCommit(func() { x.onCommit++ })
		x.body(tx, tx)
		return end()
	}
	ro := func(tx walletdb.ReadTx) error {
		x.body(tx, nil)
		return end()
	}
	switch ko.Kind {
	case kUpdate, kSnapshot:
		ret = walletdb.Update(w.db, rw)
	case kView:
		ret = walletdb.View(w.db, ro)
	case kBatch:
		ret = walletdb.Batch(w.db, rw)
	case kRWCommit, kRWRollback:
		tx, err := w.db.BeginReadWriteTx()
		if err != nil {
			return fmt.Errorf("BeginReadWriteTx: %v", err), nil, false
		}
		_ = rw(tx)
		if ko.Kind == kRWCommit && !x.poisoned {
			ret = tx.Commit()
		} else {
			ret = tx.Rollback()
		}
	case kRORollback:
		tx, err := w.db.BeginReadTx()
		if err != nil {
			return fmt.Errorf("BeginReadTx: %v", err), nil, false
		}
		_ = ro(tx)
		ret = tx.Rollback()
	}
	return
}

func fnv(h uint64, s string) uint64 {
	for i := 0; i < len(s); i++ {
		h ^= uint64(s[i])
		h *= 1099511628211
	}
	h ^= 0xff
	h *= 1099511628211
	return h
}

func (w *worker) transitionHash(st *state, prog []uint16, ko KO) uint64 {
	h := uint64(14695981039346656037)
	h = fnv(h, st.key)
	for _, oi := range prog {
		o := w.ex.u.ops[oi]
		h = fnv(h, o.Root)
		for _, l := range o.Loc {
			h = fnv(h, l)
		}
		h = fnv(h, string([]byte{byte(o.Kind), byte(o.N)}))
		h = fnv(h, o.K)
		h = fnv(h, o.V)
	}
	h = fnv(h, ko.label())
	h ^= h >> 29
	h *= 0xbf58476d1ce4e5b9
	h ^= h >> 32
	return h
}

// runItem executes one transition from state st against the real database.
func (w *worker) runItem(st *state, ii int) {
	u := w.ex.u
	it := u.items[ii]

	if w.cur != st.key {
		w.beat("restore", st, ii)
		if err := w.restore(st.m); err != nil {
			w.violation("restore:error", st, ii, "writing the state into the namespace failed: "+err.Error())
			w.cur = ""
			return
		}
		_, k := w.dump()
		w.st.evals++
		if k != st.key {
			// The transition is still run: its in-transaction comparisons do
			// not depend on the dump.
			w.violation("restore:content", st, ii, fmt.Sprintf("after deleting every top-level bucket and writing the state in one Update a fresh read transaction shows %s", k))
		}
		w.cur = k
	}
	w.st.transitions++

	if it.prog < 0 {
		w.beat("reopen", st, ii)
		w.st.perKO["reopen"]++
		if !w.reopenOrRecreate(st, ii) {
			return
		}
		_, k := w.dump()
		w.st.evals++
		if k != st.key {
			w.violation("reopen:content", st, ii, fmt.Sprintf("after db.Close and walletdb.Open the database is %s", k))
		}
		w.cur = k
		return
	}

	ko := u.kos[it.ko]
	prog := u.progs[it.prog]
	x := &txrun{u: u, prog: prog, pre: st.m, writable: !ko.readonly()}
	w.st.perKO[ko.label()]++
	w.beat("tx", st, ii)

	var snap walletdb.ReadTx
	if ko.Kind == kSnapshot {
		var err error
		snap, err = w.db.BeginReadTx()
		if err != nil {
			ev.Fatal("worker %d: BeginReadTx: %v", w.id, err)
		}
	}
	ret, pv, panicked := w.runTx(ko, x)
	commits := ko.commits() && !x.poisoned
	kn := kindNames[ko.Kind]
	if ko.Kind == kSnapshot {
		kn = "update"
	}
	x.evals++
	switch {
	case panicked && (ko.Out != oPanic || pv != interface{}(panicSentinel{})):
		x.fail(kn+":unexpected-panic", "the transaction panicked: %v", pv)
	case ko.Kind == kRWCommit || ko.Kind == kRWRollback || ko.Kind == kRORollback:
		if ret != nil {
			x.fail(kn+":failed", "%s returned %v", kindLong[ko.Kind], ret)
		}
	case ko.Out == oNil && x.poisoned && errors.Is(ret, errSentinel):
		// the harness itself aborted the transaction after a panic inside the adapter
	case ko.Out == oNil && ret != nil:
		x.fail(kn+":nil-but-failed", "closure returned nil but %s returned %v", kindLong[ko.Kind], ret)
	case ko.Out == oErr && !errors.Is(ret, errSentinel):
		x.fail(kn+":error-not-returned", "closure returned its error but %s returned %v", kindLong[ko.Kind], errString(ret))
	}
	if panicked {
		w.st.panicsPropagated++
	}
	w.st.closureCalls += x.calls
	if x.calls == 0 {
		x.fail(kn+":closure-not-run", "%s never invoked the closure", kindLong[ko.Kind])
		x.reset()
	}

	if !ko.readonly() {
		x.evals++
		want := 0
		if commits {
			want = 1
		}
		if x.onCommit != want {
			x.fail(kn+":oncommit", "the OnCommit closure ran %d time(s) over %d closure invocation(s), expected %d", x.onCommit, x.calls, want)
		}
	}

	if snap != nil {
		x.evals++
		if k := readTop(snap).String(); k != st.key {
			x.fail("isolation:reader-saw-later-commit", "a read transaction opened before the update shows %s after the update committed", k)
		}
		if err := snap.Rollback(); err != nil {
			x.fail("readtx:failed", "Rollback of the earlier read transaction returned %v", err)
		}
	}

	expM, expKey := st.m, st.key
	if commits {
		expM, expKey = x.w, x.w.String()
	}

	if !ko.readonly() && !commits {
		// The writer lock must be free again.
		w.beat("probe", st, ii)
		tx, err := w.db.BeginReadWriteTx()
		x.evals++
		if err != nil {
			x.fail(koTag(ko)+"-left-db-unusable", "BeginReadWriteTx after the transaction returned %v", err)
		} else {
			_ = tx.Rollback()
		}
	}

	w.beat("dump", st, ii)
	gotM, gotKey := w.dump()
	x.evals++
	if gotKey != expKey {
		x.fail(stateSig(ko, x, expM, gotM, st.key, gotKey), "a fresh read transaction afterwards shows %s, expected %s", gotKey, expKey)
	}
	w.cur = gotKey

	if ko.Reopen {
		w.beat("reopen", st, ii)
		if w.reopenOrRecreate(st, ii) {
			_, k := w.dump()
			x.evals++
			if k != expKey {
				x.fail("reopen:content", "after db.Close and walletdb.Open the database is %s, expected %s", k, expKey)
			}
			w.cur = k
		}
	}

	w.st.evals += x.evals
	w.st.skipped += x.skipped
	for _, o := range x.obs {
		w.st.roNotConverted[o]++
	}
	for _, f := range x.fails {
		w.violation(f.sig, st, ii, f.msg)
	}

	hasMut := u.progHasMutator(prog)
	if !commits && !ko.readonly() && x.anyMut {
		w.st.nontrivial = append(w.st.nontrivial, w.transitionHash(st, prog, ko))
	}
	if hasMut && (x.anyMut || ko.readonly()) && st.idx > 0 && (len(prog) >= 2 || ko.MaxOps == 1 || u.MaxOps == 1) {
		w.sample(ko, st, ii, x, gotKey)
	}
	if commits && expKey != st.key {
		w.st.commitsChanging++
		w.ex.discover(expKey, expM, st, ii)
	}
}

func (w *worker) sample(ko KO, st *state, ii int, x *txrun, gotKey string) {
	g := w.g
	o := order(w.ex.uidx, st.idx, ii)
	lbl := ko.label()
	if best, ok := w.sampled[lbl]; ok && best <= o {
		return // this worker already offered a smaller one
	}
	if w.sampled == nil {
		w.sampled = map[string]uint64{}
	}
	w.sampled[lbl] = o
	g.mu.Lock()
	defer g.mu.Unlock()
	s := g.samples[lbl]
	if s != nil && s.order <= o {
		return
	}
	tr := w.ex.step(ii)
	g.samples[lbl] = &sample{order: o, text: fmt.Sprintf("[%s] state %s; %s %v -> in-transaction model %s; fresh read afterwards %s (%d comparisons, %d closure call(s))",
		w.ex.u.Name, st.key, tr.Tx, tr.Program, x.w, gotKey, x.evals, x.calls)}
}

// stateSig names the failure class of a wrong content after the transaction.
func stateSig(ko KO, x *txrun, expM, gotM *mbucket, preKey, gotKey string) string {
	if x.anyMut {
		var diffs []string
		diffPaths(expM, gotM, "", &diffs)
		for _, d := range diffs {
			if !x.related(d, "") {
				return "nested:not-independent:post-state"
			}
		}
	}
	switch ko.Kind {
	case kView:
		return "view:changed"
	case kRORollback:
		return "readtx:changed"
	case kRWRollback:
		return "rollback:but-changed"
	case kRWCommit:
		if gotKey == preKey {
			return "commit:but-lost"
		}
		return "commit:but-differs"
	}
	kn := kindNames[ko.Kind]
	if ko.Kind == kSnapshot {
		kn = "update"
	}
	switch ko.Out {
	case oErr:
		return kn + ":error-but-changed"
	case oPanic:
		return kn + ":panic-but-changed"
	}
	if gotKey == preKey {
		return kn + ":nil-but-lost"
	}
	return kn + ":nil-but-differs"
}

func (ex *explorer) discover(key string, m *mbucket, parent *state, ii int) {
	d := uint64(parent.idx)<<28 | uint64(ii)
	ex.mu.Lock()
	defer ex.mu.Unlock()
	if _, ok := ex.index[key]; ok {
		return
	}
	if p := ex.pending[key]; p != nil {
		if d < p.disc {
			p.disc, p.parent, p.via = d, parent.idx, ii
		}
		return
	}
	ex.pending[key] = &state{m: m, key: key, parent: parent.idx, via: ii, depth: parent.depth + 1, disc: d}
}

// explore runs the breadth-first search of one universe to fixpoint.
func (g *global) explore(u *Universe, uidx int) {
	t0 := time.Now()
	ex := &explorer{g: g, u: u, uidx: uidx, index: map[string]int{}, pending: map[string]*state{}}
	addState := func(s *state) {
		s.idx = len(ex.states)
		ex.states = append(ex.states, s)
		ex.index[s.key] = s.idx
	}
	empty := newTop(newBucket())
	addState(&state{m: empty, key: empty.String(), parent: -1, expand: true})
	for _, sd := range u.Seeds {
		if _, ok := ex.index[sd.String()]; !ok {
			addState(&state{m: sd, key: sd.String(), parent: -1, expand: true})
		}
	}
	level := append([]*state{}, ex.states...)
	expanded, boundary, maxDepth := 0, 0, 0
	exhaustive := true
	var before wstats
	g.mu.Lock()
	before = g.tot
	before.nontrivial = nil
	ntBefore := len(g.tot.nontrivial)
	g.mu.Unlock()

	nItems := len(u.items)
	bps := (nItems + blockSize - 1) / blockSize
	for len(level) > 0 {
		var next int64
		nblocks := int64(len(level) * bps)
		var wg sync.WaitGroup
		var stop atomic.Bool
		for _, w := range g.workers {
			w.ex = ex
			wg.Add(1)
			go func(w *worker) {
				defer wg.Done()
				for {
					b := atomic.AddInt64(&next, 1) - 1
					if b >= nblocks || stop.Load() {
						break
					}
					if g.run.Expired() {
						stop.Store(true)
						break
					}
					st := level[int(b)/bps]
					lo := (int(b) % bps) * blockSize
					hi := lo + blockSize
					if hi > nItems {
						hi = nItems
					}
					w.st = wstats{perKO: map[string]int{}, roNotConverted: map[string]int{}, perKOns: map[string]int64{}}
					for ii := lo; ii < hi; ii++ {
						if verbose {
							t := time.Now()
							w.runItem(st, ii)
							lbl := "reopen"
							if it := u.items[ii]; it.prog >= 0 {
								lbl = u.kos[it.ko].label()
							}
							w.st.perKOns[lbl] += int64(time.Since(t))
						} else {
							w.runItem(st, ii)
						}
					}
					w.hb.Store(nil)
					g.mu.Lock()
					g.tot.add(&w.st)
					g.mu.Unlock()
				}
				w.hb.Store(nil)
			}(w)
		}
		wg.Wait()
		if stop.Load() {
			exhaustive = false
			g.noteNotExhaustive(u.Name + ": wall budget of the tier reached")
			break
		}
		expanded += len(level)
		// next level, in deterministic discovery order
		var fresh []*state
		for _, s := range ex.pending {
			fresh = append(fresh, s)
		}
		ex.pending = map[string]*state{}
		sort.Slice(fresh, func(i, j int) bool { return fresh[i].disc < fresh[j].disc })
		level = level[:0]
		for _, s := range fresh {
			if !u.within(s.m) {
				boundary++
				ex.index[s.key] = -1
				continue
			}
			if len(ex.states) >= u.MaxStates {
				if exhaustive {
					g.noteNotExhaustive(fmt.Sprintf("%s: state cap %d reached", u.Name, u.MaxStates))
				}
				exhaustive = false
				continue
			}
			s.expand = true
			addState(s)
			level = append(level, s)
			if s.depth > maxDepth {
				maxDepth = s.depth
			}
		}
	}

	if exhaustive {
		ex.chains()
	}

	g.mu.Lock()
	for _, s := range ex.states[:expanded] {
		g.allState[s.key] = true
	}
	g.boundary += boundary
	if maxDepth > g.maxDepth {
		g.maxDepth = maxDepth
	}
	g.ustats = append(g.ustats, map[string]interface{}{
		"universe":                    u.Name,
		"states_expanded":             expanded,
		"states_reached_beyond_bound": boundary,
		"transitions":                 g.tot.transitions - before.transitions,
		"evaluations":                 g.tot.evals - before.evals,
		"nontrivial_transitions":      len(g.tot.nontrivial) - ntBefore,
		"ops":                         len(u.ops),
		"programs":                    len(u.progs),
		"transitions_per_state":       len(u.items),
		"bfs_depth":                   maxDepth,
		"fixpoint":                    exhaustive,
		"wall_s":                      time.Since(t0).Seconds(),
	})
	g.bounds = append(g.bounds, u.bounds())
	g.mu.Unlock()
}

// chains replays, for every explored state, the whole sequence of committed
// transactions that leads to it from the initial state on one handle without
// restoring in between; before each step the same program is also run under
// Update with a failing and with a panicking closure. The content after every
// step is compared as in the search.
func (ex *explorer) chains() {
	u, g := ex.u, ex.g
	sib := map[[2]int]int{} // (program, kind/outcome index) -> item
	for ii, it := range u.items {
		sib[[2]int{int(it.prog), int(it.ko)}] = ii
	}
	var failing []int
	for ki, ko := range u.kos {
		if ko.Kind == kUpdate && ko.Out != oNil && !ko.Reopen && ko.MaxOps == 0 {
			failing = append(failing, ki)
		}
	}
	var targets []*state
	for _, s := range ex.states {
		if s.parent >= 0 && s.depth >= 2 {
			targets = append(targets, s)
		}
	}
	var next int64
	var wg sync.WaitGroup
	for _, w := range g.workers {
		wg.Add(1)
		go func(w *worker) {
			defer wg.Done()
			for {
				i := int(atomic.AddInt64(&next, 1) - 1)
				if i >= len(targets) || g.run.Expired() || time.Since(g.t0) > g.budget {
					break
				}
				var path []*state
				for s := targets[i]; s.parent >= 0; s = ex.states[s.parent] {
					path = append([]*state{s}, path...)
				}
				w.st = wstats{perKO: map[string]int{}, roNotConverted: map[string]int{}, perKOns: map[string]int64{}}
				w.st.chainPaths++
				for n, s := range path {
					from := ex.states[s.parent]
					for _, ki := range failing {
						if ii, ok := sib[[2]int{int(u.items[s.via].prog), ki}]; ok {
							w.runItem(from, ii)
						}
					}
					if n > 0 && w.cur == from.key {
						w.st.chainNoRestore++
					}
					w.runItem(from, s.via)
					w.st.chainSteps++
				}
				w.hb.Store(nil)
				g.mu.Lock()
				g.tot.add(&w.st)
				g.mu.Unlock()
			}
			w.hb.Store(nil)
		}(w)
	}
	wg.Wait()
}

func (g *global) noteNotExhaustive(s string) {
	g.mu.Lock()
	g.notExh = append(g.notExh, s)
	g.mu.Unlock()
}

// monitor turns a transaction that never returns into a violation. When one
// worker hangs the others hang on the same cause within moments; the smallest
// hung transition is the one reported.
func (g *global) monitor() {
	for {
		time.Sleep(200 * time.Millisecond)
		var hung *worker
		var hungHB *heartbeat
		for _, w := range g.workers {
			hb := w.hb.Load()
			if hb == nil || time.Since(hb.since) < g.hang {
				continue
			}
			if hung == nil || order(0, hb.st.idx, hb.item) < order(0, hungHB.st.idx, hungHB.item) {
				hung, hungHB = w, hb
			}
		}
		if hung == nil {
			continue
		}
		hb := hungHB
		it := hb.u.items[hb.item]
		sig := "hang:" + hb.phase
		what := "the call never returned"
		if it.prog >= 0 {
			ko := hb.u.kos[it.ko]
			switch {
			case hb.phase == "probe":
				sig = koTag(ko) + "-left-db-locked"
				what = "BeginReadWriteTx after the transaction blocks: the writer lock was not released"
			case hb.phase == "reopen" && ko.readonly():
				sig = koTag(ko) + "-left-tx-open"
				what = "db.Close after the transaction blocks: the read transaction was left open"
			case hb.phase == "reopen":
				sig = "close-blocks:transaction-left-open"
				what = "db.Close blocks: an earlier transaction on this handle was left open"
			}
		} else if hb.phase == "reopen" {
			sig = "close-blocks:transaction-left-open"
			what = "db.Close blocks: an earlier transaction on this handle was left open"
		}
		hung.violation(sig, hb.st, hb.item, fmt.Sprintf("%s (no progress for %s in phase %q)", what, g.hang, hb.phase))
		g.noteNotExhaustive("aborted after a hang")
		g.finish()
	}
}

func scratchPath(i int) string {
	return filepath.Join(ev.Scratch(), fmt.Sprintf("c11-w%d.db", i))
}
