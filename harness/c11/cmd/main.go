package main

import (
	"os"
	"runtime/pprof"

	"verif/harness/c11"
)

func main() {
	if p := os.Getenv("C11_CPUPROFILE"); p != "" {
		if f, err := os.Create(p); err == nil {
			pprof.StartCPUProfile(f)
			c11.BeforeExit = func() { pprof.StopCPUProfile(); f.Close() }
		}
	}
	c11.Run(os.Args[1:])
}
