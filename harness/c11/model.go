// Package c11 checks property C11 "database transactions are all-or-nothing,
// isolated and ordered" by explicit-state model checking of the real
// walletdb/bdb adapter against a nested-map reference model in lock-step.
package c11

import (
	"sort"
	"strconv"
	"strings"
)

// ment is one entry of a bucket: a plain value or a nested bucket.
type ment struct {
	val string
	sub *mbucket
}

// mbucket is the reference model of one bucket: entries, nested buckets and
// the bucket's sequence number.
type mbucket struct {
	ent map[string]*ment
	seq uint64
	dup bool // only set when reading the real database: a key was listed twice
	// trunc: only set when reading the real database: nesting went deeper than
	// anything the harness writes and reading stopped here
	trunc bool
}

func newBucket() *mbucket { return &mbucket{ent: map[string]*ment{}} }

func (b *mbucket) clone() *mbucket {
	c := &mbucket{ent: make(map[string]*ment, len(b.ent)), seq: b.seq, dup: b.dup, trunc: b.trunc}
	for k, e := range b.ent {
		if e.sub != nil {
			c.ent[k] = &ment{sub: e.sub.clone()}
		} else {
			c.ent[k] = &ment{val: e.val}
		}
	}
	return c
}

// keys returns the entry names in ascending byte order (Go string comparison
// is bytewise).
func (b *mbucket) keys() []string {
	ks := make([]string, 0, len(b.ent))
	for k := range b.ent {
		ks = append(ks, k)
	}
	sort.Strings(ks)
	return ks
}

// pair is one listed entry.
type pair struct {
	k, v   string
	bucket bool
}

// list is what ForEach / a forward cursor walk must produce.
func (b *mbucket) list() []pair {
	ks := b.keys()
	ps := make([]pair, len(ks))
	for i, k := range ks {
		e := b.ent[k]
		ps[i] = pair{k: k, v: e.val, bucket: e.sub != nil}
	}
	return ps
}

func (b *mbucket) render(sb *strings.Builder) {
	sb.WriteString("{#")
	sb.WriteString(strconv.FormatUint(b.seq, 10))
	if b.dup {
		sb.WriteString(" !dup")
	}
	if b.trunc {
		sb.WriteString(" !nesting-deeper-than-written")
	}
	for _, k := range b.keys() {
		e := b.ent[k]
		sb.WriteByte(' ')
		sb.WriteString(strconv.Quote(k))
		if e.sub != nil {
			sb.WriteByte(':')
			e.sub.render(sb)
		} else {
			sb.WriteByte('=')
			sb.WriteString(strconv.Quote(e.val))
		}
	}
	sb.WriteByte('}')
}

// String is the canonical rendering: sorted, quoted, with sequence numbers.
func (b *mbucket) String() string {
	if b == nil {
		return "<no namespace bucket>"
	}
	var sb strings.Builder
	b.render(&sb)
	return sb.String()
}

// sub returns the nested bucket name or nil.
func (b *mbucket) sub(name string) *mbucket {
	if e := b.ent[name]; e != nil {
		return e.sub
	}
	return nil
}

// size counts key/value pairs and buckets recursively.
func (b *mbucket) size() int {
	n := 0
	for _, e := range b.ent {
		n++
		if e.sub != nil {
			n += e.sub.size()
		}
	}
	return n
}

func (b *mbucket) maxSeq() uint64 {
	m := b.seq
	for _, e := range b.ent {
		if e.sub != nil {
			if s := e.sub.maxSeq(); s > m {
				m = s
			}
		}
	}
	return m
}

// firstGE is the first entry with key >= k (what Seek must return).
func (b *mbucket) firstGE(k string) int {
	ks := b.keys()
	return sort.SearchStrings(ks, k)
}

// diffPaths lists the bucket paths whose own content (plain entries, names of
// nested buckets, sequence) differs between a and b.
func diffPaths(a, b *mbucket, prefix string, out *[]string) {
	if a == nil || b == nil {
		if a != b {
			*out = append(*out, prefix)
		}
		return
	}
	differs := a.seq != b.seq || len(a.ent) != len(b.ent) || a.dup != b.dup || a.trunc != b.trunc
	for k, ea := range a.ent {
		eb := b.ent[k]
		if eb == nil || (ea.sub != nil) != (eb.sub != nil) || (ea.sub == nil && ea.val != eb.val) {
			differs = true
			continue
		}
		if ea.sub != nil {
			diffPaths(ea.sub, eb.sub, joinPath(prefix, k), out)
		}
	}
	if differs {
		*out = append(*out, prefix)
	}
}

func joinPath(prefix, name string) string {
	if prefix == "" {
		return name
	}
	return prefix + "/" + name
}
