package c11

import (
	"bytes"
	"errors"
	"fmt"
	"sort"
	"strconv"
	"strings"

	"github.com/btcsuite/btcwallet/walletdb"
)

var nsKey = []byte("c11ns")

var errSentinel = errors.New("c11: closure error")

type panicSentinel struct{}

type failure struct{ sig, msg string }

// bk is the handle on one real bucket: r always, w only in a writable
// transaction when reached through the read-write accessors.
type bk struct {
	r walletdb.ReadBucket
	w walletdb.ReadWriteBucket
}

// txrun is the lock-step execution of one program inside one transaction.
type txrun struct {
	u        *Universe
	prog     []uint16
	pre      *mbucket
	w        *mbucket // the model's view inside the transaction
	writable bool

	own      map[string]map[string]bool // bucket path -> keys ("#seq": the sequence) changed by this transaction
	tree     map[string]bool            // buckets created or deleted by this transaction
	anyMut   bool
	evals    int
	skipped  int
	fails    []failure
	calls    int                  // closure invocations
	onCommit int                  // OnCommit callbacks that ran
	rtx      walletdb.ReadTx      // the transaction (set by the closure)
	rwtx     walletdb.ReadWriteTx // nil in a read-only transaction
	poisoned bool                 // an operation panicked inside the adapter: the rest is skipped and the transaction is not committed
	obs      []string             // observations: error classes that differ from the nearest documented one where the documents leave it open
}

func (x *txrun) reset() {
	x.w = x.pre.clone()
	x.own = map[string]map[string]bool{}
	x.tree = map[string]bool{}
	x.anyMut = false
}

func (x *txrun) fail(sig, format string, a ...interface{}) {
	x.fails = append(x.fails, failure{sig, fmt.Sprintf(format, a...)})
}

// related reports whether this transaction's own writes may legitimately
// show at bucket path p (key "": anywhere in the bucket; "*": in its listing).
func (x *txrun) related(p, key string) bool {
	switch ks := x.own[p]; {
	case key == "" && len(ks) > 0, ks[key]:
		return true
	case key == "*":
		for k := range ks {
			if k != "#seq" {
				return true
			}
		}
	}
	for t := range x.tree {
		if t == p || strings.HasPrefix(p, t+"/") {
			return true
		}
	}
	return false
}

// readSig picks the signature for a mismatching read at bucket path p. When
// the transaction has not written to p but the result is exactly what another
// bucket written by this transaction would give, the buckets are not
// independent namespaces.
func (x *txrun) readSig(p string, o Op, plain, own string, match func(*mbucket) bool) string {
	if !x.anyMut {
		return plain
	}
	key := "*"
	switch o.Kind {
	case opGet, opNested:
		key = o.K
	case opSeq:
		key = "#seq"
	}
	if x.related(p, key) {
		return own
	}
	if match != nil {
		for q := range x.own {
			if q == p {
				continue
			}
			if b := x.at(q); b != nil && match(b) {
				return "nested:not-independent:" + o.name()
			}
		}
	}
	return plain
}

// at returns the model bucket at a path of the in-transaction view.
func (x *txrun) at(p string) *mbucket {
	b := x.w
	if p == "" {
		return b
	}
	for _, n := range strings.Split(p, "/") {
		if b = b.sub(n); b == nil {
			return nil
		}
	}
	return b
}

func q(b []byte) string {
	if b == nil {
		return "nil"
	}
	return strconv.Quote(string(b))
}

func pairsString(ps []pair) string {
	var sb strings.Builder
	sb.WriteByte('[')
	for i, p := range ps {
		if i > 0 {
			sb.WriteByte(' ')
		}
		sb.WriteString(strconv.Quote(p.k))
		if p.bucket {
			sb.WriteString(":bucket")
		} else {
			sb.WriteByte('=')
			sb.WriteString(strconv.Quote(p.v))
		}
	}
	sb.WriteByte(']')
	return sb.String()
}

// got is one pair as returned by the implementation.
type got struct {
	k, v []byte
}

func gotString(gs []got) string {
	var sb strings.Builder
	sb.WriteByte('[')
	for i, g := range gs {
		if i > 0 {
			sb.WriteByte(' ')
		}
		sb.WriteString(q(g.k) + "=" + q(g.v))
	}
	sb.WriteByte(']')
	return sb.String()
}

// sameListing compares a listing of the implementation with the model. Nested
// buckets must carry a nil value when strictNil (ForEach documents it); a
// stored empty value may come back nil or empty.
func sameListing(gs []got, want []pair, strictNil bool) bool {
	if len(gs) != len(want) {
		return false
	}
	for i, g := range gs {
		w := want[i]
		if string(g.k) != w.k {
			return false
		}
		if w.bucket {
			if strictNil && g.v != nil || len(g.v) != 0 {
				return false
			}
		} else if string(g.v) != w.v || (strictNil && g.v == nil) {
			// (a nil value is how a nested bucket is reported: the value of a key, empty
			// or not, is never nil)
			return false
		}
	}
	return true
}

func cp(b []byte) []byte {
	if b == nil {
		return nil
	}
	return append([]byte{}, b...)
}

func reverse(ps []pair) []pair {
	r := make([]pair, len(ps))
	for i, p := range ps {
		r[len(ps)-1-i] = p
	}
	return r
}

// body runs the program inside the transaction. Every operation looks its
// top-level bucket up through the transaction again.
func (x *txrun) body(rtx walletdb.ReadTx, rwtx walletdb.ReadWriteTx) {
	x.calls++
	x.reset()
	x.rtx, x.rwtx = rtx, rwtx
	for _, oi := range x.prog {
		if x.poisoned {
			x.skipped++
			continue
		}
		x.safeStep(x.u.ops[oi])
	}
}

func (x *txrun) safeStep(o Op) {
	defer func() {
		if r := recover(); r != nil {
			x.poisoned = true
			sig := "adapter:panic:" + o.name()
			if !o.topLevel() && x.tree[o.rootName()] {
				// the transaction deleted or created this top-level bucket
				// earlier and the handle it now hands out cannot be used
				sig = "toplevel:stale-handle-panic"
			}
			x.fail(sig, "%s panicked inside the adapter: %v", o, r)
		}
	}()
	x.step(o)
}

// lookup fetches a top-level bucket through the transaction.
func (x *txrun) lookup(name string, forWrite bool) bk {
	if x.rwtx != nil && forWrite {
		if b := x.rwtx.ReadWriteBucket([]byte(name)); b != nil {
			return bk{r: b, w: b}
		}
		return bk{}
	}
	if b := x.rtx.ReadBucket([]byte(name)); b != nil {
		return bk{r: b}
	}
	return bk{}
}

// topStep runs an operation on the transaction's top-level buckets.
func (x *txrun) topStep(o Op) {
	top := x.w
	switch o.Kind {
	case opTopLookup:
		b := x.lookup(o.K, true)
		x.evals++
		if (b.r != nil) != (top.sub(o.K) != nil) {
			x.fail(x.readSig("", Op{Kind: opNested, K: o.K}, "toplevel:lookup-nilness", "toplevel:read-own-write:lookup", nil),
				"%s returned nil=%v, model has the bucket=%v (model top level %s)", o, b.r == nil, top.sub(o.K) != nil, top)
		}

	case opTopForEach:
		var names []string
		err := x.rtx.ForEachBucket(func(k []byte) error {
			names = append(names, string(k))
			return nil
		})
		x.evals++
		sort.Strings(names)
		want := top.keys()
		if err != nil || strings.Join(names, "\x00/") != strings.Join(want, "\x00/") {
			sig := "toplevel:listing"
			if x.related("", "*") {
				sig = "toplevel:read-own-write:listing"
			}
			x.fail(sig, "%s listed %q (err=%v), model says %q", o, names, err, want)
		}

	case opTopCreate, opTopDelete, opTopRecreate:
		rwtx := x.rwtx
		if rwtx == nil {
			// read-only transaction: the mutator must be unavailable or refused
			x.evals++
			t, ok := x.rtx.(walletdb.ReadWriteTx)
			if !ok {
				return
			}
			var err error
			if o.Kind == opTopCreate {
				_, err = t.CreateTopLevelBucket([]byte(o.K))
			} else {
				err = t.DeleteTopLevelBucket([]byte(o.K))
				if o.Kind == opTopRecreate && err != nil {
					_, err = t.CreateTopLevelBucket([]byte(o.K))
				}
			}
			if err == nil {
				x.fail("view:mutation-accepted:"+o.name(), "%s inside a read-only transaction returned a nil error", o)
			} else if !errors.Is(err, walletdb.ErrTxNotWritable) {
				x.obs = append(x.obs, o.name()+" in a read-only transaction -> "+fmt.Sprintf("%T %q", err, err.Error())+" (not walletdb.ErrTxNotWritable)")
			}
			return
		}
		e := top.ent[o.K]
		if o.Kind == opTopCreate {
			// "creates the top level bucket for a key if it does not exist"
			b, err := rwtx.CreateTopLevelBucket([]byte(o.K))
			if x.mutResult(o, err, nil) {
				x.evals++
				if b == nil {
					x.fail("create:nil-bucket", "%s returned a nil bucket with a nil error", o)
				}
				if e == nil {
					top.ent[o.K] = &ment{sub: newBucket()}
					x.mutated("", o.K, o.K)
				}
			}
			return
		}
		err := rwtx.DeleteTopLevelBucket([]byte(o.K))
		var want error
		if e == nil {
			want = walletdb.ErrBucketNotFound
		}
		if x.mutResult(o, err, want) && want == nil {
			delete(top.ent, o.K)
			x.mutated("", o.K, o.K)
		}
		if o.Kind == opTopRecreate {
			// drop (when present) and re-create: an empty bucket afterwards
			b, err := rwtx.CreateTopLevelBucket([]byte(o.K))
			if x.mutResult(o, err, nil) {
				x.evals++
				if b == nil {
					x.fail("create:nil-bucket", "%s returned a nil bucket with a nil error", o)
				}
				top.ent[o.K] = &ment{sub: newBucket()}
				x.mutated("", o.K, o.K)
			}
		}
	}
}

func (x *txrun) step(o Op) {
	if o.topLevel() {
		x.topStep(o)
		return
	}
	root := o.rootName()
	cur := x.lookup(root, o.mutator())
	mb := x.w.sub(root)
	x.evals++
	if (cur.r != nil) != (mb != nil) {
		x.fail(x.readSig("", Op{Kind: opNested, K: root}, "toplevel:lookup-nilness", "toplevel:read-own-write:lookup", nil),
			"%s: looking up top-level bucket %q returned nil=%v, model has the bucket=%v (model top level %s)", o, root, cur.r == nil, mb != nil, x.w)
		return
	}
	if mb == nil {
		x.skipped++
		return
	}
	path := root
	for _, name := range o.Loc {
		var nb bk
		if cur.w != nil && o.mutator() {
			if b := cur.w.NestedReadWriteBucket([]byte(name)); b != nil {
				nb = bk{r: b, w: b}
			}
		} else {
			if b := cur.r.NestedReadBucket([]byte(name)); b != nil {
				nb = bk{r: b}
			}
		}
		msub := mb.sub(name)
		x.evals++
		if (nb.r != nil) != (msub != nil) {
			x.fail("nested:nilness",
				"%s: nested bucket %q under %q: implementation returned nil=%v, model has bucket=%v", o, name, path, nb.r == nil, msub != nil)
			return
		}
		if msub == nil {
			x.skipped++
			return
		}
		cur, mb, path = nb, msub, joinPath(path, name)
	}

	if o.mutator() && !x.writable {
		x.readonlyMutator(cur, mb, path, o)
		return
	}

	switch o.Kind {
	case opGet:
		g := cur.r.Get([]byte(o.K))
		x.evals++
		e := mb.ent[o.K]
		match := func(m *mbucket) bool {
			e := m.ent[o.K]
			if e == nil || e.sub != nil {
				return g == nil
			}
			return g != nil && string(g) == e.val // nil means "no such key", also for an empty value
		}
		if !match(mb) {
			want := "nil"
			if e != nil && e.sub == nil {
				want = strconv.Quote(e.val)
			}
			x.fail(x.readSig(path, o, "get:value", "read-own-write:get", match), "%s returned %s, model says %s (model bucket %s)", o, q(g), want, mb)
		}

	case opNested:
		b := cur.r.NestedReadBucket([]byte(o.K))
		x.evals++
		match := func(m *mbucket) bool { return (b != nil) == (m.sub(o.K) != nil) }
		if !match(mb) {
			x.fail(x.readSig(path, o, "nested:nilness", "nested:nilness", match), "%s returned nil=%v, model has bucket=%v (model bucket %s)", o, b == nil, mb.sub(o.K) != nil, mb)
		}

	case opSeq:
		s := cur.r.Sequence()
		x.evals++
		match := func(m *mbucket) bool { return s == m.seq }
		if !match(mb) {
			x.fail(x.readSig(path, o, "sequence:value", "sequence:value", match), "%s returned %d, model says %d", o, s, mb.seq)
		}

	case opForEach:
		var gs []got
		err := cur.r.ForEach(func(k, v []byte) error {
			gs = append(gs, got{cp(k), cp(v)})
			return nil
		})
		x.evals++
		want := mb.list()
		match := func(m *mbucket) bool { return err == nil && sameListing(gs, m.list(), true) }
		if !match(mb) {
			x.fail(x.readSig(path, o, "foreach:listing", "foreach:listing", match), "%s listed %s (err=%v), model says %s", o, gotString(gs), err, pairsString(want))
		}

	case opFwd, opBwd, opSeek:
		c := cur.r.ReadCursor()
		wantOf := func(m *mbucket) []pair {
			switch o.Kind {
			case opBwd:
				return reverse(m.list())
			case opSeek:
				return m.list()[m.firstGE(o.K):]
			}
			return m.list()
		}
		want := wantOf(mb)
		var k, v []byte
		sig := "cursor:order-forward"
		switch o.Kind {
		case opFwd:
			k, v = c.First()
		case opBwd:
			k, v = c.Last()
			sig = "cursor:order-backward"
		case opSeek:
			k, v = c.Seek([]byte(o.K))
			sig = "cursor:seek"
		}
		var gs []got
		for k != nil && len(gs) <= len(want)+2 {
			gs = append(gs, got{cp(k), cp(v)})
			if o.Kind == opBwd {
				k, v = c.Prev()
			} else {
				k, v = c.Next()
			}
		}
		x.evals++
		match := func(m *mbucket) bool { return sameListing(gs, wantOf(m), false) }
		if !match(mb) {
			x.fail(x.readSig(path, o, sig, sig, match), "%s walked %s, model says %s", o, gotString(gs), pairsString(want))
		}

	case opPut:
		err := cur.w.Put([]byte(o.K), append([]byte{}, o.V...))
		var want error
		e := mb.ent[o.K]
		switch {
		case o.K == "":
			want = walletdb.ErrKeyRequired
		case e != nil && e.sub != nil:
			want = walletdb.ErrIncompatibleValue
		}
		if x.mutResult(o, err, want) && want == nil {
			if e == nil || e.val != o.V {
				x.mutated(path, o.K, "")
			}
			mb.ent[o.K] = &ment{val: o.V}
		}

	case opDel:
		err := cur.w.Delete([]byte(o.K))
		var want error
		e := mb.ent[o.K]
		if e != nil && e.sub != nil {
			want = walletdb.ErrIncompatibleValue
		}
		if x.mutResult(o, err, want) && want == nil && e != nil {
			delete(mb.ent, o.K)
			x.mutated(path, o.K, "")
		}

	case opCreate, opCINE:
		var b walletdb.ReadWriteBucket
		var err error
		if o.Kind == opCreate {
			b, err = cur.w.CreateBucket([]byte(o.K))
		} else {
			b, err = cur.w.CreateBucketIfNotExists([]byte(o.K))
		}
		var want error
		e := mb.ent[o.K]
		switch {
		case o.K == "":
			want = walletdb.ErrBucketNameRequired
		case e != nil && e.sub == nil:
			want = walletdb.ErrIncompatibleValue
		case e != nil && o.Kind == opCreate:
			want = walletdb.ErrBucketExists
		}
		if x.mutResult(o, err, want) && want == nil {
			x.evals++
			if b == nil {
				x.fail("create:nil-bucket", "%s returned a nil bucket with a nil error", o)
			}
			if e == nil {
				mb.ent[o.K] = &ment{sub: newBucket()}
				x.mutated(path, o.K, joinPath(path, o.K))
			}
		}

	case opDelB:
		err := cur.w.DeleteNestedBucket([]byte(o.K))
		var want error
		e := mb.ent[o.K]
		switch {
		case e == nil:
			want = walletdb.ErrBucketNotFound
		case e.sub == nil:
			want = walletdb.ErrIncompatibleValue
		}
		if o.K == "" {
			// A bucket without a name cannot exist; interface.go does not say
			// which error an empty name gets, so any refusal is accepted and
			// the class is only recorded.
			x.evals++
			if err == nil {
				x.fail("mutator:error-class:"+o.name(), "%s returned a nil error", o)
			} else if !errors.Is(err, want) {
				x.obs = append(x.obs, fmt.Sprintf("%s with %d entries in the bucket -> %s (not ErrBucketNotFound)", o.name()+`("")`, len(mb.ent), err.Error()))
			}
			return
		}
		if x.mutResult(o, err, want) && want == nil {
			delete(mb.ent, o.K)
			x.mutated(path, o.K, joinPath(path, o.K))
		}

	case opNextSeq:
		s, err := cur.w.NextSequence()
		if x.mutResult(o, err, nil) {
			mb.seq++
			x.mutated(path, "#seq", "")
			x.evals++
			if s != mb.seq {
				x.fail("sequence:value", "%s returned %d, model says %d", o, s, mb.seq)
			}
		}

	case opSetSeq:
		err := cur.w.SetSequence(o.N)
		if x.mutResult(o, err, nil) {
			if mb.seq != o.N {
				x.mutated(path, "#seq", "")
			}
			mb.seq = o.N
		}

	case opFirstDel, opLastDel, opSeekDel:
		c := cur.w.ReadWriteCursor()
		i, k, v := x.position(c, mb, o)
		ps := mb.list()
		x.evals++
		okPos := false
		if i < 0 || i >= len(ps) {
			okPos = k == nil
		} else {
			okPos = sameListing([]got{{k, v}}, ps[i:i+1], false)
		}
		if !okPos {
			want := "nil"
			if i >= 0 && i < len(ps) {
				want = pairsString(ps[i : i+1])
			}
			x.fail("cursor:position", "%s positioned at %s=%s, model says %s (model bucket %s)", o, q(k), q(v), want, mb)
			return
		}
		if k == nil {
			return // nothing under the cursor: Delete is not specified
		}
		err := c.Delete()
		var want error
		if ps[i].bucket {
			want = walletdb.ErrIncompatibleValue
		}
		if x.mutResult(o, err, want) && want == nil {
			delete(mb.ent, ps[i].k)
			x.mutated(path, ps[i].k, "")
		}
	}
}

// position places the cursor as the operation says and returns the index of
// the model entry it must stand on.
func (x *txrun) position(c walletdb.ReadCursor, mb *mbucket, o Op) (int, []byte, []byte) {
	var k, v []byte
	i := 0
	switch o.Kind {
	case opFirstDel:
		k, v = c.First()
	case opLastDel:
		k, v = c.Last()
		i = len(mb.ent) - 1
	case opSeekDel:
		k, v = c.Seek([]byte(o.K))
		i = mb.firstGE(o.K)
	}
	return i, cp(k), cp(v)
}

func (x *txrun) mutated(own, key, tree string) {
	x.anyMut = true
	if x.own[own] == nil {
		x.own[own] = map[string]bool{}
	}
	x.own[own][key] = true
	if tree != "" {
		x.tree[tree] = true
	}
}

// mutResult compares the error of a mutator with the documented class.
func (x *txrun) mutResult(o Op, err, want error) bool {
	x.evals++
	if want == nil && err == nil || want != nil && errors.Is(err, want) {
		return true
	}
	x.fail("mutator:error-class:"+o.name(), "%s returned error %v, documented result is %v", o, errString(err), errString(want))
	return false
}

func errString(err error) string {
	if err == nil {
		return "<nil>"
	}
	return fmt.Sprintf("%q", err.Error())
}

// readonlyMutator tries a mutator inside a read-only transaction: it must be
// unavailable or refused.
func (x *txrun) readonlyMutator(cur bk, mb *mbucket, path string, o Op) {
	x.evals++
	switch o.Kind {
	case opFirstDel, opLastDel, opSeekDel:
		c := cur.r.ReadCursor()
		i, k, _ := x.position(c, mb, o)
		ps := mb.list()
		if (k == nil) != (i < 0 || i >= len(ps)) || k != nil && string(k) != ps[i].k {
			x.fail("cursor:position", "%s (read-only) positioned at %s, model bucket %s", o, q(k), mb)
			return
		}
		if k == nil {
			return
		}
		rwc, ok := c.(walletdb.ReadWriteCursor)
		if !ok {
			return
		}
		if err := rwc.Delete(); err == nil {
			x.fail("view:mutation-accepted:"+o.name(), "%s inside a read-only transaction returned a nil error", o)
		} else {
			x.roErr(o, err, ps[i].bucket)
		}
		return
	}
	rw, ok := cur.r.(walletdb.ReadWriteBucket)
	if !ok {
		return // no mutator reachable from a read bucket
	}
	var err error
	switch o.Kind {
	case opPut:
		err = rw.Put([]byte(o.K), append([]byte{}, o.V...))
	case opDel:
		err = rw.Delete([]byte(o.K))
	case opCreate:
		_, err = rw.CreateBucket([]byte(o.K))
	case opCINE:
		_, err = rw.CreateBucketIfNotExists([]byte(o.K))
	case opDelB:
		err = rw.DeleteNestedBucket([]byte(o.K))
	case opNextSeq:
		_, err = rw.NextSequence()
	case opSetSeq:
		err = rw.SetSequence(o.N)
	}
	if err == nil {
		x.fail("view:mutation-accepted:"+o.name(), "%s inside a read-only transaction returned a nil error", o)
		return
	}
	x.roErr(o, err, false)
}

// roErr checks the class of a read-only refusal where interface.go documents
// ErrTxNotWritable (Put, Delete, DeleteNestedBucket); any other documented
// error of the same call is accepted too.
func (x *txrun) roErr(o Op, err error, _ bool) {
	if !errors.Is(err, walletdb.ErrTxNotWritable) {
		// observation only: the refusal is what the property needs
		x.obs = append(x.obs, o.name()+" in a read-only transaction -> "+fmt.Sprintf("%T %q", err, err.Error())+" (not walletdb.ErrTxNotWritable)")
	}
	switch o.Kind {
	case opPut, opDel, opDelB:
		x.evals++
		if !errors.Is(err, walletdb.ErrTxNotWritable) && !errors.Is(err, walletdb.ErrKeyRequired) &&
			!errors.Is(err, walletdb.ErrIncompatibleValue) && !errors.Is(err, walletdb.ErrBucketNotFound) {
			x.fail("mutator:error-class:"+o.name(), "%s inside a read-only transaction returned %v, documented is %q", o, errString(err), walletdb.ErrTxNotWritable.Error())
		}
	}
}

// readModel reads a real bucket into a model value through ForEach,
// NestedReadBucket and Sequence.
func readModel(b walletdb.ReadBucket) *mbucket { return readModelDepth(b, 0) }

func readModelDepth(b walletdb.ReadBucket, depth int) *mbucket {
	m := newBucket()
	m.seq = b.Sequence()
	if depth > maxDepth+1 {
		m.trunc = true // deeper than anything the harness ever writes
		return m
	}
	_ = b.ForEach(func(k, v []byte) error {
		ks := string(k)
		if _, ok := m.ent[ks]; ok {
			m.dup = true
		}
		if nb := b.NestedReadBucket(k); nb != nil {
			m.ent[ks] = &ment{sub: readModelDepth(nb, depth+1)}
		} else {
			m.ent[ks] = &ment{val: string(v)}
		}
		return nil
	})
	return m
}

// readTop reads every top-level bucket of the database through the
// transaction (ForEachBucket + ReadBucket) into one model value whose entries
// are the top-level buckets.
func readTop(tx walletdb.ReadTx) (top *mbucket) {
	top = newBucket()
	defer func() {
		if r := recover(); r != nil {
			top.ent["!panic while reading: "+fmt.Sprint(r)] = &ment{}
		}
	}()
	var names []string
	if err := tx.ForEachBucket(func(k []byte) error {
		names = append(names, string(k))
		return nil
	}); err != nil {
		top.ent["!ForEachBucket: "+err.Error()] = &ment{}
	}
	for _, n := range names {
		if _, ok := top.ent[n]; ok {
			top.dup = true
		}
		if b := tx.ReadBucket([]byte(n)); b != nil {
			top.ent[n] = &ment{sub: readModel(b)}
		} else {
			top.ent[n] = &ment{val: "!listed by ForEachBucket but ReadBucket returns nil"}
		}
	}
	return top
}

// newTop is the model of a database whose namespace bucket holds ns.
func newTop(ns *mbucket) *mbucket {
	top := newBucket()
	top.ent[string(nsKey)] = &ment{sub: ns}
	return top
}

// writeModel writes the model into an empty real bucket.
func writeModel(b walletdb.ReadWriteBucket, m *mbucket) error {
	for _, k := range m.keys() {
		e := m.ent[k]
		if e.sub == nil {
			if err := b.Put([]byte(k), append([]byte{}, e.val...)); err != nil {
				return err
			}
			continue
		}
		nb, err := b.CreateBucket([]byte(k))
		if err != nil {
			return err
		}
		if err := writeModel(nb, e.sub); err != nil {
			return err
		}
	}
	if m.seq != 0 {
		return b.SetSequence(m.seq)
	}
	return nil
}

var _ = bytes.Equal
