package main

import (
	"crypto/sha256"
	"fmt"
	"os"
	"strings"

	"github.com/btcsuite/btcd/chaincfg/chainhash"
	"github.com/btcsuite/btcd/wire"
	"github.com/btcsuite/btcwallet/wtxmgr"

	"verif/harness/ev"
	"verif/harness/ledger"
	"verif/harness/txgraph"
	"verif/harness/vorder"
)

func init() { cmds["c14"] = runC14 }

type dagReplay struct {
	Kind   string   `json:"kind"`
	N      int      `json:"n"`
	Edges  [][3]int `json:"edges"` // parent, child, multiplicity
	Shared bool     `json:"roots_share_foreign_input"`
	Orders []int    `json:"map_order_choices"`
}

// buildDag builds n transactions with mult[i][j] parallel edges i->j (i<j).
func buildDag(n int, mult [][]int, shared bool) []*wire.MsgTx {
	txs := make([]*wire.MsgTx, n)
	for j := 0; j < n; j++ {
		tx := wire.NewMsgTx(2)
		nOut := 1
		for k := j + 1; k < n; k++ {
			nOut += mult[j][k]
		}
		used := map[int]int{}
		_ = used
		for i := 0; i < j; i++ {
			// outputs of i reserved for children in order of child index
			base := 0
			for k := i + 1; k < j; k++ {
				base += mult[i][k]
			}
			for e := 0; e < mult[i][j]; e++ {
				op := wire.OutPoint{Hash: txs[i].TxHash(), Index: uint32(base + e)}
				tx.AddTxIn(wire.NewTxIn(&op, nil, nil))
			}
		}
		if len(tx.TxIn) == 0 || shared {
			h := sha256.Sum256([]byte(fmt.Sprintf("foreign-%d", j)))
			if shared {
				h = sha256.Sum256([]byte("foreign-shared"))
			}
			op := wire.OutPoint{Hash: chainhash.Hash(h), Index: 0}
			if len(tx.TxIn) == 0 || !shared {
				tx.AddTxIn(wire.NewTxIn(&op, nil, nil))
			}
		}
		for o := 0; o < nOut; o++ {
			tx.AddTxOut(wire.NewTxOut(int64(1000+j*10+o), []byte{0x51, byte(j), byte(o)}))
		}
		txs[j] = tx
	}
	return txs
}

func runC14(args []string) {
	run := ev.NewRun("C14", "exploration", args)
	maxN, maxMult5 := 4, 0
	if run.Thorough() {
		maxN, maxMult5 = 5, 1
	}
	graphs, execs, orders := 0, 0, 0
	nontrivial := map[string]bool{}
	var samples []string
	check := func(n int, maxMult int) {
		pairs := [][2]int{}
		for i := 0; i < n; i++ {
			for j := i + 1; j < n; j++ {
				pairs = append(pairs, [2]int{i, j})
			}
		}
		total := 1
		for range pairs {
			total *= maxMult + 1
		}
		for code := 0; code < total; code++ {
			mult := make([][]int, n)
			for i := range mult {
				mult[i] = make([]int, n)
			}
			c := code
			var edges [][3]int
			for _, p := range pairs {
				m := c % (maxMult + 1)
				c /= maxMult + 1
				mult[p[0]][p[1]] = m
				if m > 0 {
					edges = append(edges, [3]int{p[0], p[1], m})
				}
			}
			for _, shared := range []bool{false, true} {
				if shared && len(edges) > 0 && n > 3 {
					continue // conflicting-roots variant only for small/edge-free graphs
				}
				txs := buildDag(n, mult, shared)
				set := map[chainhash.Hash]*wire.MsgTx{}
				idx := map[chainhash.Hash]int{}
				for i, tx := range txs {
					set[tx.TxHash()] = tx
					idx[tx.TxHash()] = i
				}
				if len(set) != n {
					ev.Fatal("hash collision in dag")
				}
				graphs++
				before := vorder.Calls
				var outcomes = map[string]bool{}
				nex := vorder.Enumerate(func() {
					res := wtxmgr.DependencySort(set)
					pos := map[int]int{}
					var names []string
					bad := ""
					for p, tx := range res {
						i, ok := idx[tx.TxHash()]
						if !ok {
							bad = "unknown transaction in result"
							break
						}
						if _, dup := pos[i]; dup {
							bad = fmt.Sprintf("t%d listed twice", i)
						}
						pos[i] = p
						names = append(names, fmt.Sprintf("t%d", i))
					}
					if bad == "" && len(res) != n {
						bad = fmt.Sprintf("%d of %d transactions returned", len(res), n)
					}
					if bad == "" {
						for _, e := range edges {
							if pos[e[0]] > pos[e[1]] {
								bad = fmt.Sprintf("t%d placed before its parent t%d", e[1], e[0])
							}
						}
					}
					outcomes[strings.Join(names, ",")] = true
					if bad != "" {
						kind := "order"
						if strings.Contains(bad, "twice") || strings.Contains(bad, "returned") || strings.Contains(bad, "unknown") {
							kind = "not-a-permutation"
						}
						run.Violation("dependencysort:"+kind, fmt.Sprintf("DependencySort on %d txs with edges(parent,child,mult)=%v returned [%s]: %s", n, edges, strings.Join(names, ","), bad),
							dagReplay{Kind: "dag", N: n, Edges: edges, Shared: shared})
					}
				})
				if vorder.Calls == before {
					ev.Fatal("map-order overlay is not active in this binary (vorder.Keys never called)")
				}
				execs += nex
				orders += len(outcomes)
				if len(edges) > 0 {
					nontrivial[fmt.Sprintf("%d/%d/%v", n, code, shared)] = true
				}
				if len(samples) < 5 && code%131 == 7 {
					samples = append(samples, fmt.Sprintf("n=%d edges(parent,child,mult)=%v shared-foreign-input=%v: %d map-order combinations, %d distinct result orders", n, edges, shared, nex, len(outcomes)))
				}
			}
		}
	}
	for n := 1; n <= 4 && n <= maxN; n++ {
		check(n, 2)
	}
	if maxN >= 5 {
		check(5, maxMult5)
	}

	// (b) Store.UnminedTxs in every state of the transaction-graph universes.
	us := universes("C14", false)
	if !run.Thorough() {
		var small []*ledger.Universe
		for _, u := range us {
			if len(u.Txs) <= 2 || strings.HasPrefix(u.Name, "g3.") && len(small)%7 == 0 || !strings.HasPrefix(u.Name, "g") {
				small = append(small, u)
			}
		}
		us = small
	}
	tot := exploreAll(run, us, txgraph.Config{MaxH: 2, NIDs: 1, C14: true})
	if len(samples) == 0 {
		samples = []string{"(none)"}
	}
	run.Assumption = []string{"map iteration order is owned through the ovgen overlay of wtxmgr/kahnsort.go and wtxmgr/unconfirmed.go generated from the current tree"}
	run.Finish(ev.Coverage{
		"evaluations":                  execs + tot.Evaluations,
		"distinct_nontrivial":          len(nontrivial),
		"rule":                         "every DAG with <=4 nodes and 0/1/2 parallel edges per ordered pair (thorough: +5 nodes, 0/1 edges), with and without a foreign input shared by all roots, x every combination of iteration orders of the map ranges in makeGraph/graphRoots; non-trivial = graphs with at least one edge. Part (b): Store.UnminedTxs in every state of the tx-graph universes under every map order",
		"graphs":                       graphs,
		"dependency_sort_executions":   execs,
		"distinct_result_orders":       orders,
		"store_states":                 tot.States,
		"store_transitions":            tot.Transitions,
		"store_unminedtxs_evaluations": tot.Evaluations,
		"exhaustive":                   true,
		"samples":                      samples,
	})
}

var _ = os.Exit
