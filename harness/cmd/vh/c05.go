//go:build verif

package main

import (
	"encoding/json"
	"fmt"
	"strings"
	"sync"

	"github.com/btcsuite/btcwallet/waddrmgr"

	"verif/harness/amgr"
	"verif/harness/ev"
)

func init() {
	cmds["c05"] = runC05
	replayers["amgr-c05"] = replayC05
}

func c05Alphabet(reduced bool) []amgr.Op {
	a := []amgr.Op{
		{K: "unlock"}, {K: "lock"}, {K: "unlock_wrong"}, {K: "chpass_priv"}, {K: "restart"},
		{K: "next_ext", N: 1}, {K: "derive_cache", N: 0}, {K: "lookup_all"}, {K: "import_priv", N: 1},
		{K: "import_wscript", N: 1}, {K: "new_watch_account"}, {K: "next_ext", A: 1, N: 1}, {K: "invalidate_cache"},
		{K: "derive", N: 3}, {K: "import_tapscript"},
	}
	if !reduced {
		a = append(a, amgr.Op{K: "unlock_old"}, amgr.Op{K: "chpass_pub"}, amgr.Op{K: "extend_ext", N: 2},
			amgr.Op{K: "derive", N: 0}, amgr.Op{K: "import_script", N: 2}, amgr.Op{K: "new_account"},
			amgr.Op{K: "to_watching"}, amgr.Op{K: "next_int", N: 1})
	}
	return a
}

func c05Exec(worker int, j amgr.Job, codes map[string]int, fail func(sig, msg string)) (evals int, obs string) {
	w, err := amgr.NewWorld(ev.Scratch(), worker, j.SeedName, amgr.Seed(j.SeedName))
	if err != nil {
		ev.Fatal("world: %v", err)
	}
	defer w.Close()
	all := append(append([]amgr.Op{}, j.Base...), j.Seq...)
	var probes *amgr.ProbeCT
	outcome := ""
	for i, op := range all {
		res := w.Apply(j.Focus, op)
		last := i == len(all)-1
		switch {
		case res.Skipped:
			outcome += "s"
		case res.Err != nil:
			outcome += "e"
		default:
			outcome += "k"
		}
		if res.Skipped {
			continue
		}
		if last && amgr.IsPanic(res.Err) {
			fail("panic:"+op.K, fmt.Sprintf("%s panicked: %v", op, res.Err))
		}
		if last && res.Expect == "ok" && res.Err != nil {
			fail("op-failed:"+op.K, fmt.Sprintf("%s failed although its preconditions hold: %v", op, res.Err))
		}
		if last && res.Expect == "fail" && res.Err == nil {
			fail("op-succeeded:"+op.K, fmt.Sprintf("%s succeeded although it must fail in this state (locked=%v watching=%v)", op, w.Locked, w.Watching))
		}
		if !w.Locked && !w.Watching && probes == nil {
			probes = w.MakeProbes()
		}
	}
	endState := fmt.Sprintf("locked=%v/watching=%v", w.Locked, w.Watching)
	evals += w.CheckAccess(j.Focus, probes, codes, fail)
	evals += w.CheckWiped(fail)
	evals += w.CheckUnlockSemantics(fail)
	return evals, outcome + "/" + endState
}

func runC05(args []string) {
	run := ev.NewRun("C05", "model_checking", args)
	amgr.FastScrypt()
	if !ev.IsWorker() {
		cov := run.RunSharded(16, append([]string{"c05"}, args...))
		wx, we := c05Wallet(run)
		cov["wallet_level_passphrase_sequences"] = wx
		if e, ok := cov["evaluations"].(int); ok {
			cov["evaluations"] = e + we
		}
		cov["wallet_level_rule"] = "every sequence of <=2 calls over Wallet.{ChangePassphrases, ChangePrivatePassphrase, ChangePublicPassphrase} x old passphrase right/wrong per half x wallet locked/unlocked before, through the walletLocker goroutine: a refused call changes nothing (the private passphrase in force still unlocks, the requested one does not), a successful one switches exactly what was asked; same on a wallet reopened on the file with the public passphrase in force"
		cov["rule"] = "every operation sequence up to the depth over the alphabet from several base states; in the reached state: every private-material accessor applied to every managed address/path must fail while locked or watching-only, the clear-text hook must report every buffer wiped after a lock (explicit, failed unlock), wrong/old passphrases fail and leave it locked, the current one unlocks; non-trivial = sequences ending locked or watching-only after having been unlocked at least once"
		if _, ok := cov["samples"]; !ok {
			cov["samples"] = []string{"(none)"}
		}
		run.Assumption = []string{
			"clear text in objects no longer reachable from the manager (garbage, caller-held copies) cannot be inspected",
			"error codes other than locked/watching-only are recorded (accessor_error_classes), the oracle requires an error and no material",
		}
		run.Finish(cov)
		return
	}
	type cfg struct {
		seed  string
		scope waddrmgr.KeyScope
		depth int
		alpha []amgr.Op
		bases [][]amgr.Op
	}
	baseUsed := []amgr.Op{{K: "unlock"}, {K: "next_ext", N: 2}, {K: "import_priv", N: 3}, {K: "lock"}}
	baseUnlocked := []amgr.Op{{K: "unlock"}, {K: "next_ext", N: 1}}
	var cfgs []cfg
	if run.Thorough() {
		cfgs = append(cfgs, cfg{"A", waddrmgr.KeyScopeBIP0084, 3, c05Alphabet(false), [][]amgr.Op{nil, baseUsed, baseUnlocked}})
		cfgs = append(cfgs, cfg{"A", waddrmgr.KeyScopeBIP0044, 4, c05Alphabet(true), [][]amgr.Op{nil, baseUnlocked}})
		cfgs = append(cfgs, cfg{"C", waddrmgr.KeyScopeBIP0086, 3, c05Alphabet(true), [][]amgr.Op{baseUsed}})
	} else {
		cfgs = append(cfgs, cfg{"A", waddrmgr.KeyScopeBIP0084, 3, c05Alphabet(true), [][]amgr.Op{nil, baseUnlocked}})
		cfgs = append(cfgs, cfg{"A", waddrmgr.KeyScopeBIP0044, 2, c05Alphabet(false), [][]amgr.Op{nil, baseUsed}})
	}
	var mu sync.Mutex
	evals, execs, nontrivial := 0, 0, 0
	obsSet := map[string]bool{}
	codes := map[string]int{}
	var samples []string
	done, complete := amgr.RunJobs(func(emit func(amgr.Job)) {
		for _, c := range cfgs {
			for _, b := range c.bases {
				amgr.Sequences(c.alpha, c.depth, func(seq []amgr.Op) {
					emit(amgr.Job{SeedName: c.seed, Focus: c.scope, Base: b, Seq: seq})
				})
			}
		}
	}, func(worker int, j amgr.Job) {
		j.Text = j.Describe()
		local := map[string]int{}
		n, obs := c05Exec(worker, j, local, func(sig, msg string) {
			run.Violation(sig, msg+" :: "+j.Describe(), map[string]interface{}{"kind": "amgr-c05", "job": j})
		})
		mu.Lock()
		for k, v := range local {
			codes[k] += v
		}
		evals += n
		execs++
		obsSet[obs] = true
		wasUnlocked := false
		for _, o := range append(append([]amgr.Op{}, j.Base...), j.Seq...) {
			if o.K == "unlock" {
				wasUnlocked = true
			}
		}
		if wasUnlocked && (strings.Contains(obs, "locked=true") || strings.Contains(obs, "watching=true")) {
			nontrivial++
		}
		if len(samples) < 2 && execs%97 == 3 {
			samples = append(samples, j.Describe()+" => "+obs)
		}
		mu.Unlock()
	}, run.Expired)
	var obsList []string
	for o := range obsSet {
		obsList = append(obsList, o)
	}
	run.Finish(ev.Coverage{
		"states@set":                    obsList,
		"transitions":                   execs,
		"traces_validated_against_impl": execs,
		"evaluations":                   evals,
		"distinct_nontrivial":           nontrivial,
		"executions":                    done,
		"exhaustive":                    complete,
		"samples":                       samples,
		"accessor_error_classes":        codes,
	})
}

func replayC05(prop, sig string, raw json.RawMessage) int {
	var r struct {
		Job amgr.Job `json:"job"`
	}
	if err := json.Unmarshal(raw, &r); err != nil {
		ev.Fatal("%v", err)
	}
	amgr.FastScrypt()
	fails := 0
	c05Exec(0, r.Job, map[string]int{}, func(sig, msg string) {
		fmt.Printf("  FAIL %s: %s\n", sig, msg)
		fails++
	})
	ev.Cleanup()
	if fails > 0 {
		fmt.Println("replay: violation reproduced")
		return 1
	}
	fmt.Println("replay: no oracle failure")
	return 0
}
