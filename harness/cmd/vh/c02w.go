package main

import (
	"crypto/sha256"
	"fmt"
	"sort"
	"strings"
	"sync"

	"github.com/btcsuite/btcd/btcutil"
	"github.com/btcsuite/btcd/wire"
	"github.com/btcsuite/btcwallet/waddrmgr"
	"github.com/btcsuite/btcwallet/walletdb"

	"verif/harness/ev"
	"verif/harness/wsim"
)

// Wallet-level part of C02 (anchor wallet/chainntfns.go disconnectBlock ->
// TxStore.Rollback): a wallet that went through connect / disconnect /
// reconnect cycles must report the same balances, spendable outputs and
// transaction details as a second wallet (same seed) that was fed the final
// best chain directly.

var c02wSteps = []string{"ext", "ext+fund", "ext+spend", "ext+remine", "disc"}

type c02wTx struct {
	tx    *wire.MsgTx
	block *wsim.Block
}

func c02wObserve(s *wsim.Sim, txs []*c02wTx) []string {
	var out []string
	for m := int32(0); m <= 4; m++ {
		b, err := s.W.CalculateBalance(m)
		out = append(out, fmt.Sprintf("balance(%d)=%d,%v", m, b, err != nil))
	}
	us, err := s.W.ListUnspent(0, 9999999, "")
	var ul []string
	for _, u := range us {
		ul = append(ul, fmt.Sprintf("%s:%d amt=%.8f confs=%d", u.TxID, u.Vout, u.Amount, u.Confirmations))
	}
	sort.Strings(ul)
	out = append(out, fmt.Sprintf("unspent=%v,%v", ul, err != nil))
	walletdb.View(s.DB, func(tx walletdb.ReadTx) error {
		ns := tx.ReadBucket([]byte("wtxmgr"))
		for i, t := range txs {
			h := t.tx.TxHash()
			d, err := s.W.TxStore.TxDetails(ns, &h)
			switch {
			case err != nil:
				out = append(out, fmt.Sprintf("tx%d: error", i))
			case d == nil:
				out = append(out, fmt.Sprintf("tx%d: unknown", i))
			default:
				var cr, db []string
				for _, c := range d.Credits {
					cr = append(cr, fmt.Sprintf("%d:%d:spent=%v", c.Index, c.Amount, c.Spent))
				}
				for _, c := range d.Debits {
					db = append(db, fmt.Sprintf("%d:%d", c.Index, c.Amount))
				}
				out = append(out, fmt.Sprintf("tx%d: height=%d credits=%v debits=%v", i, d.Block.Height, cr, db))
			}
		}
		return nil
	})
	return out
}

func c02wNewSim(worker int) (*wsim.Sim, *wsim.Chain, []btcutil.Address) {
	c := wsim.NewChain()
	s, err := wsim.NewSim(ev.Scratch(), worker, "A", c)
	if err != nil {
		ev.Fatal("%v", err)
	}
	if err := s.Open(0); err != nil {
		ev.Fatal("%v", err)
	}
	s.Attach()
	s.ServeRescans()
	var addrs []btcutil.Address
	for i := 0; i < 4; i++ {
		a, err := s.W.NewAddress(0, waddrmgr.KeyScopeBIP0084)
		if err != nil {
			ev.Fatal("%v", err)
		}
		addrs = append(addrs, a)
	}
	return s, c, addrs
}

func c02wExec(worker int, seq []string, fail func(sig, msg string)) (evals int, nontrivial bool) {
	defer func() {
		if r := recover(); r != nil {
			if se, ok := r.(*wsim.StuckError); ok {
				fail("wallet:stuck", se.Error())
				return
			}
			panic(r)
		}
	}()
	a, c, addrs := c02wNewSim(worker * 2)
	defer a.Close()
	var txs []*c02wTx
	nFund, branch := 0, 0
	nb := func() string { branch++; return string(rune('a' + branch - 1)) }
	place := func(b *wsim.Block) {
		for _, tx := range b.Txs {
			found := false
			for _, t := range txs {
				if t.tx.TxHash() == tx.TxHash() {
					t.block, found = b, true
				}
			}
			if !found {
				txs = append(txs, &c02wTx{tx: tx, block: b})
			}
		}
	}
	for _, st := range seq {
		switch st {
		case "ext":
			a.Connect(c.NewBlock(c.Tip, nb(), nil), wsim.StyleFiltered)
		case "ext+fund":
			nFund++
			b := c.NewBlock(c.Tip, nb(), []*wire.MsgTx{wsim.FundingTx(fmt.Sprintf("c02w-%d", nFund), addrs[nFund%len(addrs)], int64(1e6*nFund))})
			place(b)
			a.Connect(b, wsim.StyleFiltered)
		case "ext+spend":
			var sp *wire.MsgTx
			for _, t := range txs {
				if t.block == nil || !c.OnBest(t.block) || t.tx.TxOut[0].Value < 1000 || len(t.tx.TxIn[0].PreviousOutPoint.Hash) == 0 {
					continue
				}
				h := t.tx.TxHash()
				spent := false
				for _, u := range txs {
					for _, in := range u.tx.TxIn {
						if in.PreviousOutPoint.Hash == h {
							spent = true
						}
					}
				}
				if spent {
					continue
				}
				sp = wire.NewMsgTx(2)
				sp.AddTxIn(wire.NewTxIn(&wire.OutPoint{Hash: h, Index: 0}, nil, nil))
				x := sha256.Sum256([]byte("c02w-ext"))
				sp.AddTxOut(wire.NewTxOut(t.tx.TxOut[0].Value-500, append([]byte{0x00, 0x14}, x[:20]...)))
				break
			}
			if sp == nil {
				return evals, false
			}
			b := c.NewBlock(c.Tip, nb(), []*wire.MsgTx{sp})
			place(b)
			a.Connect(b, wsim.StyleFiltered)
		case "ext+remine":
			var re []*wire.MsgTx
			for _, t := range txs {
				if t.block != nil && !c.OnBest(t.block) {
					re = append(re, t.tx)
				}
			}
			if len(re) == 0 {
				return evals, false
			}
			b := c.NewBlock(c.Tip, nb(), re)
			place(b)
			a.Connect(b, wsim.StyleFiltered)
		case "disc":
			if c.Tip.Height == 0 {
				return evals, false
			}
			a.Disconnect()
			nontrivial = true
		}
	}
	// direct construction on a second wallet of the same seed
	b, cb, _ := c02wNewSim(worker*2 + 1)
	defer b.Close()
	var best []*wsim.Block
	for x := c.Tip; x != nil && x.Height > 0; x = x.Prev {
		best = append([]*wsim.Block{x}, best...)
	}
	for _, blk := range best {
		b.Connect(cb.NewBlock(cb.Tip, "d", blk.Txs), wsim.StyleFiltered)
	}
	for _, t := range txs {
		if t.block != nil && !c.OnBest(t.block) {
			b.SeenUnconfirmed(t.tx) // parents first: txs are in creation order
		}
	}
	oa, ob := c02wObserve(a, txs), c02wObserve(b, txs)
	evals += len(oa)
	for i := range oa {
		if oa[i] != ob[i] {
			kind := strings.SplitN(oa[i], "=", 2)[0]
			if strings.HasPrefix(kind, "tx") {
				kind = "txdetails"
			} else if strings.HasPrefix(kind, "balance") {
				kind = "balance"
			}
			fail("wallet:converge:"+kind, fmt.Sprintf("after [%s] the wallet reports %q, a wallet fed the final best chain directly reports %q", strings.Join(seq, " "), oa[i], ob[i]))
			break
		}
	}
	return evals, nontrivial
}

// c02Wallet enumerates every step sequence up to the depth.
func c02Wallet(run *ev.Run, depth int) (execs, evals, nontrivial int) {
	var seqs [][]string
	var rec func(p []string)
	rec = func(p []string) {
		if len(p) > 0 {
			seqs = append(seqs, append([]string{}, p...))
		}
		if len(p) == depth {
			return
		}
		for _, s := range c02wSteps {
			if len(p) == 0 && (s == "disc" || s == "ext+spend" || s == "ext+remine") {
				continue
			}
			rec(append(append([]string{}, p...), s))
		}
	}
	rec(nil)
	var mu sync.Mutex
	var wg sync.WaitGroup
	jobs := make(chan []string)
	for w := 0; w < 8; w++ {
		wg.Add(1)
		go func(w int) {
			defer wg.Done()
			for seq := range jobs {
				n, nt := c02wExec(200+w, seq, func(sig, msg string) {
					run.Violation(sig, msg, map[string]interface{}{"kind": "c02-wallet", "steps": seq})
				})
				mu.Lock()
				execs++
				evals += n
				if nt {
					nontrivial++
				}
				mu.Unlock()
			}
		}(w)
	}
	for _, s := range seqs {
		if run.Expired() {
			break
		}
		jobs <- s
	}
	close(jobs)
	wg.Wait()
	return
}
