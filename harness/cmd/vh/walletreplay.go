//go:build verif

package main

import (
	"encoding/json"
	"fmt"

	"verif/harness/ev"
)

func init() {
	done := func(fails int) int {
		ev.Cleanup()
		if fails > 0 {
			fmt.Println("replay: violation reproduced")
			return 1
		}
		fmt.Println("replay: no oracle failure")
		return 0
	}
	replayers["c08-wallet"] = func(prop, sig string, raw json.RawMessage) int {
		var r struct {
			Seq []c08wOp `json:"sequence"`
		}
		json.Unmarshal(raw, &r)
		fails := 0
		c08wExec(0, r.Seq, func(s, m string) { fmt.Printf("  FAIL %s: %s\n", s, m); fails++ })
		return done(fails)
	}
	replayers["c04-wallet"] = func(prop, sig string, raw json.RawMessage) int {
		var r struct {
			Seq []c04wStep `json:"sequence"`
		}
		json.Unmarshal(raw, &r)
		fails := 0
		c04wExec(0, r.Seq, func(s, m string) { fmt.Printf("  FAIL %s: %s\n", s, m); fails++ })
		return done(fails)
	}
	replayers["c02-wallet"] = func(prop, sig string, raw json.RawMessage) int {
		var r struct {
			Steps []string `json:"steps"`
		}
		json.Unmarshal(raw, &r)
		fails := 0
		c02wExec(0, r.Steps, func(s, m string) { fmt.Printf("  FAIL %s: %s\n", s, m); fails++ })
		return done(fails)
	}
}
