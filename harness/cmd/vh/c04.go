//go:build verif

package main

import (
	"encoding/json"
	"fmt"
	"os"
	"path/filepath"
	"sync"
	"time"

	"github.com/btcsuite/btcd/btcutil/hdkeychain"
	"github.com/btcsuite/btcd/chaincfg"
	"github.com/btcsuite/btcwallet/waddrmgr"
	"github.com/btcsuite/btcwallet/wallet"
	"github.com/btcsuite/btcwallet/walletdb"

	"verif/harness/amgr"
	"verif/harness/ev"
)

func init() {
	cmds["c04"] = runC04
	replayers["amgr-c04"] = replayC04
}

func c04Alphabet(reduced bool) []amgr.Op {
	a := []amgr.Op{
		{K: "next_ext", N: 2}, {K: "next_int", N: 1}, {K: "new_account"}, {K: "import_priv", N: 1},
		{K: "import_wscript", N: 1}, {K: "chpass_priv"}, {K: "lock"}, {K: "unlock"}, {K: "to_watching"}, {K: "restart"},
		{K: "next_ext", A: 1, N: 1}, {K: "neuter_root"},
	}
	if !reduced {
		a = append(a, amgr.Op{K: "extend_ext", N: 2}, amgr.Op{K: "new_scope"}, amgr.Op{K: "import_script", N: 2},
			amgr.Op{K: "chpass_pub"}, amgr.Op{K: "new_watch_account"}, amgr.Op{K: "mark_used"}, amgr.Op{K: "import_priv", N: 2})
	}
	return a
}

func c04Exec(worker int, j amgr.Job, fail func(sig, msg string)) (evals int, obs string) {
	w, err := amgr.NewWorld(ev.Scratch(), worker, j.SeedName, amgr.Seed(j.SeedName))
	if err != nil {
		ev.Fatal("world: %v", err)
	}
	defer w.Close()
	pats := amgr.Patterns(j.SeedName, amgr.Seed(j.SeedName))
	all := append(append([]amgr.Op{}, j.Base...), j.Seq...)
	outcome := ""
	for i, op := range all {
		res := w.Apply(j.Focus, op)
		switch {
		case res.Skipped:
			outcome += "s"
		case res.Err != nil:
			outcome += "e"
		default:
			outcome += "k"
		}
		if i == len(all)-1 && amgr.IsPanic(res.Err) {
			fail("panic:"+op.K, fmt.Sprintf("%s panicked: %v", op, res.Err))
		}
	}
	// the image at this commit boundary (every prefix is its own job)
	evals += w.ScanImage(pats, fail)
	evals += w.ScanSealed(pats, fail)
	if w.Watching {
		// reopen, then: addresses known, nothing unlocks, nothing private
		if err := w.Restart(); err != nil {
			fail("watching-only:reopen-failed", err.Error())
			return evals, outcome
		}
		evals += w.CheckWatchingOnly(j.Focus, fail)
		evals += w.CheckAccess(j.Focus, nil, map[string]int{}, fail)
		evals += w.CheckUnlockSemantics(fail)
		evals += w.ScanImage(pats, fail)
		evals += w.ScanSealed(pats, fail)
	}
	return evals, fmt.Sprintf("%s/watching=%v", outcome, w.Watching)
}

// c04WalletCreate scans the image written by the real wallet.Create (both
// namespaces) for every seed.
func c04WalletCreate(run *ev.Run) int {
	n := 0
	for _, name := range []string{"A", "C"} {
		seed := amgr.Seed(name)
		path := filepath.Join(ev.Scratch(), "wallet-create-"+name+".db")
		os.Remove(path)
		db, err := walletdb.Create("bdb", path, true, time.Minute, false)
		if err != nil {
			ev.Fatal("%v", err)
		}
		params := chaincfg.MainNetParams
		rootKey, kerr := hdkeychain.NewMaster(seed, &params)
		if kerr != nil {
			ev.Fatal("%v", kerr)
		}
		err = wallet.Create(db, amgr.DefaultPub, amgr.DefaultPriv, rootKey, &params, time.Unix(1600000000, 0))
		db.Close()
		if err != nil {
			ev.Fatal("wallet.Create: %v", err)
		}
		w := &amgr.World{Path: path}
		n += w.ScanImage(amgr.Patterns(name, seed), func(sig, msg string) {
			run.Violation(sig+":wallet.Create", msg+" :: image written by wallet.Create(seed "+name+")", map[string]interface{}{"kind": "wallet-create", "seed": name})
		})
		os.Remove(path)
	}
	return n
}

func runC04(args []string) {
	run := ev.NewRun("C04", "model_checking", args)
	amgr.FastScrypt()
	if !ev.IsWorker() {
		extra := c04WalletCreate(run)
		cov := run.RunSharded(16, append([]string{"c04"}, args...))
		if e, ok := cov["evaluations"].(int); ok {
			cov["evaluations"] = e + extra
		}
		cov["patterns_per_image"] = len(amgr.Patterns("A", amgr.Seed("A")))
		cov["rule"] = "every operation sequence up to the depth over create/derive/new account/new scope/imports/passphrase changes/lock/unlock/convert-to-watching-only/restart; at the commit boundary after the last operation the raw database file (all pages incl. freed ones) is scanned for every secret that can exist for the seed (seed, master/coin-type/account xprv + raw keys, address private keys raw/hex/WIF, imported keys, secret scripts, passphrases) and, since no transaction is recorded, every sensitive public datum (xpubs, public keys, x-only keys, hash160s, script hashes, address strings); after conversion + reopen addresses must be known and nothing unlocks; in addition an attacker closure over the live rows (every value and length-prefixed field tried as scrypt parameters for the public - after conversion also the private - passphrases and as a secretbox ciphertext under the all-zero key and every key so obtained, to fixpoint) must not yield a plaintext containing a private pattern; non-trivial = sequences with at least one key-creating or importing operation. Wallet-level part: every sequence of up to 3 Wallet.InitAccounts(scope, watchOnly, n) calls; after a conversion that returned nil the reopened wallet must be watching-only (no unlock, no private key, addresses known)"
		if _, ok := cov["samples"]; !ok {
			cov["samples"] = []string{"(none)"}
		}
		run.Assumption = []string{
			"patterns torn across a page boundary of a partially written commit are not modelled; the image is the whole file after the commit, including freed pages",
			"secrets are computed by the independent reference derivation for a superset of what the alphabet can create (accounts 0..2, indices 0..5)",
		}
		run.Finish(cov)
		return
	}
	type cfg struct {
		seed  string
		scope waddrmgr.KeyScope
		depth int
		alpha []amgr.Op
		bases [][]amgr.Op
	}
	baseU := []amgr.Op{{K: "unlock"}}
	var cfgs []cfg
	if run.Thorough() {
		cfgs = append(cfgs, cfg{"A", waddrmgr.KeyScopeBIP0084, 3, c04Alphabet(false), [][]amgr.Op{baseU}})
		cfgs = append(cfgs, cfg{"C", waddrmgr.KeyScopeBIP0044, 4, c04Alphabet(true), [][]amgr.Op{baseU}})
		cfgs = append(cfgs, cfg{"A", waddrmgr.KeyScopeBIP0086, 3, c04Alphabet(true), [][]amgr.Op{nil, baseU}})
	} else {
		cfgs = append(cfgs, cfg{"A", waddrmgr.KeyScopeBIP0084, 3, c04Alphabet(true), [][]amgr.Op{baseU}})
		cfgs = append(cfgs, cfg{"C", waddrmgr.KeyScopeBIP0086, 2, c04Alphabet(false), [][]amgr.Op{nil, baseU}})
	}
	var mu sync.Mutex
	evals, execs, nontrivial := 0, 0, 0
	obsSet := map[string]bool{}
	var samples []string
	done, complete := amgr.RunJobs(func(emit func(amgr.Job)) {
		for _, c := range cfgs {
			for _, b := range c.bases {
				emit(amgr.Job{SeedName: c.seed, Focus: c.scope, Base: b})
				amgr.Sequences(c.alpha, c.depth, func(seq []amgr.Op) {
					emit(amgr.Job{SeedName: c.seed, Focus: c.scope, Base: b, Seq: seq})
				})
			}
		}
	}, func(worker int, j amgr.Job) {
		j.Text = j.Describe()
		n, obs := c04Exec(worker, j, func(sig, msg string) {
			run.Violation(sig, msg+" :: "+j.Describe(), map[string]interface{}{"kind": "amgr-c04", "job": j})
		})
		mu.Lock()
		evals += n
		execs++
		obsSet[obs] = true
		for _, o := range j.Seq {
			if o.K == "new_account" || o.K == "import_priv" || o.K == "import_wscript" || o.K == "import_script" || o.K == "new_scope" || o.K == "next_ext" {
				nontrivial++
				break
			}
		}
		if len(samples) < 2 && execs%53 == 3 {
			samples = append(samples, j.Describe()+" => "+obs)
		}
		mu.Unlock()
	}, run.Expired)
	wex, wev := c04Wallet(run, func(sig, msg string, seq []c04wStep) {
		run.Violation(sig, msg, map[string]interface{}{"kind": "c04-wallet", "sequence": seq})
	})
	execs += wex
	evals += wev
	var obsList []string
	for o := range obsSet {
		obsList = append(obsList, o)
	}
	run.Finish(ev.Coverage{
		"states@set":                    obsList,
		"transitions":                   execs,
		"traces_validated_against_impl": execs,
		"wallet_level_executions":       wex,
		"evaluations":                   evals,
		"distinct_nontrivial":           nontrivial,
		"executions":                    done,
		"images_scanned":                execs,
		"exhaustive":                    complete,
		"samples":                       samples,
	})
}

func replayC04(prop, sig string, raw json.RawMessage) int {
	var r struct {
		Job amgr.Job `json:"job"`
	}
	if err := json.Unmarshal(raw, &r); err != nil {
		ev.Fatal("%v", err)
	}
	amgr.FastScrypt()
	fails := 0
	c04Exec(0, r.Job, func(sig, msg string) {
		fmt.Printf("  FAIL %s: %s\n", sig, msg)
		fails++
	})
	ev.Cleanup()
	if fails > 0 {
		fmt.Println("replay: violation reproduced")
		return 1
	}
	fmt.Println("replay: no oracle failure")
	return 0
}
