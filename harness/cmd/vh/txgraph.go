package main

import (
	"encoding/json"
	"fmt"
	"os"
	"runtime"
	"sync"
	"sync/atomic"

	"verif/harness/ev"
	"verif/harness/ledger"
	"verif/harness/txgraph"
)

func init() {
	cmds["c01"] = func(a []string) { runTxGraph("C01", a) }
	cmds["c02"] = func(a []string) { runTxGraph("C02", a) }
	cmds["c13"] = func(a []string) { runTxGraph("C13", a) }
}

// c01LeasePart is installed by c01lease.go (needs the clock hook, tag verif).
var c01LeasePart func(run *ev.Run) (states, transitions, evals int)

type txReplay struct {
	Kind     string           `json:"kind"`
	Universe *ledger.Universe `json:"universe"`
	History  []ledger.Event   `json:"history"`
	Text     string           `json:"text"`
}

// universes returns the universe list of a tier, simplest first.
func universes(prop string, thorough bool) []*ledger.Universe {
	var us []*ledger.Universe
	add := func(gb ledger.GenBounds) {
		ledger.Generate(gb, func(u *ledger.Universe) { us = append(us, u) })
	}
	add(ledger.GenBounds{N: 1, MaxIn: 2, MaxOut: 2, Coinbase: true, Shared: 0})
	add(ledger.GenBounds{N: 2, MaxIn: 2, MaxOut: 2, Coinbase: true, Shared: 1})
	us = append(us, ledger.Curated()...)
	if thorough {
		// (the full product N=3, <=2 inputs, <=2 outputs with all output kinds is 396 868
		// universes, about an hour; the families below keep every input shape and drop
		// only the change-flag variants of two-output transactions)
		add(ledger.GenBounds{N: 3, MaxIn: 2, MaxOut: 1, Coinbase: true, Shared: 1})
		add(ledger.GenBounds{N: 3, MaxIn: 1, MaxOut: 2, Coinbase: true, Shared: 1, PlainOuts: true})
		add(ledger.GenBounds{N: 3, MaxIn: 2, MaxOut: 2, Coinbase: false, Shared: 0, PlainOuts: true})
		add(ledger.GenBounds{N: 4, MaxIn: 1, MaxOut: 1, Coinbase: true, Shared: 1})
	} else {
		add(ledger.GenBounds{N: 3, MaxIn: 1, MaxOut: 1, Coinbase: true, Shared: 1})
		add(ledger.GenBounds{N: 3, MaxIn: 2, MaxOut: 1, Coinbase: false, Shared: 1})
	}
	return us
}

func runTxGraph(prop string, args []string) {
	run := ev.NewRun(prop, "model_checking", args)
	// MaxStates only guards against a non-terminating search on a broken tree
	// (e.g. a change that makes a no-op event grow a counter); the unchanged
	// tree needs < 2000 states per universe. Hitting it sets exhaustive:false.
	cfg := txgraph.Config{MaxH: 3, NIDs: 2, MaxStates: 5000}
	switch prop {
	case "C01":
		cfg.C01 = true
	case "C02":
		cfg.C02 = true
	case "C13":
		cfg.C13 = true
	}
	us := universes(prop, run.Thorough())
	if s := os.Getenv("VERIF_MAXUNIV"); s != "" {
		var n int
		fmt.Sscan(s, &n)
		if n < len(us) {
			us = us[:n]
		}
	}
	total := exploreAll(run, us, cfg)
	walletExecs := 0
	if prop == "C02" {
		d := 3
		if run.Thorough() {
			d = 4
		}
		we, wv, wn := c02Wallet(run, d)
		walletExecs = we
		total.Transitions += we
		total.Evaluations += wv
		total.NontrivialSt += wn
		total.DirectBuilt += we
	}
	leaseStates, leaseTrans := 0, 0
	if prop == "C01" && c01LeasePart != nil {
		ls, lt, le := c01LeasePart(run)
		leaseStates, leaseTrans = ls, lt
		total.States += ls
		total.Transitions += lt
		total.Evaluations += le
	}
	rule := map[string]string{
		"C01": "states = distinct canonical dumps of the wtxmgr namespace reached by BFS to fixpoint per universe; non-trivial = distinct states entered (and changed) by a disconnect, an abandon or a confirmation that removed a conflicting unconfirmed tx",
		"C02": "states grouped by final facts (confirmed txs per block in order + unconfirmed set); every group compared observationally and against the direct construction; non-trivial as C01. Wallet-level part: every sequence of up to 3 (thorough 4) steps {extend, extend paying the wallet, extend spending a wallet output, extend re-confirming reorged txs, disconnect} on the real wallet vs a second wallet of the same seed fed the final best chain directly",
		"C13": "every state: TxDetails/UniqueTxDetails for all txs x all blocks, RangeTransactions for all (begin,end), PreviousPkScripts; non-trivial as C01",
	}[prop]
	cov := ev.Coverage{
		"states":                          total.States,
		"transitions":                     total.Transitions,
		"traces_validated_against_impl":   total.Transitions + total.DirectBuilt,
		"evaluations":                     total.Evaluations,
		"distinct_nontrivial":             total.NontrivialSt,
		"rule":                            rule,
		"universes":                       len(us),
		"universes_completed":             total.done,
		"fact_groups":                     total.Groups,
		"merged_paths":                    total.MergedPaths,
		"distinct_observation_vectors":    total.ObsDistinct,
		"direct_constructions":            total.DirectBuilt,
		"disconnect_transitions":          total.DiscTrans,
		"conflict_removing_confirmations": total.ConflictTrans,
		"max_depth":                       total.MaxDepth,
		"wallet_level_executions":         walletExecs,
		"states_with_lease_table":         leaseStates,
		"transitions_with_lease_table":    leaseTrans,
		"bounds":                          fmt.Sprintf("heights 1..%d, %d block ids per height, coinbase maturity %d, BFS to fixpoint per universe", cfg.MaxH, cfg.NIDs, txgraph.Maturity),
		"exhaustive":                      total.done == len(us) && !total.Capped,
		"samples":                         total.samples,
	}
	run.Assumption = []string{
		"events are applied the way wallet.addRelevantTx / disconnectBlock apply them (InsertTxCheckIfExists + AddCredit per credited output, Rollback, RemoveUnminedTx)",
		"coinbase transactions have all outputs credited; CoinbaseMaturity scaled to 2 in a private copy of the chain params",
		"reference ledger (harness/ledger/ref.go) is written from the property statements and trusted",
	}
	run.Finish(cov)
}

type totals struct {
	txgraph.Stats
	done    int
	samples []string
}

func exploreAll(run *ev.Run, us []*ledger.Universe, cfg txgraph.Config) totals {
	var tot totals
	var mu sync.Mutex
	cappedUniverses := 0
	var reported int64
	cfg.Abort = func() bool { return atomic.LoadInt64(&reported) >= 3000 }
	report := func(prop, sig, msg string, u *ledger.Universe, hist []ledger.Event) {
		atomic.AddInt64(&reported, 1)
		if prop != run.Prop {
			// a side oracle of another property fired: report it under the
			// property being checked only if it is that property's clause.
			if !(run.Prop == "C02" && prop == "C02") {
				prop = run.Prop
				sig = "side:" + sig
			}
		}
		run.ViolationFor(prop, sig, msg, txReplay{Kind: "txgraph", Universe: u, History: hist, Text: ledger.HistString(hist)})
	}
	nw := runtime.NumCPU()
	if nw > 16 {
		nw = 16
	}
	jobs := make(chan int)
	var wg sync.WaitGroup
	for w := 0; w < nw; w++ {
		wg.Add(1)
		go func(w int) {
			defer wg.Done()
			env, err := txgraph.NewEnv(ev.Scratch(), w)
			if err != nil {
				ev.Fatal("env: %v", err)
			}
			defer env.Close()
			for i := range jobs {
				b, err := ledger.Build(us[i])
				if err != nil {
					ev.Fatal("universe %s: %v", us[i], err)
				}
				st, err := txgraph.Explore(env, b, cfg, report)
				if err != nil {
					ev.Fatal("explore %s: %v", us[i], err)
				}
				mu.Lock()
				tot.States += st.States
				tot.Transitions += st.Transitions
				tot.Evaluations += st.Evaluations
				tot.Groups += st.Groups
				tot.MergedPaths += st.MergedPaths
				tot.DirectBuilt += st.DirectBuilt
				tot.NontrivialSt += st.NontrivialSt
				tot.ObsDistinct += st.ObsDistinct
				tot.DiscTrans += st.DiscTrans
				tot.ConflictTrans += st.ConflictTrans
				if st.MaxDepth > tot.MaxDepth {
					tot.MaxDepth = st.MaxDepth
				}
				tot.Capped = tot.Capped || st.Capped
				if st.Capped {
					cappedUniverses++
				}
				tot.done++
				if len(tot.samples) < 6 && st.Sample != "" && i%97 == 0 {
					tot.samples = append(tot.samples, st.Sample)
				}
				mu.Unlock()
			}
		}(w)
	}
	for i := range us {
		if run.Expired() {
			break
		}
		// the verdict is already "violated" many times over: a tree on which
		// exploration keeps hitting the per-universe violation/state cap is not
		// explored further (reported as not exhaustive)
		mu.Lock()
		stop := cappedUniverses >= 64 || cfg.Abort()
		mu.Unlock()
		if stop {
			break
		}
		jobs <- i
	}
	close(jobs)
	wg.Wait()
	if len(tot.samples) == 0 {
		tot.samples = []string{"(no sample)"}
	}
	return tot
}

func init() {
	cmds["replay"] = func(a []string) {
		if len(a) < 1 {
			usage()
		}
		raw, err := os.ReadFile(a[0])
		if err != nil {
			ev.Fatal("%v", err)
		}
		var v struct {
			Prop   string          `json:"property"`
			Sig    string          `json:"signature"`
			Msg    string          `json:"message"`
			Replay json.RawMessage `json:"replay"`
		}
		if err := json.Unmarshal(raw, &v); err != nil {
			ev.Fatal("%v", err)
		}
		var k struct {
			Kind string `json:"kind"`
		}
		json.Unmarshal(v.Replay, &k)
		f, ok := replayers[k.Kind]
		if !ok {
			ev.Fatal("no replayer for kind %q", k.Kind)
		}
		fmt.Printf("replaying %s %s\n  recorded: %s\n", v.Prop, v.Sig, v.Msg)
		os.Exit(f(v.Prop, v.Sig, v.Replay))
	}
	replayers["txgraph"] = replayTxGraph
}

var replayers = map[string]func(prop, sig string, raw json.RawMessage) int{}

// replayTxGraph re-executes one history without the explorer and evaluates the
// oracles of the property in every prefix state.
func replayTxGraph(prop, sig string, raw json.RawMessage) int {
	var r txReplay
	if err := json.Unmarshal(raw, &r); err != nil {
		ev.Fatal("%v", err)
	}
	b, err := ledger.Build(r.Universe)
	if err != nil {
		ev.Fatal("%v", err)
	}
	env, err := txgraph.NewEnv(ev.Scratch(), 0)
	if err != nil {
		ev.Fatal("%v", err)
	}
	defer ev.Cleanup()
	defer env.Close()
	cfg := txgraph.Config{MaxH: 3, NIDs: 2, C01: prop == "C01", C02: prop == "C02", C13: prop == "C13", C14: prop == "C14", MaxStates: 0}
	fails := 0
	txgraph.ReplayHistory(env, b, cfg, r.History, func(p, s, msg string, u *ledger.Universe, hist []ledger.Event) {
		fmt.Printf("  FAIL %s %s: %s\n", p, s, msg)
		fails++
	})
	if fails > 0 {
		fmt.Println("replay: violation reproduced")
		return 1
	}
	fmt.Println("replay: no oracle failure on this history")
	return 0
}
