package main

import (
	"encoding/json"
	"fmt"
	"strings"
	"sync"

	"github.com/btcsuite/btcwallet/waddrmgr"
	"github.com/btcsuite/btcwallet/walletdb"

	"verif/harness/amgr"
	"verif/harness/ev"
)

func init() {
	cmds["c08"] = runC08
	replayers["amgr-c08"] = replayC08
}

func c08Alphabet(reduced bool) []amgr.Op {
	base := []amgr.Op{
		{K: "next_ext", N: 1}, {K: "next_int", N: 1}, {K: "extend_ext", N: 2}, {K: "mark_used"},
		{K: "rename", N: 1}, {K: "set_synced", N: 1}, {K: "import_priv", N: 1}, {K: "new_account"},
	}
	var a []amgr.Op
	for _, o := range base {
		a = append(a, o)
		r := o
		r.Rollback = true
		a = append(a, r)
	}
	a = append(a, amgr.Op{K: "lookup_all"}, amgr.Op{K: "unlock"}, amgr.Op{K: "lock"}, amgr.Op{K: "set_synced_gap"})
	if !reduced {
		a = append(a, amgr.Op{K: "invalidate_cache"}, amgr.Op{K: "invalidate_cache", A: 1})
		for _, o := range []amgr.Op{{K: "new_watch_account"}, {K: "import_script", N: 1}, {K: "next_ext", A: 1, N: 1}, {K: "extend_int", N: 1}, {K: "rename", A: 1, N: 2}, {K: "next_int", A: 1, N: 1}} {
			a = append(a, o)
			r := o
			r.Rollback = true
			a = append(a, r)
		}
	}
	return a
}

func sigOfLine(line string) string {
	// classify the differing query for the failure signature
	for _, k := range []string{"props", "AccountName", "LastExternalAddress", "LastInternalAddress", "LookupAccount", "LastAccount", "Address(", "SyncedTo", "BlockHash", "locked="} {
		if strings.Contains(line, k) {
			return strings.Trim(k, "(=")
		}
	}
	return "other"
}

// c08Exec: after the last operation (a commit boundary if it committed) the
// live manager must answer as a manager freshly opened on the same database.
func c08Exec(worker int, j amgr.Job, fail func(sig, msg string), q3 *int) (evals int, obs string) {
	w, err := amgr.NewWorld(ev.Scratch(), worker, j.SeedName, amgr.Seed(j.SeedName))
	if err != nil {
		ev.Fatal("world: %v", err)
	}
	defer w.Close()
	all := append(append([]amgr.Op{}, j.Base...), j.Seq...)
	outcome := ""
	rolledBackBefore := ""
	for i, op := range all {
		last := i == len(all)-1
		// Q2: the next committed issuing request issues the very address a
		// restarted wallet would issue.
		var wouldIssue []string
		issuing := op.K == "next_ext" || op.K == "next_int"
		if last && issuing && !op.Rollback {
			m2, db2, err := w.OpenSecond()
			if err == nil {
				if !w.Locked && !w.Watching {
					walletdb.View(db2, func(tx walletdb.ReadTx) error { return m2.Unlock(tx.ReadBucket(amgr.NS), w.PrivPass) })
				}
				if sm2, err := m2.FetchScopedKeyManager(j.Focus); err == nil {
					acct := uint32(0)
					if op.A == 1 {
						acct = w.LastAcct[j.Focus]
					}
					walletdb.Update(db2, func(tx walletdb.ReadWriteTx) error {
						ns := tx.ReadWriteBucket(amgr.NS)
						var mas []waddrmgr.ManagedAddress
						var err error
						if op.K == "next_ext" {
							mas, err = sm2.NextExternalAddresses(ns, acct, uint32(max1(op.N)))
						} else {
							mas, err = sm2.NextInternalAddresses(ns, acct, uint32(max1(op.N)))
						}
						if err == nil {
							for _, ma := range mas {
								wouldIssue = append(wouldIssue, ma.Address().EncodeAddress())
							}
						}
						return amgr.ErrRolledBack
					})
				}
				m2.Close()
				db2.Close()
			}
		}
		res := w.Apply(j.Focus, op)
		switch {
		case res.Skipped:
			outcome += "s"
		case res.Err != nil:
			outcome += "e"
		default:
			outcome += "k"
			if op.Rollback {
				outcome += "r"
				rolledBackBefore = op.K
			}
		}
		if last && amgr.IsPanic(res.Err) {
			fail("panic:"+op.K, fmt.Sprintf("%s panicked: %v", op, res.Err))
		}
		if last && issuing && !op.Rollback && res.Err == nil && wouldIssue != nil {
			var got []string
			for _, ma := range res.Addrs {
				got = append(got, ma.Address().EncodeAddress())
			}
			evals++
			if strings.Join(got, ",") != strings.Join(wouldIssue, ",") {
				fail("q2:next-address-differs-from-restart:after-rolled-back="+rolledBackBefore,
					fmt.Sprintf("%s issued %v, a wallet restarted just before would have issued %v", op, got, wouldIssue))
			}
		}
		if last && (res.Skipped || res.Err != nil || op.Rollback) {
			// not a commit boundary
			return evals, outcome + "/no-commit-boundary"
		}
	}
	m2, db2, err := w.OpenSecond()
	if err != nil {
		fail("restart-open-failed", err.Error())
		return evals, outcome
	}
	defer db2.Close()
	defer m2.Close()
	if !w.Locked && !w.Watching {
		if err := walletdb.View(db2, func(tx walletdb.ReadTx) error { return m2.Unlock(tx.ReadBucket(amgr.NS), w.PrivPass) }); err != nil {
			fail("restart-unlock-failed", err.Error())
		}
	}
	li, le := w.Observe(w.Mgr, w.DB)
	ri, re := w.Observe(m2, db2)
	evals += len(li)
	if d, diff := amgr.DiffLines(li, ri); diff {
		fail("q1:"+sigOfLine(d)+":after-rolled-back="+rolledBackBefore, "live manager and freshly opened manager disagree: "+d)
	}
	if _, diff := amgr.DiffLines(le, re); diff {
		*q3++
	}
	return evals, outcome + fmt.Sprintf("/issued=%d", len(w.Issued))
}

func runC08(args []string) {
	run := ev.NewRun("C08", "model_checking", args)
	amgr.FastScrypt()
	if !ev.IsWorker() {
		cov := run.RunSharded(16, append([]string{"c08"}, args...))
		cov["rule"] = "every operation sequence up to the depth where every mutating operation is tried committed and rolled-back-after-success; at the commit boundary after the last operation the observation vector (issued addresses + metadata, indices, names, properties, used flags, sync state) of the live manager is compared with a manager freshly opened on a copy of the database; before a committed issuing call a restarted copy is asked what it would issue (Q2); non-trivial = sequences containing a rolled-back operation followed by a committed one. Wallet-level part: every sequence up to depth 3 over {NewAddress, NewChangeAddress, CreateSimpleTx dry run / real, ImportAccountDryRun ok / failing mid-transaction, ImportAccount of two keys, NewAddress on the imported account} on the real wallet with the same two oracles"
		if _, ok := cov["samples"]; !ok {
			cov["samples"] = []string{"(none)"}
		}
		run.Assumption = []string{
			"'freshly opened manager' = waddrmgr.Open on a byte copy of the database file taken at the commit boundary, brought to the same lock state",
			"differences on addresses that were never issued by a committed operation (q3_divergences_on_never_issued_addresses) are counted, not reported: the statement speaks about issued addresses",
		}
		run.Finish(cov)
		return
	}
	type cfg struct {
		seed  string
		scope waddrmgr.KeyScope
		depth int
		alpha []amgr.Op
		bases [][]amgr.Op
	}
	baseUsed := []amgr.Op{{K: "unlock"}, {K: "next_ext", N: 2}, {K: "next_int", N: 1}, {K: "restart"}, {K: "unlock"}}
	var cfgs []cfg
	if run.Thorough() {
		cfgs = append(cfgs, cfg{"A", waddrmgr.KeyScopeBIP0084, 3, c08Alphabet(false), [][]amgr.Op{nil, baseUsed}})
		cfgs = append(cfgs, cfg{"A", waddrmgr.KeyScopeBIP0049Plus, 4, c08Alphabet(true)[:14], [][]amgr.Op{{{K: "unlock"}}}})
	} else {
		cfgs = append(cfgs, cfg{"A", waddrmgr.KeyScopeBIP0084, 2, c08Alphabet(false), [][]amgr.Op{nil, baseUsed}})
		cfgs = append(cfgs, cfg{"A", waddrmgr.KeyScopeBIP0084, 3, c08Alphabet(true), [][]amgr.Op{{{K: "unlock"}}}})
		cfgs = append(cfgs, cfg{"A", waddrmgr.KeyScopeBIP0049Plus, 2, c08Alphabet(false), [][]amgr.Op{{{K: "unlock"}, {K: "new_watch_account"}, {K: "next_ext", A: 1, N: 1}}}})
	}
	var mu sync.Mutex
	evals, execs, nontrivial, q3 := 0, 0, 0, 0
	obsSet := map[string]bool{}
	minimised := map[string]int{}
	var samples []string
	done, complete := amgr.RunJobs(func(emit func(amgr.Job)) {
		for _, c := range cfgs {
			for _, b := range c.bases {
				amgr.Sequences(c.alpha, c.depth, func(seq []amgr.Op) {
					emit(amgr.Job{SeedName: c.seed, Focus: c.scope, Base: b, Seq: seq})
				})
			}
		}
	}, func(worker int, j amgr.Job) {
		j.Text = j.Describe()
		lq3 := 0
		type f struct{ sig, msg string }
		var fails []f
		n, obs := c08Exec(worker, j, func(sig, msg string) { fails = append(fails, f{sig, msg}) }, &lq3)
		for _, fl := range fails {
			mu.Lock()
			minimised[fl.sig]++
			skip := minimised[fl.sig] > 3
			mu.Unlock()
			if skip {
				continue // same class and same last rolled-back operation already minimised
			}
			mj, msg := c08Minimise(worker, j, fl.sig, fl.msg)
			run.Violation(c08Sig(fl.sig, mj), msg+" :: "+mj.Describe(), map[string]interface{}{"kind": "amgr-c08", "job": mj})
		}
		mu.Lock()
		evals += n
		execs++
		q3 += lq3
		obsSet[obs] = true
		rb := false
		for _, o := range j.Seq {
			if o.Rollback {
				rb = true
			} else if rb && !strings.Contains(obs, "no-commit-boundary") {
				nontrivial++
				break
			}
		}
		if len(samples) < 2 && execs%89 == 7 {
			samples = append(samples, j.Describe()+" => "+obs)
		}
		mu.Unlock()
	}, run.Expired)
	// wallet-level part: dry-run transaction creation and dry-run account import
	wdepth := 3
	wex, wev, wnt, wobs, wcomplete := c08Wallet(run, wdepth, func(sig, msg string, seq []c08wOp) {
		run.Violation(sig, msg, map[string]interface{}{"kind": "c08-wallet", "sequence": seq})
	})
	for o := range wobs {
		obsSet[o] = true
	}
	var obsList []string
	for o := range obsSet {
		obsList = append(obsList, o)
	}
	run.Finish(ev.Coverage{
		"states@set":                    obsList,
		"transitions":                   execs + wex,
		"traces_validated_against_impl": execs + wex,
		"evaluations":                   evals + wev,
		"distinct_nontrivial":           nontrivial + wnt,
		"executions":                    done + wex,
		"wallet_level_executions":       wex,
		"exhaustive":                    complete && wcomplete,
		"samples":                       samples,
		"q3_divergences_on_never_issued_addresses": q3,
	})
}

// c08Class strips the culprit suffix from a raw signature.
func c08Class(sig string) string {
	if i := strings.Index(sig, ":after-rolled-back="); i >= 0 {
		return sig[:i]
	}
	return sig
}

// c08Minimise delta-debugs a failing job: operations are removed one at a time
// while a failure of the same class persists.
func c08Minimise(worker int, j amgr.Job, sig, msg string) (amgr.Job, string) {
	class := c08Class(sig)
	still := func(c amgr.Job) (bool, string) {
		hit, m := false, ""
		q3 := 0
		c08Exec(worker, c, func(s2, m2 string) {
			if c08Class(s2) == class && !hit {
				hit, m = true, m2
			}
		}, &q3)
		return hit, m
	}
	cur := j
	for changed := true; changed; {
		changed = false
		for i := 0; i < len(cur.Base)+len(cur.Seq)-1; i++ { // never remove the last op
			c := cur
			if i < len(cur.Base) {
				c.Base = append(append([]amgr.Op{}, cur.Base[:i]...), cur.Base[i+1:]...)
			} else {
				k := i - len(cur.Base)
				c.Seq = append(append([]amgr.Op{}, cur.Seq[:k]...), cur.Seq[k+1:]...)
			}
			if ok, m := still(c); ok {
				cur, msg, changed = c, m, true
				break
			}
		}
	}
	return cur, msg
}

// c08Sig names the failure class and the rolled-back operations of the
// minimal witness (the culprits).
func c08Sig(sig string, mj amgr.Job) string {
	culprit := ""
	for _, o := range append(append([]amgr.Op{}, mj.Base...), mj.Seq...) {
		if o.Rollback {
			culprit = o.K // the last rolled-back operation of the minimal witness
		}
	}
	if culprit == "" {
		return "commit-divergence:" + c08Class(sig)
	}
	return "rollback-leak:" + culprit + ":" + c08Class(sig)
}

func replayC08(prop, sig string, raw json.RawMessage) int {
	var r struct {
		Job amgr.Job `json:"job"`
	}
	if err := json.Unmarshal(raw, &r); err != nil {
		ev.Fatal("%v", err)
	}
	amgr.FastScrypt()
	fails, q3 := 0, 0
	c08Exec(0, r.Job, func(sig, msg string) {
		fmt.Printf("  FAIL %s: %s\n", sig, msg)
		fails++
	}, &q3)
	ev.Cleanup()
	if fails > 0 {
		fmt.Println("replay: violation reproduced")
		return 1
	}
	fmt.Println("replay: no oracle failure")
	return 0
}
