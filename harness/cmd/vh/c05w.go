//go:build verif

package main

import (
	"fmt"
	"strings"
	"time"

	"github.com/btcsuite/btcwallet/wallet"
	"github.com/btcsuite/btcwallet/walletdb"

	"verif/harness/ev"
	"verif/harness/wsim"
)

// Wallet-level part of C05: the passphrase entry points of the wallet
// (ChangePassphrases, ChangePrivatePassphrase, ChangePublicPassphrase) go
// through the walletLocker goroutine and combine two manager calls in one
// database transaction. Every sequence of up to 2 calls over
// {both / private only / public only} x old passphrase {right, wrong} per
// half, from a locked and from an unlocked wallet; after every call:
//   - a call that returned an error changed nothing: the private passphrase
//     in force before still unlocks, the requested new one does not;
//   - a call that succeeded switched exactly what it was asked to switch;
//   - the same holds for a wallet reopened on the file (public passphrase
//     in force opens it, the other one does not).

type c05wCall struct {
	Which   string `json:"which"` // both | private | public
	PubOK   bool   `json:"old_public_right"`
	PrivOK  bool   `json:"old_private_right"`
	Unlocks bool   `json:"unlocked_before"`
}

func (c c05wCall) String() string {
	return fmt.Sprintf("%s(oldPub=%v,oldPriv=%v,unlocked=%v)", c.Which, c.PubOK, c.PrivOK, c.Unlocks)
}

func c05wExec(worker int, seq []c05wCall, fail func(sig, msg string)) int {
	evals := 0
	c := wsim.NewChain()
	s, err := wsim.NewSim(ev.Scratch(), 300+worker, "A", c)
	if err != nil {
		ev.Fatal("%v", err)
	}
	defer s.Close()
	if err := s.Open(0); err != nil {
		ev.Fatal("%v", err)
	}
	pub, priv := append([]byte{}, wsim.PubPass...), append([]byte{}, wsim.PrivPass...)
	gen := 0
	var trace []string
	for _, call := range seq {
		trace = append(trace, call.String())
		where := " after [" + strings.Join(trace, " ") + "]"
		if call.Unlocks {
			if err := s.W.Unlock(priv, nil); err != nil {
				fail("wallet:passphrase:current-private-rejected", fmt.Sprintf("Unlock with the private passphrase in force failed: %v%s", err, where))
				return evals
			}
		} else {
			s.W.Lock()
		}
		gen++
		newPub, newPriv := []byte(fmt.Sprintf("public-%d", gen)), []byte(fmt.Sprintf("private-pass-%d", gen))
		oldPub, oldPriv := pub, priv
		if !call.PubOK {
			oldPub = []byte("wrong-public")
		}
		if !call.PrivOK {
			oldPriv = []byte("wrong-private")
		}
		var err error
		switch call.Which {
		case "both":
			err = s.W.ChangePassphrases(oldPub, newPub, oldPriv, newPriv)
		case "private":
			err = s.W.ChangePrivatePassphrase(oldPriv, newPriv)
		case "public":
			err = s.W.ChangePublicPassphrase(oldPub, newPub)
		}
		evals++
		mustFail := (call.Which != "private" && !call.PubOK) || (call.Which != "public" && !call.PrivOK)
		if mustFail && err == nil {
			fail("wallet:passphrase:wrong-old-accepted", "the call succeeded with a wrong old passphrase"+where)
			return evals
		}
		if !mustFail && err != nil {
			fail("wallet:passphrase:change-failed", fmt.Sprintf("the call failed although both old passphrases were right: %v%s", err, where))
			return evals
		}
		refused := newPriv
		if err == nil {
			if call.Which != "public" {
				refused, priv = priv, newPriv
			}
			if call.Which != "private" {
				pub = newPub
			}
		}
		// the live wallet: the private passphrase in force unlocks, the other one does not
		s.W.Lock()
		evals += 2
		if e := s.W.Unlock(refused, nil); e == nil {
			fail("wallet:passphrase:not-in-force-accepted", fmt.Sprintf("Unlock(%q) succeeded although the private passphrase in force is %q (call returned %v)%s", refused, priv, err, where))
			return evals
		}
		if e := s.W.Unlock(priv, nil); e != nil {
			fail("wallet:passphrase:in-force-rejected", fmt.Sprintf("Unlock(%q) failed (%v) although it is the private passphrase in force (call returned %v)%s", priv, e, err, where))
			return evals
		}
		s.W.Lock()
	}
	where := " after [" + strings.Join(trace, " ") + "]"
	// a wallet reopened on the file
	s.Stop()
	db, err := walletdb.Open("bdb", s.Path, true, time.Minute, false)
	if err != nil {
		ev.Fatal("reopen db: %v", err)
	}
	defer db.Close()
	evals += 3
	w2, err := wallet.OpenWithRetry(db, pub, nil, wsim.Params, 0, 10*time.Millisecond)
	if err != nil {
		fail("wallet:passphrase:reopen-with-public-in-force-failed", fmt.Sprintf("Open with the public passphrase in force %q failed: %v%s", pub, err, where))
		return evals
	}
	w2.Start()
	defer func() { w2.Stop(); w2.WaitForShutdown() }()
	if e := w2.Unlock(priv, nil); e != nil {
		fail("wallet:passphrase:restart:in-force-rejected", fmt.Sprintf("reopened wallet: Unlock(%q) failed: %v%s", priv, e, where))
	}
	w2.Lock()
	for _, other := range [][]byte{wsim.PrivPass, []byte("private-pass-1"), []byte("private-pass-2"), []byte("private-pass-3")} {
		if string(other) == string(priv) {
			continue
		}
		evals++
		if e := w2.Unlock(other, nil); e == nil {
			fail("wallet:passphrase:restart:not-in-force-accepted", fmt.Sprintf("reopened wallet: Unlock(%q) succeeded, in force is %q%s", other, priv, where))
			w2.Lock()
		}
	}
	return evals
}

// c05Wallet enumerates the call sequences.
func c05Wallet(run *ev.Run) (execs, evals int) {
	var calls []c05wCall
	for _, which := range []string{"both", "private", "public"} {
		for _, pubOK := range []bool{true, false} {
			for _, privOK := range []bool{true, false} {
				if which == "private" && !pubOK || which == "public" && !privOK {
					continue // the half is not used
				}
				for _, unl := range []bool{false, true} {
					calls = append(calls, c05wCall{which, pubOK, privOK, unl})
				}
			}
		}
	}
	depth := 2
	var rec func(prefix []c05wCall)
	rec = func(prefix []c05wCall) {
		if len(prefix) > 0 {
			seq := append([]c05wCall{}, prefix...)
			execs++
			evals += c05wExec(0, seq, func(sig, msg string) {
				run.Violation(sig, msg, map[string]interface{}{"kind": "c05-wallet", "calls": seq})
			})
		}
		if len(prefix) == depth {
			return
		}
		for _, c := range calls {
			rec(append(append([]c05wCall{}, prefix...), c))
		}
	}
	rec(nil)
	return
}
