package main

import (
	"verif/harness/ev"
	"verif/harness/ledger"
	"verif/harness/txgraph"
)

// c10Wtxmgr runs the store's fault enumeration over this shard's universes.
func c10Wtxmgr(run *ev.Run, report txgraph.FaultReport) txgraph.FaultStats {
	st := txgraph.FaultStats{Outcomes: map[string]int{}, Sites: map[string]bool{}}
	us := ledger.Curated()
	if !run.Thorough() {
		us = us[:6]
	}
	env, err := txgraph.NewEnv(ev.Scratch(), 0)
	if err != nil {
		ev.Fatal("env: %v", err)
	}
	defer env.Close()
	for i, u := range us {
		if !ev.Mine(i + 1) {
			continue
		}
		b, err := ledger.Build(u)
		if err != nil {
			ev.Fatal("%v", err)
		}
		maxH := 2
		if run.Thorough() {
			maxH = 3
		}
		if err := txgraph.ExploreFaults(env, b, maxH, 1, &st, report); err != nil {
			ev.Fatal("faults %s: %v", u, err)
		}
		if run.Expired() {
			break
		}
	}
	return st
}
