package main

import (
	"fmt"
	"os"
	"strings"
	"time"

	"github.com/btcsuite/btcd/btcutil"
	"github.com/btcsuite/btcd/btcutil/hdkeychain"
	"github.com/btcsuite/btcd/txscript"
	"github.com/btcsuite/btcd/wire"
	"github.com/btcsuite/btcwallet/waddrmgr"
	"github.com/btcsuite/btcwallet/wallet"
	"github.com/btcsuite/btcwallet/walletdb"

	"verif/harness/ev"
	"verif/harness/wsim"
)

// Wallet-level part of C08: the dry-run paths named by the statement
// (dry-run transaction creation, dry-run account import) and their committed
// counterparts, on the real wallet. After every sequence the live wallet's
// answers are compared with a wallet freshly opened on a copy of the file, and
// the next committed issuing request must return what the restarted copy
// would return.

type c08wOp string

var c08wAlphabet = []c08wOp{
	"NewAddress", "NewChangeAddress", "TxDryRun", "TxCreate", "ImportDryRun", "ImportDryRunFail", "ImportDryRun0", "Import1", "Import2", "NewAddressImported",
}

func c08wXpub(n int) *hdkeychain.ExtendedKey {
	root, _ := hdkeychain.NewMaster(wsim.Seed(fmt.Sprintf("c08w-xpub-%d", n)), wsim.Params)
	p, _ := root.Derive(84 + hdkeychain.HardenedKeyStart)
	c, _ := p.Derive(1 + hdkeychain.HardenedKeyStart)
	a, _ := c.Derive(uint32(n) + hdkeychain.HardenedKeyStart)
	pub, _ := a.Neuter()
	return pub
}

// c08wObserve renders what a wallet answers about accounts and indices.
func c08wObserve(w *wallet.Wallet, db walletdb.DB) []string {
	var out []string
	walletdb.View(db, func(tx walletdb.ReadTx) error {
		ns := tx.ReadBucket([]byte("waddrmgr"))
		for _, sc := range waddrmgr.DefaultKeyScopes {
			sm, err := w.Manager.FetchScopedKeyManager(sc)
			if err != nil {
				continue
			}
			last, _ := sm.LastAccount(ns)
			out = append(out, fmt.Sprintf("%v LastAccount=%d", sc, last))
			for acct := uint32(0); acct <= 3; acct++ {
				p, err := sm.AccountProperties(ns, acct)
				if err != nil {
					out = append(out, fmt.Sprintf("%v/%d: absent", sc, acct))
					continue
				}
				pub := ""
				if p.AccountPubKey != nil {
					pub = p.AccountPubKey.String()
				}
				schema := "-"
				if p.AddrSchema != nil {
					schema = fmt.Sprintf("%v/%v", p.AddrSchema.ExternalAddrType, p.AddrSchema.InternalAddrType)
				}
				out = append(out, fmt.Sprintf("%v/%d: name=%q ext=%d int=%d watchonly=%v schema=%s pub=%s", sc, acct, p.AccountName, p.ExternalKeyCount, p.InternalKeyCount, p.IsWatchOnly, schema, pub))
				n, err := sm.AccountName(ns, acct)
				out = append(out, fmt.Sprintf("%v/%d AccountName=%q,%v", sc, acct, n, err != nil))
			}
			for _, name := range []string{"default", "imp-1", "imp-2", "imp-dry"} {
				n, err := sm.LookupAccount(ns, name)
				out = append(out, fmt.Sprintf("%v LookupAccount(%q)=%d,%v", sc, name, n, err != nil))
			}
		}
		return nil
	})
	return out
}

func c08wExec(worker int, seq []c08wOp, fail func(sig, msg string)) (evals int, obs string) {
	defer func() {
		if r := recover(); r != nil {
			if se, ok := r.(*wsim.StuckError); ok {
				fail("wallet-stuck", se.Error())
				return
			}
			panic(r)
		}
	}()
	c := wsim.NewChain()
	s, err := wsim.NewSim(ev.Scratch(), worker, "A", c)
	if err != nil {
		ev.Fatal("%v", err)
	}
	defer s.Close()
	if err := s.Open(0); err != nil {
		ev.Fatal("%v", err)
	}
	s.Attach()
	s.ServeRescans()
	if err := s.Unlock(); err != nil {
		ev.Fatal("%v", err)
	}
	scope := waddrmgr.KeyScopeBIP0084
	// fund the wallet so that transactions can be created
	a0, err := s.W.NewAddress(0, scope)
	if err != nil {
		ev.Fatal("%v", err)
	}
	b1 := c.NewBlock(c.Tip, "a", []*wire.MsgTx{wsim.FundingTx("c08w", a0, 1e8)})
	s.Connect(b1, wsim.StyleFiltered)
	payee, _ := btcutil.NewAddressWitnessPubKeyHash(make([]byte, 20), wsim.Params)
	payScript, _ := txscript.PayToAddrScript(payee)
	witnessAddrType := waddrmgr.WitnessPubKey

	// restarted copy: a wallet opened on a byte copy of the file
	openCopy := func() (*wallet.Wallet, walletdb.DB, func()) {
		cp := s.Path + ".restart"
		b, err := os.ReadFile(s.Path)
		if err != nil {
			ev.Fatal("%v", err)
		}
		if err := os.WriteFile(cp, b, 0o600); err != nil {
			ev.Fatal("%v", err)
		}
		db, err := walletdb.Open("bdb", cp, true, time.Minute, false)
		if err != nil {
			ev.Fatal("%v", err)
		}
		w2, err := wallet.OpenWithRetry(db, wsim.PubPass, nil, wsim.Params, 0, time.Second)
		if err != nil {
			ev.Fatal("%v", err)
		}
		w2.Start()
		w2.SynchronizeRPC(wsim.NewBackend(c))
		if err := w2.Unlock(wsim.PrivPass, nil); err != nil {
			ev.Fatal("unlock copy: %v", err)
		}
		return w2, db, func() {
			w2.Stop()
			w2.WaitForShutdown()
			db.Close()
			os.Remove(cp)
		}
	}
	importedAcct := uint32(0)
	outcome := ""
	var trace []string
	for i, op := range seq {
		last := i == len(seq)-1
		trace = append(trace, string(op))
		where := " after [" + strings.Join(trace, " ") + "]"
		// Q2: what would a restarted wallet issue for this request?
		var want string
		issuing := op == "NewAddress" || op == "NewChangeAddress" || (op == "NewAddressImported" && importedAcct != 0)
		if last && issuing {
			w2, _, done := openCopy()
			var a btcutil.Address
			switch op {
			case "NewAddress":
				a, _ = w2.NewAddress(0, scope)
			case "NewChangeAddress":
				a, _ = w2.NewChangeAddress(0, scope)
			case "NewAddressImported":
				a, _ = w2.NewAddress(importedAcct, scope)
			}
			if a != nil {
				want = a.EncodeAddress()
			}
			done()
		}
		var err error
		var got string
		switch op {
		case "NewAddress":
			var a btcutil.Address
			a, err = s.W.NewAddress(0, scope)
			if a != nil {
				got = a.EncodeAddress()
			}
		case "NewChangeAddress":
			var a btcutil.Address
			a, err = s.W.NewChangeAddress(0, scope)
			if a != nil {
				got = a.EncodeAddress()
			}
		case "NewAddressImported":
			if importedAcct == 0 {
				outcome += "-"
				continue
			}
			var a btcutil.Address
			a, err = s.W.NewAddress(importedAcct, scope)
			if a != nil {
				got = a.EncodeAddress()
			}
		case "TxDryRun", "TxCreate":
			_, err = s.W.CreateSimpleTx(&scope, 0, []*wire.TxOut{wire.NewTxOut(1e6, payScript)}, 1, 1000,
				wallet.CoinSelectionLargest, op == "TxDryRun", wallet.WithCustomChangeScope(&scope))
		case "ImportDryRun":
			_, _, _, err = s.W.ImportAccountDryRun("imp-dry", c08wXpub(9), 0xAA, &witnessAddrType, 2)
		case "ImportDryRun0":
			// no addresses asked for
			_, _, _, err = s.W.ImportAccountDryRun("imp-dry", c08wXpub(9), 0xAA, &witnessAddrType, 0)
		case "ImportDryRunFail":
			// fails inside the transaction, after the account was created
			_, _, _, err = s.W.ImportAccountDryRun("imp-dry", c08wXpub(9), 0xAA, &witnessAddrType, waddrmgr.MaxAddressesPerAccount+1)
			if err == nil {
				fail("wallet:import-dry-run-too-many-accepted", "ImportAccountDryRun with more than MaxAddressesPerAccount addresses succeeded"+where)
			}
			err = nil
		case "Import1", "Import2":
			n := 1
			if op == "Import2" {
				n = 2
			}
			var p *waddrmgr.AccountProperties
			p, err = s.W.ImportAccount(fmt.Sprintf("imp-%d", n), c08wXpub(n), uint32(0xBB00+n), &witnessAddrType)
			if err == nil {
				importedAcct = p.AccountNumber
				if p.AccountName != fmt.Sprintf("imp-%d", n) || p.AccountPubKey == nil || p.AccountPubKey.String() != c08wXpub(n).String() {
					fail("wallet:import-answered-with-other-account", fmt.Sprintf("ImportAccount(imp-%d) returned properties of name %q / another key%s", n, p.AccountName, where))
				}
			}
		}
		if err != nil {
			outcome += "e"
		} else {
			outcome += "k"
		}
		if last && issuing && err == nil && want != "" {
			evals++
			if got != want {
				fail("wallet:q2:next-address-differs-from-restart:"+string(op), fmt.Sprintf("%s issued %s, a wallet restarted just before would have issued %s%s", op, got, want, where))
			}
		}
	}
	// commit boundary: live vs restarted
	w2, db2, done := openCopy()
	live := c08wObserve(s.W, s.DB)
	restarted := c08wObserve(w2, db2)
	done()
	evals += len(live)
	for i := range live {
		if i < len(restarted) && live[i] != restarted[i] {
			kind := "props"
			if strings.Contains(live[i], "LookupAccount") {
				kind = "LookupAccount"
			} else if strings.Contains(live[i], "AccountName") {
				kind = "AccountName"
			} else if strings.Contains(live[i], "LastAccount") {
				kind = "LastAccount"
			}
			fail("wallet:q1:"+kind, fmt.Sprintf("live wallet and restarted wallet disagree: live %q | restarted %q after [%s]", live[i], restarted[i], strings.Join(trace, " ")))
			break
		}
	}
	return evals, outcome
}

// c08Wallet enumerates every sequence up to the depth over the wallet-level
// alphabet (this shard's share).
func c08Wallet(run *ev.Run, depth int, report func(sig, msg string, seq []c08wOp)) (execs, evals, nontrivial int, obsSet map[string]bool, complete bool) {
	obsSet = map[string]bool{}
	complete = true
	idx := 0
	var rec func(prefix []c08wOp)
	rec = func(prefix []c08wOp) {
		if !complete {
			return
		}
		if len(prefix) > 0 {
			idx++
			if ev.Mine(idx) {
				if run.Expired() {
					complete = false
					return
				}
				seq := append([]c08wOp{}, prefix...)
				n, obs := c08wExec(0, seq, func(sig, msg string) { report(sig, msg, seq) })
				execs++
				evals += n
				obsSet["wallet:"+obs] = true
				for _, o := range seq[:len(seq)-1] {
					if strings.Contains(string(o), "Dry") {
						nontrivial++
						break
					}
				}
			}
		}
		if len(prefix) == depth {
			return
		}
		for _, o := range c08wAlphabet {
			rec(append(append([]c08wOp{}, prefix...), o))
		}
	}
	rec(nil)
	return
}
