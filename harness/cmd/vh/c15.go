package main

import (
	"crypto/sha256"
	"encoding/json"
	"fmt"
	"github.com/btcsuite/btcwallet/chain"
	"os"
	"strings"
	"time"

	"github.com/btcsuite/btcd/btcutil"
	"github.com/btcsuite/btcd/chaincfg/chainhash"
	"github.com/btcsuite/btcd/wire"
	"github.com/btcsuite/btcwallet/waddrmgr"
	"github.com/btcsuite/btcwallet/walletdb"

	"verif/harness/ev"
	"verif/harness/wsim"
)

func init() {
	cmds["c15"] = runC15
	replayers["c15"] = replayC15
}

// c15Step is one element of the evolution alphabet.
type c15Step string

const (
	stExtEmpty   c15Step = "ext"                // connect an empty block
	stExtFund    c15Step = "ext+fund"           // connect a block paying a fresh wallet address
	stExtSpend   c15Step = "ext+spend"          // connect a block spending the oldest unspent wallet output of the best chain
	stExtRemine  c15Step = "ext+remine"         // connect a block confirming every wallet tx that a reorg made unconfirmed
	stDisc       c15Step = "disc"               // disconnect the tip
	stDupDisc    c15Step = "dup-disc"           // repeat the last disconnect notification
	stDupOlder   c15Step = "dup-disc-older"     // repeat the disconnect notification of the block disconnected before the last one
	stStaleAbove c15Step = "stale-disc-above"   // disconnect notification for a block above the tip the wallet never had
	stStaleSib   c15Step = "stale-disc-sibling" // disconnect notification for a sibling of the tip (same height, other hash)
	stRestart    c15Step = "restart"            // stop, reopen, re-attach, rescan (no chain change)
	stOffline1   c15Step = "offline-extend"     // stopped; chain grows by one block with a wallet tx; restart
	stOfflineRe1 c15Step = "offline-reorg1"     // stopped; tip replaced by 2 new blocks; restart
	stOfflineRe2 c15Step = "offline-reorg2"     // stopped; 2 blocks replaced by 3 new ones; restart
	stOfflineAll c15Step = "offline-reorg-all"  // stopped; every block above genesis replaced (reaches below the birthday block); restart
	// stopped; chain grows by two blocks (the second pays the wallet); restart; a third block
	// connects BEFORE the backend has answered the start-up rescan (the wallet is still behind:
	// the notification cannot be applied yet and must leave nothing behind)
	stOfflineLate c15Step = "offline-extend2+block-during-rescan"
	// rescan notifications (progress, then finished) for the block BELOW the tip: a rescan
	// over old blocks (import) reports them; they must not move the tip
	stRescanBelow c15Step = "rescan-ntfns-below-tip"
	// the backend disconnects two blocks but only the notification for the lower one arrives
	// (the one for the tip was lost): the wallet must still end at the backend's tip
	stDisc2Lost c15Step = "disc2-first-notification-lost"
)

type c15Job struct {
	Style int `json:"notification_style"`
	// Premined is the number of empty blocks that exist before the wallet's
	// first synchronisation (the birthday block is then above genesis).
	Premined int       `json:"premined_blocks,omitempty"`
	Steps    []c15Step `json:"steps"`
	Text     string    `json:"text"`
}

type c15Tx struct {
	tx    *wire.MsgTx
	block *wsim.Block // block that contains it (may be off the best chain)
}

// c15Exec runs one evolution and checks the wallet after every step.
func c15Exec(worker int, j c15Job, window int, fail func(sig, msg string)) (evals int, obs string) {
	var trace []string
	defer func() {
		if r := recover(); r != nil {
			if se, ok := r.(*wsim.StuckError); ok {
				last := "start-up"
				if len(trace) > 0 {
					last = trace[len(trace)-1]
				}
				fail("wallet-stuck:"+last, fmt.Sprintf("%v after steps [%s] (style %d): the wallet never finished processing (start-up synchronisation keeps failing?)", se, strings.Join(trace, " "), j.Style))
				obs = "stuck"
				return
			}
			panic(r)
		}
	}()
	c := wsim.NewChain()
	s, err := wsim.NewSim(ev.Scratch(), worker, "A", c)
	if err != nil {
		ev.Fatal("sim: %v", err)
	}
	defer s.Close()
	if err := s.Open(0); err != nil {
		ev.Fatal("open: %v", err)
	}
	for i := 0; i < j.Premined; i++ {
		c.Tip = c.NewBlock(c.Tip, "p", nil)
		if j.Premined > 0 && i == j.Premined-1 {
			_ = i
		}
	}
	s.Attach()
	s.ServeRescans()
	var addrs []btcutil.Address
	for i := 0; i < 6; i++ {
		a, err := s.W.NewAddress(0, waddrmgr.KeyScopeBIP0084)
		if err != nil {
			ev.Fatal("address: %v", err)
		}
		addrs = append(addrs, a)
	}
	style := wsim.Style(j.Style)
	// model of the heights whose hash the wallet remembers (only relevant when
	// the reorg window is scaled down): connecting h stores h and prunes h-window.
	stored := map[int32]bool{0: true}
	scaled := window < 1000
	noteConnect := func(h int32) {
		stored[h] = true
		if st := h - int32(window); st > 0 {
			delete(stored, st)
		}
	}
	canWalkBack := func(from int32, depth int) bool {
		if !scaled {
			return true
		}
		// moving the tip back to from-depth needs the hash of the new tip and,
		// because PutSyncedTo insists on a remembered predecessor, of the block
		// below it: that is the edge of the window the wallet can follow.
		lo := from - int32(depth)
		if depth > 0 {
			lo--
		}
		for h := from; h >= lo && h >= 0; h-- {
			if !stored[h] {
				return false
			}
		}
		return true
	}
	for h := int32(1); h <= int32(j.Premined); h++ {
		noteConnect(h)
	}
	var txs []*c15Tx
	nFund, branch := 0, 0
	var lastDisc, olderDisc *wsim.Block
	nextBranch := func() string { branch++; return string(rune('a' + branch - 1)) }
	fund := func() *wire.MsgTx {
		nFund++
		return wsim.FundingTx(fmt.Sprintf("c15-%d", nFund), addrs[nFund%len(addrs)], int64(1e6*nFund))
	}
	spend := func() *wire.MsgTx {
		// spend the oldest wallet output confirmed on the best chain and not yet spent there
		for _, t := range txs {
			if t.block == nil || !c.OnBest(t.block) || len(t.tx.TxOut) == 0 || t.tx.TxOut[0].Value < 1000 {
				continue
			}
			h := t.tx.TxHash()
			spent := false
			for _, u := range txs {
				for _, in := range u.tx.TxIn {
					if in.PreviousOutPoint.Hash == h && (u.block == nil || c.OnBest(u.block)) {
						spent = true
					}
				}
			}
			if spent {
				continue
			}
			sp := wire.NewMsgTx(2)
			sp.AddTxIn(wire.NewTxIn(&wire.OutPoint{Hash: h, Index: 0}, nil, nil))
			ext := sha256.Sum256([]byte("c15-external"))
			sp.AddTxOut(wire.NewTxOut(t.tx.TxOut[0].Value-500, append([]byte{0x00, 0x14}, ext[:20]...)))
			return sp
		}
		return nil
	}
	unconfirmedByReorg := func() []*wire.MsgTx {
		var out []*wire.MsgTx
		for _, t := range txs {
			if t.block != nil && !c.OnBest(t.block) {
				// parents first: txs are recorded in creation order
				out = append(out, t.tx)
			}
		}
		return out
	}
	place := func(b *wsim.Block) {
		for _, tx := range b.Txs {
			found := false
			for _, t := range txs {
				if t.tx.TxHash() == tx.TxHash() {
					t.block, found = b, true
				}
			}
			if !found {
				txs = append(txs, &c15Tx{tx: tx, block: b})
			}
		}
	}
	restart := func() {
		s.Stop()
		if err := s.Open(0); err != nil {
			ev.Fatal("reopen: %v", err)
		}
		s.Attach()
		s.ServeRescans()
	}
	check := func(step c15Step) {
		tip := c.Tip
		st := s.SyncedTo()
		evals++
		where := fmt.Sprintf(" after step %q of [%s] (style %d)", step, strings.Join(trace, " "), j.Style)
		if st.Height != tip.Height || st.Hash != tip.Hash {
			fail("synced-to:"+string(step), fmt.Sprintf("wallet synced to height %d hash %s, backend tip is %s (height %d hash %s)%s", st.Height, st.Hash, tip.Name, tip.Height, tip.Hash, where))
		}
		walletdb.View(s.DB, func(tx walletdb.ReadTx) error {
			ns := tx.ReadBucket([]byte("waddrmgr"))
			lo := tip.Height - int32(window) + 1
			if lo < 0 {
				lo = 0
			}
			for h := lo; h <= tip.Height; h++ {
				evals++
				got, err := s.W.Manager.BlockHash(ns, h)
				want := c.AtHeight(h).Hash
				if err != nil && scaled && !stored[h] {
					// pruned while the tip was higher; nothing is remembered for h,
					// so nothing wrong is remembered either
					continue
				}
				if err != nil || *got != want {
					fail("block-hash:"+string(step), fmt.Sprintf("remembered hash for height %d is %v (%v), best chain has %s%s", h, got, err, want, where))
				}
			}
			return nil
		})
		// transaction block fields
		walletdb.View(s.DB, func(tx walletdb.ReadTx) error {
			ns := tx.ReadBucket([]byte("wtxmgr"))
			for i, t := range txs {
				h := t.tx.TxHash()
				d, err := s.W.TxStore.TxDetails(ns, &h)
				evals++
				if err != nil {
					fail("txdetails-error", err.Error()+where)
					continue
				}
				if d == nil {
					continue // not (or no longer) known: nothing reported
				}
				if d.Block.Height >= 0 {
					bb := c.AtHeight(d.Block.Height)
					if bb == nil || bb.Hash != d.Block.Hash {
						fail("tx-in-stale-block:"+string(step), fmt.Sprintf("tx #%d is reported confirmed in block height %d hash %s which is not on the best chain%s", i, d.Block.Height, d.Block.Hash, where))
					} else if t.block == nil || t.block != bb {
						fail("tx-block-wrong:"+string(step), fmt.Sprintf("tx #%d is reported in best-chain block %s but the model has it elsewhere%s", i, bb.Name, where))
					}
				} else if t.block != nil && c.OnBest(t.block) {
					fail("tx-not-confirmed:"+string(step), fmt.Sprintf("tx #%d is in best-chain block %s (the wallet was notified) but is reported unconfirmed%s", i, t.block.Name, where))
				}
			}
			return nil
		})
	}
	outcome := ""
	for _, step := range j.Steps {
		trace = append(trace, string(step))
		applied := true
		switch step {
		case stExtEmpty:
			b := c.NewBlock(c.Tip, nextBranch(), nil)
			s.Connect(b, style)
			noteConnect(b.Height)
		case stExtFund:
			b := c.NewBlock(c.Tip, nextBranch(), []*wire.MsgTx{fund()})
			place(b)
			s.Connect(b, style)
			noteConnect(b.Height)
		case stExtSpend:
			sp := spend()
			if sp == nil {
				applied = false
				break
			}
			b := c.NewBlock(c.Tip, nextBranch(), []*wire.MsgTx{sp})
			place(b)
			s.Connect(b, style)
			noteConnect(b.Height)
		case stExtRemine:
			re := unconfirmedByReorg()
			if len(re) == 0 {
				applied = false
				break
			}
			b := c.NewBlock(c.Tip, nextBranch(), re)
			place(b)
			s.Connect(b, style)
			noteConnect(b.Height)
		case stDisc:
			if c.Tip.Height == 0 || !canWalkBack(c.Tip.Height, 1) {
				// (scaled window: the hash below the tip has been pruned, the
				// reorg would be deeper than the window)
				applied = false
				break
			}
			olderDisc = lastDisc
			lastDisc = s.Disconnect()
		case stDupDisc:
			if lastDisc == nil {
				applied = false
				break
			}
			s.NotifyDisconnected(lastDisc)
		case stDupOlder:
			if olderDisc == nil {
				applied = false
				break
			}
			s.NotifyDisconnected(olderDisc)
		case stStaleAbove:
			b := c.NewBlock(c.Tip, nextBranch()+"-never-connected", nil)
			s.NotifyDisconnected(b)
		case stStaleSib:
			if c.Tip.Height == 0 {
				applied = false
				break
			}
			b := c.NewBlock(c.Tip.Prev, nextBranch()+"-sibling", nil)
			s.NotifyDisconnected(b)
		case stRescanBelow:
			if c.Tip.Height == 0 {
				applied = false
				break
			}
			pb := c.Tip.Prev
			ph := pb.Hash
			s.Feed(&chain.RescanProgress{Hash: ph, Height: pb.Height, Time: pb.Header.Timestamp})
			s.Feed(&chain.RescanFinished{Hash: &ph, Height: pb.Height, Time: pb.Header.Timestamp})
			s.Quiesce()
		case stDisc2Lost:
			if c.Tip.Height < 2 || !canWalkBack(c.Tip.Height, 2) {
				applied = false
				break
			}
			lower := c.Tip.Prev
			c.Tip = lower.Prev
			olderDisc, lastDisc = nil, lower
			s.NotifyDisconnected(lower)
		case stRestart:
			if !canWalkBack(c.Tip.Height, 0) {
				applied = false
				break
			}
			restart()
		case stOfflineLate:
			s.Stop()
			for i := 0; i < 2; i++ {
				var btx []*wire.MsgTx
				if i == 1 {
					btx = append(btx, fund())
				}
				b := c.NewBlock(c.Tip, nextBranch(), btx)
				place(b)
				c.Tip = b
				noteConnect(b.Height)
			}
			if err := s.Open(0); err != nil {
				ev.Fatal("reopen: %v", err)
			}
			s.Attach()
			late := c.NewBlock(c.Tip, nextBranch(), nil)
			s.Connect(late, style)
			noteConnect(late.Height)
			s.ServeRescans()
		case stOffline1, stOfflineRe1, stOfflineRe2, stOfflineAll:
			drop := map[c15Step]int{stOffline1: 0, stOfflineRe1: 1, stOfflineRe2: 2, stOfflineAll: int(c.Tip.Height)}[step]
			if step == stOfflineAll && drop < 3 {
				applied = false // covered by offline-reorg1/2
				break
			}
			if int(c.Tip.Height) < drop || !canWalkBack(c.Tip.Height, drop) {
				applied = false
				break
			}
			s.Stop()
			base := c.Tip
			for i := 0; i < drop; i++ {
				base = base.Prev
			}
			c.Tip = base
			for i := 0; i <= drop; i++ {
				var btx []*wire.MsgTx
				if i == 0 {
					btx = unconfirmedByReorg()
				}
				if i == drop {
					btx = append(btx, fund())
				}
				b := c.NewBlock(c.Tip, nextBranch(), btx)
				place(b)
				c.Tip = b
				noteConnect(b.Height)
			}
			if err := s.Open(0); err != nil {
				ev.Fatal("reopen: %v", err)
			}
			s.Attach()
			s.ServeRescans()
		}
		if !applied {
			outcome += "-"
			continue
		}
		outcome += "+"
		check(step)
	}
	return evals, fmt.Sprintf("%s/tip=%d", outcome, c.Tip.Height)
}

func hashOf(tx *wire.MsgTx) *chainhash.Hash { h := tx.TxHash(); return &h }

func runC15(args []string) {
	run := ev.NewRun("C15", "model_checking", args)
	window := 10000
	if w := os.Getenv("C15_WINDOW"); w != "" {
		fmt.Sscan(w, &window)
	}
	if !ev.IsWorker() {
		cov := run.RunSharded(16, append([]string{"c15"}, args...))
		if bin := os.Getenv("C15_SCALED_BIN"); bin != "" {
			// second build of the same check with waddrmgr.MaxReorgDepth scaled to 3 (overlay
			// generated from the current tree): stale-height pruning and reorgs that reach
			// the edge of the window are inside the bound there
			cov2 := run.RunShardedBin(bin, []string{"C15_WINDOW=3", "VERIF_TIER=quick"}, 16, []string{"c15", "quick"})
			for _, k := range []string{"transitions", "traces_validated_against_impl", "evaluations", "distinct_nontrivial", "executions", "states"} {
				a, _ := cov[k].(int)
				b, _ := cov2[k].(int)
				cov[k] = a + b
			}
			cov["scaled_window_executions"] = cov2["executions"]
			if e, ok := cov2["exhaustive"].(bool); ok && !e {
				cov["exhaustive"] = false
			}
		}
		cov["rule"] = "every sequence of evolution steps up to the depth over {extend (empty / paying the wallet / spending a wallet output / re-confirming reorged txs), disconnect, duplicate disconnect, stale disconnect (above tip, sibling of tip), restart, offline extension, offline reorg depth 1 and 2 and of every block, offline extension with a block arriving before the start-up rescan is answered} x 3 notification orders (btcd, bitcoind, legacy), on the real wallet through its notification loop and start-up sync; after every step: SyncedTo = model tip, BlockHash(h) = best-chain hash for every h in the window, every tx block field on the best chain and equal to the model; non-trivial = sequences containing a disconnect or an offline reorg followed by another step"
		cov["reorg_window"] = window
		if _, ok := cov["samples"]; !ok {
			cov["samples"] = []string{"(none)"}
		}
		run.Assumption = []string{
			"the fake backend answers chain queries from the block-tree model; every notification is sent by the harness feeder (sequential), a Rescan request is answered with the relevant transactions of the best chain after the start block followed by RescanFinished",
			"offline evolutions end on a best chain at least as high as the wallet's tip",
		}
		run.Finish(cov)
		return
	}
	online := []c15Step{stExtEmpty, stExtFund, stExtSpend, stExtRemine, stDisc, stDupDisc, stDupOlder, stStaleAbove, stStaleSib, stRescanBelow, stDisc2Lost}
	offline := []c15Step{stRestart, stOffline1, stOfflineRe1, stOfflineRe2, stOfflineAll, stOfflineLate}
	depth := 4
	styles := []int{0, 1, 2}
	alpha := append(append([]c15Step{}, online...), offline...)
	rare := map[c15Step]bool{stStaleAbove: true, stStaleSib: true, stRescanBelow: true, stDisc2Lost: true, stDupOlder: true, stOfflineLate: true}
	if run.Thorough() {
		depth = 5
	}
	evals, execs, nontrivial, nviol := 0, 0, 0, 0
	obsSet := map[string]bool{}
	var samples []string
	idx := 0
	complete := true
	premined := 0
	var rec func(prefix []c15Step)
	rec = func(prefix []c15Step) {
		if !complete {
			return
		}
		if len(prefix) > 0 {
			for _, st := range styles {
				if st != 0 && len(prefix) < 2 {
					continue
				}
				idx++
				if !ev.Mine(idx) {
					continue
				}
				if run.Expired() {
					complete = false
					return
				}
				j := c15Job{Style: st, Premined: premined, Steps: append([]c15Step{}, prefix...)}
				j.Text = fmt.Sprintf("style=%d premined=%d steps=%v", st, premined, j.Steps)
				if os.Getenv("C15_TRACE") != "" {
					fmt.Fprintln(os.Stderr, "JOB", j.Text)
				}
				n, obs := c15Exec(0, j, window, func(sig, msg string) {
					nviol++
					run.Violation(sig, msg, map[string]interface{}{"kind": "c15", "job": j, "window": window})
				})
				if nviol >= 60 {
					// the verdict is settled (each stuck wallet costs a watchdog period): this
					// worker stops, the run is reported as not exhaustive
					complete = false
					return
				}
				evals += n
				execs++
				obsSet[obs] = true
				for i, s := range prefix {
					if (s == stDisc || s == stOfflineRe1 || s == stOfflineRe2) && i < len(prefix)-1 {
						nontrivial++
						break
					}
				}
				if len(samples) < 2 && execs%41 == 5 {
					samples = append(samples, j.Text+" => "+obs)
				}
			}
		}
		if len(prefix) == depth {
			return
		}
		for _, s := range alpha {
			// prune sequences whose step cannot apply (keeps the enumeration exhaustive over applicable sequences)
			if len(prefix) == 0 && premined == 0 && (s == stDisc || s == stDupDisc || s == stExtSpend || s == stExtRemine || s == stStaleSib || s == stOfflineRe1 || s == stOfflineRe2) {
				continue
			}
			if s == stDupOlder {
				// needs two earlier disconnects
				nd := 0
				for _, p := range prefix {
					if p == stDisc {
						nd++
					}
				}
				if nd < 2 {
					continue
				}
			}
			if s == stOfflineAll && len(prefix)+premined < 3 {
				continue
			}
			// at most one (thorough: two) of the rarer notifications per sequence
			if rare[s] {
				nr, lim := 0, 1
				if run.Thorough() {
					lim = 2
				}
				for _, p := range prefix {
					if rare[p] {
						nr++
					}
				}
				if nr >= lim {
					continue
				}
			}
			// at most two offline steps per sequence (each costs a full restart)
			off := 0
			for _, p := range prefix {
				if p == stRestart || p == stOffline1 || p == stOfflineRe1 || p == stOfflineRe2 || p == stOfflineAll || p == stOfflineLate {
					off++
				}
			}
			if off >= 2 && (s == stRestart || s == stOffline1 || s == stOfflineRe1 || s == stOfflineRe2 || s == stOfflineAll || s == stOfflineLate) {
				continue
			}
			rec(append(append([]c15Step{}, prefix...), s))
		}
	}
	rec(nil)
	// second family: two empty blocks exist before the wallet's first synchronisation
	// (birthday block above genesis; the chain is two blocks high from the start, so
	// two-deep reorgs and older duplicate disconnects fit into the same depth)
	premined = 2
	styles = []int{0}
	rec(nil)
	var obsList []string
	for o := range obsSet {
		obsList = append(obsList, o)
	}
	run.Finish(ev.Coverage{
		"states@set":                    obsList,
		"transitions":                   execs,
		"traces_validated_against_impl": execs,
		"evaluations":                   evals,
		"distinct_nontrivial":           nontrivial,
		"executions":                    execs,
		"exhaustive":                    complete,
		"samples":                       samples,
	})
}

func replayC15(prop, sig string, raw json.RawMessage) int {
	var r struct {
		Job    c15Job `json:"job"`
		Window int    `json:"window"`
	}
	if err := json.Unmarshal(raw, &r); err != nil {
		ev.Fatal("%v", err)
	}
	if r.Window == 0 {
		r.Window = 10000
	}
	fails := 0
	c15Exec(0, r.Job, r.Window, func(sig, msg string) {
		fmt.Printf("  FAIL %s: %s\n", sig, msg)
		fails++
	})
	ev.Cleanup()
	if fails > 0 {
		fmt.Println("replay: violation reproduced")
		return 1
	}
	fmt.Println("replay: no oracle failure")
	return 0
}

var _ = time.Second
