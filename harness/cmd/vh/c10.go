package main

import (
	"encoding/json"
	"fmt"
	"strings"
	"sync"

	"github.com/btcsuite/btcwallet/waddrmgr"
	"github.com/btcsuite/btcwallet/walletdb"

	"verif/harness/amgr"
	"verif/harness/ev"
	"verif/harness/faultdb"
	"verif/harness/ledger"
	"verif/harness/txgraph"
)

func init() {
	cmds["c10"] = runC10
	replayers["amgr-c10"] = replayC10
	replayers["txgraph-c10"] = func(prop, sig string, raw json.RawMessage) int {
		fmt.Println("re-run: ./vcheck C10 quick (wtxmgr fault positions are re-enumerated deterministically); witness:", string(raw))
		return 1
	}
}

type c10Job struct {
	Seed   string            `json:"seed"`
	Focus  waddrmgr.KeyScope `json:"focus_scope"`
	State  []amgr.Op         `json:"state"`
	Op     amgr.Op           `json:"op"`
	FailAt int               `json:"fail_at"`
	Site   string            `json:"site"`
	Text   string            `json:"text"`
}

func describeRes(w *amgr.World, res *amgr.Result) string {
	var sb strings.Builder
	fmt.Fprintf(&sb, "err=%v acct=%d addrs=[", res.Err != nil, res.Account)
	for _, ma := range res.Addrs {
		sb.WriteString(ma.Address().EncodeAddress() + ",")
	}
	sb.WriteString("]")
	return sb.String()
}

func siteClass(site string) string {
	// "Put waddrmgr/scope/<hex>/acct" -> keep call kind and last bucket name
	f := strings.Fields(site)
	if len(f) < 2 {
		return site
	}
	parts := strings.Split(f[1], "/")
	return f[0] + ":" + parts[len(parts)-1]
}

// c10Amgr enumerates every write position of op from state st.
func c10Amgr(worker int, seed string, focus waddrmgr.KeyScope, st []amgr.Op, op amgr.Op,
	fail func(sig, msg string, j c10Job)) (evals, positions int, outcomes map[string]int, siteSet map[string]bool) {

	outcomes = map[string]int{}
	siteSet = map[string]bool{}
	mk := func() *amgr.World {
		w, err := amgr.NewWorld(ev.Scratch(), worker, seed, amgr.Seed(seed))
		if err != nil {
			ev.Fatal("world: %v", err)
		}
		for _, o := range st {
			w.Apply(focus, o)
		}
		return w
	}
	// baseline
	w := mk()
	ctl := &faultdb.Ctl{}
	w.Fault = ctl
	res := w.Apply(focus, op)
	w.Fault = nil
	if res.Skipped || res.Err != nil {
		w.Close()
		outcomes["op-not-applicable"]++
		return
	}
	n := ctl.Count
	baseRes := describeRes(w, res)
	baseLive, baseRestart, err := w.ObserveBoth()
	baseKeys := w.DumpKeys()
	w.Close()
	if err != nil {
		ev.Fatal("baseline observe: %v", err)
	}
	if _, diff := amgr.DiffLines(baseLive, baseRestart); diff {
		// live vs restart divergence without any fault is C08's subject
		outcomes["baseline-live-restart-differ"]++
	}
	for k := 1; k <= n; k++ {
		positions++
		w := mk()
		preLive, _ := w.Observe(w.Mgr, w.DB)
		preDump := w.DumpNS()
		ctl := &faultdb.Ctl{FailAt: k}
		w.Fault = ctl
		res := w.Apply(focus, op)
		w.Fault = nil
		j := c10Job{Seed: seed, Focus: focus, State: st, Op: op, FailAt: k, Site: ctl.FiredSite}
		j.Text = fmt.Sprintf("seed=%s scope=m/%d' state=[%s] op=%s failing write #%d of %d (%s)", seed, focus.Purpose, amgr.OpsString(st), op, k, n, ctl.FiredSite)
		if !ctl.Fired {
			outcomes["write-count-varies"]++
			w.Close()
			continue
		}
		site := siteClass(ctl.FiredSite)
		siteSet["waddrmgr:"+op.K+"@"+site] = true
		if amgr.IsPanic(res.Err) {
			fail("panic:"+op.K+":"+site, fmt.Sprintf("operation panicked when write #%d failed: %v", k, res.Err), j)
		}
		if res.Err == nil {
			// (a) success => full effect
			outcomes["fault-swallowed"]++
			live, restart, _ := w.ObserveBoth()
			evals += len(live)
			d1, x1 := amgr.DiffLines(live, baseLive)
			d2, x2 := amgr.DiffLines(restart, baseRestart)
			d3 := ""
			if keys := w.DumpKeys(); keys != baseKeys {
				d3 = "database key structure differs from the fault-free run: " + firstLineDiff(keys, baseKeys)
			}
			if describeRes(w, res) != baseRes || x1 || x2 || d3 != "" {
				fail("success-with-partial-effect:"+op.K+":"+site,
					fmt.Sprintf("operation reported success although write #%d (%s) failed, and its effect is incomplete: result %s vs %s; %s %s %s", k, ctl.FiredSite, describeRes(w, res), baseRes, d1, d2, d3), j)
			}
			w.Close()
			continue
		}
		outcomes["error-reported"]++
		// (b) after the rollback: database bytes and manager answers as before
		evals++
		if d := w.DumpNS(); d != preDump {
			fail("rollback-left-db-change:"+op.K+":"+site, "database differs from the pre-operation image after the failed operation was rolled back", j)
		}
		live, _ := w.Observe(w.Mgr, w.DB)
		evals += len(live)
		if d, x := amgr.DiffLines(live, preLive); x {
			fail("error-left-memory-change:"+op.K+":"+site, "after the failed operation was rolled back the manager answers differently than before: (after | before) "+d, j)
		}
		// (b2) an unlocked manager still recognises its (unchanged) passphrase at once
		if !w.Locked && !w.Watching {
			evals++
			err := w.View(func(ns walletdb.ReadBucket) error { return w.Mgr.Unlock(ns, append([]byte{}, w.PrivPass...)) })
			if err != nil || w.Mgr.IsLocked() {
				fail("error-left-memory-change:unlock:"+op.K+":"+site, fmt.Sprintf("after the failed operation was rolled back, Unlock with the current (unchanged) private passphrase on the still unlocked manager returned %v (locked=%v)", err, w.Mgr.IsLocked()), j)
				w.Close()
				continue
			}
		}
		// (c) retry without fault
		res2 := w.Apply(focus, op)
		if res2.Err != nil || res2.Skipped {
			fail("retry-failed:"+op.K+":"+site, fmt.Sprintf("retrying the operation after the rolled-back failure failed: %v", res2.Err), j)
		} else {
			live, restart, _ := w.ObserveBoth()
			evals += len(live)
			d1, x1 := amgr.DiffLines(live, baseLive)
			d2, x2 := amgr.DiffLines(restart, baseRestart)
			if keys := w.DumpKeys(); keys != baseKeys {
				x1, d1 = true, d1+" database key structure differs: "+firstLineDiff(keys, baseKeys)
			}
			if describeRes(w, res2) != baseRes || x1 || x2 {
				fail("retry-differs:"+op.K+":"+site,
					fmt.Sprintf("retry after the failure gives another result than a fault-free run: result %s vs %s; %s %s", describeRes(w, res2), baseRes, d1, d2), j)
			}
		}
		w.Close()
	}
	return
}

func runC10(args []string) {
	run := ev.NewRun("C10", "fault_enumeration", args)
	amgr.FastScrypt()
	if !ev.IsWorker() {
		cov := run.RunSharded(16, append([]string{"c10"}, args...))
		cov["rule"] = "address manager: for every (state, mutating operation) pair a fault-free run counts the database writes N, then for k=1..N the state is rebuilt and the k-th write/delete/bucket-creation/sequence call fails; store: the same for every chain event, lease, release, sweep and label operation from every state of the curated tx-graph universes. Oracle: success => full effect (observations of live and restarted manager / store dump equal the fault-free ones); error => after rollback database bytes and manager answers as before; retry => same result and observations as a fault-free run. non-trivial = distinct (operation, write site) pairs at which a fault was injected"
		if _, ok := cov["samples"]; !ok {
			cov["samples"] = []string{"(none)"}
		}
		if s, ok := cov["site@count"].(int); ok {
			cov["distinct_nontrivial"] = s
			delete(cov, "site@count")
		}
		run.Assumption = []string{
			"write positions are enumerated through a proxy of the walletdb bucket/cursor/tx interfaces (waddrmgr and wtxmgr only use these interfaces)",
			"answers about addresses never issued by a committed operation are not compared (see C08)",
		}
		run.Finish(cov)
		return
	}
	focus := waddrmgr.KeyScopeBIP0084
	states := [][]amgr.Op{
		nil,
		{{K: "unlock"}},
		{{K: "unlock"}, {K: "next_ext", N: 2}, {K: "next_int", N: 1}},
		{{K: "unlock"}, {K: "new_account"}, {K: "next_ext", A: 1, N: 1}},
		{{K: "set_synced_jump"}, {K: "set_synced", N: 1}},
	}
	ops := []amgr.Op{
		{K: "next_ext", N: 1}, {K: "next_ext", N: 2}, {K: "next_int", N: 1}, {K: "extend_ext", N: 2}, {K: "extend_int", N: 1},
		{K: "new_account"}, {K: "new_watch_account"}, {K: "rename", N: 1}, {K: "mark_used"},
		{K: "import_priv", N: 1}, {K: "import_script", N: 1}, {K: "import_wscript", N: 1},
		{K: "chpass_priv"}, {K: "chpass_pub"}, {K: "to_watching"}, {K: "set_synced", N: 1}, {K: "new_scope"},
		{K: "next_ext", A: 1, N: 1},
	}
	if run.Thorough() {
		states = append(states,
			[]amgr.Op{{K: "unlock"}, {K: "import_priv", N: 2}, {K: "import_wscript", N: 2}, {K: "next_ext", N: 1}, {K: "lock"}},
			[]amgr.Op{{K: "unlock"}, {K: "new_watch_account"}, {K: "next_ext", A: 1, N: 2}},
			[]amgr.Op{{K: "unlock"}, {K: "next_ext", N: 1}, {K: "mark_used"}, {K: "restart"}, {K: "unlock"}},
			[]amgr.Op{{K: "unlock"}, {K: "new_scope"}, {K: "chpass_priv"}},
		)
		ops = append(ops, amgr.Op{K: "next_int", N: 2}, amgr.Op{K: "extend_ext", N: 3}, amgr.Op{K: "import_priv", N: 3})
	}
	var mu sync.Mutex
	evals, positions, pairs := 0, 0, 0
	sites := map[string]bool{}
	outcomes := map[string]int{}
	var samples []string
	report := func(sig, msg string, j c10Job) {
		run.Violation(sig, msg+" :: "+j.Text, map[string]interface{}{"kind": "amgr-c10", "job": j})
	}
	idx := 0
	for _, st := range states {
		for _, op := range ops {
			idx++
			if !ev.Mine(idx) {
				continue
			}
			e, p, oc, ss := c10Amgr(0, "A", focus, st, op, func(sig, msg string, j c10Job) {
				report(sig, msg, j)
			})
			mu.Lock()
			for k := range ss {
				sites[k] = true
			}
			mu.Unlock()
			evals += e
			positions += p
			pairs++
			for k, v := range oc {
				outcomes[k] += v
			}
			if p > 0 && len(samples) < 2 {
				samples = append(samples, fmt.Sprintf("waddrmgr state=[%s] op=%s: %d write positions, outcomes %v", amgr.OpsString(st), op, p, oc))
			}
			if run.Expired() {
				break
			}
		}
	}
	// wtxmgr part
	wt := c10Wtxmgr(run, func(sig, msg string, u *ledger.Universe, hist []ledger.Event, site string) {
		run.Violation(sig, msg, map[string]interface{}{"kind": "txgraph-c10", "universe": u, "history": hist, "site": site})
	})
	for k, v := range wt.Outcomes {
		outcomes["wtxmgr:"+k] += v
	}
	var siteList []string
	for s := range wt.Sites {
		siteList = append(siteList, "wtxmgr:"+s)
	}
	if wt.Sample != "" {
		samples = append(samples, wt.Sample)
	}
	run.Finish(ev.Coverage{
		"evaluations":             evals + wt.Evaluations,
		"fault_positions":         positions + wt.Positions,
		"state_operation_pairs":   pairs + wt.Pairs,
		"wtxmgr_states":           wt.States,
		"outcomes":                outcomes,
		"site@set":                siteList,
		"exhaustive":              !run.Expired(),
		"samples":                 samples,
		"distinct_nontrivial@set": append(siteList, keysOf(sites)...),
	})
}

// amgrSites is a placeholder list of (op) names so that the distinct count
// covers the address manager part too (sites are recorded per violation only;
// positions are counted in fault_positions).
func keysOf(m map[string]bool) []string {
	var out []string
	for k := range m {
		out = append(out, k)
	}
	return out
}

func replayC10(prop, sig string, raw json.RawMessage) int {
	var r struct {
		Job c10Job `json:"job"`
	}
	if err := json.Unmarshal(raw, &r); err != nil {
		ev.Fatal("%v", err)
	}
	amgr.FastScrypt()
	fails := 0
	_, _, _, _ = c10Amgr(0, r.Job.Seed, r.Job.Focus, r.Job.State, r.Job.Op, func(sig, msg string, j c10Job) {
		if j.FailAt == r.Job.FailAt {
			fmt.Printf("  FAIL %s: %s\n", sig, msg)
			fails++
		}
	})
	ev.Cleanup()
	if fails > 0 {
		fmt.Println("replay: violation reproduced")
		return 1
	}
	fmt.Println("replay: no oracle failure")
	return 0
}

var _ = walletdb.ErrDbNotOpen
var _ = txgraph.Maturity

func firstLineDiff(a, b string) string {
	la, lb := strings.Split(a, "\n"), strings.Split(b, "\n")
	for i := 0; i < len(la) || i < len(lb); i++ {
		var x, y string
		if i < len(la) {
			x = la[i]
		}
		if i < len(lb) {
			y = lb[i]
		}
		if x != y {
			return fmt.Sprintf("%q vs %q", strings.TrimSpace(x), strings.TrimSpace(y))
		}
	}
	return ""
}
