package main

import (
	"verif/harness/c06"
	"verif/harness/c07"
	"verif/harness/c11"
	"verif/harness/c17"
	"verif/harness/c19"
	"verif/harness/c20"
)

func init() {
	cmds["c17"] = c17.Run
	cmds["c19"] = c19.Run
	cmds["c11"] = c11.Run
	cmds["c07"] = c07.Run
	// c16 has its own binaries (two batch-size variants): /verif/harness/c16/run.sh
	cmds["c06"] = func(a []string) { c06.ShardArgsPrefix = []string{"c06"}; c06.Run(a) }
	cmds["c20"] = func(a []string) { c20.ShardArgsPrefix = []string{"c20"}; c20.Run(a) }
}
