package main

import (
	"verif/harness/c17"
	"verif/harness/c19"
)

func init() {
	cmds["c17"] = c17.Run
	cmds["c19"] = c19.Run
}
