// vh is the check binary: vh <property> quick|thorough, vh replay <file>.
package main

import (
	"fmt"
	"os"
	"sort"
)

var cmds = map[string]func(args []string){}

func main() {
	if len(os.Args) < 2 {
		usage()
	}
	f, ok := cmds[os.Args[1]]
	if !ok {
		usage()
	}
	f(os.Args[2:])
}

func usage() {
	var ks []string
	for k := range cmds {
		ks = append(ks, k)
	}
	sort.Strings(ks)
	fmt.Fprintln(os.Stderr, "usage: vh <cmd> [quick|thorough]; cmds:", ks)
	os.Exit(2)
}
