//go:build verif

package main

import (
	"fmt"
	"os"
	"strings"

	"github.com/btcsuite/btcwallet/waddrmgr"
	"github.com/btcsuite/btcwallet/walletdb"

	"verif/harness/ev"
	"verif/harness/wsim"
)

// Wallet-level part of C04: conversion to watching-only as the wallet does it
// (Wallet.InitAccounts(scope, watchOnly, n), the remote-signing migration),
// reached through every sequence of InitAccounts calls. After any call that
// asked for the conversion and returned nil the reopened wallet must be
// watching-only: addresses known, no passphrase unlocks, no private key
// returned, and the file image free of secrets.

type c04wStep struct {
	Watch bool `json:"watch_only"`
	N     int  `json:"accounts"`
}

func (s c04wStep) String() string {
	return fmt.Sprintf("InitAccounts(watchOnly=%v,n=%d)", s.Watch, s.N)
}

func c04wExec(worker int, seq []c04wStep, fail func(sig, msg string)) int {
	evals := 0
	c := wsim.NewChain()
	s, err := wsim.NewSim(ev.Scratch(), worker, "A", c)
	if err != nil {
		ev.Fatal("%v", err)
	}
	defer s.Close()
	if err := s.Open(0); err != nil {
		ev.Fatal("%v", err)
	}
	s.Attach()
	s.ServeRescans()
	if err := s.Unlock(); err != nil {
		ev.Fatal("%v", err)
	}
	scope := waddrmgr.KeyScopeBIP0084
	addr, err := s.W.NewAddress(0, scope)
	if err != nil {
		ev.Fatal("%v", err)
	}
	var trace []string
	converted := false
	for _, st := range seq {
		trace = append(trace, st.String())
		sm, err := s.W.Manager.FetchScopedKeyManager(scope)
		if err != nil {
			ev.Fatal("%v", err)
		}
		err = s.W.InitAccounts(sm, st.Watch, uint32(st.N))
		if err == nil && st.Watch {
			converted = true
		}
		if converted {
			break // nothing more can be created afterwards
		}
	}
	where := " after [" + strings.Join(trace, " ") + "]"
	if !converted {
		return evals
	}
	// restart
	s.Stop()
	if err := s.Open(0); err != nil {
		fail("wallet:watching-only:reopen-failed", err.Error()+where)
		return evals
	}
	s.Attach()
	s.ServeRescans()
	evals++
	if !s.W.Manager.WatchOnly() {
		fail("wallet:watching-only:not-converted", "InitAccounts(watchOnly=true) returned nil but the reopened wallet is not watching-only"+where)
	}
	evals++
	if err := s.W.Unlock(wsim.PrivPass, nil); err == nil {
		fail("wallet:watching-only:passphrase-unlocks", "the private passphrase still unlocks the reopened wallet"+where)
	}
	walletdb.View(s.DB, func(tx walletdb.ReadTx) error {
		ns := tx.ReadBucket([]byte("waddrmgr"))
		evals++
		ma, err := s.W.Manager.Address(ns, addr)
		if err != nil {
			fail("wallet:watching-only:address-forgotten", fmt.Sprintf("address %s unknown after conversion: %v%s", addr, err, where))
			return nil
		}
		if pk, ok := ma.(waddrmgr.ManagedPubKeyAddress); ok {
			evals++
			if k, err := pk.PrivKey(); err == nil || k != nil {
				fail("wallet:watching-only:private-key-returned", "PrivKey() succeeded on the reopened watching-only wallet"+where)
			}
		}
		return nil
	})
	// image: no private material of the wallet seed in the file
	img, err := os.ReadFile(s.Path)
	if err == nil {
		evals++
		// (secrets are encrypted in a non-watching wallet too; after conversion even the
		// ciphertexts are deleted; here only clear text is searched)
		if strings.Contains(string(img), string(wsim.PrivPass)) {
			fail("wallet:image:passphrase", "private passphrase found in the file image"+where)
		}
	}
	return evals
}

func c04Wallet(run *ev.Run, report func(sig, msg string, seq []c04wStep)) (execs, evals int) {
	steps := []c04wStep{{false, 1}, {false, 2}, {true, 1}, {true, 2}}
	idx := 0
	var rec func(prefix []c04wStep)
	rec = func(prefix []c04wStep) {
		if len(prefix) > 0 {
			idx++
			if ev.Mine(idx) {
				seq := append([]c04wStep{}, prefix...)
				evals += c04wExec(0, seq, func(sig, msg string) { report(sig, msg, seq) })
				execs++
			}
			if prefix[len(prefix)-1].Watch {
				return
			}
		}
		if len(prefix) == 3 {
			return
		}
		for _, s := range steps {
			rec(append(append([]c04wStep{}, prefix...), s))
		}
	}
	rec(nil)
	return
}
