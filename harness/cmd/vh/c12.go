//go:build verif

package main

import (
	"encoding/json"
	"fmt"
	"runtime"
	"sync"

	"verif/harness/ev"
	"verif/harness/ledger"
	"verif/harness/txgraph"
)

func init() { cmds["c12"] = runC12 }

func leaseUniverses(thorough bool) []*ledger.Universe {
	o := func(s string) []ledger.Out {
		var r []ledger.Out
		for _, c := range s {
			r = append(r, ledger.Out{Credit: c != '-', Change: c == 'C'})
		}
		return r
	}
	ext := func(i int) ledger.In { return ledger.In{Ext: i} }
	par := func(p, q int) ledger.In { return ledger.In{Ext: -1, Parent: p, Out: q} }
	us := []*ledger.Universe{
		{Name: "credit+spender", Txs: []ledger.TxSpec{
			{Ins: []ledger.In{ext(100)}, Outs: o("c")},
			{Ins: []ledger.In{par(0, 0)}, Outs: o("C")}}},
		{Name: "credit+uncredited+spender", Txs: []ledger.TxSpec{
			{Ins: []ledger.In{ext(100)}, Outs: o("c-")},
			{Ins: []ledger.In{par(0, 0)}, Outs: o("-")}}},
		{Name: "coinbase+spender", Txs: []ledger.TxSpec{
			{Coinbase: true, Outs: o("c")},
			{Ins: []ledger.In{par(0, 0)}, Outs: o("c")}}},
		{Name: "two-credits-conflicting-spenders", Txs: []ledger.TxSpec{
			{Ins: []ledger.In{ext(100)}, Outs: o("c")},
			{Ins: []ledger.In{par(0, 0)}, Outs: o("-")},
			{Ins: []ledger.In{par(0, 0)}, Outs: o("C")}}},
		// several unspent credits at once (of one transaction / next to a leased one): a lease
		// on one of them must not change how the others are counted
		{Name: "three-credits-one-tx", Txs: []ledger.TxSpec{
			{Ins: []ledger.In{ext(100)}, Outs: o("ccc")}}},
		{Name: "two-credits-one-tx+spender", Txs: []ledger.TxSpec{
			{Ins: []ledger.In{ext(100)}, Outs: o("cc")},
			{Ins: []ledger.In{par(0, 1)}, Outs: o("C")}}},
	}
	if thorough {
		us = append(us,
			&ledger.Universe{Name: "chain3", Txs: []ledger.TxSpec{
				{Ins: []ledger.In{ext(100)}, Outs: o("c")},
				{Ins: []ledger.In{par(0, 0)}, Outs: o("C")},
				{Ins: []ledger.In{par(1, 0)}, Outs: o("c")}}},
			&ledger.Universe{Name: "two-independent-credits", Txs: []ledger.TxSpec{
				{Ins: []ledger.In{ext(100)}, Outs: o("c")},
				{Ins: []ledger.In{ext(104)}, Outs: o("c")},
				{Ins: []ledger.In{par(0, 0), par(1, 0)}, Outs: o("C")}}},
		)
	}
	return us
}

func runC12(args []string) {
	run := ev.NewRun("C12", "model_checking", args)
	cfg := txgraph.LeaseConfig{MaxH: 2, NIDs: 1, MaxTicks: 3, Dur: 2, NLocks: 2}
	if run.Thorough() {
		cfg.NIDs = 2
	}
	us := leaseUniverses(run.Thorough())
	var mu sync.Mutex
	var tot txgraph.LeaseStats
	tot.OutcomeKinds = map[string]int{}
	var samples []string
	done := 0
	report := func(prop, sig, msg string, u *ledger.Universe, hist []ledger.Event) {
		run.ViolationFor("C12", sig, msg, txReplay{Kind: "lease", Universe: u, History: hist, Text: ledger.HistString(hist)})
	}
	jobs := make(chan int)
	var wg sync.WaitGroup
	nw := runtime.NumCPU()
	if nw > len(us) {
		nw = len(us)
	}
	for w := 0; w < nw; w++ {
		wg.Add(1)
		go func(w int) {
			defer wg.Done()
			env, err := txgraph.NewEnv(ev.Scratch(), w)
			if err != nil {
				ev.Fatal("env: %v", err)
			}
			defer env.Close()
			for i := range jobs {
				b, err := ledger.Build(us[i])
				if err != nil {
					ev.Fatal("%v", err)
				}
				c := cfg
				c.RealRestart = i == 0 || (run.Thorough() && i < 3)
				st, err := txgraph.ExploreLeases(env, b, c, report)
				if err != nil {
					ev.Fatal("explore %s: %v", us[i], err)
				}
				mu.Lock()
				tot.States += st.States
				tot.Transitions += st.Transitions
				tot.Evaluations += st.Evaluations
				tot.LeaseOps += st.LeaseOps
				tot.BoundaryStates += st.BoundaryStates
				tot.RealRestarts += st.RealRestarts
				tot.Capped = tot.Capped || st.Capped
				if st.MaxDepth > tot.MaxDepth {
					tot.MaxDepth = st.MaxDepth
				}
				for k, v := range st.OutcomeKinds {
					tot.OutcomeKinds[k] += v
				}
				samples = append(samples, st.Sample)
				done++
				mu.Unlock()
			}
		}(w)
	}
	for i := range us {
		jobs <- i
	}
	close(jobs)
	wg.Wait()
	nontrivial := tot.OutcomeKinds["lease-refused"] + tot.OutcomeKinds["release-refused"] + tot.OutcomeKinds["lease-after-expiry"] + tot.OutcomeKinds["lease-extend"]
	run.Assumption = []string{
		"lease instants are whole seconds (the store persists expiry as unix seconds)",
		"restart inside the state graph = a new wtxmgr.Store opened on the same namespace; real commit+close+reopen is validated for every state of the first universe(s)",
		"leasing/releasing an output the statement does not cover (credited but already spent by a confirmed tx; release of an unknown output) follows the implementation's answer",
	}
	run.Finish(ev.Coverage{
		"states":                        tot.States,
		"transitions":                   tot.Transitions,
		"traces_validated_against_impl": tot.Transitions + tot.RealRestarts,
		"evaluations":                   tot.Evaluations,
		"distinct_nontrivial":           nontrivial,
		"rule":                          "BFS to fixpoint over chain events + lease/release (2 ids, every output of the universe + an unknown outpoint) + tick(1s) + sweep + restart; non-trivial = transitions whose outcome is a refusal for the other id, an extension, or a lease taken after expiry",
		"outcome_classes":               tot.OutcomeKinds,
		"states_at_expiry_instant":      tot.BoundaryStates,
		"real_file_restarts":            tot.RealRestarts,
		"universes":                     len(us),
		"max_depth":                     tot.MaxDepth,
		"bounds":                        fmt.Sprintf("heights 1..%d, %d block ids, clock +0..+%ds, lease duration %ds, %d lock ids", cfg.MaxH, cfg.NIDs, cfg.MaxTicks, cfg.Dur, cfg.NLocks),
		"exhaustive":                    done == len(us) && !tot.Capped,
		"samples":                       samples,
	})
}

func init() {
	replayers["lease"] = func(prop, sig string, raw json.RawMessage) int {
		var r txReplay
		if err := json.Unmarshal(raw, &r); err != nil {
			ev.Fatal("%v", err)
		}
		b, err := ledger.Build(r.Universe)
		if err != nil {
			ev.Fatal("%v", err)
		}
		env, err := txgraph.NewEnv(ev.Scratch(), 0)
		if err != nil {
			ev.Fatal("%v", err)
		}
		defer ev.Cleanup()
		defer env.Close()
		fails := 0
		txgraph.ReplayLeaseHistory(env, b, txgraph.LeaseConfig{MaxH: 2, NIDs: 2, MaxTicks: 3, Dur: 2, NLocks: 2}, r.History,
			func(p, s, msg string, u *ledger.Universe, hist []ledger.Event) {
				fmt.Printf("  FAIL %s %s: %s\n", p, s, msg)
				fails++
			})
		if fails > 0 {
			fmt.Println("replay: violation reproduced")
			return 1
		}
		fmt.Println("replay: no oracle failure on this history")
		return 0
	}
}
