package main

import (
	"encoding/json"
	"fmt"
	"sync"

	"github.com/btcsuite/btcwallet/waddrmgr"

	"verif/harness/amgr"
	"verif/harness/ev"
)

func init() {
	cmds["c03"] = runC03
	replayers["amgr-c03"] = replayC03
}

func c03Alphabet(reduced bool) []amgr.Op {
	a := []amgr.Op{
		{K: "next_ext", N: 1}, {K: "next_int", N: 1}, {K: "extend_ext", N: 2}, {K: "extend_int", N: 1},
		{K: "unlock"}, {K: "lock"}, {K: "restart"}, {K: "lookup_all"},
		{K: "new_account"}, {K: "next_ext", A: 1, N: 2}, {K: "new_watch_account"}, {K: "extend_ext", A: 1, N: 1},
	}
	if !reduced {
		a = append(a, amgr.Op{K: "derive", N: 5}, amgr.Op{K: "mark_used"}, amgr.Op{K: "chpass_priv"},
			amgr.Op{K: "import_priv", N: 1}, amgr.Op{K: "import_script", N: 1}, amgr.Op{K: "next_int", A: 1, N: 1},
			amgr.Op{K: "extend_int", A: 1, N: 1}, amgr.Op{K: "invalidate_cache"})
	}
	return a
}

// c03Exec runs one job and evaluates the C03 oracle after the last operation
// (every prefix is its own job).
func c03Exec(worker int, j amgr.Job, fail func(sig, msg string)) (evals int, obs string) {
	w, err := amgr.NewWorld(ev.Scratch(), worker, j.SeedName, amgr.Seed(j.SeedName))
	if err != nil {
		ev.Fatal("world: %v", err)
	}
	defer w.Close()
	all := append(append([]amgr.Op{}, j.Base...), j.Seq...)
	outcome := ""
	for i, op := range all {
		res := w.Apply(j.Focus, op)
		if res.Skipped {
			outcome += "s"
			continue
		}
		if res.Err != nil {
			outcome += "e"
		} else {
			outcome += "k"
		}
		last := i == len(all)-1
		if amgr.IsPanic(res.Err) && last {
			fail("panic:"+op.K, fmt.Sprintf("%s panicked: %v", op, res.Err))
		}
		if res.Expect == "ok" && res.Err != nil && last {
			fail("op-failed:"+op.K, fmt.Sprintf("%s failed although its preconditions hold: %v", op, res.Err))
		}
		if last && (op.K == "next_ext" || op.K == "next_int") && res.Err == nil && !op.Rollback {
			// the addresses returned by the issuing call itself
			n := len(res.Addrs)
			for k, ma := range res.Addrs {
				is := w.Issued[len(w.Issued)-n+k]
				w.CheckReturned("issued", is, ma, fail)
			}
			if n != max1(op.N) {
				fail("issue-count", fmt.Sprintf("%s returned %d addresses", op, n))
			}
		}
	}
	evals = w.CheckIssued(fail)
	return evals, fmt.Sprintf("%s/issued=%d/locked=%v", outcome, len(w.Issued), w.Locked)
}

func max1(n int) int {
	if n < 1 {
		return 1
	}
	return n
}

func runC03(args []string) {
	run := ev.NewRun("C03", "model_checking", args)
	amgr.FastScrypt()
	if !ev.IsWorker() {
		cov := run.RunSharded(16, append([]string{"c03"}, args...))
		c03Finish(run, cov)
		return
	}
	zName, _ := amgr.FindLeadingZeroSeed(84, 0)
	type cfg struct {
		seed  string
		scope waddrmgr.KeyScope
		depth int
		alpha []amgr.Op
		bases [][]amgr.Op
	}
	baseUnlocked := []amgr.Op{{K: "unlock"}}
	baseUsed := []amgr.Op{{K: "unlock"}, {K: "next_ext", N: 2}, {K: "next_int", N: 1}, {K: "restart"}}
	baseCustom := []amgr.Op{{K: "unlock"}, {K: "new_scope"}}
	baseAcct1Locked := []amgr.Op{{K: "unlock"}, {K: "new_account"}, {K: "next_ext", N: 1}, {K: "lock"}}
	var cfgs []cfg
	d := 3
	if run.Thorough() {
		d = 4
	}
	full, reduced := c03Alphabet(false), c03Alphabet(true)
	if run.Thorough() {
		for _, sc := range waddrmgr.DefaultKeyScopes {
			cfgs = append(cfgs, cfg{"A", sc, 3, full, [][]amgr.Op{nil, baseUnlocked, baseUsed}})
		}
		cfgs = append(cfgs, cfg{zName, waddrmgr.KeyScopeBIP0084, 3, full, [][]amgr.Op{nil, baseUnlocked}})
		cfgs = append(cfgs, cfg{"A", amgr.CustomScope, 3, full, [][]amgr.Op{baseCustom}})
		cfgs = append(cfgs, cfg{"A", waddrmgr.KeyScopeBIP0049Plus, 3, full, [][]amgr.Op{baseAcct1Locked}})
		cfgs = append(cfgs, cfg{"A", waddrmgr.KeyScopeBIP0084, d, reduced, [][]amgr.Op{nil, baseUsed}})
		cfgs = append(cfgs, cfg{"C", waddrmgr.KeyScopeBIP0049Plus, d, reduced, [][]amgr.Op{nil}})
	} else {
		cfgs = append(cfgs, cfg{"A", waddrmgr.KeyScopeBIP0084, 3, full, [][]amgr.Op{nil, baseUsed}})
		cfgs = append(cfgs, cfg{"A", waddrmgr.KeyScopeBIP0084, 2, full, [][]amgr.Op{baseAcct1Locked}})
		for _, sc := range []waddrmgr.KeyScope{waddrmgr.KeyScopeBIP0044, waddrmgr.KeyScopeBIP0049Plus, waddrmgr.KeyScopeBIP0086} {
			cfgs = append(cfgs, cfg{"C", sc, 3, reduced, [][]amgr.Op{nil}})
		}
		cfgs = append(cfgs, cfg{zName, waddrmgr.KeyScopeBIP0084, 2, full, [][]amgr.Op{nil, baseUnlocked}})
		cfgs = append(cfgs, cfg{"A", amgr.CustomScope, 2, full, [][]amgr.Op{baseCustom}})
	}
	var mu sync.Mutex
	evals, execs := 0, 0
	obsSet := map[string]bool{}
	nontrivial := 0
	var samples []string
	done, complete := amgr.RunJobs(func(emit func(amgr.Job)) {
		for _, c := range cfgs {
			for _, b := range c.bases {
				amgr.Sequences(c.alpha, c.depth, func(seq []amgr.Op) {
					emit(amgr.Job{SeedName: c.seed, Focus: c.scope, Base: b, Seq: seq})
				})
			}
		}
	}, func(worker int, j amgr.Job) {
		j.Text = j.Describe()
		n, obs := c03Exec(worker, j, func(sig, msg string) {
			jj := j
			run.Violation(sig, msg+" :: "+j.Describe(), map[string]interface{}{"kind": "amgr-c03", "job": jj})
		})
		mu.Lock()
		evals += n
		execs++
		if !obsSet[obs] {
			obsSet[obs] = true
		}
		issuing, other := 0, 0
		for _, o := range j.Seq {
			if o.K == "next_ext" || o.K == "next_int" || o.K == "extend_ext" || o.K == "extend_int" {
				issuing++
			} else {
				other++
			}
		}
		if issuing > 0 && other > 0 {
			nontrivial++
		}
		if len(samples) < 2 && execs%177 == 5 {
			samples = append(samples, j.Describe()+" => "+obs)
		}
		mu.Unlock()
	}, run.Expired)
	var obsList []string
	for o := range obsSet {
		obsList = append(obsList, o)
	}
	run.Finish(ev.Coverage{
		"states@set":                    obsList,
		"transitions":                   execs,
		"traces_validated_against_impl": execs,
		"evaluations":                   evals,
		"distinct_nontrivial":           nontrivial,
		"executions":                    done,
		"exhaustive":                    complete,
		"samples":                       samples,
		"configs":                       len(cfgs),
		"leading_zero_seed":             zName,
	})
}

func c03Finish(run *ev.Run, cov ev.Coverage) {
	cov["rule"] = "every operation sequence up to the depth over the alphabet, from several base states, per seed and key scope; oracle after the last operation on every address issued so far (lookup, derive-by-path, root lookup, enumeration, counts, private key when unlocked); non-trivial = sequences mixing at least one issuing operation with at least one other operation; states = distinct (outcome vector, issued count, lock state) observations"
	if _, ok := cov["samples"]; !ok {
		cov["samples"] = []string{"(none)"}
	}
	run.Assumption = []string{
		"reference derivation harness/refbip32 (HMAC-SHA512 + secp256k1 arithmetic from btcec) implements btcsuite's legacy hardened rule: parent key bytes as held in memory, left aligned",
		"address encoders of btcutil/txscript (external dependencies) are trusted",
		"a state is its operation history (live managers cannot be cloned)",
	}
	run.Finish(cov)
}

func replayC03(prop, sig string, raw json.RawMessage) int {
	var r struct {
		Job amgr.Job `json:"job"`
	}
	if err := json.Unmarshal(raw, &r); err != nil {
		ev.Fatal("%v", err)
	}
	amgr.FastScrypt()
	fails := 0
	c03Exec(0, r.Job, func(sig, msg string) {
		fmt.Printf("  FAIL %s: %s\n", sig, msg)
		fails++
	})
	ev.Cleanup()
	if fails > 0 {
		fmt.Println("replay: violation reproduced")
		return 1
	}
	fmt.Println("replay: no oracle failure")
	return 0
}
