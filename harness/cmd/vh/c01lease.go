//go:build verif

package main

import (
	"sync"

	"verif/harness/ev"
	"verif/harness/ledger"
	"verif/harness/txgraph"
)

// C01 speaks about leased outputs too ("that are not leased"): the C01 command
// additionally runs the lease explorer (controlled clock) on the small lease
// universes and reports its ledger clauses (balance / unspent / watch with a
// lease table) under C01.
func init() {
	c01LeasePart = func(run *ev.Run) (states, transitions, evals int) {
		us := leaseUniverses(false)
		var mu sync.Mutex
		var wg sync.WaitGroup
		for i, u := range us {
			wg.Add(1)
			go func(i int, u *ledger.Universe) {
				defer wg.Done()
				env, err := txgraph.NewEnv(ev.Scratch(), 100+i)
				if err != nil {
					ev.Fatal("env: %v", err)
				}
				defer env.Close()
				b, err := ledger.Build(u)
				if err != nil {
					ev.Fatal("%v", err)
				}
				st, err := txgraph.ExploreLeases(env, b, txgraph.LeaseConfig{MaxH: 2, NIDs: 1, MaxTicks: 2, Dur: 2, NLocks: 1},
					func(prop, sig, msg string, u *ledger.Universe, hist []ledger.Event) {
						if len(sig) > 7 && sig[:7] == "ledger-" {
							run.Violation("leased:"+sig[7:], msg, txReplay{Kind: "lease", Universe: u, History: hist, Text: ledger.HistString(hist)})
						}
					})
				if err != nil {
					ev.Fatal("lease part: %v", err)
				}
				mu.Lock()
				states += st.States
				transitions += st.Transitions
				evals += st.Evaluations
				mu.Unlock()
			}(i, u)
		}
		wg.Wait()
		return
	}
}
