// racepass is the supplementary free-running pass for C09 and C18: the same
// thread bodies as the scheduler-controlled checks, executed natively (real
// sync package, real channels, OS scheduling) under the Go race detector. It
// never decides a property: a cooperative scheduler's hand-offs are
// happens-before edges that blind the race detector, so unsynchronised
// accesses are looked for here, by sampling.
package main

import (
	"fmt"
	"os"
	"strconv"
	"sync"

	"github.com/btcsuite/btcd/wire"
	"github.com/btcsuite/btcwallet/chain"
	"github.com/btcsuite/btcwallet/waddrmgr"

	"verif/harness/ev"
	"verif/harness/wsim"
)

func main() {
	n := 20
	if len(os.Args) > 1 {
		n, _ = strconv.Atoi(os.Args[1])
	}
	defer ev.Cleanup()
	// C09 bodies: concurrent address-issuing calls on one wallet
	for i := 0; i < n; i++ {
		c := wsim.NewChain()
		s, err := wsim.NewSim(ev.Scratch(), 0, "A", c)
		if err != nil {
			panic(err)
		}
		if err := s.Open(0); err != nil {
			panic(err)
		}
		s.Attach()
		s.ServeRescans()
		s.Unlock()
		a0, _ := s.W.NewAddress(0, waddrmgr.KeyScopeBIP0084)
		s.Connect(c.NewBlock(c.Tip, "a", []*wire.MsgTx{wsim.FundingTx("race", a0, 1e8)}), wsim.StyleFiltered)
		var wg sync.WaitGroup
		seen := sync.Map{}
		for t := 0; t < 4; t++ {
			wg.Add(1)
			go func(t int) {
				defer wg.Done()
				for k := 0; k < 3; k++ {
					var addr string
					switch t % 2 {
					case 0:
						a, err := s.W.NewAddress(0, waddrmgr.KeyScopeBIP0084)
						if err == nil {
							addr = a.EncodeAddress()
						}
					case 1:
						a, err := s.W.NewChangeAddress(0, waddrmgr.KeyScopeBIP0084)
						if err == nil {
							addr = a.EncodeAddress()
						}
					}
					if addr != "" {
						if _, dup := seen.LoadOrStore(addr, t); dup {
							fmt.Println("RACEPASS: duplicate address", addr)
							os.Exit(3)
						}
					}
				}
			}(t)
		}
		wg.Wait()
		s.Close()
	}
	// C18 bodies: producer / consumer / stopper on the real queue
	for i := 0; i < n*20; i++ {
		q := chain.NewConcurrentQueue(i % 3)
		q.Start()
		var wg sync.WaitGroup
		wg.Add(2)
		go func() {
			defer wg.Done()
			for v := 0; v < 5; v++ {
				q.ChanIn() <- v
			}
		}()
		go func() {
			defer wg.Done()
			for v := 0; v < 5; v++ {
				got := (<-q.ChanOut()).(int)
				if got != v {
					fmt.Println("RACEPASS: queue order", got, v)
					os.Exit(3)
				}
			}
		}()
		wg.Wait()
		q.Stop()
	}
	fmt.Printf("racepass: %d wallet runs and %d queue runs under -race, no report\n", n, n*20)
}
