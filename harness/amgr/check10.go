package amgr

import (
	"fmt"
	"strings"

	"github.com/btcsuite/btcwallet/walletdb"
)

// DumpNS renders the whole waddrmgr namespace of the database (bytes).
func (w *World) DumpNS() string {
	var sb strings.Builder
	walletdb.View(w.DB, func(tx walletdb.ReadTx) error {
		var rec func(b walletdb.ReadBucket, depth int)
		rec = func(b walletdb.ReadBucket, depth int) {
			b.ForEach(func(k, v []byte) error {
				if v == nil {
					if nb := b.NestedReadBucket(k); nb != nil {
						fmt.Fprintf(&sb, "%*s[%x] seq=%d\n", depth, "", k, nb.Sequence())
						rec(nb, depth+1)
						return nil
					}
				}
				fmt.Fprintf(&sb, "%*s%x=%x\n", depth, "", k, v)
				return nil
			})
		}
		rec(tx.ReadBucket(NS), 0)
		return nil
	})
	return sb.String()
}

// ObserveBoth renders the observation of the live manager and of a manager
// freshly opened on a copy of the database (brought to the same lock state).
func (w *World) ObserveBoth() (live, restarted []string, err error) {
	live, _ = w.Observe(w.Mgr, w.DB)
	m2, db2, err := w.OpenSecond()
	if err != nil {
		return live, nil, err
	}
	defer db2.Close()
	defer m2.Close()
	if !w.Locked && !w.Watching {
		walletdb.View(db2, func(tx walletdb.ReadTx) error { return m2.Unlock(tx.ReadBucket(NS), w.PrivPass) })
	}
	restarted, _ = w.Observe(m2, db2)
	return live, restarted, nil
}

// DumpKeys renders the key structure of the namespace: every bucket, every key
// and the LENGTH of every value (values hold ciphertexts with random nonces,
// their lengths are deterministic).
func (w *World) DumpKeys() string {
	var sb strings.Builder
	walletdb.View(w.DB, func(tx walletdb.ReadTx) error {
		var rec func(b walletdb.ReadBucket, depth int)
		rec = func(b walletdb.ReadBucket, depth int) {
			b.ForEach(func(k, v []byte) error {
				if v == nil {
					if nb := b.NestedReadBucket(k); nb != nil {
						fmt.Fprintf(&sb, "%*s[%x] seq=%d\n", depth, "", k, nb.Sequence())
						rec(nb, depth+1)
						return nil
					}
				}
				fmt.Fprintf(&sb, "%*s%x=<%d bytes>\n", depth, "", k, len(v))
				return nil
			})
		}
		rec(tx.ReadBucket(NS), 0)
		return nil
	})
	return sb.String()
}
