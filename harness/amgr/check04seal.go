//go:build verif

package amgr

import (
	"bytes"
	"crypto/sha256"
	"encoding/binary"
	"fmt"
	"strings"

	"github.com/btcsuite/btcwallet/walletdb"
	"golang.org/x/crypto/nacl/secretbox"
	"golang.org/x/crypto/scrypt"
)

// ScanSealed plays the attacker who holds the database file and what is not
// a secret protecting private material: the all-zero key (a key that was wiped
// or never set seals nothing) and the PUBLIC passphrase; after a conversion to
// watching-only also the private passphrases ("no passphrase unlocks it").
// Every stored value, and every length-prefixed field inside a value, is
// tried (own scrypt + secretbox, independent of snacl): as passphrase
// parameters, and as a ciphertext under every key obtained so far; 32-byte
// plaintexts become keys (fixpoint). A plaintext that contains a private
// pattern is a secret that reached the file effectively unencrypted.
//
// Secret scripts sealed with the all-zero key are NOT reported here: that is
// the recorded finding of C17 (manager-decrypt:all-zero-key-accepted).
func (w *World) ScanSealed(pats []Pattern, fail Fail) int {
	var blobs [][]byte
	seen := map[string]bool{}
	addBlob := func(b []byte) {
		if len(b) < 40 || seen[string(b)] {
			return
		}
		seen[string(b)] = true
		blobs = append(blobs, append([]byte{}, b...))
	}
	walletdb.View(w.DB, func(tx walletdb.ReadTx) error {
		var rec func(b walletdb.ReadBucket)
		rec = func(b walletdb.ReadBucket) {
			b.ForEach(func(k, v []byte) error {
				if v == nil {
					if nb := b.NestedReadBucket(k); nb != nil {
						rec(nb)
					}
					return nil
				}
				addBlob(v)
				// waddrmgr rows carry variable-size fields behind 4-byte
				// little-endian lengths
				for i := 0; i+4 <= len(v); i++ {
					l := int(binary.LittleEndian.Uint32(v[i:]))
					if l >= 40 && i+4+l <= len(v) {
						addBlob(v[i+4 : i+4+l])
					}
				}
				return nil
			})
		}
		rec(tx.ReadBucket(NS))
		return nil
	})
	type akey struct {
		k    [32]byte
		how  string
		zero bool
	}
	keys := []akey{{how: "the all-zero key", zero: true}}
	haveKey := map[[32]byte]bool{{}: true}
	passes := [][]byte{DefaultPub, AltPub}
	if w.Watching {
		passes = append(passes, DefaultPriv, AltPriv)
	}
	evals := 0
	for _, b := range blobs {
		if len(b) != 32+sha256.Size+24 {
			continue
		}
		n := binary.LittleEndian.Uint64(b[64:])
		r := binary.LittleEndian.Uint64(b[72:])
		p := binary.LittleEndian.Uint64(b[80:])
		if n < 2 || n > 1<<18 || n&(n-1) != 0 || r == 0 || p == 0 || r*p > 64 {
			continue
		}
		for _, pass := range passes {
			evals++
			dk, err := scrypt.Key(pass, b[:32], int(n), int(r), int(p), 32)
			if err != nil {
				continue
			}
			if d := sha256.Sum256(dk); !bytes.Equal(d[:], b[32:64]) {
				continue
			}
			var k akey
			copy(k.k[:], dk)
			k.how = fmt.Sprintf("the key derived from passphrase %q and parameters stored in the file", pass)
			if !haveKey[k.k] {
				haveKey[k.k] = true
				keys = append(keys, k)
			}
		}
	}
	reported := map[string]bool{}
	for ki := 0; ki < len(keys) && ki < 64; ki++ {
		k := keys[ki]
		for _, b := range blobs {
			evals++
			var nonce [24]byte
			copy(nonce[:], b[:24])
			plain, ok := secretbox.Open(nil, b[24:], &nonce, &k.k)
			if !ok {
				continue
			}
			if len(plain) == 32 {
				var nk akey
				copy(nk.k[:], plain)
				nk.how = "a key stored in the file under " + k.how
				nk.zero = false
				if !haveKey[nk.k] {
					haveKey[nk.k] = true
					keys = append(keys, nk)
				}
			}
			for i := range pats {
				p := &pats[i]
				if p.Public || !bytes.Contains(plain, p.Bytes) {
					continue
				}
				if k.zero && strings.HasPrefix(p.Class, "secret:imported-script") {
					continue // C17's recorded finding
				}
				cls := "sealed:" + strings.TrimPrefix(p.Class, "secret:")
				if k.zero {
					cls += ":zero-key"
				} else if w.Watching {
					cls += ":watching-only"
				}
				if !reported[cls] {
					reported[cls] = true
					fail(cls, fmt.Sprintf("the database file holds %s of %s as a ciphertext that opens with %s", p.Class, p.What, k.how))
				}
			}
		}
	}
	return evals
}
