package amgr

import (
	"bytes"
	"crypto/sha256"
	"fmt"

	"github.com/btcsuite/btcd/btcec/v2"
	"github.com/btcsuite/btcd/btcutil"
	"github.com/btcsuite/btcd/btcutil/hdkeychain"
	"github.com/btcsuite/btcd/chaincfg/chainhash"
	"github.com/btcsuite/btcd/txscript"
	"github.com/btcsuite/btcwallet/waddrmgr"
	"github.com/btcsuite/btcwallet/walletdb"

	"verif/harness/refbip32"
)

// Op is one operation of the alphabet. A selects the account (0 = account 0,
// 1 = the most recently created account of the focus scope), N is a small
// numeric argument, Rollback runs the operation in a transaction that is
// rolled back although the operation succeeded.
type Op struct {
	K        string `json:"op"`
	A        int    `json:"acct,omitempty"`
	N        int    `json:"n,omitempty"`
	Rollback bool   `json:"rollback,omitempty"`
}

func (o Op) String() string {
	s := o.K
	if o.A != 0 {
		s += fmt.Sprintf("[acct=last]")
	}
	if o.N != 0 {
		s += fmt.Sprintf("(%d)", o.N)
	}
	if o.Rollback {
		s += "!rollback"
	}
	return s
}

// OpsString renders a sequence.
func OpsString(ops []Op) string {
	var b bytes.Buffer
	for i, o := range ops {
		if i > 0 {
			b.WriteString(" ")
		}
		b.WriteString(o.String())
	}
	return b.String()
}

// Result is what an operation returned.
type Result struct {
	Err     error
	Addrs   []waddrmgr.ManagedAddress
	Account uint32
	Skipped bool   // operation not applicable in this state (nothing executed)
	Expect  string // "ok", "fail", "" (unspecified)
	PrivKey *btcec.PrivateKey
}

func (w *World) acctNum(focus waddrmgr.KeyScope, a int) uint32 {
	if a == 0 {
		return 0
	}
	return w.LastAcct[focus]
}

// ImportKey returns the n-th import private key.
func ImportKey(n int) *btcec.PrivateKey {
	h := sha256.Sum256([]byte(fmt.Sprintf("import-key-%d", n)))
	k, _ := btcec.PrivKeyFromBytes(h[:])
	return k
}

// ImportScriptBytes returns the n-th import script (a 1-of-1 style script with
// a recognisable secret payload).
func ImportScriptBytes(n int) []byte {
	h := sha256.Sum256([]byte(fmt.Sprintf("secret-script-%d", n)))
	b := txscript.NewScriptBuilder()
	b.AddData(h[:]).AddOp(txscript.OP_DROP).AddOp(txscript.OP_TRUE)
	s, _ := b.Script()
	return s
}

// WatchXpub returns the extended public key (and its reference key) imported
// by new_watch_account: account 7' of scope 84 of another seed.
func WatchXpub(n int) (*hdkeychain.ExtendedKey, refbip32.Key, uint32) {
	seed := Seed(fmt.Sprintf("other-wallet-%d", n))
	root, _ := hdkeychain.NewMaster(seed, Params)
	p, _ := root.Derive(84 + hdkeychain.HardenedKeyStart)
	c, _ := p.Derive(0 + hdkeychain.HardenedKeyStart)
	a, _ := c.Derive(7 + hdkeychain.HardenedKeyStart)
	pub, _ := a.Neuter()
	// reference: standard BIP32 == legacy unless a key has a leading zero;
	// build it from the parsed public key (public derivation is unambiguous)
	ec, _ := pub.ECPubKey()
	ref := refbip32.Key{Pub: ec, Chain: pub.ChainCode()}
	return pub, ref, 0xAABBCC00 + uint32(n)
}

// Apply executes one operation against the real manager, updating the model
// for committed, successful operations.
func (w *World) Apply(focus waddrmgr.KeyScope, op Op) *Result {
	res := w.apply(focus, op)
	// the caller keeps the handles it was given (a handle obtained while unlocked must
	// refuse private access once the manager is locked, cached by the manager or not)
	if res.Err == nil && !op.Rollback {
		for _, ma := range res.Addrs {
			if len(w.Held) < 12 {
				w.Held = append(w.Held, HeldHandle{MA: ma, How: op.K})
			}
		}
	}
	return res
}

// HeldHandle is a managed address object an operation returned to its caller.
type HeldHandle struct {
	MA  waddrmgr.ManagedAddress
	How string
}

func (w *World) apply(focus waddrmgr.KeyScope, op Op) *Result {
	res := &Result{}
	sm, err := w.Scoped(focus)
	if err != nil && op.K != "new_scope" && op.K != "restart" && op.K != "lock" && op.K != "unlock" &&
		op.K != "unlock_wrong" && op.K != "unlock_old" && op.K != "chpass_priv" && op.K != "chpass_pub" && op.K != "to_watching" && op.K != "set_synced" && op.K != "set_synced_gap" && op.K != "set_synced_jump" {
		res.Skipped = true
		return res
	}
	acct := w.acctNum(focus, op.A)
	am := w.Account(focus, acct)
	tx := w.Update
	if op.Rollback {
		tx = w.RolledBack
	}
	commit := func() bool { return res.Err == nil && !op.Rollback }

	switch op.K {
	case "next_ext", "next_int":
		if am == nil {
			res.Skipped = true
			return res
		}
		n := uint32(op.N)
		if n == 0 {
			n = 1
		}
		res.Expect = "ok"
		res.Err = tx(func(ns walletdb.ReadWriteBucket) error {
			var err error
			if op.K == "next_ext" {
				res.Addrs, err = sm.NextExternalAddresses(ns, acct, n)
			} else {
				res.Addrs, err = sm.NextInternalAddresses(ns, acct, n)
			}
			return err
		})
		if commit() {
			branch := waddrmgr.ExternalBranch
			next := &am.NextExt
			if op.K == "next_int" {
				branch, next = waddrmgr.InternalBranch, &am.NextInt
			}
			for i := uint32(0); i < n; i++ {
				w.Issued = append(w.Issued, &Issued{Scope: focus, Acct: acct, Branch: branch, Index: *next + i, Via: op.K})
			}
			*next += n
		}
	case "extend_ext", "extend_int":
		if am == nil {
			res.Skipped = true
			return res
		}
		branch := waddrmgr.ExternalBranch
		next := &am.NextExt
		if op.K == "extend_int" {
			branch, next = waddrmgr.InternalBranch, &am.NextInt
		}
		k := uint32(op.N)
		if k == 0 {
			k = 1
		}
		last := *next + k - 1
		res.Expect = "ok"
		res.Err = tx(func(ns walletdb.ReadWriteBucket) error {
			if op.K == "extend_ext" {
				return sm.ExtendExternalAddresses(ns, acct, last)
			}
			return sm.ExtendInternalAddresses(ns, acct, last)
		})
		if commit() {
			for i := *next; i <= last; i++ {
				w.Issued = append(w.Issued, &Issued{Scope: focus, Acct: acct, Branch: branch, Index: i, Via: op.K})
			}
			*next = last + 1
		}
	case "lookup_all":
		res.Err = w.View(func(ns walletdb.ReadBucket) error {
			for _, is := range w.Issued {
				addr, _, _, err := w.RefAddress(is)
				if err != nil {
					continue
				}
				if s2, err := w.Scoped(is.Scope); err == nil {
					s2.Address(ns, addr)
				}
			}
			return nil
		})
	case "derive", "derive_cache":
		if am == nil {
			res.Skipped = true
			return res
		}
		path := waddrmgr.DerivationPath{InternalAccount: acct, Account: am.ChildIdx,
			Branch: uint32(op.N % 2), Index: uint32(op.N / 2), MasterKeyFingerprint: am.FP}
		if op.K == "derive" {
			res.Err = w.View(func(ns walletdb.ReadBucket) error {
				ma, err := sm.DeriveFromKeyPath(ns, path)
				if err == nil {
					res.Addrs = []waddrmgr.ManagedAddress{ma}
				}
				return err
			})
		} else {
			res.PrivKey, res.Err = sm.DeriveFromKeyPathCache(path)
		}
	case "mark_used":
		var target *Issued
		for _, is := range w.Issued {
			if is.Scope == focus && is.Acct == acct && !is.Used {
				target = is
				break
			}
		}
		if target == nil {
			res.Skipped = true
			return res
		}
		addr, _, _, _ := w.RefAddress(target)
		res.Expect = "ok"
		res.Err = tx(func(ns walletdb.ReadWriteBucket) error { return sm.MarkUsed(ns, addr) })
		if commit() {
			target.Used = true
		}
	case "lock":
		res.Err = w.Mgr.Lock()
		if !w.Watching && !w.Locked {
			res.Expect = "ok"
		} else {
			res.Expect = "fail"
		}
		if res.Err == nil {
			w.Locked = true
		}
	case "unlock", "unlock_wrong", "unlock_old":
		pass := w.PrivPass
		res.Expect = "ok"
		if op.K == "unlock_wrong" {
			pass, res.Expect = WrongPriv, "fail"
		}
		if op.K == "unlock_old" {
			if len(w.OldPrivs) == 0 {
				res.Skipped = true
				return res
			}
			pass, res.Expect = w.OldPrivs[len(w.OldPrivs)-1], "fail"
		}
		if w.Watching {
			res.Expect = "fail"
		}
		res.Err = w.View(func(ns walletdb.ReadBucket) error { return w.Mgr.Unlock(ns, append([]byte{}, pass...)) })
		if res.Err == nil {
			w.Locked = false
		} else if !w.Watching {
			w.Locked = true // any failed unlock leaves the manager locked
		}
	case "chpass_priv":
		newPass := AltPriv
		if bytes.Equal(w.PrivPass, AltPriv) {
			newPass = DefaultPriv
		}
		res.Expect = "ok"
		if w.Watching {
			res.Expect = "fail"
		}
		res.Err = tx(func(ns walletdb.ReadWriteBucket) error {
			return w.Mgr.ChangePassphrase(ns, append([]byte{}, w.PrivPass...), append([]byte{}, newPass...), true, &waddrmgr.FastScryptOptions)
		})
		if commit() {
			w.OldPrivs = append(w.OldPrivs, w.PrivPass)
			w.PrivPass = newPass
		}
	case "chpass_pub":
		newPass := AltPub
		if bytes.Equal(w.PubPass, AltPub) {
			newPass = DefaultPub
		}
		res.Expect = "ok"
		res.Err = tx(func(ns walletdb.ReadWriteBucket) error {
			return w.Mgr.ChangePassphrase(ns, append([]byte{}, w.PubPass...), append([]byte{}, newPass...), false, &waddrmgr.FastScryptOptions)
		})
		if commit() {
			w.PubPass = newPass
		}
	case "new_account":
		num := w.LastAcct[focus] + 1
		name := fmt.Sprintf("acct-%d", num)
		if w.Locked || w.Watching {
			res.Expect = "fail"
		} else {
			res.Expect = "ok"
		}
		res.Err = tx(func(ns walletdb.ReadWriteBucket) error {
			var err error
			res.Account, err = sm.NewAccount(ns, name)
			return err
		})
		if commit() {
			coin, err := w.Root.Path(focus.Purpose+refbip32.Hardened, focus.Coin+refbip32.Hardened)
			if err == nil {
				// NewAccount derives from the coin-type key as stored (serialized form)
				ak, err2 := coin.Serialized().Child(num + refbip32.Hardened)
				if err2 == nil {
					sch, ok := waddrmgr.ScopeAddrMap[focus]
					if !ok {
						sch = CustomSchema
					}
					w.Accts[acctKey(focus, num)] = &Acct{Scope: focus, Num: num, Name: name, Key: ak,
						ChildIdx: num + refbip32.Hardened, Schema: sch}
				}
			}
			w.LastAcct[focus] = num
		}
	case "new_watch_account":
		num := w.LastAcct[focus] + 1
		name := fmt.Sprintf("watch-%d", num)
		xpub, ref, fp := WatchXpub(int(num))
		schema := &waddrmgr.ScopeAddrSchema{ExternalAddrType: waddrmgr.NestedWitnessPubKey, InternalAddrType: waddrmgr.WitnessPubKey}
		res.Expect = "ok"
		res.Err = tx(func(ns walletdb.ReadWriteBucket) error {
			var err error
			res.Account, err = sm.NewAccountWatchingOnly(ns, name, xpub, fp, schema)
			return err
		})
		if commit() {
			w.Accts[acctKey(focus, num)] = &Acct{Scope: focus, Num: num, Name: name, Key: ref,
				ChildIdx: xpub.ChildIndex(), Schema: *schema, HasSchema: true, FP: fp, WatchOnly: true}
			w.LastAcct[focus] = num
		}
	case "rename":
		if am == nil {
			res.Skipped = true
			return res
		}
		name := fmt.Sprintf("renamed-%d-%d", acct, op.N)
		if am.Name == name {
			name += "x"
		}
		res.Expect = "ok"
		res.Err = tx(func(ns walletdb.ReadWriteBucket) error { return sm.RenameAccount(ns, acct, name) })
		if commit() {
			am.Name = name
		}
	case "import_priv":
		key := ImportKey(op.N)
		for _, im := range w.Imports {
			if (im.Kind == "privkey" || im.Kind == "pubkey") && im.Scope == focus && im.Pub.IsEqual(key.PubKey()) {
				res.Skipped = true // duplicate import
				return res
			}
		}
		wif, _ := btcutil.NewWIF(key, Params, true)
		if w.Locked && !w.Watching {
			res.Expect = "fail"
		} else {
			res.Expect = "ok"
		}
		res.Err = tx(func(ns walletdb.ReadWriteBucket) error {
			ma, err := sm.ImportPrivateKey(ns, wif, &waddrmgr.BlockStamp{Height: 0, Hash: *Params.GenesisHash})
			if err == nil {
				res.Addrs = []waddrmgr.ManagedAddress{ma}
			}
			return err
		})
		if commit() {
			addr, _ := EncodeAddress(key.PubKey(), w.scopeSchema(focus).ExternalAddrType)
			im := &Imported{Scope: focus, Kind: "privkey", Priv: key, Pub: key.PubKey(), Addr: addr.EncodeAddress()}
			if w.Watching {
				im.Kind = "pubkey"
			}
			w.Imports = append(w.Imports, im)
		}
	case "import_script", "import_wscript":
		script := ImportScriptBytes(op.N)
		for _, im := range w.Imports {
			if im.Scope == focus && bytes.Equal(im.Script, script) && ((op.K == "import_script") == (im.Kind == "script")) {
				res.Skipped = true
				return res
			}
		}
		res.Err = tx(func(ns walletdb.ReadWriteBucket) error {
			var ma waddrmgr.ManagedScriptAddress
			var err error
			if op.K == "import_script" {
				ma, err = sm.ImportScript(ns, script, &waddrmgr.BlockStamp{Height: 0, Hash: *Params.GenesisHash})
			} else {
				ma, err = sm.ImportWitnessScript(ns, script, &waddrmgr.BlockStamp{Height: 0, Hash: *Params.GenesisHash}, 0, true)
			}
			if err == nil {
				res.Addrs = []waddrmgr.ManagedAddress{ma}
			}
			return err
		})
		if commit() {
			kind := "script"
			var addr btcutil.Address
			if op.K == "import_script" {
				addr, _ = btcutil.NewAddressScriptHash(script, Params)
			} else {
				kind = "wscript"
				h := sha256.Sum256(script)
				addr, _ = btcutil.NewAddressWitnessScriptHash(h[:], Params)
			}
			w.Imports = append(w.Imports, &Imported{Scope: focus, Kind: kind, Script: script, Secret: true, Addr: addr.EncodeAddress()})
		}
	case "import_tapscript":
		// a secret taproot script (full tree with one leaf); its accessor is used once while the
		// manager is unlocked, as a signer would
		for _, im := range w.Imports {
			if im.Scope == focus && im.Kind == "tapscript" {
				res.Skipped = true
				return res
			}
		}
		leaf := txscript.NewBaseTapLeaf(ImportScriptBytes(3))
		tap := &waddrmgr.Tapscript{Type: waddrmgr.TapscriptTypeFullTree,
			ControlBlock: &txscript.ControlBlock{InternalKey: ImportKey(3).PubKey()},
			Leaves:       []txscript.TapLeaf{leaf}}
		var taddr waddrmgr.ManagedTaprootScriptAddress
		res.Err = tx(func(ns walletdb.ReadWriteBucket) error {
			ma, err := sm.ImportTaprootScript(ns, tap, &waddrmgr.BlockStamp{Height: 0, Hash: *Params.GenesisHash}, 1, true)
			if err == nil {
				taddr = ma
				res.Addrs = []waddrmgr.ManagedAddress{ma}
			}
			return err
		})
		if commit() && taddr != nil {
			if !w.Locked && !w.Watching {
				_, _ = taddr.TaprootScript()
			}
			w.Imports = append(w.Imports, &Imported{Scope: focus, Kind: "tapscript", Script: ImportScriptBytes(3), Secret: true, Addr: taddr.Address().EncodeAddress(), Tap: tap})
		}
	case "invalidate_cache":
		// drops the cached account info (the wallet does this after a dry-run account import)
		sm.InvalidateAccountCache(acct)
	case "restart":
		res.Expect = "ok"
		res.Err = w.Restart()
	case "to_watching":
		if w.Watching {
			res.Skipped = true
			return res
		}
		res.Expect = "ok"
		res.Err = tx(func(ns walletdb.ReadWriteBucket) error { return w.Mgr.ConvertToWatchingOnly(ns) })
		if commit() {
			w.Watching = true
			w.Locked = false
		}
	case "set_synced":
		h := int32(op.N)
		bs := waddrmgr.BlockStamp{Height: w.Synced.Height + 1,
			Hash:      chainhash.Hash(sha256.Sum256([]byte(fmt.Sprintf("synced-%d-%d", w.Synced.Height+1, h)))),
			Timestamp: w.Synced.Timestamp.Add(600e9)}
		res.Expect = "ok"
		res.Err = tx(func(ns walletdb.ReadWriteBucket) error { return w.Mgr.SetSyncedTo(ns, &bs) })
		if commit() {
			w.Synced = bs
		}
	case "set_synced_jump":
		// a tip far above MaxReorgDepth (no birthday block set: no predecessor is asked for), so
		// that later stamps take the stale-height pruning branch of PutSyncedTo
		bs := waddrmgr.BlockStamp{Height: w.Synced.Height + waddrmgr.MaxReorgDepth + 7,
			Hash:      chainhash.Hash(sha256.Sum256([]byte(fmt.Sprintf("synced-jump-%d", w.Synced.Height)))),
			Timestamp: w.Synced.Timestamp.Add(600e9)}
		res.Expect = "ok"
		res.Err = tx(func(ns walletdb.ReadWriteBucket) error { return w.Mgr.SetSyncedTo(ns, &bs) })
		if commit() {
			w.Synced = bs
		}
	case "neuter_root":
		// drops the encrypted master HD private key (the wallet can no longer create scopes)
		res.Err = tx(func(ns walletdb.ReadWriteBucket) error { return w.Mgr.NeuterRootKey(ns) })
		if commit() {
			w.Neutered = true
		}
	case "set_synced_gap":
		// a stamp whose predecessor is not remembered, with the birthday block set (in the
		// same transaction): PutSyncedTo refuses it, the closure returns the error, the
		// transaction is rolled back. Nothing may remain of it, in memory either.
		bs := waddrmgr.BlockStamp{Height: w.Synced.Height + 2,
			Hash:      chainhash.Hash(sha256.Sum256([]byte(fmt.Sprintf("synced-gap-%d", w.Synced.Height+2)))),
			Timestamp: w.Synced.Timestamp.Add(1200e9)}
		res.Expect = "fail"
		res.Err = tx(func(ns walletdb.ReadWriteBucket) error {
			if err := w.Mgr.SetBirthdayBlock(ns, w.Synced, true); err != nil {
				return err
			}
			return w.Mgr.SetSyncedTo(ns, &bs)
		})
	case "new_scope":
		if w.HasCustom {
			res.Skipped = true
			return res
		}
		if w.Locked || w.Watching || w.Neutered {
			res.Expect = "fail"
		} else {
			res.Expect = "ok"
		}
		res.Err = tx(func(ns walletdb.ReadWriteBucket) error {
			_, err := w.Mgr.NewScopedKeyManager(ns, CustomScope, CustomSchema)
			return err
		})
		if commit() {
			w.HasCustom = true
			w.Scopes = append(w.Scopes, CustomScope)
			// root key comes from its stored (serialized) form
			coin, err := w.Root.Serialized().Path(CustomScope.Purpose+refbip32.Hardened, CustomScope.Coin+refbip32.Hardened)
			if err == nil {
				if ak, err := coin.Child(refbip32.Hardened); err == nil {
					w.Accts[acctKey(CustomScope, 0)] = &Acct{Scope: CustomScope, Num: 0, Name: "default", Key: ak,
						ChildIdx: refbip32.Hardened, Schema: CustomSchema}
				}
			}
			w.LastAcct[CustomScope] = 0
		}
	default:
		panic("unknown op " + op.K)
	}
	return res
}

func (w *World) scopeSchema(s waddrmgr.KeyScope) waddrmgr.ScopeAddrSchema {
	if sch, ok := waddrmgr.ScopeAddrMap[s]; ok {
		return sch
	}
	return CustomSchema
}
