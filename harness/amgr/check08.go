package amgr

import (
	"fmt"
	"sort"
	"strings"

	"github.com/btcsuite/btcd/btcutil"
	"github.com/btcsuite/btcwallet/waddrmgr"
	"github.com/btcsuite/btcwallet/walletdb"
)

// Observe renders what a manager answers about everything the model knows:
// issued addresses and their metadata, next indices, account names and
// properties, used flags and sync state. issuedOnly restricts address queries
// to addresses issued by committed operations; the extra candidates (indices
// up to next+1 on every branch, never committed) are rendered under a
// separate prefix so callers can treat them separately.
func (w *World) Observe(mgr *waddrmgr.Manager, db walletdb.DB) (issued []string, extra []string) {
	walletdb.View(db, func(tx walletdb.ReadTx) error {
		ns := tx.ReadBucket(NS)
		add := func(s string) { issued = append(issued, s) }
		names := []string{"default", "acct-1", "acct-2", "watch-1", "watch-2", "renamed-0-1", "renamed-0-2", "renamed-1-1", "imported"}
		scopes := append([]waddrmgr.KeyScope{}, waddrmgr.DefaultKeyScopes...)
		scopes = append(scopes, CustomScope)
		for _, sc := range scopes {
			sm, err := mgr.FetchScopedKeyManager(sc)
			if err != nil {
				add(fmt.Sprintf("scope %v: absent", sc))
				continue
			}
			last, err := sm.LastAccount(ns)
			add(fmt.Sprintf("scope %v: LastAccount=%d,%v", sc, last, errClass08(err)))
			for num := uint32(0); num <= w.LastAcct[sc]+1; num++ {
				p, err := sm.AccountProperties(ns, num)
				if err != nil {
					add(fmt.Sprintf("%v/%d props: %s", sc, num, errClass08(err)))
				} else {
					pub := ""
					if p.AccountPubKey != nil {
						pub = p.AccountPubKey.String()
					}
					schema := "-"
					if p.AddrSchema != nil {
						schema = fmt.Sprintf("%v/%v", p.AddrSchema.ExternalAddrType, p.AddrSchema.InternalAddrType)
					}
					add(fmt.Sprintf("%v/%d props: name=%q ext=%d int=%d imported=%d fp=%x watchonly=%v schema=%s pub=%s",
						sc, num, p.AccountName, p.ExternalKeyCount, p.InternalKeyCount, p.ImportedKeyCount, p.MasterKeyFingerprint, p.IsWatchOnly, schema, pub))
				}
				n, err := sm.AccountName(ns, num)
				add(fmt.Sprintf("%v/%d AccountName=%q,%s", sc, num, n, errClass08(err)))
				for _, f := range []struct {
					n string
					f func(walletdb.ReadBucket, uint32) (waddrmgr.ManagedAddress, error)
				}{{"LastExternalAddress", sm.LastExternalAddress}, {"LastInternalAddress", sm.LastInternalAddress}} {
					ma, err := f.f(ns, num)
					if err != nil {
						add(fmt.Sprintf("%v/%d %s: %s", sc, num, f.n, errClass08(err)))
					} else {
						add(fmt.Sprintf("%v/%d %s: %s", sc, num, f.n, renderMA(ns, ma)))
					}
				}
			}
			for _, name := range names {
				n, err := sm.LookupAccount(ns, name)
				add(fmt.Sprintf("%v LookupAccount(%q)=%d,%s", sc, name, n, errClass08(err)))
			}
		}
		// issued addresses
		for _, is := range w.Issued {
			addr, _, _, err := w.RefAddress(is)
			if err != nil {
				continue
			}
			add(lookupLine(mgr, ns, addr))
		}
		for _, im := range w.Imports {
			if a, err := btcutil.DecodeAddress(im.Addr, Params); err == nil {
				add(lookupLine(mgr, ns, a))
			}
		}
		// candidates never committed: next and next+1 on each branch of each model account
		for _, am := range w.SortedAccts() {
			for branch, next := range map[uint32]uint32{waddrmgr.ExternalBranch: am.NextExt, waddrmgr.InternalBranch: am.NextInt} {
				for i := next; i <= next+2; i++ {
					k, err := am.RefChild(branch, i)
					if err != nil {
						continue
					}
					a, err := EncodeAddress(k.Pub, am.AddrType(branch))
					if err != nil {
						continue
					}
					extra = append(extra, lookupLine(mgr, ns, a))
				}
			}
		}
		// imports the model does not know (rolled back)
		for n := 1; n <= 3; n++ {
			for _, sc := range w.Scopes {
				if a, err := EncodeAddress(ImportKey(n).PubKey(), w.scopeSchema(sc).ExternalAddrType); err == nil {
					known := false
					for _, im := range w.Imports {
						if im.Addr == a.EncodeAddress() && im.Scope == sc {
							known = true
						}
					}
					if !known {
						extra = append(extra, fmt.Sprintf("%v ", sc)+lookupLineScoped(mgr, sc, ns, a))
					}
				}
			}
		}
		st := mgr.SyncedTo()
		add(fmt.Sprintf("SyncedTo=%d/%s/%d", st.Height, st.Hash, st.Timestamp.Unix()))
		for h := int32(0); h <= st.Height+1 && h <= w.Synced.Height+2; h++ {
			bh, err := mgr.BlockHash(ns, h)
			if err != nil {
				add(fmt.Sprintf("BlockHash(%d): %s", h, errClass08(err)))
			} else {
				add(fmt.Sprintf("BlockHash(%d)=%s", h, bh))
			}
		}
		add(fmt.Sprintf("locked=%v watchonly=%v", mgr.IsLocked(), mgr.WatchOnly()))
		return nil
	})
	sort.Strings(extra)
	return
}

func errClass08(err error) string {
	if err == nil {
		return "ok"
	}
	if me, ok := err.(waddrmgr.ManagerError); ok {
		return me.ErrorCode.String()
	}
	return "error"
}

func lookupLine(mgr *waddrmgr.Manager, ns walletdb.ReadBucket, a btcutil.Address) string {
	ma, err := mgr.Address(ns, a)
	if err != nil {
		return fmt.Sprintf("Address(%s): not found", a.EncodeAddress())
	}
	acctInfo := "AddrAccount="
	if sm, acct, err := mgr.AddrAccount(ns, a); err != nil {
		acctInfo += errClass08(err)
	} else {
		acctInfo += fmt.Sprintf("%v/%d", sm.Scope(), acct)
	}
	return fmt.Sprintf("Address(%s): %s %s", a.EncodeAddress(), renderMA(ns, ma), acctInfo)
}

func lookupLineScoped(mgr *waddrmgr.Manager, sc waddrmgr.KeyScope, ns walletdb.ReadBucket, a btcutil.Address) string {
	sm, err := mgr.FetchScopedKeyManager(sc)
	if err != nil {
		return "scope absent"
	}
	ma, err := sm.Address(ns, a)
	if err != nil {
		return fmt.Sprintf("Address(%s): not found", a.EncodeAddress())
	}
	return fmt.Sprintf("Address(%s): %s", a.EncodeAddress(), renderMA(ns, ma))
}

func renderMA(ns walletdb.ReadBucket, ma waddrmgr.ManagedAddress) string {
	var sb strings.Builder
	fmt.Fprintf(&sb, "%s type=%v acct=%d internal=%v imported=%v used=%v compressed=%v", ma.Address().EncodeAddress(), ma.AddrType(),
		ma.InternalAccount(), ma.Internal(), ma.Imported(), ma.Used(ns), ma.Compressed())
	if pk, ok := ma.(waddrmgr.ManagedPubKeyAddress); ok {
		sc, path, ok := pk.DerivationInfo()
		fmt.Fprintf(&sb, " pub=%x deriv=%v/%+v/%v", pk.PubKey().SerializeCompressed(), sc, path, ok)
		_, err := pk.PrivKey()
		fmt.Fprintf(&sb, " privkey=%s", errClass08(err))
	}
	return sb.String()
}

// DiffLines returns the first differing line pair of two observation lists.
func DiffLines(a, b []string) (string, bool) {
	for i := 0; i < len(a) || i < len(b); i++ {
		var x, y string
		if i < len(a) {
			x = a[i]
		}
		if i < len(b) {
			y = b[i]
		}
		if x != y {
			return fmt.Sprintf("live: %q | restarted: %q", x, y), true
		}
	}
	return "", false
}
