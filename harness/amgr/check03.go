package amgr

import (
	"bytes"
	"fmt"
	"sort"
	"strings"

	"github.com/btcsuite/btcwallet/waddrmgr"
	"github.com/btcsuite/btcwallet/walletdb"
)

// Fail reports an oracle failure: sig is the failure class, msg the details.
type Fail func(sig, msg string)

// checkManaged verifies one managed address object against the reference of
// an issued entry. how names the way the object was obtained.
func (w *World) checkManaged(how string, is *Issued, ma waddrmgr.ManagedAddress, fail Fail) {
	addr, ref, am, err := w.RefAddress(is)
	if err != nil {
		return
	}
	tag := fmt.Sprintf("%s of m/%d'/%d'/acct%d/%d/%d (issued by %s)", how, is.Scope.Purpose, is.Scope.Coin, is.Acct, is.Branch, is.Index, is.Via)
	if ma.Address().EncodeAddress() != addr.EncodeAddress() {
		fail("address:"+how, fmt.Sprintf("%s: address %s, reference derivation gives %s", tag, ma.Address().EncodeAddress(), addr.EncodeAddress()))
		return
	}
	pk, ok := ma.(waddrmgr.ManagedPubKeyAddress)
	if !ok {
		fail("type:"+how, tag+": not a pubkey address")
		return
	}
	if !pk.PubKey().IsEqual(ref.Pub) {
		fail("pubkey:"+how, fmt.Sprintf("%s: public key %x, reference %x", tag, pk.PubKey().SerializeCompressed(), ref.Pub.SerializeCompressed()))
	}
	if ma.AddrType() != am.AddrType(is.Branch) {
		fail("addrtype:"+how, fmt.Sprintf("%s: address type %v, want %v", tag, ma.AddrType(), am.AddrType(is.Branch)))
	}
	if ma.Internal() != (is.Branch == waddrmgr.InternalBranch) {
		fail("internal-flag:"+how+":via="+is.Via, fmt.Sprintf("%s: Internal()=%v", tag, ma.Internal()))
	}
	if ma.InternalAccount() != is.Acct {
		fail("account:"+how, fmt.Sprintf("%s: InternalAccount()=%d", tag, ma.InternalAccount()))
	}
	if ma.Imported() {
		fail("imported-flag:"+how, tag+": Imported()=true for a derived address")
	}
	scope, path, okd := pk.DerivationInfo()
	want := waddrmgr.DerivationPath{InternalAccount: is.Acct, Account: am.ChildIdx, Branch: is.Branch, Index: is.Index, MasterKeyFingerprint: am.FP}
	if !okd || scope != is.Scope || path != want {
		what := "path"
		if okd && scope == is.Scope && path.MasterKeyFingerprint != want.MasterKeyFingerprint {
			p2 := path
			p2.MasterKeyFingerprint = want.MasterKeyFingerprint
			if p2 == want {
				what = "fingerprint"
			}
		}
		fail("derivation-info:"+what+":"+how+":via="+is.Via, fmt.Sprintf("%s: DerivationInfo()=(%v,%+v,%v), want (%v,%+v)", tag, scope, path, okd, is.Scope, want))
	}
	// private key whenever the wallet is unlocked and the account has one
	if !w.Locked && !w.Watching && !am.WatchOnly {
		priv, err := pk.PrivKey()
		if err != nil {
			fail("privkey-unavailable:"+how+":via="+is.Via, fmt.Sprintf("%s: wallet unlocked but PrivKey() failed: %v", tag, err))
		} else {
			if !priv.PubKey().IsEqual(ref.Pub) {
				fail("privkey-mismatch:"+how, fmt.Sprintf("%s: PrivKey() is the key of %x, not of the address's public key %x", tag, priv.PubKey().SerializeCompressed(), ref.Pub.SerializeCompressed()))
			}
			if ref.Priv != nil && !bytes.Equal(priv.Serialize(), ref.Priv32()) {
				fail("privkey-mismatch:"+how, tag+": PrivKey() differs from the reference private key")
			}
		}
	}
}

// CheckIssued is the C03 oracle evaluated in the current state: every address
// issued so far, however obtained, is the reference child; counts are gap
// free; imports come back unchanged.
func (w *World) CheckIssued(fail Fail) int {
	evals := 0
	w.View(func(ns walletdb.ReadBucket) error {
		perAcct := map[string][]string{}
		for _, is := range w.Issued {
			sm, err := w.Scoped(is.Scope)
			if err != nil {
				fail("scope-missing", err.Error())
				continue
			}
			addr, _, am, err := w.RefAddress(is)
			if err != nil {
				continue
			}
			k := acctKey(is.Scope, is.Acct)
			perAcct[k] = append(perAcct[k], addr.EncodeAddress())
			// (1) lookup by address
			ma, err := sm.Address(ns, addr)
			evals++
			if err != nil {
				fail("lookup-failed:via="+is.Via, fmt.Sprintf("Address(%s) for m/%d'/../acct%d/%d/%d issued by %s: %v", addr, is.Scope.Purpose, is.Acct, is.Branch, is.Index, is.Via, err))
			} else {
				w.checkManaged("lookup", is, ma, fail)
				if ma.Used(ns) != is.Used {
					fail("used-flag:lookup", fmt.Sprintf("Used()=%v for %s, model says %v", ma.Used(ns), addr, is.Used))
				}
			}
			// (2) derivation by path
			path := waddrmgr.DerivationPath{InternalAccount: is.Acct, Account: am.ChildIdx, Branch: is.Branch, Index: is.Index, MasterKeyFingerprint: am.FP}
			md, err := sm.DeriveFromKeyPath(ns, path)
			evals++
			if err != nil {
				fail("derive-failed", fmt.Sprintf("DeriveFromKeyPath(%+v): %v", path, err))
			} else {
				w.checkManaged("derive-by-path", is, md, fail)
			}
			// (2b) the cached private-key derivation (twice: computed, then from the cache;
			// the addresses of both branches with the same index follow each other)
			if !w.Locked && !w.Watching && !am.WatchOnly {
				_, ref, _, _ := w.RefAddress(is)
				for round := 0; round < 2; round++ {
					k, err := sm.DeriveFromKeyPathCache(path)
					evals++
					if err != nil {
						fail("derive-cache-failed", fmt.Sprintf("DeriveFromKeyPathCache(%+v) on an unlocked manager: %v", path, err))
						break
					}
					if !k.PubKey().IsEqual(ref.Pub) {
						fail("derive-cache:wrong-key", fmt.Sprintf("DeriveFromKeyPathCache(%+v) (call %d) returned the key of %x, the address's public key is %x", path, round+1, k.PubKey().SerializeCompressed(), ref.Pub.SerializeCompressed()))
						break
					}
				}
			}
			// (3) root manager lookup
			mr, err := w.Mgr.Address(ns, addr)
			evals++
			if err != nil {
				fail("root-lookup-failed:via="+is.Via, fmt.Sprintf("Manager.Address(%s): %v", addr, err))
			} else {
				w.checkManaged("root-lookup", is, mr, fail)
			}
		}
		// counts and enumeration per account
		for _, am := range w.SortedAccts() {
			sm, err := w.Scoped(am.Scope)
			if err != nil {
				continue
			}
			props, err := sm.AccountProperties(ns, am.Num)
			evals++
			if err != nil {
				fail("account-properties", fmt.Sprintf("AccountProperties(%v,%d): %v", am.Scope, am.Num, err))
				continue
			}
			if props.ExternalKeyCount != am.NextExt || props.InternalKeyCount != am.NextInt {
				fail("index-count", fmt.Sprintf("account %v/%d: key counts ext=%d int=%d, issued consecutively so far ext=%d int=%d",
					am.Scope, am.Num, props.ExternalKeyCount, props.InternalKeyCount, am.NextExt, am.NextInt))
			}
			if props.AccountName != am.Name {
				fail("account-name", fmt.Sprintf("account %v/%d name %q, want %q", am.Scope, am.Num, props.AccountName, am.Name))
			}
			var got []string
			err = sm.ForEachAccountAddress(ns, am.Num, func(ma waddrmgr.ManagedAddress) error {
				got = append(got, ma.Address().EncodeAddress())
				return nil
			})
			evals++
			want := append([]string{}, perAcct[acctKey(am.Scope, am.Num)]...)
			sort.Strings(got)
			sort.Strings(want)
			if err != nil || strings.Join(got, ",") != strings.Join(want, ",") {
				fail("enumeration", fmt.Sprintf("ForEachAccountAddress(%v,%d)=%v (%v), issued %v", am.Scope, am.Num, got, err, want))
			}
		}
		// imports
		for _, im := range w.Imports {
			sm, err := w.Scoped(im.Scope)
			if err != nil {
				continue
			}
			a, err := decodeAddr(im.Addr)
			if err != nil {
				continue
			}
			ma, err := sm.Address(ns, a)
			evals++
			if err != nil {
				fail("import-lookup-failed:"+im.Kind, fmt.Sprintf("Address(%s) of imported %s: %v", im.Addr, im.Kind, err))
				continue
			}
			if !ma.Imported() {
				fail("import-flag:"+im.Kind, "Imported()=false for "+im.Addr)
			}
			switch im.Kind {
			case "privkey", "pubkey":
				pk, ok := ma.(waddrmgr.ManagedPubKeyAddress)
				if !ok || !pk.PubKey().IsEqual(im.Pub) {
					fail("import-pubkey", "imported key comes back with another public key: "+im.Addr)
					continue
				}
				if im.Kind == "privkey" && !w.Locked && !w.Watching {
					priv, err := pk.PrivKey()
					if err != nil || !priv.Key.Equals(&im.Priv.Key) {
						fail("import-privkey", fmt.Sprintf("imported private key not returned unchanged for %s (err=%v)", im.Addr, err))
					}
				}
			case "script", "wscript":
				sa, ok := ma.(waddrmgr.ManagedScriptAddress)
				if !ok {
					fail("import-script-type", "imported script is not a script address: "+im.Addr)
					continue
				}
				if !w.Locked && !w.Watching {
					sc, err := sa.Script()
					if err != nil || !bytes.Equal(sc, im.Script) {
						fail("import-script:"+im.Kind, fmt.Sprintf("imported script not returned unchanged for %s (err=%v)", im.Addr, err))
					}
				}
			}
		}
		return nil
	})
	return evals
}

// CheckReturned verifies an address object returned by an issuing call.
func (w *World) CheckReturned(how string, is *Issued, ma waddrmgr.ManagedAddress, fail Fail) {
	w.checkManaged(how, is, ma, fail)
}
