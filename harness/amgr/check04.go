//go:build verif

package amgr

import (
	"bytes"
	"encoding/hex"
	"fmt"
	"os"
	"sync"

	"github.com/btcsuite/btcd/btcec/v2"
	"github.com/btcsuite/btcd/btcutil"
	"github.com/btcsuite/btcd/btcutil/hdkeychain"
	"github.com/btcsuite/btcd/txscript"
	"github.com/btcsuite/btcwallet/waddrmgr"
	"github.com/btcsuite/btcwallet/walletdb"

	"verif/harness/refbip32"
)

// Pattern is one byte string that must not occur in the database file.
type Pattern struct {
	Class  string // e.g. secret:address-privkey:raw
	What   string
	Bytes  []byte
	Public bool // public data: forbidden only while no transaction is recorded
}

var (
	patMu    sync.Mutex
	patCache = map[string][]Pattern{}
)

func extString(k refbip32.Key, parent *refbip32.Key, depth uint8, child uint32, priv bool) string {
	var fp [4]byte
	if parent != nil {
		copy(fp[:], btcutil.Hash160(parent.Pub.SerializeCompressed())[:4])
	}
	if priv {
		ek := hdkeychain.NewExtendedKey(Params.HDPrivateKeyID[:], k.Priv32(), k.Chain, fp[:], depth, child, true)
		return ek.String()
	}
	ek := hdkeychain.NewExtendedKey(Params.HDPublicKeyID[:], k.Pub.SerializeCompressed(), k.Chain, fp[:], depth, child, false)
	return ek.String()
}

// Patterns computes every secret (and sensitive public datum) that can exist
// for a seed within the alphabet: master, coin-type and account keys of all
// scopes (accounts 0..2), child keys 0..5 of both branches, imports, scripts,
// passphrases; each in raw, hex and serialized text form.
func Patterns(seedName string, seed []byte) []Pattern {
	patMu.Lock()
	defer patMu.Unlock()
	if p, ok := patCache[seedName]; ok {
		return p
	}
	var ps []Pattern
	add := func(class, what string, b []byte, public bool) {
		if len(b) < 8 {
			return
		}
		ps = append(ps, Pattern{Class: class, What: what, Bytes: append([]byte{}, b...), Public: public})
	}
	forms := func(class, what string, raw []byte, public bool) {
		add(class+":raw", what, raw, public)
		add(class+":hex", what, []byte(hex.EncodeToString(raw)), public)
	}
	forms("secret:seed", "wallet seed", seed, false)
	root := refbip32.Master(seed)
	forms("secret:master-key", "master private key", root.Priv32(), false)
	add("secret:master-xprv:text", "master xprv", []byte(extString(root, nil, 0, 0, true)), false)
	add("public:master-xpub:text", "master xpub", []byte(extString(root, nil, 0, 0, false)), true)
	scopes := append([]waddrmgr.KeyScope{}, waddrmgr.DefaultKeyScopes...)
	scopes = append(scopes, CustomScope)
	for _, sc := range scopes {
		rk := root
		if sc == CustomScope {
			rk = root.Serialized()
		}
		purpose, err := rk.Child(sc.Purpose + refbip32.Hardened)
		if err != nil {
			continue
		}
		coin, err := purpose.Child(sc.Coin + refbip32.Hardened)
		if err != nil {
			continue
		}
		tag := fmt.Sprintf("m/%d'/%d'", sc.Purpose, sc.Coin)
		forms("secret:cointype-key", tag, coin.Priv32(), false)
		add("secret:cointype-xprv:text", tag, []byte(extString(coin, &purpose, 2, sc.Coin+refbip32.Hardened, true)), false)
		add("public:cointype-xpub:text", tag, []byte(extString(coin, &purpose, 2, sc.Coin+refbip32.Hardened, false)), true)
		for acct := uint32(0); acct <= 2; acct++ {
			parent := coin
			if acct > 0 {
				parent = coin.Serialized()
			}
			ak, err := parent.Child(acct + refbip32.Hardened)
			if err != nil {
				continue
			}
			atag := fmt.Sprintf("%s/%d'", tag, acct)
			forms("secret:account-key", atag, ak.Priv32(), false)
			add("secret:account-xprv:text", atag, []byte(extString(ak, &coin, 3, acct+refbip32.Hardened, true)), false)
			add("public:account-xpub:text", atag, []byte(extString(ak, &coin, 3, acct+refbip32.Hardened, false)), true)
			for branch := uint32(0); branch <= 1; branch++ {
				for idx := uint32(0); idx <= 5; idx++ {
					ck, err := ak.Path(branch, idx)
					if err != nil {
						continue
					}
					ctag := fmt.Sprintf("%s/%d/%d", atag, branch, idx)
					forms("secret:address-privkey", ctag, ck.Priv32(), false)
					priv, _ := btcec.PrivKeyFromBytes(ck.Priv32())
					if wif, err := btcutil.NewWIF(priv, Params, true); err == nil {
						add("secret:address-privkey:wif", ctag, []byte(wif.String()), false)
					}
					pub := ck.Pub.SerializeCompressed()
					forms("public:address-pubkey", ctag, pub, true)
					forms("public:address-pubkey-xonly", ctag, pub[1:], true)
					h := btcutil.Hash160(pub)
					forms("public:address-hash160", ctag, h, true)
					tk := txscript.ComputeTaprootKeyNoScript(ck.Pub).SerializeCompressed()[1:]
					forms("public:taproot-output-key", ctag, tk, true)
					for _, t := range []waddrmgr.AddressType{waddrmgr.PubKeyHash, waddrmgr.WitnessPubKey, waddrmgr.NestedWitnessPubKey, waddrmgr.TaprootPubKey} {
						if a, err := EncodeAddress(ck.Pub, t); err == nil {
							add("public:address-string:text", ctag, []byte(a.EncodeAddress()), true)
							forms("public:address-script-hash", ctag, a.ScriptAddress(), true)
						}
					}
				}
			}
		}
	}
	for n := 1; n <= 3; n++ {
		k := ImportKey(n)
		forms("secret:imported-privkey", fmt.Sprintf("import key %d", n), k.Serialize(), false)
		if wif, err := btcutil.NewWIF(k, Params, true); err == nil {
			add("secret:imported-privkey:wif", fmt.Sprintf("import key %d", n), []byte(wif.String()), false)
		}
		forms("public:imported-pubkey", fmt.Sprintf("import key %d", n), k.PubKey().SerializeCompressed(), true)
		sc := ImportScriptBytes(n)
		forms("secret:imported-script", fmt.Sprintf("import script %d", n), sc, false)
		forms("secret:imported-script-payload", fmt.Sprintf("import script %d payload", n), sc[1:33], false)
	}
	for _, p := range [][]byte{DefaultPriv, AltPriv, DefaultPub, AltPub} {
		add("secret:passphrase:raw", fmt.Sprintf("passphrase %q", p), p, false)
		add("secret:passphrase:hex", fmt.Sprintf("passphrase %q", p), []byte(hex.EncodeToString(p)), false)
	}
	patCache[seedName] = ps
	return ps
}

// ScanImage reads the raw database file (all pages, including freed ones) and
// reports every pattern found.
func (w *World) ScanImage(pats []Pattern, fail Fail) int {
	img, err := os.ReadFile(w.Path)
	if err != nil {
		fail("image-unreadable", err.Error())
		return 0
	}
	for i := range pats {
		p := &pats[i]
		if bytes.Contains(img, p.Bytes) {
			fail("image:"+p.Class, fmt.Sprintf("database file contains %s of %s in the clear at offset %d", p.Class, p.What, bytes.Index(img, p.Bytes)))
		}
	}
	return len(pats)
}

// CheckWatchingOnly: after conversion and reopen every known address is still
// found, no passphrase unlocks and nothing private is returned.
func (w *World) CheckWatchingOnly(focus waddrmgr.KeyScope, fail Fail) int {
	n := 0
	w.View(func(ns walletdb.ReadBucket) error {
		for _, is := range w.Issued {
			addr, ref, _, err := w.RefAddress(is)
			if err != nil {
				continue
			}
			n++
			ma, err := w.Mgr.Address(ns, addr)
			if err != nil {
				fail("watching-only:address-forgotten", fmt.Sprintf("after conversion to watching-only %s is unknown: %v", addr, err))
				continue
			}
			if pk, ok := ma.(waddrmgr.ManagedPubKeyAddress); ok && !pk.PubKey().IsEqual(ref.Pub) {
				fail("watching-only:pubkey", "public key changed by conversion for "+addr.EncodeAddress())
			}
		}
		return nil
	})
	return n
}
