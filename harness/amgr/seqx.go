package amgr

import (
	"fmt"
	"runtime"
	"sync"

	"github.com/btcsuite/btcwallet/waddrmgr"

	"verif/harness/ev"
)

// Job is one execution: a world of a seed, a focus scope, a base prefix that
// brings it into a non-initial state and the sequence under exploration.
type Job struct {
	SeedName string            `json:"seed"`
	Focus    waddrmgr.KeyScope `json:"focus_scope"`
	Base     []Op              `json:"base"`
	Seq      []Op              `json:"sequence"`
	Text     string            `json:"text"`
}

// Describe renders the job.
func (j Job) Describe() string {
	return fmt.Sprintf("seed=%s scope=m/%d'/%d' base=[%s] seq=[%s]", j.SeedName, j.Focus.Purpose, j.Focus.Coin, OpsString(j.Base), OpsString(j.Seq))
}

// Sequences enumerates all sequences over alphabet of length 1..depth,
// shortest first, in alphabet order.
func Sequences(alphabet []Op, depth int, emit func([]Op)) {
	for d := 1; d <= depth; d++ {
		idx := make([]int, d)
		for {
			seq := make([]Op, d)
			for i, k := range idx {
				seq[i] = alphabet[k]
			}
			emit(seq)
			i := d - 1
			for i >= 0 {
				idx[i]++
				if idx[i] < len(alphabet) {
					break
				}
				idx[i] = 0
				i--
			}
			if i < 0 {
				break
			}
		}
	}
}

// RunJobs executes jobs on all cores; exec gets a worker id for its files.
func RunJobs(gen func(emit func(Job)), exec func(worker int, j Job), stop func() bool) (done int, complete bool) {
	nw := runtime.NumCPU()
	if nw > 16 {
		nw = 16
	}
	if ev.IsWorker() {
		nw = 1 // a shard worker process is single threaded
	}
	jobIdx := 0
	ch := make(chan Job, 64)
	var wg sync.WaitGroup
	var mu sync.Mutex
	for w := 0; w < nw; w++ {
		wg.Add(1)
		go func(w int) {
			defer wg.Done()
			for j := range ch {
				exec(w, j)
				mu.Lock()
				done++
				mu.Unlock()
			}
		}(w)
	}
	complete = true
	gen(func(j Job) {
		if !complete {
			return
		}
		if stop != nil && stop() {
			complete = false
			return
		}
		jobIdx++
		if !ev.Mine(jobIdx) {
			return
		}
		ch <- j
	})
	close(ch)
	wg.Wait()
	return done, complete
}

// SeedByName resolves a seed name.
func SeedByName(name string) []byte {
	return Seed(name)
}
