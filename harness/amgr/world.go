// Package amgr drives the real waddrmgr.Manager through operation sequences
// ("worlds") and keeps the reference model the checks C03/C04/C05/C08/C10
// compare against.
package amgr

import (
	"bytes"
	"crypto/sha256"
	"fmt"
	"io"
	"os"
	"path/filepath"
	"sort"
	"sync"
	"time"

	"github.com/btcsuite/btcd/btcec/v2"
	"github.com/btcsuite/btcd/btcutil"
	"github.com/btcsuite/btcd/btcutil/hdkeychain"
	"github.com/btcsuite/btcd/chaincfg"
	"github.com/btcsuite/btcd/txscript"
	"github.com/btcsuite/btcwallet/snacl"
	"github.com/btcsuite/btcwallet/waddrmgr"
	"github.com/btcsuite/btcwallet/walletdb"
	_ "github.com/btcsuite/btcwallet/walletdb/bdb"

	"verif/harness/faultdb"
	"verif/harness/refbip32"
)

// Params are the chain parameters of every world.
var Params = &chaincfg.MainNetParams

// NS is the address manager namespace key.
var NS = []byte("waddrmgr")

var fastOnce sync.Once

// FastScrypt installs cheap scrypt parameters (the cost parameter is not
// observed by any property).
func FastScrypt() {
	fastOnce.Do(func() {
		waddrmgr.SetSecretKeyGen(func(p *[]byte, _ *waddrmgr.ScryptOptions) (*snacl.SecretKey, error) {
			return snacl.NewSecretKey(p, 16, 8, 1)
		})
	})
}

// Seeds: A is an ordinary seed; Z is a seed whose m/84'/0' coin-type private
// key has a leading zero byte (found by FindLeadingZeroSeed), so that the
// legacy hardened rule differs from BIP32 for account 0 of scope 84.
func Seed(name string) []byte {
	h := sha256.Sum256([]byte("verif-seed-" + name))
	return h[:]
}

// FindLeadingZeroSeed searches seeds "Z<n>" until the coin-type key of scope
// (purpose, coin) has a leading zero byte.
func FindLeadingZeroSeed(purpose, coin uint32) (string, []byte) {
	for n := 0; ; n++ {
		name := fmt.Sprintf("Z%d", n)
		s := Seed(name)
		ck, err := refbip32.Master(s).Path(purpose+refbip32.Hardened, coin+refbip32.Hardened)
		if err == nil && ck.LeadingZero() {
			return name, s
		}
	}
}

// CustomScope is the non-default key scope of the alphabet.
var CustomScope = waddrmgr.KeyScope{Purpose: 1017, Coin: 0}

// CustomSchema is its address schema.
var CustomSchema = waddrmgr.ScopeAddrSchema{
	ExternalAddrType: waddrmgr.WitnessPubKey,
	InternalAddrType: waddrmgr.PubKeyHash,
}

// Acct is the model of one account.
type Acct struct {
	Scope     waddrmgr.KeyScope
	Num       uint32
	Name      string
	Key       refbip32.Key // account key (private for default accounts)
	ChildIdx  uint32       // child index of the account key (Account field of derivation paths)
	Schema    waddrmgr.ScopeAddrSchema
	HasSchema bool   // account-level override
	FP        uint32 // master key fingerprint
	WatchOnly bool   // imported xpub account
	NextExt   uint32
	NextInt   uint32
}

// Issued is one address issued by a committed operation.
type Issued struct {
	Scope  waddrmgr.KeyScope
	Acct   uint32
	Branch uint32
	Index  uint32
	Via    string // op that issued it
	Used   bool
}

// Imported is one imported key or script.
type Imported struct {
	Scope  waddrmgr.KeyScope
	Kind   string // privkey, pubkey, script, wscript, tapscript
	Priv   *btcec.PrivateKey
	Pub    *btcec.PublicKey
	Script []byte
	Secret bool
	Addr   string
	Tap    *waddrmgr.Tapscript
}

// World is one real manager plus its model.
type World struct {
	Dir       string
	Path      string
	DB        walletdb.DB
	Mgr       *waddrmgr.Manager
	SeedName  string
	Seed      []byte
	Root      refbip32.Key
	PubPass   []byte
	PrivPass  []byte
	OldPrivs  [][]byte
	Locked    bool
	Watching  bool // converted to watching-only
	Neutered  bool // master HD private key removed (NeuterRootKey)
	Accts     map[string]*Acct
	LastAcct  map[waddrmgr.KeyScope]uint32
	Issued    []*Issued
	Imports   []*Imported
	Held      []HeldHandle // handles returned by operations of the current manager instance
	Scopes    []waddrmgr.KeyScope
	HasCustom bool
	Synced    waddrmgr.BlockStamp
	Fault     *faultdb.Ctl // active fault plan for read-write transactions
	tmplKey   string
}

func acctKey(s waddrmgr.KeyScope, n uint32) string {
	return fmt.Sprintf("%d/%d/%d", s.Purpose, s.Coin, n)
}

// Account returns the model of an account or nil.
func (w *World) Account(s waddrmgr.KeyScope, n uint32) *Acct { return w.Accts[acctKey(s, n)] }

var (
	tmplMu sync.Mutex
	tmpls  = map[string]string{}
)

// DefaultPub / DefaultPriv are the initial passphrases.
var (
	DefaultPub  = []byte("public-pass-A")
	DefaultPriv = []byte("private-pass-A")
	AltPriv     = []byte("private-pass-B-longer")
	AltPub      = []byte("public-pass-B")
	WrongPriv   = []byte("private-pass-a")
)

// template creates (once per seed) a database with a freshly created manager
// and returns its path.
func template(dir, seedName string, seed []byte) (string, error) {
	tmplMu.Lock()
	defer tmplMu.Unlock()
	if p, ok := tmpls[dir+seedName]; ok {
		return p, nil
	}
	FastScrypt()
	path := filepath.Join(dir, "tmpl-"+seedName+".db")
	os.Remove(path)
	db, err := walletdb.Create("bdb", path, true, time.Minute, false)
	if err != nil {
		return "", err
	}
	err = walletdb.Update(db, func(tx walletdb.ReadWriteTx) error {
		ns, err := tx.CreateTopLevelBucket(NS)
		if err != nil {
			return err
		}
		root, err := hdkeychain.NewMaster(seed, Params)
		if err != nil {
			return err
		}
		return waddrmgr.Create(ns, root, DefaultPub, DefaultPriv, Params, &waddrmgr.FastScryptOptions, time.Unix(1600000000, 0))
	})
	db.Close()
	if err != nil {
		return "", err
	}
	tmpls[dir+seedName] = path
	return path, nil
}

func copyFile(src, dst string) error {
	in, err := os.Open(src)
	if err != nil {
		return err
	}
	defer in.Close()
	out, err := os.Create(dst)
	if err != nil {
		return err
	}
	if _, err := io.Copy(out, in); err != nil {
		out.Close()
		return err
	}
	return out.Close()
}

// NewWorld copies the template of the seed and opens the manager (locked).
func NewWorld(dir string, worker int, seedName string, seed []byte) (*World, error) {
	tp, err := template(dir, seedName, seed)
	if err != nil {
		return nil, err
	}
	w := &World{Dir: dir, Path: filepath.Join(dir, fmt.Sprintf("world-%d.db", worker)),
		SeedName: seedName, Seed: seed, Root: refbip32.Master(seed),
		PubPass: DefaultPub, PrivPass: DefaultPriv, Locked: true,
		Accts: map[string]*Acct{}, LastAcct: map[waddrmgr.KeyScope]uint32{}}
	if err := copyFile(tp, w.Path); err != nil {
		return nil, err
	}
	for _, sc := range waddrmgr.DefaultKeyScopes {
		w.Scopes = append(w.Scopes, sc)
		coin, err := w.Root.Path(sc.Purpose+refbip32.Hardened, sc.Coin+refbip32.Hardened)
		if err != nil {
			return nil, err
		}
		ak, err := coin.Child(0 + refbip32.Hardened) // derived at creation from the in-memory coin key
		if err != nil {
			return nil, err
		}
		w.Accts[acctKey(sc, 0)] = &Acct{Scope: sc, Num: 0, Name: "default", Key: ak, ChildIdx: refbip32.Hardened,
			Schema: waddrmgr.ScopeAddrMap[sc]}
		w.LastAcct[sc] = 0
	}
	w.Synced = waddrmgr.BlockStamp{Hash: *Params.GenesisHash, Height: 0, Timestamp: Params.GenesisBlock.Header.Timestamp}
	if err := w.open(); err != nil {
		return nil, err
	}
	return w, nil
}

func (w *World) open() error {
	db, err := walletdb.Open("bdb", w.Path, true, time.Minute, false)
	if err != nil {
		return err
	}
	w.DB = db
	return walletdb.View(db, func(tx walletdb.ReadTx) error {
		m, err := waddrmgr.Open(tx.ReadBucket(NS), w.PubPass, Params)
		w.Mgr = m
		return err
	})
}

// OpenSecond opens a second, independent manager on a COPY of the database
// file ("what a restart would say").
func (w *World) OpenSecond() (*waddrmgr.Manager, walletdb.DB, error) {
	p2 := w.Path + ".second"
	if err := copyFile(w.Path, p2); err != nil {
		return nil, nil, err
	}
	db, err := walletdb.Open("bdb", p2, true, time.Minute, false)
	if err != nil {
		return nil, nil, err
	}
	var m *waddrmgr.Manager
	err = walletdb.View(db, func(tx walletdb.ReadTx) error {
		var err error
		m, err = waddrmgr.Open(tx.ReadBucket(NS), w.PubPass, Params)
		return err
	})
	if err != nil {
		db.Close()
		return nil, nil, err
	}
	return m, db, nil
}

// Close closes manager and database and removes the files.
func (w *World) Close() {
	if w.Mgr != nil {
		w.Mgr.Close()
	}
	if w.DB != nil {
		w.DB.Close()
	}
	os.Remove(w.Path)
	os.Remove(w.Path + ".second")
}

// Restart closes and reopens manager and database.
func (w *World) Restart() error {
	w.Held = nil
	w.Mgr.Close()
	if err := w.DB.Close(); err != nil {
		return err
	}
	w.Locked = !w.Watching
	if w.Watching {
		w.Locked = false
	}
	if err := w.open(); err != nil {
		return err
	}
	w.Locked = w.Mgr.IsLocked()
	return nil
}

// Update runs f in a committed read-write transaction.
func (w *World) Update(f func(ns walletdb.ReadWriteBucket) error) (err error) {
	defer func() {
		if r := recover(); r != nil {
			err = &PanicError{Val: fmt.Sprint(r)}
		}
	}()
	return walletdb.Update(w.DB, func(tx walletdb.ReadWriteTx) error {
		return f(w.wrap(tx.ReadWriteBucket(NS)))
	})
}

// wrap installs the fault-injection proxy when a fault plan is active.
func (w *World) wrap(b walletdb.ReadWriteBucket) walletdb.ReadWriteBucket {
	if w.Fault != nil {
		return faultdb.Wrap(b, w.Fault, "waddrmgr")
	}
	return b
}

// ErrRolledBack is returned by RolledBack's transaction function.
var ErrRolledBack = fmt.Errorf("deliberate rollback")

// RolledBack runs f in a read-write transaction that is rolled back even if f
// succeeds (dry run / failed commit).
func (w *World) RolledBack(f func(ns walletdb.ReadWriteBucket) error) (err error) {
	defer func() {
		if r := recover(); r != nil {
			err = &PanicError{Val: fmt.Sprint(r)}
		}
	}()
	var inner error
	err = walletdb.Update(w.DB, func(tx walletdb.ReadWriteTx) error {
		inner = f(w.wrap(tx.ReadWriteBucket(NS)))
		return ErrRolledBack
	})
	if err != ErrRolledBack {
		return err
	}
	return inner
}

// View runs f in a read transaction.
func (w *World) View(f func(ns walletdb.ReadBucket) error) (err error) {
	defer func() {
		if r := recover(); r != nil {
			err = &PanicError{Val: fmt.Sprint(r)}
		}
	}()
	return walletdb.View(w.DB, func(tx walletdb.ReadTx) error {
		return f(tx.ReadBucket(NS))
	})
}

// Scoped returns the scoped manager.
func (w *World) Scoped(s waddrmgr.KeyScope) (*waddrmgr.ScopedKeyManager, error) {
	return w.Mgr.FetchScopedKeyManager(s)
}

// AddrType returns the address type of a branch of an account.
func (a *Acct) AddrType(branch uint32) waddrmgr.AddressType {
	if branch == waddrmgr.InternalBranch {
		return a.Schema.InternalAddrType
	}
	return a.Schema.ExternalAddrType
}

// RefChild returns the reference key of branch/index.
func (a *Acct) RefChild(branch, index uint32) (refbip32.Key, error) {
	return a.Key.Path(branch, index)
}

// EncodeAddress encodes a public key in the given address format.
func EncodeAddress(pub *btcec.PublicKey, t waddrmgr.AddressType) (btcutil.Address, error) {
	h160 := btcutil.Hash160(pub.SerializeCompressed())
	switch t {
	case waddrmgr.PubKeyHash:
		return btcutil.NewAddressPubKeyHash(h160, Params)
	case waddrmgr.WitnessPubKey:
		return btcutil.NewAddressWitnessPubKeyHash(h160, Params)
	case waddrmgr.NestedWitnessPubKey:
		prog := append([]byte{0x00, 0x14}, h160...)
		return btcutil.NewAddressScriptHash(prog, Params)
	case waddrmgr.TaprootPubKey:
		tk := txscript.ComputeTaprootKeyNoScript(pub)
		return btcutil.NewAddressTaproot(tk.SerializeCompressed()[1:], Params)
	}
	return nil, fmt.Errorf("unsupported address type %v", t)
}

// RefAddress returns the reference address of an issued entry.
func (w *World) RefAddress(is *Issued) (btcutil.Address, refbip32.Key, *Acct, error) {
	a := w.Account(is.Scope, is.Acct)
	if a == nil {
		return nil, refbip32.Key{}, nil, fmt.Errorf("no model account")
	}
	k, err := a.RefChild(is.Branch, is.Index)
	if err != nil {
		return nil, k, a, err
	}
	addr, err := EncodeAddress(k.Pub, a.AddrType(is.Branch))
	return addr, k, a, err
}

// SortedAccts returns the accounts in a stable order.
func (w *World) SortedAccts() []*Acct {
	var ks []string
	for k := range w.Accts {
		ks = append(ks, k)
	}
	sort.Strings(ks)
	var out []*Acct
	for _, k := range ks {
		out = append(out, w.Accts[k])
	}
	return out
}

var _ = bytes.Equal

func decodeAddr(s string) (btcutil.Address, error) { return btcutil.DecodeAddress(s, Params) }

// PanicError wraps a panic raised by the code under test.
type PanicError struct{ Val string }

func (p *PanicError) Error() string { return "PANIC: " + p.Val }

// IsPanic reports whether err is a recovered panic.
func IsPanic(err error) bool {
	_, ok := err.(*PanicError)
	return ok
}
