//go:build verif

package amgr

import (
	"fmt"
	"strings"

	"github.com/btcsuite/btcd/btcutil"
	"github.com/btcsuite/btcwallet/waddrmgr"
	"github.com/btcsuite/btcwallet/walletdb"
)

func errClass(err error) string {
	if err == nil {
		return "nil"
	}
	if IsPanic(err) {
		return "panic"
	}
	if me, ok := err.(waddrmgr.ManagerError); ok {
		return me.ErrorCode.String()
	}
	if me, ok := err.(*waddrmgr.ManagerError); ok {
		return me.ErrorCode.String()
	}
	return "other"
}

// ProbeCT holds ciphertexts produced while unlocked, used as Decrypt probes.
type ProbeCT struct {
	Priv, Script []byte
}

// MakeProbes encrypts probe plaintexts (only possible while unlocked).
func (w *World) MakeProbes() *ProbeCT {
	p := &ProbeCT{}
	p.Priv, _ = w.Mgr.Encrypt(waddrmgr.CKTPrivate, []byte("probe-private-plaintext"))
	p.Script, _ = w.Mgr.Encrypt(waddrmgr.CKTScript, []byte("probe-script-plaintext"))
	return p
}

// CheckAccess is the C05 access-control oracle: when the manager is locked or
// watching-only, every accessor of private material fails and returns nothing.
// codes collects the observed error classes per accessor.
func (w *World) CheckAccess(focus waddrmgr.KeyScope, probes *ProbeCT, codes map[string]int, fail Fail) int {
	evals := 0
	if !w.Locked && !w.Watching {
		return 0
	}
	state := "locked"
	if w.Watching {
		state = "watching-only"
	}
	deny := func(accessor string, err error, material bool) {
		evals++
		codes[accessor+"="+errClass(err)]++
		if err == nil || material {
			fail("access:"+accessor+":state="+state, fmt.Sprintf("%s succeeded or returned material while the manager is %s (err=%v, material=%v)", accessor, state, err, material))
		}
	}
	for _, h := range w.Held {
		if ta, ok := h.MA.(waddrmgr.ManagedTaprootScriptAddress); ok {
			t, err := ta.TaprootScript()
			deny("TaprootScript(held:"+h.How+")", err, t != nil)
		}
		if pk, ok := h.MA.(waddrmgr.ManagedPubKeyAddress); ok {
			k, err := pk.PrivKey()
			deny("PrivKey(held:"+h.How+")", err, k != nil)
			wif, err := pk.ExportPrivKey()
			deny("ExportPrivKey(held:"+h.How+")", err, wif != nil)
		}
	}
	w.View(func(ns walletdb.ReadBucket) error {
		for _, is := range w.Issued {
			sm, err := w.Scoped(is.Scope)
			if err != nil {
				continue
			}
			addr, _, am, err := w.RefAddress(is)
			if err != nil {
				continue
			}
			if ma, err := sm.Address(ns, addr); err == nil {
				if pk, ok := ma.(waddrmgr.ManagedPubKeyAddress); ok {
					k, err := pk.PrivKey()
					deny("PrivKey(lookup)", err, k != nil)
					wif, err := pk.ExportPrivKey()
					deny("ExportPrivKey(lookup)", err, wif != nil)
				}
			}
			path := waddrmgr.DerivationPath{InternalAccount: is.Acct, Account: am.ChildIdx, Branch: is.Branch, Index: is.Index, MasterKeyFingerprint: am.FP}
			if md, err := sm.DeriveFromKeyPath(ns, path); err == nil {
				if pk, ok := md.(waddrmgr.ManagedPubKeyAddress); ok {
					k, err := pk.PrivKey()
					deny("DeriveFromKeyPath.PrivKey", err, k != nil)
				}
			}
			k, err := sm.DeriveFromKeyPathCache(path)
			deny("DeriveFromKeyPathCache", err, k != nil)
		}
		// a path never issued (cache cold for it unless an operation warmed it)
		if sm, err := w.Scoped(focus); err == nil {
			if am := w.Account(focus, 0); am != nil {
				for _, n := range []uint32{0, 2} {
					path := waddrmgr.DerivationPath{InternalAccount: 0, Account: am.ChildIdx, Branch: n % 2, Index: n}
					k, err := sm.DeriveFromKeyPathCache(path)
					deny("DeriveFromKeyPathCache", err, k != nil)
				}
			}
		}
		for _, im := range w.Imports {
			sm, err := w.Scoped(im.Scope)
			if err != nil {
				continue
			}
			a, err := btcutil.DecodeAddress(im.Addr, Params)
			if err != nil {
				continue
			}
			ma, err := sm.Address(ns, a)
			if err != nil {
				continue
			}
			switch im.Kind {
			case "privkey":
				pk := ma.(waddrmgr.ManagedPubKeyAddress)
				k, err := pk.PrivKey()
				deny("PrivKey(imported)", err, k != nil)
				wif, err := pk.ExportPrivKey()
				deny("ExportPrivKey(imported)", err, wif != nil)
			case "script", "wscript":
				sa := ma.(waddrmgr.ManagedScriptAddress)
				sc, err := sa.Script()
				deny("Script("+im.Kind+")", err, len(sc) > 0)
			case "tapscript":
				if ta, ok := ma.(waddrmgr.ManagedTaprootScriptAddress); ok {
					t, err := ta.TaprootScript()
					deny("TaprootScript", err, t != nil)
				}
				if sa, ok := ma.(waddrmgr.ManagedScriptAddress); ok {
					sc, err := sa.Script()
					deny("Script(tapscript)", err, len(sc) > 0)
				}
			}
		}
		return nil
	})
	if probes != nil {
		pt, err := w.Mgr.Decrypt(waddrmgr.CKTPrivate, probes.Priv)
		deny("Decrypt(CKTPrivate)", err, len(pt) > 0)
		pt, err = w.Mgr.Decrypt(waddrmgr.CKTScript, probes.Script)
		deny("Decrypt(CKTScript)", err, len(pt) > 0)
	}
	ct, err := w.Mgr.Encrypt(waddrmgr.CKTPrivate, []byte("x"))
	deny("Encrypt(CKTPrivate)", err, len(ct) > 0)
	ct, err = w.Mgr.Encrypt(waddrmgr.CKTScript, []byte("x"))
	deny("Encrypt(CKTScript)", err, len(ct) > 0)

	// mutating probes, each in a rolled-back transaction; they must fail
	if sm, err := w.Scoped(focus); err == nil {
		err := w.RolledBack(func(ns walletdb.ReadWriteBucket) error {
			_, err := sm.NewAccount(ns, "probe-account")
			return err
		})
		deny("NewAccount", err, false)
		err = w.RolledBack(func(ns walletdb.ReadWriteBucket) error {
			return sm.NewRawAccount(ns, 77)
		})
		deny("NewRawAccount", err, false)
		if !w.Watching {
			wif, _ := btcutil.NewWIF(ImportKey(9), Params, true)
			err = w.RolledBack(func(ns walletdb.ReadWriteBucket) error {
				_, err := sm.ImportPrivateKey(ns, wif, &waddrmgr.BlockStamp{Hash: *Params.GenesisHash})
				return err
			})
			deny("ImportPrivateKey", err, false)
		}
	}
	if !w.HasCustom {
		err := w.RolledBack(func(ns walletdb.ReadWriteBucket) error {
			_, err := w.Mgr.NewScopedKeyManager(ns, waddrmgr.KeyScope{Purpose: 4242, Coin: 0}, CustomSchema)
			return err
		})
		// a watching-only manager may create a (public) scope; only a locked one must refuse
		if !w.Watching {
			deny("NewScopedKeyManager", err, false)
		}
	}
	return evals
}

// CheckWiped is the memory clause: after a lock every clear-text buffer
// reachable from the manager is wiped.
func (w *World) CheckWiped(fail Fail) int {
	if !w.Locked || w.Watching {
		return 0
	}
	n := 0
	for _, b := range w.Mgr.VerifClearText() {
		n++
		if !b.Clear {
			name := b.Name
			// signature: buffer kind without the concrete scope/account
			kind := name
			if i := strings.LastIndex(name, "."); i >= 0 {
				kind = name[i+1:]
			}
			if strings.Contains(name, "privKeyCache") {
				kind = "privKeyCache"
			}
			if strings.Contains(name, "lastExternalAddr") || strings.Contains(name, "lastInternalAddr") {
				kind = "lastAddr." + kind
			}
			fail("wipe:"+kind, fmt.Sprintf("manager is locked but clear-text buffer %s still holds key material", name))
		}
	}
	return n
}

// CheckUnlockSemantics: wrong and old passphrases fail and leave the manager
// locked, the current one unlocks. It is evaluated last (it changes the lock
// state).
func (w *World) CheckUnlockSemantics(fail Fail) int {
	if w.Watching {
		// no passphrase unlocks a watching-only manager
		n := 0
		for _, p := range append([][]byte{w.PrivPass, DefaultPriv, AltPriv}, w.OldPrivs...) {
			n++
			err := w.View(func(ns walletdb.ReadBucket) error { return w.Mgr.Unlock(ns, append([]byte{}, p...)) })
			if err == nil {
				fail("unlock:watching-only-unlocked", "Unlock succeeded on a watching-only manager")
			}
		}
		return n
	}
	n := 0
	wrongs := [][]byte{WrongPriv, []byte(""), append(append([]byte{}, w.PrivPass...), 'x')}
	for _, o := range w.OldPrivs {
		if string(o) != string(w.PrivPass) {
			wrongs = append(wrongs, o)
		}
	}
	for _, p := range wrongs {
		n++
		err := w.View(func(ns walletdb.ReadBucket) error { return w.Mgr.Unlock(ns, append([]byte{}, p...)) })
		if err == nil {
			fail("unlock:wrong-passphrase-accepted", fmt.Sprintf("Unlock(%q) succeeded, current passphrase is %q", p, w.PrivPass))
		} else if !w.Mgr.IsLocked() {
			fail("unlock:not-locked-after-failure", fmt.Sprintf("Unlock(%q) failed but the manager is not locked", p))
		}
		w.Locked = true
		// a failed unlock locks: memory must be wiped
		w.CheckWiped(func(sig, msg string) { fail(sig+":after-failed-unlock", msg) })
	}
	n++
	err := w.View(func(ns walletdb.ReadBucket) error { return w.Mgr.Unlock(ns, append([]byte{}, w.PrivPass...)) })
	if err != nil || w.Mgr.IsLocked() {
		fail("unlock:current-passphrase-rejected", fmt.Sprintf("Unlock with the current private passphrase failed: %v", err))
	} else {
		w.Locked = false
	}
	return n
}
