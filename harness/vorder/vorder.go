// Package vorder is the map-iteration-order seam. The ovgen overlay rewrites
// `for k, v := range m` over maps into loops over vorder.Keys(site, m). Without
// an active enumeration the keys come sorted (fixed canonical order); inside
// Enumerate every permutation of every range executed is explored (DFS over
// choice vectors).
package vorder

import (
	"fmt"
	"sort"
	"sync"
)

// mu serialises enumerations (the seam is process-global).
var mu sync.Mutex

var (
	active  bool
	choices []int // current choice vector (replayed prefix)
	arity   []int // arity observed at each choice point in this execution
	pos     int
	// Calls counts Keys invocations (to detect that the overlay is active).
	Calls int
)

// Keys returns the keys of m in the order decided by the controller.
func Keys[M ~map[K]V, K comparable, V any](site string, m M) []K {
	Calls++
	keys := make([]K, 0, len(m))
	for k := range m {
		keys = append(keys, k)
	}
	strs := make(map[int]string, len(keys))
	idx := make([]int, len(keys))
	for i, k := range keys {
		strs[i] = fmt.Sprint(k)
		idx[i] = i
	}
	sort.Slice(idx, func(a, b int) bool { return strs[idx[a]] < strs[idx[b]] })
	sorted := make([]K, len(keys))
	for i, j := range idx {
		sorted[i] = keys[j]
	}
	if !active || len(sorted) < 2 {
		return sorted
	}
	nperm := 1
	for i := 2; i <= len(sorted); i++ {
		nperm *= i
	}
	c := 0
	if pos < len(choices) {
		c = choices[pos]
	} else {
		choices = append(choices, 0)
	}
	if pos < len(arity) {
		arity[pos] = nperm
	} else {
		arity = append(arity, nperm)
	}
	pos++
	if c >= nperm {
		panic("vorder: choice out of range (non-deterministic replay)")
	}
	// c-th permutation in factorial number system
	out := make([]K, 0, len(sorted))
	pool := append([]K{}, sorted...)
	for n := len(pool); n > 0; n-- {
		f := 1
		for i := 2; i < n; i++ {
			f *= i
		}
		j := c / f
		c %= f
		out = append(out, pool[j])
		pool = append(pool[:j], pool[j+1:]...)
	}
	return out
}

// Enumerate runs f once for every combination of map iteration orders it
// encounters and returns the number of executions.
func Enumerate(f func()) int {
	mu.Lock()
	defer mu.Unlock()
	active = true
	defer func() { active = false }()
	choices = choices[:0]
	n := 0
	for {
		pos = 0
		arity = arity[:0]
		f()
		n++
		choices = choices[:pos]
		// advance odometer
		i := len(choices) - 1
		for i >= 0 {
			choices[i]++
			if choices[i] < arity[i] {
				break
			}
			i--
		}
		if i < 0 {
			return n
		}
		choices = choices[:i+1]
	}
}
