// Package ledger contains the transaction-graph universes, the event
// alphabet and the reference ledger written from the statements of
// C01/C02/C12/C13 (not from the wtxmgr code).
package ledger

import (
	"crypto/sha256"
	"fmt"
	"strings"
	"time"

	"github.com/btcsuite/btcd/chaincfg/chainhash"
	"github.com/btcsuite/btcd/wire"
	"github.com/btcsuite/btcwallet/wtxmgr"
)

// In is one transaction input: either an external (non-wallet) outpoint,
// identified by Ext >= 0 (inputs of different transactions with the same Ext
// conflict), or output Out of universe transaction Parent.
type In struct {
	Ext    int `json:"ext"` // -1 => spends Parent:Out
	Parent int `json:"parent"`
	Out    int `json:"out"`
}

// Out is one transaction output.
type Out struct {
	Credit bool `json:"credit"`
	Change bool `json:"change"`
	Zero   bool `json:"zero,omitempty"` // zero-value output
}

// TxSpec describes one transaction of a universe.
type TxSpec struct {
	Coinbase bool  `json:"coinbase,omitempty"`
	Ins      []In  `json:"ins"`
	Outs     []Out `json:"outs"`
}

// Universe is a set of transactions in topological index order.
type Universe struct {
	Name string   `json:"name"`
	Txs  []TxSpec `json:"txs"`
	// Tag, if set, is appended to every failure signature raised in this
	// universe (used for shapes with a recorded known finding, so that the
	// finding cannot mask failures of ordinary shapes).
	Tag string `json:"tag,omitempty"`
}

func (u *Universe) String() string {
	var sb strings.Builder
	sb.WriteString(u.Name)
	sb.WriteString("{")
	for i, t := range u.Txs {
		if i > 0 {
			sb.WriteString(" ")
		}
		fmt.Fprintf(&sb, "t%d:", i)
		if t.Coinbase {
			sb.WriteString("cb")
		}
		for _, in := range t.Ins {
			if in.Ext >= 0 {
				fmt.Fprintf(&sb, "x%d,", in.Ext)
			} else {
				fmt.Fprintf(&sb, "t%d.%d,", in.Parent, in.Out)
			}
		}
		sb.WriteString(">")
		for _, o := range t.Outs {
			switch {
			case o.Credit && o.Change:
				sb.WriteString("C")
			case o.Credit:
				sb.WriteString("c")
			default:
				sb.WriteString("-")
			}
			if o.Zero {
				sb.WriteString("0")
			}
		}
	}
	sb.WriteString("}")
	return sb.String()
}

// Built is a universe with its real transactions.
type Built struct {
	U      *Universe
	Tx     []*wire.MsgTx
	Rec    []*wtxmgr.TxRecord
	Hash   []chainhash.Hash
	Amount [][]int64
	// Spends[t] lists, per input, the outpoint spent.
	Spends [][]wire.OutPoint
	// ParentOf[t][i] = (parent tx, out) or (-1,-1) for external inputs.
	ParentOf [][][2]int
	byHash   map[chainhash.Hash]int
}

// Received is the base receive time of the records; transaction t is stamped
// Received + (n-t) s, i.e. a transaction is always stamped EARLIER than the
// transactions it spends (children first seen before their parents, parents
// returned to the pool by a reorg): anything that orders by receive time
// instead of dependency shows.
var Received = time.Unix(1500000000, 0)

func extOutPoint(id int) wire.OutPoint {
	h := sha256.Sum256([]byte(fmt.Sprintf("external-outpoint-%d", id)))
	return wire.OutPoint{Hash: chainhash.Hash(h), Index: uint32(id % 3)}
}

// PkScript returns the (distinct) output script of output o of tx t.
func PkScript(t, o int) []byte {
	s := make([]byte, 25)
	s[0], s[1], s[2] = 0x76, 0xa9, 0x14
	for i := 0; i < 20; i++ {
		s[3+i] = byte(0x10*(t+1) + o + 1)
	}
	s[23], s[24] = 0x88, 0xac
	return s
}

// Build constructs the real transactions of a universe.
func Build(u *Universe) (*Built, error) {
	b := &Built{U: u, byHash: map[chainhash.Hash]int{}}
	k := 0
	for ti, ts := range u.Txs {
		tx := wire.NewMsgTx(2)
		var spends []wire.OutPoint
		var parents [][2]int
		if ts.Coinbase {
			if len(ts.Ins) != 0 {
				return nil, fmt.Errorf("coinbase with inputs")
			}
			op := wire.OutPoint{Index: wire.MaxPrevOutIndex}
			tx.AddTxIn(wire.NewTxIn(&op, []byte{0x51, byte(ti + 1), 0x42}, nil))
			spends = append(spends, op)
			parents = append(parents, [2]int{-1, -1})
		} else {
			if len(ts.Ins) == 0 {
				return nil, fmt.Errorf("tx %d without inputs", ti)
			}
			for _, in := range ts.Ins {
				var op wire.OutPoint
				if in.Ext >= 0 {
					op = extOutPoint(in.Ext)
					parents = append(parents, [2]int{-1, -1})
				} else {
					if in.Parent >= ti || in.Out >= len(u.Txs[in.Parent].Outs) {
						return nil, fmt.Errorf("bad parent ref in tx %d", ti)
					}
					op = wire.OutPoint{Hash: b.Hash[in.Parent], Index: uint32(in.Out)}
					parents = append(parents, [2]int{in.Parent, in.Out})
				}
				for _, s := range spends {
					if s == op {
						return nil, fmt.Errorf("duplicate input in tx %d", ti)
					}
				}
				spends = append(spends, op)
				tx.AddTxIn(wire.NewTxIn(&op, nil, nil))
			}
		}
		var amts []int64
		for oi, o := range ts.Outs {
			amt := int64(1) << uint(k)
			k++
			if o.Zero {
				amt = 0
			}
			amts = append(amts, amt)
			tx.AddTxOut(wire.NewTxOut(amt, PkScript(ti, oi)))
		}
		rec, err := wtxmgr.NewTxRecordFromMsgTx(tx, Received.Add(time.Duration(len(u.Txs)-ti)*time.Second))
		if err != nil {
			return nil, err
		}
		b.Tx = append(b.Tx, tx)
		b.Rec = append(b.Rec, rec)
		b.Hash = append(b.Hash, rec.Hash)
		b.Amount = append(b.Amount, amts)
		b.Spends = append(b.Spends, spends)
		b.ParentOf = append(b.ParentOf, parents)
		if _, dup := b.byHash[rec.Hash]; dup {
			return nil, fmt.Errorf("duplicate tx hash")
		}
		b.byHash[rec.Hash] = ti
	}
	return b, nil
}

// Index returns the universe index of a hash, or -1.
func (b *Built) Index(h chainhash.Hash) int {
	if i, ok := b.byHash[h]; ok {
		return i
	}
	return -1
}

// Conflict reports whether transactions a and b share an input.
func (b *Built) Conflict(x, y int) bool {
	if x == y {
		return false
	}
	for _, s := range b.Spends[x] {
		if b.U.Txs[x].Coinbase {
			continue
		}
		for _, r := range b.Spends[y] {
			if b.U.Txs[y].Coinbase {
				continue
			}
			if s == r {
				return true
			}
		}
	}
	return false
}

// SpendsOutputOf reports whether child spends any output of parent.
func (b *Built) SpendsOutputOf(child, parent int) bool {
	for _, p := range b.ParentOf[child] {
		if p[0] == parent {
			return true
		}
	}
	return false
}

// BlockHash returns the hash of block (height, id).
func BlockHash(h, id int) chainhash.Hash {
	return chainhash.Hash(sha256.Sum256([]byte(fmt.Sprintf("block-%d-%d", h, id))))
}

// BlockTime returns the time stamp of block (height, id).
func BlockTime(h, id int) time.Time {
	return time.Unix(1600000000+int64(h)*600+int64(id)*7, 0)
}

// BlockMeta returns the wtxmgr block meta of (height,id).
func BlockMeta(h, id int) *wtxmgr.BlockMeta {
	return &wtxmgr.BlockMeta{
		Block: wtxmgr.Block{Hash: BlockHash(h, id), Height: int32(h)},
		Time:  BlockTime(h, id),
	}
}
