package ledger

import "fmt"

// GenBounds bounds the exhaustive universe generator.
type GenBounds struct {
	N        int  // exact number of transactions
	MaxIn    int  // inputs per tx
	MaxOut   int  // outputs per tx
	Coinbase bool // allow coinbase transactions
	Shared   int  // number of shared external outpoint ids (0..2)
	// PlainOuts drops the change-flag variant of credited outputs in
	// transactions with two outputs (the flag is exercised by single-output
	// transactions and the curated shapes); keeps the enumeration tractable.
	PlainOuts bool
}

// Generate enumerates every universe inside the bounds, with light symmetry
// reduction: inputs of a transaction are an ordered-by-code set, shared
// external ids are introduced in first-use order and a shared id must be used
// by at least two transactions (otherwise it equals a fresh one), every
// transaction is wallet-relevant (has a credit or spends a credited output).
func Generate(gb GenBounds, emit func(*Universe)) {
	var txs []TxSpec
	var rec func(i int)
	count := 0
	rec = func(i int) {
		if i == gb.N {
			// shared ids used at least twice, introduced in order
			use := map[int]int{}
			maxSeen := -1
			for _, t := range txs {
				for _, in := range t.Ins {
					if in.Ext >= 0 && in.Ext < 100 {
						if in.Ext > maxSeen+1 {
							return
						}
						if in.Ext > maxSeen {
							maxSeen = in.Ext
						}
						use[in.Ext]++
					}
				}
			}
			for _, c := range use {
				if c < 2 {
					return
				}
			}
			u := &Universe{Name: fmt.Sprintf("g%d.%d", gb.N, count)}
			count++
			for _, t := range txs {
				u.Txs = append(u.Txs, TxSpec{Coinbase: t.Coinbase,
					Ins: append([]In{}, t.Ins...), Outs: append([]Out{}, t.Outs...)})
			}
			emit(u)
			return
		}
		// candidate inputs for tx i, coded in a fixed order
		var cands []In
		cands = append(cands, In{Ext: 100 + i*4}) // fresh external (unique)
		for s := 0; s < gb.Shared; s++ {
			cands = append(cands, In{Ext: s})
		}
		for p := 0; p < i; p++ {
			for o := range txs[p].Outs {
				cands = append(cands, In{Ext: -1, Parent: p, Out: o})
			}
		}
		var outSets [][]Out
		var genOuts func(cur []Out, n int)
		genOuts = func(cur []Out, n int) {
			if len(cur) == n {
				outSets = append(outSets, append([]Out{}, cur...))
				return
			}
			kinds := []Out{{Credit: true}, {Credit: true, Change: true}, {}}
			if gb.PlainOuts && n > 1 {
				kinds = []Out{{Credit: true}, {}}
			}
			for _, o := range kinds {
				genOuts(append(cur, o), n)
			}
		}
		for n := 1; n <= gb.MaxOut; n++ {
			genOuts(nil, n)
		}
		var inSets [][]In
		var genIns func(start int, cur []In)
		genIns = func(start int, cur []In) {
			if len(cur) > 0 {
				inSets = append(inSets, append([]In{}, cur...))
			}
			if len(cur) == gb.MaxIn {
				return
			}
			for c := start; c < len(cands); c++ {
				in := cands[c]
				if in.Ext >= 100 {
					in.Ext += len(cur) // a second fresh input is another outpoint
				}
				genIns(c+1, append(cur, in))
			}
		}
		genIns(0, nil)
		relevant := func(ins []In, outs []Out) bool {
			for _, o := range outs {
				if o.Credit {
					return true
				}
			}
			for _, in := range ins {
				if in.Ext < 0 && txs[in.Parent].Outs[in.Out].Credit {
					return true
				}
			}
			return false
		}
		if gb.Coinbase {
			for n := 1; n <= gb.MaxOut; n++ {
				outs := make([]Out, n)
				for k := range outs {
					outs[k] = Out{Credit: true}
				}
				txs = append(txs, TxSpec{Coinbase: true, Outs: outs})
				rec(i + 1)
				txs = txs[:len(txs)-1]
			}
		}
		for _, ins := range inSets {
			for _, outs := range outSets {
				if !relevant(ins, outs) {
					continue
				}
				txs = append(txs, TxSpec{Ins: ins, Outs: outs})
				rec(i + 1)
				txs = txs[:len(txs)-1]
			}
		}
	}
	rec(0)
}

func ext(i int) In    { return In{Ext: i} }
func par(p, o int) In { return In{Ext: -1, Parent: p, Out: o} }
func outs(s string) []Out {
	var r []Out
	for _, c := range s {
		switch c {
		case 'c':
			r = append(r, Out{Credit: true})
		case 'C':
			r = append(r, Out{Credit: true, Change: true})
		case '-':
			r = append(r, Out{})
		case 'z':
			r = append(r, Out{Credit: true, Zero: true})
		}
	}
	return r
}

// Curated returns the named shapes taken from the property texts; they are
// always explored, also in the quick tier.
func Curated() []*Universe {
	return []*Universe{
		{Name: "chain3", Txs: []TxSpec{
			{Ins: []In{ext(100)}, Outs: outs("c")},
			{Ins: []In{par(0, 0)}, Outs: outs("cC")},
			{Ins: []In{par(1, 1)}, Outs: outs("c")}}},
		{Name: "chain4", Txs: []TxSpec{
			{Ins: []In{ext(100)}, Outs: outs("c")},
			{Ins: []In{par(0, 0)}, Outs: outs("C")},
			{Ins: []In{par(1, 0)}, Outs: outs("C")},
			{Ins: []In{par(2, 0)}, Outs: outs("-")}}},
		{Name: "diamond", Txs: []TxSpec{
			{Ins: []In{ext(100)}, Outs: outs("cc")},
			{Ins: []In{par(0, 0)}, Outs: outs("c")},
			{Ins: []In{par(0, 1)}, Outs: outs("c")},
			{Ins: []In{par(1, 0), par(2, 0)}, Outs: outs("C")}}},
		{Name: "fanout-double-edge", Txs: []TxSpec{
			{Ins: []In{ext(100)}, Outs: outs("cc")},
			{Ins: []In{par(0, 0), par(0, 1)}, Outs: outs("c-")},
			{Ins: []In{par(1, 0)}, Outs: outs("c")}}},
		{Name: "conflict-siblings-with-descendants", Txs: []TxSpec{
			{Ins: []In{ext(100)}, Outs: outs("c")},
			{Ins: []In{par(0, 0)}, Outs: outs("C")},
			{Ins: []In{par(0, 0)}, Outs: outs("c")},
			{Ins: []In{par(1, 0)}, Outs: outs("c")}}},
		{Name: "foreign-conflict-with-descendant", Txs: []TxSpec{
			{Ins: []In{ext(0)}, Outs: outs("c")},
			{Ins: []In{ext(0)}, Outs: outs("c-")},
			{Ins: []In{par(0, 0)}, Outs: outs("c")},
			{Ins: []In{par(1, 0)}, Outs: outs("C")}}},
		{Name: "coinbase-spender-chain", Txs: []TxSpec{
			{Coinbase: true, Outs: outs("cc")},
			{Ins: []In{par(0, 0)}, Outs: outs("c")},
			{Ins: []In{par(1, 0)}, Outs: outs("c")},
			{Ins: []In{ext(100)}, Outs: outs("c")}}},
		{Name: "coinbase-double-spender", Txs: []TxSpec{
			{Coinbase: true, Outs: outs("cc")},
			{Ins: []In{par(0, 0), par(0, 1)}, Outs: outs("c")},
			{Ins: []In{par(1, 0), ext(100)}, Outs: outs("C")}}},
		{Name: "several-credits-per-tx", Txs: []TxSpec{
			{Ins: []In{ext(100)}, Outs: outs("cCc")},
			{Ins: []In{par(0, 1)}, Outs: outs("-c")},
			{Ins: []In{par(0, 0), par(0, 2)}, Outs: outs("C")}}},
		{Name: "uncredited-bridge", Txs: []TxSpec{
			{Ins: []In{ext(100)}, Outs: outs("c-")},
			{Ins: []In{par(0, 1)}, Outs: outs("c")},
			{Ins: []In{par(0, 0), par(1, 0)}, Outs: outs("c")}}},
		{Name: "zero-value-credit", Txs: []TxSpec{
			{Ins: []In{ext(100)}, Outs: outs("zc")},
			{Ins: []In{par(0, 0)}, Outs: outs("c")}}},
		{Name: "coinbase-uncredited-output-spender", Tag: "coinbase-uncredited-output", Txs: []TxSpec{
			{Coinbase: true, Outs: outs("c-")},
			{Ins: []In{par(0, 1)}, Outs: outs("c")},
			{Ins: []In{par(1, 0)}, Outs: outs("C")}}},
		{Name: "two-coinbases", Txs: []TxSpec{
			{Coinbase: true, Outs: outs("c")},
			{Coinbase: true, Outs: outs("c")},
			{Ins: []In{par(0, 0), par(1, 0)}, Outs: outs("c")}}},
	}
}
