package ledger

import (
	"fmt"
	"sort"
	"strings"

	"github.com/btcsuite/btcd/wire"
)

// Event is one element of the alphabet.
type Event struct {
	Kind string `json:"kind"` // seen, mine, disc, abandon, lease, release, tick, sweep, restart
	T    int    `json:"t,omitempty"`
	H    int    `json:"h,omitempty"`
	ID   int    `json:"id,omitempty"`
	// lease / release
	Lock int `json:"lock,omitempty"` // lock id index
	Op   int `json:"op,omitempty"`   // index into the lease-target list
	Dur  int `json:"dur,omitempty"`  // seconds
}

func (e Event) String() string {
	switch e.Kind {
	case "seen", "abandon", "recredit":
		return fmt.Sprintf("%s(t%d)", e.Kind, e.T)
	case "mine":
		return fmt.Sprintf("mine(t%d,h%d,b%d)", e.T, e.H, e.ID)
	case "disc":
		return fmt.Sprintf("disc(h%d)", e.H)
	case "lease":
		return fmt.Sprintf("lease(L%d,o%d,%ds)", e.Lock, e.Op, e.Dur)
	case "release":
		return fmt.Sprintf("release(L%d,o%d)", e.Lock, e.Op)
	}
	return e.Kind
}

// HistString renders a history.
func HistString(h []Event) string {
	s := make([]string, len(h))
	for i, e := range h {
		s[i] = e.String()
	}
	return strings.Join(s, " ")
}

// Blk is one recorded block of the reference.
type Blk struct {
	ID  int
	Txs []int // confirmation (insertion) order
}

// Lease is one lease-table entry.
type Lease struct {
	Lock   int
	Expiry int64
}

// Ref is the reference ledger state.
type Ref struct {
	B      *Built
	Blocks map[int]*Blk
	Unconf map[int]bool
	Leases map[wire.OutPoint]Lease
	Now    int64
}

// NewRef returns the empty ledger.
func NewRef(b *Built) *Ref {
	return &Ref{B: b, Blocks: map[int]*Blk{}, Unconf: map[int]bool{},
		Leases: map[wire.OutPoint]Lease{}, Now: 1700000000}
}

// Height returns the confirming height of t or -1 (unconfirmed) or -2
// (unknown).
func (r *Ref) Height(t int) int {
	if r.Unconf[t] {
		return -1
	}
	for h, b := range r.Blocks {
		for _, x := range b.Txs {
			if x == t {
				return h
			}
		}
	}
	return -2
}

// Known reports whether t is known.
func (r *Ref) Known(t int) bool { return r.Height(t) != -2 }

// Tip is the highest recorded block height (0 if none).
func (r *Ref) Tip() int {
	tip := 0
	for h := range r.Blocks {
		if h > tip {
			tip = h
		}
	}
	return tip
}

// Key is a canonical rendering of the facts (C02's "final facts").
func (r *Ref) Key() string {
	var hs []int
	for h := range r.Blocks {
		hs = append(hs, h)
	}
	sort.Ints(hs)
	var sb strings.Builder
	for _, h := range hs {
		fmt.Fprintf(&sb, "h%d/b%d%v;", h, r.Blocks[h].ID, r.Blocks[h].Txs)
	}
	var us []int
	for t := range r.Unconf {
		us = append(us, t)
	}
	sort.Ints(us)
	fmt.Fprintf(&sb, "u%v", us)
	if len(r.Leases) > 0 || r.Now != 1700000000 {
		var ls []string
		for op, l := range r.Leases {
			ls = append(ls, fmt.Sprintf("%d:%d=L%d@%d", r.B.Index(op.Hash), op.Index, l.Lock, l.Expiry-1700000000))
		}
		sort.Strings(ls)
		fmt.Fprintf(&sb, ";now%d;%v", r.Now-1700000000, ls)
	}
	return sb.String()
}

// FactsKey is Key without lease table and clock.
func (r *Ref) FactsKey() string {
	k := r.Key()
	if i := strings.Index(k, ";now"); i >= 0 {
		return k[:i]
	}
	return k
}

// confirmedConflict reports whether t shares an input with a confirmed tx.
func (r *Ref) confirmedConflict(t int) bool {
	for _, b := range r.Blocks {
		for _, x := range b.Txs {
			if r.B.Conflict(t, x) {
				return true
			}
		}
	}
	return false
}

// forget removes unconfirmed transaction t and its unconfirmed descendants.
func (r *Ref) forget(t int) {
	delete(r.Unconf, t)
	r.forgetDescendants(t)
}

func (r *Ref) forgetDescendants(t int) {
	for u := range r.Unconf {
		if r.Unconf[u] && r.B.SpendsOutputOf(u, t) {
			r.forget(u)
		}
	}
}

// Enabled lists the chain-consistent events enabled in this state under the
// structural bounds (heights 1..maxH, nIDs block ids per height).
func (r *Ref) Enabled(maxH, nIDs int) []Event {
	var evs []Event
	tip := r.Tip()
	n := len(r.B.U.Txs)
	for t := 0; t < n; t++ {
		spec := r.B.U.Txs[t]
		ht := r.Height(t)
		// seen(t): every universe parent known, no conflict with a confirmed
		// transaction; redelivery of a known transaction allowed.
		// (a child may become known BEFORE its parent: mempool delivery is unordered, and a
		// rescan for a new key finds old parents of transactions the wallet already has)
		if !spec.Coinbase {
			ok := ht != -2 || !r.confirmedConflict(t)
			if ok {
				evs = append(evs, Event{Kind: "seen", T: t})
			}
		}
		// abandon(t): of an unconfirmed transaction, and (a no-op) of one the store does not
		// hold - never seen, or already removed: the request is delivered twice
		if ht == -1 || (ht == -2 && !spec.Coinbase) {
			evs = append(evs, Event{Kind: "abandon", T: t})
		}
		// recredit(t): the credits of a known transaction are reported again
		// (AddCredit without a preceding new insert); must change nothing.
		if ht != -2 {
			evs = append(evs, Event{Kind: "recredit", T: t})
		}
		// mine(t,h,id): into the tip block (same id) or a new higher block.
		if ht >= 0 {
			// redelivery of a confirmed transaction with its own block
			evs = append(evs, Event{Kind: "mine", T: t, H: ht, ID: r.Blocks[ht].ID})
			continue
		}
		if r.confirmedConflict(t) {
			continue
		}
		for h := tip; h <= maxH; h++ {
			if h == 0 {
				continue
			}
			for id := 0; id < nIDs; id++ {
				blk := r.Blocks[h]
				if h == tip && (blk == nil || blk.ID != id) {
					continue
				}
				// (a coinbase is the first transaction of its block, but not necessarily the
				// first one RECORDED for it: a rescan for a newly imported key delivers it
				// after the block's other transactions, so no order is imposed here)
				// parents confirmed earlier (lower height or earlier in
				// this block)
				ok := true
				for _, p := range r.B.ParentOf[t] {
					if p[0] < 0 {
						continue
					}
					ph := r.Height(p[0])
					if ph < 1 || ph > h {
						ok = false
					}
				}
				if ok {
					evs = append(evs, Event{Kind: "mine", T: t, H: h, ID: id})
				}
			}
		}
	}
	for h := 1; h <= tip+1 && h <= maxH; h++ {
		evs = append(evs, Event{Kind: "disc", H: h})
	}
	return evs
}

// Apply performs a chain event on the reference.
func (r *Ref) Apply(e Event) {
	switch e.Kind {
	case "seen":
		if !r.Known(e.T) {
			r.Unconf[e.T] = true
		}
	case "abandon":
		if r.Unconf[e.T] {
			r.forget(e.T)
		} else if r.Height(e.T) == -2 {
			// "remove this transaction and everything that depends on it" for a transaction
			// the store does not hold: its known unconfirmed dependants go
			r.forgetDescendants(e.T)
		}
	case "mine":
		if r.Height(e.T) >= 0 {
			return
		}
		delete(r.Unconf, e.T)
		blk := r.Blocks[e.H]
		if blk == nil {
			blk = &Blk{ID: e.ID}
			r.Blocks[e.H] = blk
		}
		blk.Txs = append(blk.Txs, e.T)
		for u := range r.Unconf {
			if r.Unconf[u] && r.B.Conflict(u, e.T) {
				r.forget(u)
			}
		}
		// a confirmed spend removes the lease of the spent output
		for _, op := range r.B.Spends[e.T] {
			delete(r.Leases, op)
		}
	case "disc":
		var gone []int
		for h, blk := range r.Blocks {
			if h < e.H {
				continue
			}
			for _, t := range blk.Txs {
				if r.B.U.Txs[t].Coinbase {
					gone = append(gone, t)
				} else {
					r.Unconf[t] = true
				}
			}
			delete(r.Blocks, h)
		}
		for _, t := range gone {
			r.forgetDescendants(t)
		}
	case "tick":
		r.Now++
	case "sweep", "restart", "recredit":
	}
}

// Clone copies the state.
func (r *Ref) Clone() *Ref {
	c := NewRef(r.B)
	c.Now = r.Now
	for h, b := range r.Blocks {
		c.Blocks[h] = &Blk{ID: b.ID, Txs: append([]int{}, b.Txs...)}
	}
	for t := range r.Unconf {
		c.Unconf[t] = true
	}
	for op, l := range r.Leases {
		c.Leases[op] = l
	}
	return c
}

// OutPoint returns the outpoint of output o of tx t.
func (b *Built) OutPoint(t, o int) wire.OutPoint {
	return wire.OutPoint{Hash: b.Hash[t], Index: uint32(o)}
}

// SpentBy returns the known transactions spending output o of t, split in
// confirmed / unconfirmed.
func (r *Ref) SpentBy(t, o int) (conf, unconf []int) {
	for x := range r.B.U.Txs {
		h := r.Height(x)
		if h == -2 {
			continue
		}
		for _, p := range r.B.ParentOf[x] {
			if p[0] == t && p[1] == o {
				if h >= 0 {
					conf = append(conf, x)
				} else {
					unconf = append(unconf, x)
				}
			}
		}
	}
	return
}

// Leased reports whether the outpoint has an active lease.
func (r *Ref) Leased(op wire.OutPoint) bool {
	l, ok := r.Leases[op]
	return ok && r.Now < l.Expiry
}

// RefCredit is one spendable output according to the reference.
type RefCredit struct {
	T, O     int
	Amount   int64
	Height   int // -1 unconfirmed
	BlockID  int
	Coinbase bool
}

// Unspent lists the credited outputs of known transactions that no known
// transaction spends and that are not leased.
func (r *Ref) Unspent() []RefCredit {
	var out []RefCredit
	for t, spec := range r.B.U.Txs {
		h := r.Height(t)
		if h == -2 {
			continue
		}
		for o, os := range spec.Outs {
			if !os.Credit {
				continue
			}
			c, u := r.SpentBy(t, o)
			if len(c)+len(u) > 0 || r.Leased(r.B.OutPoint(t, o)) {
				continue
			}
			rc := RefCredit{T: t, O: o, Amount: r.B.Amount[t][o], Height: h, Coinbase: spec.Coinbase}
			if h >= 0 {
				rc.BlockID = r.Blocks[h].ID
			}
			out = append(out, rc)
		}
	}
	return out
}

// Watch lists every credited output of a known transaction that no confirmed
// known transaction spends (leased ones and ones spent by unconfirmed
// transactions included).
func (r *Ref) Watch() [][2]int {
	var out [][2]int
	for t, spec := range r.B.U.Txs {
		if r.Height(t) == -2 {
			continue
		}
		for o, os := range spec.Outs {
			if !os.Credit {
				continue
			}
			if c, _ := r.SpentBy(t, o); len(c) > 0 {
				continue
			}
			out = append(out, [2]int{t, o})
		}
	}
	return out
}

// Balance is the ledger truth of C01.
func (r *Ref) Balance(minConf, sync, maturity int) int64 {
	var bal int64
	for _, c := range r.Unspent() {
		if c.Height < 0 {
			if minConf == 0 {
				bal += c.Amount
			}
			continue
		}
		confs := sync - c.Height + 1
		if confs < minConf {
			continue
		}
		if c.Coinbase && confs < maturity {
			continue
		}
		bal += c.Amount
	}
	return bal
}

// KnownOutput: a credited output of a known transaction. spentConfirmed tells
// whether a confirmed transaction already spends it (the statement of C12 does
// not say whether such an output can still be leased).
func (r *Ref) KnownOutput(op wire.OutPoint) (known, spentConfirmed bool) {
	t := r.B.Index(op.Hash)
	if t < 0 || !r.Known(t) || int(op.Index) >= len(r.B.U.Txs[t].Outs) {
		return false, false
	}
	if !r.B.U.Txs[t].Outs[op.Index].Credit {
		return false, false
	}
	c, _ := r.SpentBy(t, int(op.Index))
	return true, len(c) > 0
}
