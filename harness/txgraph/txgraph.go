// Package txgraph is the explicit-state explorer over the real wtxmgr.Store:
// breadth-first search over chain events to fixpoint, with the reference ledger
// in lock-step. The store keeps no memory state, so the canonical dump of its
// namespace is the state.
package txgraph

import (
	"bytes"
	"crypto/sha256"
	"errors"
	"fmt"
	"os"
	"path/filepath"
	"sort"
	"strings"
	"time"

	"github.com/btcsuite/btcd/btcutil"
	"github.com/btcsuite/btcd/chaincfg"
	"github.com/btcsuite/btcd/chaincfg/chainhash"
	"github.com/btcsuite/btcd/wire"
	"github.com/btcsuite/btcwallet/walletdb"
	_ "github.com/btcsuite/btcwallet/walletdb/bdb"
	"github.com/btcsuite/btcwallet/wtxmgr"

	"verif/harness/ledger"
	"verif/harness/vorder"
)

// Maturity is the coinbase maturity used by the explorer (scaled from 100 so
// that maturity boundaries lie inside the height bound).
const Maturity = 2

var nsKey = []byte("wtxmgr")

// Params returns the private chain parameters.
func Params() *chaincfg.Params {
	p := chaincfg.MainNetParams
	p.CoinbaseMaturity = Maturity
	return &p
}

// Env is one worker's database.
type Env struct {
	DB    walletdb.DB
	Store *wtxmgr.Store
	path  string
}

// NewEnv creates a database with an empty store in dir.
func NewEnv(dir string, n int) (*Env, error) {
	return newEnvPath(filepath.Join(dir, fmt.Sprintf("txg-%d.db", n)))
}

func newEnvPath(path string) (*Env, error) {
	os.Remove(path)
	db, err := walletdb.Create("bdb", path, true, time.Minute, false)
	if err != nil {
		return nil, err
	}
	e := &Env{DB: db, path: path}
	err = walletdb.Update(db, func(tx walletdb.ReadWriteTx) error {
		ns, err := tx.CreateTopLevelBucket(nsKey)
		if err != nil {
			return err
		}
		if err := wtxmgr.Create(ns); err != nil {
			return err
		}
		e.Store, err = wtxmgr.Open(ns, Params())
		return err
	})
	if err != nil {
		return nil, err
	}
	return e, nil
}

// Close closes and removes the database.
func (e *Env) Close() {
	e.DB.Close()
	os.Remove(e.path)
}

var errRollback = errors.New("rollback")

// InTx runs f in a read-write transaction that is always rolled back.
func (e *Env) InTx(f func(ns walletdb.ReadWriteBucket) error) (err error) {
	defer func() {
		if r := recover(); r != nil {
			err = fmt.Errorf("panic: %v", r)
		}
	}()
	var inner error
	uerr := walletdb.Update(e.DB, func(tx walletdb.ReadWriteTx) error {
		ns := tx.ReadWriteBucket(nsKey)
		inner = f(ns)
		return errRollback
	})
	if uerr != errRollback && uerr != nil && inner == nil {
		return uerr
	}
	return inner
}

// ApplyImpl performs a chain event on the real store the way
// wallet.addRelevantTx / disconnectBlock do.
func ApplyImpl(s *wtxmgr.Store, ns walletdb.ReadWriteBucket, b *ledger.Built, e ledger.Event) error {
	switch e.Kind {
	case "seen", "mine":
		var blk *wtxmgr.BlockMeta
		if e.Kind == "mine" {
			blk = ledger.BlockMeta(e.H, e.ID)
		}
		rec := b.Rec[e.T]
		exists, err := s.InsertTxCheckIfExists(ns, rec, blk)
		if err != nil {
			return err
		}
		if exists {
			return nil
		}
		for o, os := range b.U.Txs[e.T].Outs {
			if !os.Credit {
				continue
			}
			if err := s.AddCredit(ns, rec, blk, uint32(o), os.Change); err != nil {
				return err
			}
		}
		return nil
	case "recredit":
		// repeated delivery of the credits of a known transaction under its
		// current incidence (block found through the store's own lookup)
		d, err := s.TxDetails(ns, &b.Hash[e.T])
		if err != nil || d == nil {
			return err
		}
		var blk *wtxmgr.BlockMeta
		if d.Block.Height >= 0 {
			bm := d.Block
			blk = &bm
		}
		for o, os := range b.U.Txs[e.T].Outs {
			if !os.Credit {
				continue
			}
			if err := s.AddCredit(ns, b.Rec[e.T], blk, uint32(o), os.Change); err != nil {
				return err
			}
		}
		return nil
	case "disc":
		return s.Rollback(ns, int32(e.H))
	case "abandon":
		return s.RemoveUnminedTx(ns, b.Rec[e.T])
	}
	return fmt.Errorf("unknown event %v", e)
}

// Dump renders the whole namespace canonically (sorted by bbolt already).
func Dump(ns walletdb.ReadBucket) string {
	var sb strings.Builder
	var rec func(b walletdb.ReadBucket, depth int)
	rec = func(b walletdb.ReadBucket, depth int) {
		b.ForEach(func(k, v []byte) error {
			if v == nil {
				if nb := b.NestedReadBucket(k); nb != nil {
					fmt.Fprintf(&sb, "%*s[%x]\n", depth, "", k)
					rec(nb, depth+1)
					return nil
				}
			}
			fmt.Fprintf(&sb, "%*s%x=%x\n", depth, "", k, v)
			return nil
		})
	}
	rec(ns, 0)
	return sb.String()
}

func hashStr(s string) [32]byte { return sha256.Sum256([]byte(s)) }

// Config selects bounds and oracles.
type Config struct {
	MaxH, NIDs int
	C01        bool
	C02        bool
	C13        bool
	C14        bool // UnminedTxs order in every state
	MaxStates  int
	// Abort, if set, is polled between transitions: the caller has seen enough
	// violations (the verdict is settled) and the exploration stops, capped.
	Abort func() bool
}

// Report receives violations.
type Report func(prop, sig, msg string, u *ledger.Universe, hist []ledger.Event)

// Stats are the measured counts of one universe exploration.
type Stats struct {
	States        int
	Transitions   int
	Evaluations   int // oracle comparisons
	Groups        int // distinct final-fact groups
	MergedPaths   int // arrivals at an already known state
	DirectBuilt   int
	NontrivialSt  int // states whose shortest history has a disconnect or removes a conflict
	MaxDepth      int
	Capped        bool
	ObsDistinct   int
	Sample        string
	DiscTrans     int
	ConflictTrans int
}

type stateRec struct {
	hist   []ledger.Event
	refKey string
	obs    [32]byte
	obsTxt string
}

// Explore runs the BFS for one universe.
func Explore(env *Env, b *ledger.Built, cfg Config, outerReport Report) (Stats, error) {
	var st Stats
	u := b.U
	// A broken tree can make the state space unbounded (e.g. a no-op event
	// that grows a counter). Once a universe has produced violations there is
	// no point in exhausting it: stop after a handful (the run is then
	// reported with exhaustive:false).
	nviol := 0
	report := func(prop, sig, msg string, u *ledger.Universe, hist []ledger.Event) {
		nviol++
		outerReport(prop, sig, msg, u, hist)
	}
	seen := map[[32]byte]int{}
	var states []*stateRec
	var queue []int
	queueHead := -1        // index of the state being expanded
	removedByLast := false // last mine event removed a conflicting unconfirmed tx

	// run replays hist (+ optional extra event) on store and reference, then
	// calls f inside the transaction.
	run := func(hist []ledger.Event, f func(ns walletdb.ReadWriteBucket, ref *ledger.Ref) error) error {
		return env.InTx(func(ns walletdb.ReadWriteBucket) error {
			ref := ledger.NewRef(b)
			for i, e := range hist {
				if err := ApplyImpl(env.Store, ns, b, e); err != nil {
					return fmt.Errorf("event %d %v: %w", i, e, err)
				}
				ref.Apply(e)
			}
			return f(ns, ref)
		})
	}

	nontrivial := map[int]bool{}
	visit := func(hist []ledger.Event) error {
		return run(hist, func(ns walletdb.ReadWriteBucket, ref *ledger.Ref) error {
			key := hashStr(Dump(ns))
			rk := ref.Key()
			defer func() {
				if idx, ok := seen[key]; ok && len(hist) > 0 {
					switch hist[len(hist)-1].Kind {
					case "disc", "abandon":
						if idx != queueHead {
							nontrivial[idx] = true
						}
					case "mine":
						if removedByLast {
							nontrivial[idx] = true
						}
					}
				}
			}()
			if idx, ok := seen[key]; ok {
				st.MergedPaths++
				if states[idx].refKey != rk {
					report("C02", "merge:impl-state-equal-but-ledger-facts-differ",
						fmt.Sprintf("store state reached by [%s] (facts %s) is byte-identical to the one reached by [%s] (facts %s)",
							ledger.HistString(hist), rk, ledger.HistString(states[idx].hist), states[idx].refKey), u, hist)
				}
				return nil
			}
			sr := &stateRec{hist: append([]ledger.Event{}, hist...), refKey: rk}
			seen[key] = len(states)
			states = append(states, sr)
			queue = append(queue, len(states)-1)
			if len(hist) > st.MaxDepth {
				st.MaxDepth = len(hist)
			}
			obs := checkState(env, ns, ref, cfg, hist, report, &st)
			sr.obs = hashStr(obs)
			if cfg.C02 {
				sr.obsTxt = obs
			}
			return nil
		})
	}

	if err := visit(nil); err != nil {
		return st, err
	}
	for len(queue) > 0 {
		cur := states[queue[0]]
		queueHead = queue[0]
		queue = queue[1:]
		// enabled events from the reference state of cur
		ref := ledger.NewRef(b)
		for _, e := range cur.hist {
			ref.Apply(e)
		}
		for _, e := range ref.Enabled(cfg.MaxH, cfg.NIDs) {
			h2 := append(append([]ledger.Event{}, cur.hist...), e)
			st.Transitions++
			removedByLast = false
			if e.Kind == "mine" {
				r2 := ref.Clone()
				nu := len(r2.Unconf)
				was := r2.Unconf[e.T]
				r2.Apply(e)
				if was {
					nu--
				}
				removedByLast = len(r2.Unconf) < nu
				if removedByLast {
					st.ConflictTrans++
				}
			}
			if e.Kind == "disc" {
				st.DiscTrans++
			}
			if err := visit(h2); err != nil {
				report("C01", "event-refused:"+e.Kind,
					fmt.Sprintf("chain-consistent event refused or failed: %v", err), u, h2)
			}
			if (cfg.MaxStates > 0 && len(states) >= cfg.MaxStates) || nviol >= 40 || (cfg.Abort != nil && cfg.Abort()) {
				st.Capped = true
				queue = nil
				break
			}
		}
	}
	st.States = len(states)
	st.NontrivialSt = len(nontrivial)

	// C02: group by final facts, compare observations, direct construction.
	groups := map[string][]*stateRec{}
	obsSet := map[[32]byte]bool{}
	for _, s := range states {
		groups[s.refKey] = append(groups[s.refKey], s)
		obsSet[s.obs] = true
	}
	st.Groups = len(groups)
	st.ObsDistinct = len(obsSet)
	if cfg.C02 {
		for _, g := range groups {
			for _, s := range g[1:] {
				st.Evaluations++
				if s.obs != g[0].obs {
					report("C02", "converge:same-facts-different-observations",
						fmt.Sprintf("facts %s: history [%s] and history [%s] report different observations: %s",
							s.refKey, ledger.HistString(g[0].hist), ledger.HistString(s.hist), firstDiff(g[0].obsTxt, s.obsTxt)), u, s.hist)
				}
			}
			// direct construction of the facts
			ref := ledger.NewRef(b)
			for _, e := range g[0].hist {
				ref.Apply(e)
			}
			direct := DirectHistory(ref)
			st.DirectBuilt++
			err := run(direct, func(ns walletdb.ReadWriteBucket, dref *ledger.Ref) error {
				if dref.Key() != g[0].refKey {
					return fmt.Errorf("direct construction reached facts %s instead of %s", dref.Key(), g[0].refKey)
				}
				var dst Stats
				obs := checkState(env, ns, dref, Config{MaxH: cfg.MaxH, NIDs: cfg.NIDs}, direct, nil, &dst)
				st.Evaluations++
				if hashStr(obs) != g[0].obs {
					report("C02", "converge:direct-construction-differs",
						fmt.Sprintf("facts %s: history [%s] differs from direct construction [%s]: %s",
							g[0].refKey, ledger.HistString(g[0].hist), ledger.HistString(direct), firstDiff(obs, g[0].obsTxt)), u, g[0].hist)
				}
				return nil
			})
			if err != nil {
				report("C02", "converge:direct-construction-failed", err.Error(), u, direct)
			}
		}
	}
	if len(states) > 1 {
		s := states[len(states)-1]
		st.Sample = u.String() + " :: " + ledger.HistString(s.hist) + " => " + s.refKey
	}
	return st, nil
}

// DirectHistory builds the facts of ref directly: blocks in height order, then
// unconfirmed transactions parents-first.
func DirectHistory(ref *ledger.Ref) []ledger.Event {
	var hs []int
	for h := range ref.Blocks {
		hs = append(hs, h)
	}
	sort.Ints(hs)
	var hist []ledger.Event
	for _, h := range hs {
		for _, t := range ref.Blocks[h].Txs {
			hist = append(hist, ledger.Event{Kind: "mine", T: t, H: h, ID: ref.Blocks[h].ID})
		}
	}
	var us []int
	for t := range ref.Unconf {
		us = append(us, t)
	}
	sort.Ints(us) // universe index order is topological
	for _, t := range us {
		hist = append(hist, ledger.Event{Kind: "seen", T: t})
	}
	return hist
}

func firstDiff(a, b string) string {
	la, lb := strings.Split(a, "\n"), strings.Split(b, "\n")
	for i := 0; i < len(la) || i < len(lb); i++ {
		var x, y string
		if i < len(la) {
			x = la[i]
		}
		if i < len(lb) {
			y = lb[i]
		}
		if x != y {
			return fmt.Sprintf("%q vs %q", x, y)
		}
	}
	return "(equal)"
}

// checkState evaluates the enabled oracles in the current state and returns
// the observation text (used for C02's observational equality).
func checkState(env *Env, ns walletdb.ReadWriteBucket, ref *ledger.Ref, cfg Config,
	hist []ledger.Event, report Report, st *Stats) string {

	b := ref.B
	u := b.U
	s := env.Store
	last := "init"
	if len(hist) > 0 {
		last = hist[len(hist)-1].Kind
	}
	rep := func(prop, sig, msg string) {
		if report != nil {
			tag := ""
			if u.Tag != "" {
				tag = ":" + u.Tag
			}
			report(prop, sig+":after="+last+tag, msg+" after ["+ledger.HistString(hist)+"] in "+u.String(), u, hist)
		}
	}
	var obs strings.Builder
	tip := ref.Tip()

	// --- balances
	for m := 0; m <= cfg.MaxH+3; m++ {
		for sy := tip; sy <= cfg.MaxH+2; sy++ {
			got, err := s.Balance(ns, int32(m), int32(sy))
			st.Evaluations++
			fmt.Fprintf(&obs, "bal(%d,%d)=%d,%v\n", m, sy, got, err)
			if !cfg.C01 {
				continue
			}
			want := ref.Balance(m, sy, Maturity)
			if err != nil {
				rep("C01", "balance-error", fmt.Sprintf("Balance(minconf=%d,sync=%d) error %v", m, sy, err))
			} else if int64(got) != want {
				rep("C01", "balance", fmt.Sprintf("Balance(minconf=%d,sync=%d)=%d, ledger says %d (amounts are powers of two: diff bits %b)",
					m, sy, got, want, uint64(int64(got)^want)))
			}
		}
	}

	// --- unspent outputs
	creds, err := s.UnspentOutputs(ns)
	st.Evaluations++
	var gotU []string
	for _, c := range creds {
		gotU = append(gotU, fmt.Sprintf("%s amt=%d h=%d blk=%s time=%d cb=%v pk=%x",
			opName(b, c.OutPoint), c.Amount, c.Height, blkName(c.Height, c.BlockMeta.Hash), c.BlockMeta.Time.Unix(), c.FromCoinBase, c.PkScript))
	}
	sort.Strings(gotU)
	fmt.Fprintf(&obs, "unspent=%v,%v\n", gotU, err)
	if cfg.C01 {
		var wantU []string
		for _, c := range ref.Unspent() {
			var hash chainhash.Hash
			tm := time.Time{}.Unix()
			if c.Height >= 0 {
				hash = ledger.BlockHash(c.Height, c.BlockID)
				tm = ledger.BlockTime(c.Height, c.BlockID).Unix()
			}
			wantU = append(wantU, fmt.Sprintf("%s amt=%d h=%d blk=%s time=%d cb=%v pk=%x",
				fmt.Sprintf("t%d:%d", c.T, c.O), c.Amount, c.Height, blkName(int32(c.Height), hash), tm, c.Coinbase, ledger.PkScript(c.T, c.O)))
		}
		sort.Strings(wantU)
		if err != nil {
			rep("C01", "unspent-error", "UnspentOutputs error "+err.Error())
		} else if strings.Join(gotU, ";") != strings.Join(wantU, ";") {
			rep("C01", "unspent:"+classifyDiff(gotU, wantU), fmt.Sprintf("UnspentOutputs=%v, ledger says %v", gotU, wantU))
		}
		// --- outputs to watch
		w, err := s.OutputsToWatch(ns)
		st.Evaluations++
		var gotW, wantW []string
		for _, c := range w {
			gotW = append(gotW, fmt.Sprintf("%s pk=%x", opName(b, c.OutPoint), c.PkScript))
		}
		for _, to := range ref.Watch() {
			wantW = append(wantW, fmt.Sprintf("t%d:%d pk=%x", to[0], to[1], ledger.PkScript(to[0], to[1])))
		}
		sort.Strings(gotW)
		sort.Strings(wantW)
		if err != nil {
			rep("C01", "watch-error", "OutputsToWatch error "+err.Error())
		} else if strings.Join(gotW, ";") != strings.Join(wantW, ";") {
			for i, w := range wantW {
				t, o := 0, 0
				fmt.Sscanf(w, "t%d:%d", &t, &o)
				if b.Amount[t][o] == 0 {
					wantW[i] = w + " amt=0 "
				}
			}
			rep("C01", "watch:"+classifyDiff(gotW, wantW), fmt.Sprintf("OutputsToWatch=%v, ledger says %v", gotW, wantW))
		}
	}

	// --- details of every transaction, unmined hashes (C02 observation, C13 oracle)
	for t := range u.Txs {
		d, err := s.TxDetails(ns, &b.Hash[t])
		got := renderDetails(b, d, err)
		fmt.Fprintf(&obs, "details(t%d)=%s\n", t, got)
		if cfg.C13 {
			st.Evaluations++
			want := wantDetails(ref, t)
			if got != want {
				rep("C13", "txdetails", fmt.Sprintf("TxDetails(t%d)=%s, ledger says %s", t, got, want))
			}
		}
	}
	uh, err := s.UnminedTxHashes(ns)
	var gotH []string
	for _, h := range uh {
		gotH = append(gotH, txName(b, *h))
	}
	sort.Strings(gotH)
	fmt.Fprintf(&obs, "unmined=%v,%v\n", gotH, err)
	if cfg.C02 || cfg.C13 {
		var wantH []string
		for t := range ref.Unconf {
			wantH = append(wantH, fmt.Sprintf("t%d", t))
		}
		sort.Strings(wantH)
		st.Evaluations++
		if err != nil || strings.Join(gotH, ",") != strings.Join(wantH, ",") {
			p := "C02"
			if !cfg.C02 {
				p = "C13"
			}
			rep(p, "unmined-set", fmt.Sprintf("UnminedTxHashes=%v (%v), ledger says %v", gotH, err, wantH))
		}
	}
	if cfg.C13 {
		checkC13(env, ns, ref, cfg, rep, st)
	}
	if cfg.C14 {
		checkUnminedOrder(env, ns, ref, rep, st)
	}
	return obs.String()
}

func checkUnminedOrder(env *Env, ns walletdb.ReadWriteBucket, ref *ledger.Ref, rep func(prop, sig, msg string), st *Stats) {
	b := ref.B
	vorder.Enumerate(func() {
		txs, err := env.Store.UnminedTxs(ns)
		st.Evaluations++
		if err != nil {
			rep("C14", "unminedtxs-error", err.Error())
			return
		}
		pos := map[int]int{}
		var names []string
		for i, tx := range txs {
			t := b.Index(tx.TxHash())
			names = append(names, fmt.Sprintf("t%d", t))
			if _, dup := pos[t]; dup || t < 0 {
				rep("C14", "unminedtxs:not-a-permutation", fmt.Sprintf("UnminedTxs=%v has a duplicate/unknown entry", names))
				return
			}
			pos[t] = i
		}
		if len(pos) != len(ref.Unconf) {
			rep("C14", "unminedtxs:not-a-permutation", fmt.Sprintf("UnminedTxs=%v but ledger has %d unconfirmed", names, len(ref.Unconf)))
			return
		}
		for t := range ref.Unconf {
			if _, ok := pos[t]; !ok {
				rep("C14", "unminedtxs:not-a-permutation", fmt.Sprintf("UnminedTxs=%v misses t%d", names, t))
				return
			}
			for _, p := range b.ParentOf[t] {
				if p[0] >= 0 && ref.Unconf[p[0]] && pos[p[0]] > pos[t] {
					rep("C14", "unminedtxs:order", fmt.Sprintf("UnminedTxs=%v places t%d before its parent t%d", names, t, p[0]))
					return
				}
			}
		}
	})
}

func txName(b *ledger.Built, h chainhash.Hash) string {
	if i := b.Index(h); i >= 0 {
		return fmt.Sprintf("t%d", i)
	}
	return h.String()[:8]
}

func opName(b *ledger.Built, op wire.OutPoint) string {
	return fmt.Sprintf("%s:%d", txName(b, op.Hash), op.Index)
}

func blkName(h int32, hash chainhash.Hash) string {
	if h < 0 {
		if hash != (chainhash.Hash{}) {
			return "nonzero-hash-for-unmined"
		}
		return "-"
	}
	for id := 0; id < 4; id++ {
		if ledger.BlockHash(int(h), id) == hash {
			return fmt.Sprintf("h%db%d", h, id)
		}
	}
	return "unknown-block-" + hash.String()[:8]
}

func renderDetails(b *ledger.Built, d *wtxmgr.TxDetails, err error) string {
	if err != nil {
		return "error:" + err.Error()
	}
	if d == nil {
		return "nil"
	}
	var sb strings.Builder
	fmt.Fprintf(&sb, "%s@%s", txName(b, d.Hash), blkName(d.Block.Height, d.Block.Hash))
	if d.Block.Height >= 0 {
		fmt.Fprintf(&sb, "/time=%d", d.Block.Time.Unix())
	}
	var buf bytes.Buffer
	d.MsgTx.Serialize(&buf)
	if t := b.Index(d.Hash); t < 0 || !bytes.Equal(buf.Bytes(), b.Rec[t].SerializedTx) {
		sb.WriteString(" WRONG-TX-BYTES")
	}
	sb.WriteString(" credits[")
	for _, c := range d.Credits {
		fmt.Fprintf(&sb, "%d:amt=%d,spent=%v,change=%v;", c.Index, c.Amount, c.Spent, c.Change)
	}
	sb.WriteString("] debits[")
	for _, c := range d.Debits {
		fmt.Fprintf(&sb, "%d:amt=%d;", c.Index, c.Amount)
	}
	sb.WriteString("]")
	return sb.String()
}

// wantDetails renders what the ledger says TxDetails(t) must be.
func wantDetails(ref *ledger.Ref, t int) string {
	b := ref.B
	h := ref.Height(t)
	if h == -2 {
		return "nil"
	}
	var sb strings.Builder
	if h >= 0 {
		id := ref.Blocks[h].ID
		fmt.Fprintf(&sb, "t%d@h%db%d/time=%d", t, h, id, ledger.BlockTime(h, id).Unix())
	} else {
		fmt.Fprintf(&sb, "t%d@-", t)
	}
	sb.WriteString(" credits[")
	for o, os := range b.U.Txs[t].Outs {
		if !os.Credit {
			continue
		}
		c, un := ref.SpentBy(t, o)
		fmt.Fprintf(&sb, "%d:amt=%d,spent=%v,change=%v;", o, b.Amount[t][o], len(c)+len(un) > 0, os.Change)
	}
	sb.WriteString("] debits[")
	for i, p := range b.ParentOf[t] {
		if p[0] < 0 || !b.U.Txs[p[0]].Outs[p[1]].Credit || !ref.Known(p[0]) {
			continue
		}
		fmt.Fprintf(&sb, "%d:amt=%d;", i, b.Amount[p[0]][p[1]])
	}
	sb.WriteString("]")
	return sb.String()
}

var _ = btcutil.Amount(0)

// ReplayHistory runs one history (no exploration) and evaluates the oracles
// after every prefix.
func ReplayHistory(env *Env, b *ledger.Built, cfg Config, hist []ledger.Event, report Report) {
	for n := 0; n <= len(hist); n++ {
		h := hist[:n]
		err := env.InTx(func(ns walletdb.ReadWriteBucket) error {
			ref := ledger.NewRef(b)
			for i, e := range h {
				if err := ApplyImpl(env.Store, ns, b, e); err != nil {
					return fmt.Errorf("event %d %v: %w", i, e, err)
				}
				ref.Apply(e)
			}
			var st Stats
			checkState(env, ns, ref, cfg, h, report, &st)
			return nil
		})
		if err != nil {
			report("C01", "event-refused", err.Error(), b.U, h)
		}
	}
}

// classifyDiff names the first difference between two sorted lists of
// "<outpoint> attrs" strings: missing / extra / attr, tagged zero-value when the
// output concerned has amount 0 (used in failure signatures).
func classifyDiff(got, want []string) string {
	key := func(s string) string { return strings.SplitN(s, " ", 2)[0] }
	g, w := map[string]string{}, map[string]string{}
	for _, s := range got {
		g[key(s)] = s
	}
	for _, s := range want {
		w[key(s)] = s
	}
	tag := func(s string) string {
		if strings.Contains(s, " amt=0 ") {
			return ":zero-value"
		}
		return ""
	}
	if len(g) != len(got) {
		return "duplicate"
	}
	for _, s := range want {
		if _, ok := g[key(s)]; !ok {
			return "missing" + tag(s)
		}
	}
	for _, s := range got {
		if _, ok := w[key(s)]; !ok {
			return "extra" + tag(s)
		}
	}
	for k, s := range w {
		if g[k] != s && !(strings.HasSuffix(s, " amt=0 ") && strings.TrimSuffix(s, " amt=0 ") == g[k]) {
			return "attr" + tag(s)
		}
	}
	return "order"
}
