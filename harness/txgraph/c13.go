package txgraph

import (
	"fmt"
	"strings"

	"github.com/btcsuite/btcwallet/walletdb"
	"github.com/btcsuite/btcwallet/wtxmgr"

	"verif/harness/ledger"
)

// checkC13 evaluates unique lookups, range queries in both directions and
// previous pkScripts against the ledger.
func checkC13(env *Env, ns walletdb.ReadWriteBucket, ref *ledger.Ref, cfg Config,
	rep func(prop, sig, msg string), st *Stats) {

	b := ref.B
	s := env.Store
	n := len(b.U.Txs)

	// UniqueTxDetails for every block id ever possible and nil.
	for t := 0; t < n; t++ {
		h := ref.Height(t)
		got, err := s.UniqueTxDetails(ns, &b.Hash[t], nil)
		st.Evaluations++
		want := "nil"
		if h == -1 {
			want = wantDetails(ref, t)
		}
		if g := renderDetails(b, got, err); g != want {
			rep("C13", "unique-unmined", fmt.Sprintf("UniqueTxDetails(t%d,nil)=%s, ledger says %s", t, g, want))
		}
		for bh := 1; bh <= cfg.MaxH; bh++ {
			for id := 0; id < cfg.NIDs; id++ {
				blk := &wtxmgr.Block{Hash: ledger.BlockHash(bh, id), Height: int32(bh)}
				got, err := s.UniqueTxDetails(ns, &b.Hash[t], blk)
				st.Evaluations++
				want := "nil"
				if h == bh && ref.Blocks[bh].ID == id {
					want = wantDetails(ref, t)
				}
				if g := renderDetails(b, got, err); g != want {
					rep("C13", "unique-mined", fmt.Sprintf("UniqueTxDetails(t%d,h%db%d)=%s, ledger says %s", t, bh, id, g, want))
				}
			}
		}
	}

	// RangeTransactions(begin,end) for every pair in {-1,0..maxH+1}.
	tip := ref.Tip()
	for begin := -1; begin <= cfg.MaxH+1; begin++ {
		for end := -1; end <= cfg.MaxH+1; end++ {
			var got []string
			err := s.RangeTransactions(ns, int32(begin), int32(end), func(ds []wtxmgr.TxDetails) (bool, error) {
				var grp []string
				for i := range ds {
					grp = append(grp, renderDetails(b, &ds[i], nil))
				}
				// order inside the unmined group is not specified
				if len(ds) > 0 && ds[0].Block.Height < 0 {
					sortStrings(grp)
				}
				got = append(got, strings.Join(grp, " , "))
				return false, nil
			})
			st.Evaluations++
			want := wantRange(ref, begin, end, tip)
			if err != nil {
				rep("C13", "range-error", fmt.Sprintf("RangeTransactions(%d,%d) error %v", begin, end, err))
			} else if strings.Join(got, " || ") != strings.Join(want, " || ") {
				rep("C13", "range", fmt.Sprintf("RangeTransactions(%d,%d)=%v, ledger says %v", begin, end, got, want))
			}
		}
	}

	// PreviousPkScripts for the current incidence of every known tx.
	for t := 0; t < n; t++ {
		h := ref.Height(t)
		if h == -2 {
			continue
		}
		var blk *wtxmgr.Block
		if h >= 0 {
			blk = &wtxmgr.Block{Hash: ledger.BlockHash(h, ref.Blocks[h].ID), Height: int32(h)}
		}
		scripts, err := s.PreviousPkScripts(ns, b.Rec[t], blk)
		st.Evaluations++
		var got, want []string
		for _, sc := range scripts {
			got = append(got, fmt.Sprintf("%x", sc))
		}
		for _, p := range b.ParentOf[t] {
			if p[0] < 0 || !b.U.Txs[p[0]].Outs[p[1]].Credit || !ref.Known(p[0]) {
				continue
			}
			want = append(want, fmt.Sprintf("%x", ledger.PkScript(p[0], p[1])))
		}
		if err != nil || strings.Join(got, ",") != strings.Join(want, ",") {
			rep("C13", "prevpkscripts", fmt.Sprintf("PreviousPkScripts(t%d)=%v (%v), ledger says %v", t, got, err, want))
		}
	}
}

func sortStrings(s []string) {
	for i := 1; i < len(s); i++ {
		for j := i; j > 0 && s[j] < s[j-1]; j-- {
			s[j], s[j-1] = s[j-1], s[j]
		}
	}
}

// wantRange: documented behaviour of RangeTransactions: blocks in [begin,end]
// ascending when begin < end, else descending from begin to end; -1 means
// "including unmined" and is the high bound: unmined first when begin is -1,
// last when only end is -1.
func wantRange(ref *ledger.Ref, begin, end, tip int) []string {
	var out []string
	unmined := func() {
		var grp []string
		for t := range ref.Unconf {
			grp = append(grp, wantDetails(ref, t))
		}
		sortStrings(grp)
		if len(grp) > 0 {
			out = append(out, strings.Join(grp, " , "))
		}
	}
	const inf = 1 << 30
	lo, hi := begin, end
	if lo < 0 {
		lo = inf
	}
	if hi < 0 {
		hi = inf
	}
	if begin < 0 {
		unmined()
	}
	block := func(h int) {
		blk := ref.Blocks[h]
		if blk == nil {
			return
		}
		var grp []string
		for _, t := range blk.Txs {
			grp = append(grp, wantDetails(ref, t))
		}
		out = append(out, strings.Join(grp, " , "))
	}
	if lo < hi {
		for h := lo; h <= hi && h <= tip; h++ {
			block(h)
		}
	} else {
		start := lo
		if start > tip {
			start = tip
		}
		for h := start; h >= hi && h >= 0; h-- {
			block(h)
		}
	}
	if begin >= 0 && end < 0 {
		unmined()
	}
	return out
}
