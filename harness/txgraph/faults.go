package txgraph

import (
	"fmt"
	"strings"
	"time"

	"github.com/btcsuite/btcd/chaincfg/chainhash"
	"github.com/btcsuite/btcwallet/walletdb"
	"github.com/btcsuite/btcwallet/wtxmgr"

	"verif/harness/faultdb"
	"verif/harness/ledger"
)

// FaultStats are the counts of the store's fault enumeration.
type FaultStats struct {
	States, Pairs, Positions, Evaluations int
	Outcomes                              map[string]int
	Sites                                 map[string]bool
	Sample                                string
}

// FaultReport receives violations of the fault enumeration.
type FaultReport func(sig, msg string, u *ledger.Universe, hist []ledger.Event, site string)

// storeOp is one mutating store operation used by the fault enumeration.
type storeOp struct {
	name string
	run  func(s *wtxmgr.Store, ns walletdb.ReadWriteBucket) error
}

func faultSite(site string) string {
	f := strings.Fields(site)
	if len(f) < 2 {
		return site
	}
	parts := strings.Split(f[1], "/")
	return f[0] + ":" + parts[len(parts)-1]
}

// ExploreFaults: BFS over the universe's chain events (as Explore); from every
// state, for every enabled chain event and every lease/label operation, fail
// each write position and check error-or-full-effect.
func ExploreFaults(env *Env, b *ledger.Built, maxH, nIDs int, st *FaultStats, report FaultReport) error {
	u := b.U
	seen := map[[32]byte]bool{}
	type node struct{ hist []ledger.Event }
	var queue []node
	visit := func(hist []ledger.Event) (bool, error) {
		isNew := false
		err := env.InTx(func(ns walletdb.ReadWriteBucket) error {
			for _, e := range hist {
				if err := ApplyImpl(env.Store, ns, b, e); err != nil {
					return err
				}
			}
			k := hashStr(Dump(ns))
			if !seen[k] {
				seen[k] = true
				isNew = true
			}
			return nil
		})
		return isNew, err
	}
	if _, err := visit(nil); err != nil {
		return err
	}
	queue = append(queue, node{})
	targets := Targets(b)
	for len(queue) > 0 {
		cur := queue[0]
		queue = queue[1:]
		st.States++
		ref := ledger.NewRef(b)
		for _, e := range cur.hist {
			ref.Apply(e)
		}
		var ops []storeOp
		for _, e := range ref.Enabled(maxH, nIDs) {
			e := e
			ops = append(ops, storeOp{name: e.Kind, run: func(s *wtxmgr.Store, ns walletdb.ReadWriteBucket) error {
				return ApplyImpl(s, ns, b, e)
			}})
			h2 := append(append([]ledger.Event{}, cur.hist...), e)
			if isNew, err := visit(h2); err == nil && isNew {
				queue = append(queue, node{hist: h2})
			}
		}
		for oi, op := range targets {
			op := op
			if oi >= 3 {
				break
			}
			ops = append(ops,
				storeOp{name: "LockOutput", run: func(s *wtxmgr.Store, ns walletdb.ReadWriteBucket) error {
					_, err := s.LockOutput(ns, lockID(0), op, 2*time.Second)
					if err == wtxmgr.ErrUnknownOutput {
						return nil
					}
					return err
				}},
				storeOp{name: "Lock+UnlockOutput", run: func(s *wtxmgr.Store, ns walletdb.ReadWriteBucket) error {
					if _, err := s.LockOutput(ns, lockID(0), op, 2*time.Second); err != nil {
						if err == wtxmgr.ErrUnknownOutput {
							return nil
						}
						return err
					}
					return s.UnlockOutput(ns, lockID(0), op)
				}},
			)
		}
		ops = append(ops,
			storeOp{name: "DeleteExpiredLockedOutputs", run: func(s *wtxmgr.Store, ns walletdb.ReadWriteBucket) error {
				for _, t := range targets[:1] {
					if _, err := s.LockOutput(ns, lockID(1), t, -time.Second); err != nil && err != wtxmgr.ErrUnknownOutput {
						return err
					}
				}
				return s.DeleteExpiredLockedOutputs(ns)
			}},
			storeOp{name: "PutTxLabel", run: func(s *wtxmgr.Store, ns walletdb.ReadWriteBucket) error {
				return s.PutTxLabel(ns, chainhash.Hash(b.Hash[0]), "label")
			}},
		)
		for _, op := range ops {
			st.Pairs++
			// baseline
			var n int
			var baseDump string
			var baseErr error
			env.InTx(func(ns walletdb.ReadWriteBucket) error {
				for _, e := range cur.hist {
					if err := ApplyImpl(env.Store, ns, b, e); err != nil {
						return err
					}
				}
				ctl := &faultdb.Ctl{}
				baseErr = op.run(env.Store, faultdb.Wrap(ns, ctl, "wtxmgr"))
				n = ctl.Count
				baseDump = Dump(ns)
				return nil
			})
			if baseErr != nil {
				st.Outcomes["op-not-applicable"]++
				continue
			}
			for k := 1; k <= n; k++ {
				st.Positions++
				env.InTx(func(ns walletdb.ReadWriteBucket) error {
					for _, e := range cur.hist {
						if err := ApplyImpl(env.Store, ns, b, e); err != nil {
							return err
						}
					}
					ctl := &faultdb.Ctl{FailAt: k}
					err := op.run(env.Store, faultdb.Wrap(ns, ctl, "wtxmgr"))
					if !ctl.Fired {
						st.Outcomes["write-count-varies"]++
						return nil
					}
					site := faultSite(ctl.FiredSite)
					st.Sites[op.name+"@"+site] = true
					st.Evaluations++
					if err == nil {
						st.Outcomes["fault-swallowed"]++
						if Dump(ns) != baseDump {
							report("success-with-partial-effect:"+op.name+":"+site,
								fmt.Sprintf("store operation %s reported success although write #%d of %d (%s) failed and the store differs from a fault-free run; after [%s] in %s",
									op.name, k, n, ctl.FiredSite, ledger.HistString(cur.hist), u.String()), u, cur.hist, ctl.FiredSite)
						}
					} else {
						st.Outcomes["error-reported"]++
					}
					return nil
				})
			}
			if st.Sample == "" && n > 3 {
				st.Sample = fmt.Sprintf("wtxmgr %s after [%s] in %s: %d write positions", op.name, ledger.HistString(cur.hist), u.String(), n)
			}
		}
	}
	return nil
}
