//go:build verif

package txgraph

import (
	"errors"
	"fmt"
	"sort"
	"strings"
	"time"

	"github.com/btcsuite/btcd/wire"
	"github.com/btcsuite/btcwallet/walletdb"
	"github.com/btcsuite/btcwallet/wtxmgr"
	"github.com/lightningnetwork/lnd/clock"

	"verif/harness/ledger"
)

// LeaseConfig bounds the lease exploration.
type LeaseConfig struct {
	MaxH, NIDs  int
	MaxTicks    int // clock advances at most this many seconds
	Dur         int // lease duration in seconds
	NLocks      int
	MaxStates   int
	RealRestart bool // additionally validate every state through commit + close + reopen
}

// LeaseStats are the measured counts.
type LeaseStats struct {
	States, Transitions, Evaluations int
	LeaseOps, Refused, Expiries      int
	BoundaryStates                   int // states with a lease exactly at its expiry instant
	RealRestarts                     int
	MaxDepth                         int
	Capped                           bool
	Sample                           string
	OutcomeKinds                     map[string]int
}

func lockID(i int) wtxmgr.LockID {
	// identifier 0 is the all-zero LockID (a legal identifier that code may
	// be tempted to use as "no lock")
	var id wtxmgr.LockID
	if i == 0 {
		return id
	}
	id[0] = byte(0xA0 + i)
	id[31] = byte(i)
	return id
}

func lockIndex(id wtxmgr.LockID) int { return int(id[31]) }

// Targets returns the lease targets of a universe: every credited output,
// every uncredited output, and one outpoint the wallet never heard of.
func Targets(b *ledger.Built) []wire.OutPoint {
	var ts []wire.OutPoint
	for t, spec := range b.U.Txs {
		for o := range spec.Outs {
			ts = append(ts, b.OutPoint(t, o))
		}
	}
	var unk wire.OutPoint
	unk.Hash[0], unk.Index = 0xEE, 7
	return append(ts, unk)
}

// applyLeaseEvent performs one event of the extended alphabet on store and
// reference and checks the return value against the lease model. It returns a
// description of the outcome class.
func applyLeaseEvent(s *wtxmgr.Store, clk *clock.TestClock, ns walletdb.ReadWriteBucket,
	ref *ledger.Ref, targets []wire.OutPoint, e ledger.Event, dur int,
	fail func(sig, msg string)) (string, error) {

	b := ref.B
	switch e.Kind {
	case "seen", "mine", "disc", "abandon", "recredit":
		if err := ApplyImpl(s, ns, b, e); err != nil {
			return "", err
		}
		ref.Apply(e)
		return "chain", nil
	case "tick":
		ref.Now++
		clk.SetTime(time.Unix(ref.Now, 0))
		return "tick", nil
	case "sweep":
		if err := s.DeleteExpiredLockedOutputs(ns); err != nil {
			return "", err
		}
		return "sweep", nil
	case "lease":
		op := targets[e.Op]
		known, spentConf := ref.KnownOutput(op)
		cur, has := ref.Leases[op]
		active := has && ref.Now < cur.Expiry
		exp, err := s.LockOutput(ns, lockID(e.Lock), op, time.Duration(dur)*time.Second)
		switch {
		case !known:
			if err == nil {
				fail("lease:unknown-output-accepted", fmt.Sprintf("LockOutput(L%d,%s) succeeded although the wallet knows no such credited output", e.Lock, opName(b, op)))
				ref.Leases[op] = ledger.Lease{Lock: e.Lock, Expiry: exp.Unix()}
			}
			return "lease-unknown", nil
		case active && cur.Lock != e.Lock:
			if !errors.Is(err, wtxmgr.ErrOutputAlreadyLocked) {
				fail("lease:other-id-not-refused", fmt.Sprintf("LockOutput(L%d,%s) while leased to L%d until +%ds at now returned %v", e.Lock, opName(b, op), cur.Lock, cur.Expiry-ref.Now, err))
				if err == nil {
					ref.Leases[op] = ledger.Lease{Lock: e.Lock, Expiry: exp.Unix()}
				}
			}
			return "lease-refused", nil
		case spentConf:
			// statement does not fix this case: follow the implementation
			if err == nil {
				ref.Leases[op] = ledger.Lease{Lock: e.Lock, Expiry: exp.Unix()}
				return "lease-spent-accepted", nil
			}
			return "lease-spent-refused", nil
		default:
			if err != nil {
				fail("lease:refused", fmt.Sprintf("LockOutput(L%d,%s) on a known, free output returned %v", e.Lock, opName(b, op), err))
				return "lease-error", nil
			}
			want := ref.Now + int64(dur)
			if exp.Unix() != want {
				fail("lease:expiry", fmt.Sprintf("LockOutput returned expiry %d, want now+%d=%d", exp.Unix(), dur, want))
			}
			ref.Leases[op] = ledger.Lease{Lock: e.Lock, Expiry: want}
			if active {
				return "lease-extend", nil
			}
			if has {
				return "lease-after-expiry", nil
			}
			return "lease-new", nil
		}
	case "release":
		op := targets[e.Op]
		known, spentConf := ref.KnownOutput(op)
		cur, has := ref.Leases[op]
		active := has && ref.Now < cur.Expiry
		err := s.UnlockOutput(ns, lockID(e.Lock), op)
		if !known || spentConf {
			// not fixed by the statement; an error means "not released"
			if err == nil && active && cur.Lock == e.Lock {
				delete(ref.Leases, op)
			}
			if err == nil && active && cur.Lock != e.Lock {
				fail("release:other-id-not-refused", fmt.Sprintf("UnlockOutput(L%d,%s) of a lease held by L%d returned nil", e.Lock, opName(b, op), cur.Lock))
			}
			return "release-unknown", nil
		}
		switch {
		case active && cur.Lock != e.Lock:
			if !errors.Is(err, wtxmgr.ErrOutputUnlockNotAllowed) {
				fail("release:other-id-not-refused", fmt.Sprintf("UnlockOutput(L%d,%s) of a lease held by L%d returned %v", e.Lock, opName(b, op), cur.Lock, err))
				if err == nil {
					delete(ref.Leases, op)
				}
			}
			return "release-refused", nil
		case active:
			if err != nil {
				fail("release:own-lease-error", fmt.Sprintf("UnlockOutput(L%d,%s) of its own lease returned %v", e.Lock, opName(b, op), err))
				return "release-error", nil
			}
			delete(ref.Leases, op)
			return "release-ok", nil
		default:
			if err != nil {
				fail("release:inactive-error", fmt.Sprintf("UnlockOutput(L%d,%s) with no active lease returned %v", e.Lock, opName(b, op), err))
			}
			return "release-noop", nil
		}
	}
	return "", fmt.Errorf("unknown event %v", e)
}

// checkLeaseState compares ListLockedOutputs with the active lease table.
func checkLeaseState(s *wtxmgr.Store, ns walletdb.ReadBucket, ref *ledger.Ref, fail func(sig, msg string)) string {
	b := ref.B
	lo, err := s.ListLockedOutputs(ns)
	var got, want []string
	for _, l := range lo {
		got = append(got, fmt.Sprintf("%s=L%d@%d", opName(b, l.Outpoint), lockIndex(l.LockID), l.Expiration.Unix()-ref.Now))
	}
	for op, l := range ref.Leases {
		if ref.Now < l.Expiry {
			want = append(want, fmt.Sprintf("%s=L%d@%d", opName(b, op), l.Lock, l.Expiry-ref.Now))
		}
	}
	sort.Strings(got)
	sort.Strings(want)
	if err != nil || strings.Join(got, ",") != strings.Join(want, ",") {
		fail("listlocked", fmt.Sprintf("ListLockedOutputs=%v (%v), lease model says %v (entries are outpoint=lock@seconds-to-expiry)", got, err, want))
	}
	return "locked=" + strings.Join(got, ",")
}

type leaseState struct {
	hist   []ledger.Event
	refKey string
}

// ExploreLeases is the BFS over chain events + lease alphabet with a
// controlled whole-second clock.
func ExploreLeases(env *Env, b *ledger.Built, cfg LeaseConfig, report Report) (LeaseStats, error) {
	st := LeaseStats{OutcomeKinds: map[string]int{}}
	u := b.U
	targets := Targets(b)
	base := ledger.NewRef(b).Now
	clk := clock.NewTestClock(time.Unix(base, 0))
	seen := map[[32]byte]int{}
	var states []*leaseState
	var queue []int
	nviol := 0
	report0 := report
	report = func(prop, sig, msg string, u *ledger.Universe, hist []ledger.Event) {
		nviol++
		report0(prop, sig, msg, u, hist)
	}

	exec := func(hist []ledger.Event, atEnd func(ns walletdb.ReadWriteBucket, ref *ledger.Ref, s *wtxmgr.Store, outcome string) error) error {
		return env.InTx(func(ns walletdb.ReadWriteBucket) error {
			s, err := wtxmgr.Open(ns, Params())
			if err != nil {
				return err
			}
			clk.SetTime(time.Unix(base, 0))
			s.VerifSetClock(clk)
			ref := ledger.NewRef(b)
			outcome := ""
			for i, e := range hist {
				lastStep := i == len(hist)-1
				fail := func(sig, msg string) {
					if lastStep {
						report("C12", sig, msg+" after ["+ledger.HistString(hist)+"] in "+u.String(), u, hist)
					}
				}
				if e.Kind == "restart" {
					// a restarted wallet opens a new Store on the same data
					s, err = wtxmgr.Open(ns, Params())
					if err != nil {
						return err
					}
					s.VerifSetClock(clk)
					outcome = "restart"
					continue
				}
				oc, err := applyLeaseEvent(s, clk, ns, ref, targets, e, cfg.Dur, fail)
				if err != nil {
					return fmt.Errorf("event %d %v: %w", i, e, err)
				}
				outcome = oc
			}
			return atEnd(ns, ref, s, outcome)
		})
	}

	visit := func(hist []ledger.Event) error {
		return exec(hist, func(ns walletdb.ReadWriteBucket, ref *ledger.Ref, s *wtxmgr.Store, outcome string) error {
			if outcome != "" {
				st.OutcomeKinds[outcome]++
			}
			key := hashStr(Dump(ns) + fmt.Sprintf("now=%d", ref.Now))
			rk := leaseRefKey(ref)
			if idx, ok := seen[key]; ok {
				if states[idx].refKey != rk {
					report("C12", "merge:impl-state-equal-but-model-differs",
						fmt.Sprintf("[%s] (model %s) reaches the same store bytes as [%s] (model %s)", ledger.HistString(hist), rk,
							ledger.HistString(states[idx].hist), states[idx].refKey), u, hist)
				}
				return nil
			}
			seen[key] = len(states)
			states = append(states, &leaseState{hist: append([]ledger.Event{}, hist...), refKey: rk})
			queue = append(queue, len(states)-1)
			if len(hist) > st.MaxDepth {
				st.MaxDepth = len(hist)
			}
			last := "init"
			if len(hist) > 0 {
				last = hist[len(hist)-1].Kind
			}
			fail := func(sig, msg string) {
				report("C12", sig+":after="+last, msg+" after ["+ledger.HistString(hist)+"] in "+u.String(), u, hist)
			}
			st.Evaluations++
			checkLeaseState(s, ns, ref, fail)
			for _, l := range ref.Leases {
				if l.Expiry == ref.Now {
					st.BoundaryStates++
					break
				}
			}
			// balance / unspent / watch with the lease table (C01 oracles)
			var cst Stats
			e2 := &Env{DB: env.DB, Store: s}
			checkState(e2, ns, ref, Config{MaxH: cfg.MaxH, NIDs: cfg.NIDs, C01: true}, hist,
				func(prop, sig, msg string, u *ledger.Universe, h []ledger.Event) {
					report("C12", "ledger-"+sig, msg, u, h)
				}, &cst)
			st.Evaluations += cst.Evaluations
			return nil
		})
	}

	if err := visit(nil); err != nil {
		return st, err
	}
	for len(queue) > 0 {
		cur := states[queue[0]]
		queue = queue[1:]
		ref := ledger.NewRef(b)
		var evs []ledger.Event
		// reference state of cur (lease outcomes follow the implementation in
		// the unspecified cases, so recompute it with the implementation)
		exec(cur.hist, func(ns walletdb.ReadWriteBucket, r *ledger.Ref, s *wtxmgr.Store, _ string) error {
			ref = r
			return nil
		})
		evs = append(evs, ref.Enabled(cfg.MaxH, cfg.NIDs)...)
		for l := 0; l < cfg.NLocks; l++ {
			for oi := range targets {
				evs = append(evs, ledger.Event{Kind: "lease", Lock: l, Op: oi, Dur: cfg.Dur})
				evs = append(evs, ledger.Event{Kind: "release", Lock: l, Op: oi})
			}
		}
		if ref.Now-base < int64(cfg.MaxTicks) {
			evs = append(evs, ledger.Event{Kind: "tick"})
		}
		evs = append(evs, ledger.Event{Kind: "sweep"}, ledger.Event{Kind: "restart"})
		for _, e := range evs {
			h2 := append(append([]ledger.Event{}, cur.hist...), e)
			st.Transitions++
			if e.Kind == "lease" || e.Kind == "release" {
				st.LeaseOps++
			}
			if err := visit(h2); err != nil {
				report("C12", "event-failed:"+e.Kind, err.Error(), u, h2)
			}
			if (cfg.MaxStates > 0 && len(states) >= cfg.MaxStates) || nviol >= 400 {
				// (a tree with hundreds of violating histories in one universe is not explored to
				// the end: its state space need not be finite any more)
				st.Capped = true
				queue = nil
				break
			}
		}
	}
	st.States = len(states)
	st.Refused = st.OutcomeKinds["lease-refused"] + st.OutcomeKinds["release-refused"]
	st.Expiries = st.OutcomeKinds["lease-after-expiry"]
	if len(states) > 1 {
		s := states[len(states)-1]
		st.Sample = u.String() + " :: " + ledger.HistString(s.hist) + " => " + s.refKey
	}
	if cfg.RealRestart {
		n, err := realRestarts(env, b, cfg, states, targets, report)
		st.RealRestarts = n
		if err != nil {
			return st, err
		}
	}
	return st, nil
}

func leaseRefKey(ref *ledger.Ref) string {
	var ls []string
	for op, l := range ref.Leases {
		if ref.Now < l.Expiry {
			ls = append(ls, fmt.Sprintf("%s=L%d@%d", opName(ref.B, op), l.Lock, l.Expiry-ref.Now))
		}
	}
	sort.Strings(ls)
	return ref.FactsKey() + fmt.Sprintf(";now+%d;", ref.Now-ledger.NewRef(ref.B).Now) + strings.Join(ls, ",")
}

// realRestarts re-executes the shortest history of every state with real
// commits on a fresh database file, closes it, reopens it and compares the
// lease list, balances and unspent set with the model ("leases survive
// restart").
func realRestarts(env *Env, b *ledger.Built, cfg LeaseConfig, states []*leaseState, targets []wire.OutPoint, report Report) (int, error) {
	n := 0
	base := ledger.NewRef(b).Now
	for _, sr := range states {
		e2, err := newEnvPath(env.path + ".rr")
		if err != nil {
			return n, err
		}
		clk := clock.NewTestClock(time.Unix(base, 0))
		e2.Store.VerifSetClock(clk)
		ref := ledger.NewRef(b)
		s := e2.Store
		for _, e := range sr.hist {
			if e.Kind == "restart" {
				continue
			}
			err := walletdb.Update(e2.DB, func(tx walletdb.ReadWriteTx) error {
				_, err := applyLeaseEvent(s, clk, tx.ReadWriteBucket(nsKey), ref, targets, e, cfg.Dur, func(string, string) {})
				return err
			})
			if err != nil {
				e2.Close()
				return n, err
			}
		}
		path := e2.path
		e2.DB.Close()
		db, err := walletdb.Open("bdb", path, true, time.Minute, false)
		if err != nil {
			return n, err
		}
		err = walletdb.View(db, func(tx walletdb.ReadTx) error {
			ns := tx.ReadBucket(nsKey)
			s2, err := wtxmgr.Open(ns, Params())
			if err != nil {
				return err
			}
			s2.VerifSetClock(clk)
			fail := func(sig, msg string) {
				report("C12", "restart:"+sig, msg+" after real close/reopen following ["+ledger.HistString(sr.hist)+"] in "+b.U.String(), b.U, sr.hist)
			}
			checkLeaseState(s2, ns, ref, fail)
			for m := 0; m <= 1; m++ {
				got, err := s2.Balance(ns, int32(m), int32(cfg.MaxH))
				if err != nil || int64(got) != ref.Balance(m, cfg.MaxH, Maturity) {
					fail("balance", fmt.Sprintf("Balance(%d,%d)=%d (%v), ledger says %d", m, cfg.MaxH, got, err, ref.Balance(m, cfg.MaxH, Maturity)))
				}
			}
			return nil
		})
		db.Close()
		e2.Close()
		if err != nil {
			return n, err
		}
		n++
	}
	return n, nil
}

// ReplayLeaseHistory re-executes one lease history without the explorer and
// evaluates all oracles after every prefix.
func ReplayLeaseHistory(env *Env, b *ledger.Built, cfg LeaseConfig, hist []ledger.Event, report Report) {
	targets := Targets(b)
	base := ledger.NewRef(b).Now
	for n := 1; n <= len(hist); n++ {
		h := hist[:n]
		err := env.InTx(func(ns walletdb.ReadWriteBucket) error {
			s, err := wtxmgr.Open(ns, Params())
			if err != nil {
				return err
			}
			clk := clock.NewTestClock(time.Unix(base, 0))
			s.VerifSetClock(clk)
			ref := ledger.NewRef(b)
			for i, e := range h {
				fail := func(sig, msg string) {
					if i == len(h)-1 {
						report("C12", sig, msg, b.U, h)
					}
				}
				if e.Kind == "restart" {
					s, _ = wtxmgr.Open(ns, Params())
					s.VerifSetClock(clk)
					continue
				}
				if _, err := applyLeaseEvent(s, clk, ns, ref, targets, e, cfg.Dur, fail); err != nil {
					return err
				}
			}
			fail := func(sig, msg string) { report("C12", sig, msg, b.U, h) }
			checkLeaseState(s, ns, ref, fail)
			var cst Stats
			checkState(&Env{DB: env.DB, Store: s}, ns, ref, Config{MaxH: cfg.MaxH, NIDs: cfg.NIDs, C01: true}, h,
				func(prop, sig, msg string, u *ledger.Universe, hh []ledger.Event) {
					report("C12", "ledger-"+sig, msg, u, hh)
				}, &cst)
			return nil
		})
		if err != nil {
			report("C12", "event-failed", err.Error(), b.U, h)
		}
	}
}
