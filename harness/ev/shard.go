package ev

import (
	"encoding/json"
	"fmt"
	"os"
	"os/exec"
	"path/filepath"
	"sort"
	"strconv"
	"strings"
	"sync"
)

// Sharding by process: several checks open thousands of bbolt files; inside one
// process mmap/munmap serialise on the address-space lock, so work is split
// over worker subprocesses. A worker is the same binary with VERIF_SHARD=i/n.
// Workers call Finish as usual; in shard mode Finish writes the partial result
// to VERIF_SHARD_DIR instead of the evidence file. The parent merges.

var shardRuns int

type shardOut struct {
	Violations []*Violation `json:"violations"`
	Cov        Coverage     `json:"coverage"`
}

// Shard returns this process's shard index and count (0,1 when unsharded).
func Shard() (int, int) {
	s := os.Getenv("VERIF_SHARD")
	if s == "" {
		return 0, 1
	}
	p := strings.Split(s, "/")
	i, _ := strconv.Atoi(p[0])
	n, _ := strconv.Atoi(p[1])
	if n < 1 {
		n = 1
	}
	return i, n
}

// Mine reports whether work item k belongs to this shard.
func Mine(k int) bool {
	i, n := Shard()
	return k%n == i
}

// IsWorker reports whether this process is a shard worker.
func IsWorker() bool { return os.Getenv("VERIF_SHARD") != "" }

func (r *Run) finishShard(cov Coverage) {
	var out shardOut
	for _, k := range r.order {
		out.Violations = append(out.Violations, r.bySig[k])
	}
	out.Cov = cov
	i, _ := Shard()
	b, err := json.Marshal(out)
	if err != nil {
		Fatal("shard marshal: %v", err)
	}
	p := filepath.Join(os.Getenv("VERIF_SHARD_DIR"), fmt.Sprintf("shard-%d.json", i))
	if err := os.WriteFile(p, b, 0o644); err != nil {
		Fatal("shard write: %v", err)
	}
	Cleanup()
	os.Exit(0)
}

// RunSharded re-executes the current command in n worker processes and merges
// their partial results into run; it returns the merged coverage. Numeric
// values are summed, booleans AND-ed, lists concatenated (capped), keys ending
// in "@set" (lists of strings) are unioned and replaced by their count under
// the key without the suffix.
func (r *Run) RunSharded(n int, cmdArgs []string) Coverage {
	return r.RunShardedBin(os.Args[0], nil, n, cmdArgs)
}

// RunShardedBin is RunSharded with an explicit worker binary and extra
// environment (used for build variants of the same check).
func (r *Run) RunShardedBin(bin string, extraEnv []string, n int, cmdArgs []string) Coverage {
	shardRuns++
	dir := filepath.Join(Scratch(), fmt.Sprintf("shards-%d", shardRuns))
	os.MkdirAll(dir, 0o755)
	var wg sync.WaitGroup
	errs := make([]error, n)
	outs := make([][]byte, n)
	for i := 0; i < n; i++ {
		wg.Add(1)
		go func(i int) {
			defer wg.Done()
			c := exec.Command(bin, cmdArgs...)
			c.Env = append(os.Environ(), fmt.Sprintf("VERIF_SHARD=%d/%d", i, n), "VERIF_SHARD_DIR="+dir,
				"VERIF_TIER="+r.Tier, "GOMAXPROCS=2")
			c.Env = append(c.Env, extraEnv...)
			b, err := c.CombinedOutput()
			outs[i], errs[i] = b, err
		}(i)
	}
	wg.Wait()
	merged := Coverage{}
	sets := map[string]map[string]bool{}
	for i := 0; i < n; i++ {
		if errs[i] != nil {
			Fatal("shard %d failed: %v\n%s", i, errs[i], string(outs[i]))
		}
		b, err := os.ReadFile(filepath.Join(dir, fmt.Sprintf("shard-%d.json", i)))
		if err != nil {
			Fatal("shard %d wrote no result: %v\n%s", i, err, string(outs[i]))
		}
		var so shardOut
		if err := json.Unmarshal(b, &so); err != nil {
			Fatal("shard %d: %v", i, err)
		}
		for _, v := range so.Violations {
			key := v.Prop + "|" + v.Sig
			if old, ok := r.bySig[key]; ok {
				old.Count += v.Count
				if rank(v) < rank(old) {
					v.Count = old.Count
					r.bySig[key] = v
				}
			} else {
				r.bySig[key] = v
				r.order = append(r.order, key)
			}
		}
		for k, v := range so.Cov {
			if strings.HasSuffix(k, "@max") {
				if f, ok := v.(float64); ok {
					kk := strings.TrimSuffix(k, "@max")
					if old, ok := merged[kk].(int); !ok || int(f) > old {
						merged[kk] = int(f)
					}
				}
				continue
			}
			if strings.HasSuffix(k, "@set") {
				if sets[k] == nil {
					sets[k] = map[string]bool{}
				}
				if l, ok := v.([]interface{}); ok {
					for _, x := range l {
						sets[k][fmt.Sprint(x)] = true
					}
				}
				continue
			}
			switch x := v.(type) {
			case float64:
				if old, ok := merged[k].(int); ok {
					merged[k] = old + int(x)
				} else {
					merged[k] = int(x)
				}
			case bool:
				if old, ok := merged[k].(bool); ok {
					merged[k] = old && x
				} else {
					merged[k] = x
				}
			case []interface{}:
				old, _ := merged[k].([]interface{})
				for _, e := range x {
					if len(old) < 8 {
						old = append(old, e)
					}
				}
				merged[k] = old
			case map[string]interface{}:
				old, _ := merged[k].(map[string]int)
				if old == nil {
					old = map[string]int{}
				}
				for kk, vv := range x {
					if f, ok := vv.(float64); ok {
						old[kk] += int(f)
					}
				}
				merged[k] = old
			default:
				if _, ok := merged[k]; !ok {
					merged[k] = v
				}
			}
		}
	}
	for k, s := range sets {
		merged[strings.TrimSuffix(k, "@set")] = len(s)
	}
	sort.Strings(r.order)
	merged["worker_processes"] = n
	return merged
}

// rank orders witnesses: shorter serialized replay first.
func rank(v *Violation) int {
	b, _ := json.Marshal(v.Replay)
	return len(b)
}
