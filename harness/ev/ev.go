// Package ev holds what every check shares: run bookkeeping, violation and
// known-finding handling, and the evidence writer.
package ev

import (
	"bufio"
	"encoding/json"
	"fmt"
	"os"
	"path/filepath"
	"sort"
	"strconv"
	"strings"
	"sync"
	"time"
)

const VerifDir = "/verif"

// Run is one invocation of one check.
type Run struct {
	Prop  string
	Tier  string
	Seed  int64
	Level string // evidence level

	start time.Time
	mu    sync.Mutex

	known      []knownEntry
	knownHit   map[int]int // index in known -> count
	bySig      map[string]*Violation
	order      []string
	Assumption []string
	deadline   time.Time
}

type knownEntry struct {
	prop, sig, desc string
}

// Violation is one oracle failure class (signature) with its first (smallest)
// witness.
type Violation struct {
	Sig    string      `json:"signature"`
	Msg    string      `json:"message"`
	Replay interface{} `json:"replay"`
	Count  int         `json:"count"`
	Prop   string      `json:"property"`
}

// NewRun reads tier/seed from the arguments/environment.
func NewRun(prop, level string, args []string) *Run {
	tier := os.Getenv("VERIF_TIER")
	if len(args) > 0 && (args[0] == "quick" || args[0] == "thorough") {
		tier = args[0]
	}
	if tier != "thorough" {
		tier = "quick"
	}
	var seed int64
	if s := os.Getenv("VERIF_SEED"); s != "" {
		seed, _ = strconv.ParseInt(s, 10, 64)
	}
	r := &Run{Prop: prop, Tier: tier, Seed: seed, Level: level,
		start: time.Now(), knownHit: map[int]int{}, bySig: map[string]*Violation{}}
	r.loadKnown()
	// Internal deadline: a run that reaches it stops with exhaustive:false.
	d := 25 * time.Minute
	if tier == "thorough" {
		d = 100 * time.Minute
	}
	if s := os.Getenv("VERIF_DEADLINE_S"); s != "" {
		if n, err := strconv.Atoi(s); err == nil {
			d = time.Duration(n) * time.Second
		}
	}
	r.deadline = r.start.Add(d)
	return r
}

// Thorough reports whether the thorough tier was requested.
func (r *Run) Thorough() bool { return r.Tier == "thorough" }

// Expired reports whether the internal deadline passed.
func (r *Run) Expired() bool { return time.Now().After(r.deadline) }

func (r *Run) loadKnown() {
	f, err := os.Open(filepath.Join(VerifDir, "known_findings.txt"))
	if err != nil {
		return
	}
	defer f.Close()
	sc := bufio.NewScanner(f)
	for sc.Scan() {
		line := strings.TrimSpace(sc.Text())
		if !strings.HasPrefix(line, "finding:") {
			continue // "fixed:" entries suppress nothing
		}
		var e knownEntry
		rest := strings.TrimSpace(strings.TrimPrefix(line, "finding:"))
		fs := strings.Fields(rest)
		var desc []string
		for _, f := range fs {
			switch {
			case strings.HasPrefix(f, "property=") && e.prop == "":
				e.prop = strings.TrimPrefix(f, "property=")
			case strings.HasPrefix(f, "sig=") && e.sig == "":
				e.sig = strings.TrimPrefix(f, "sig=")
			default:
				desc = append(desc, f)
			}
		}
		e.desc = strings.Join(desc, " ")
		if e.prop != "" && e.sig != "" {
			r.known = append(r.known, e)
		}
	}
}

// Violation records an oracle failure. sig identifies the failure class
// (property clause + exposing operation/site); only the first witness per
// signature is kept (exploration is smallest-first, so it is the shortest).
func (r *Run) Violation(sig, msg string, replay interface{}) {
	r.ViolationFor(r.Prop, sig, msg, replay)
}

// ViolationFor is Violation for an explicit property id.
func (r *Run) ViolationFor(prop, sig, msg string, replay interface{}) {
	r.mu.Lock()
	defer r.mu.Unlock()
	key := prop + "|" + sig
	if v, ok := r.bySig[key]; ok {
		v.Count++
		return
	}
	r.bySig[key] = &Violation{Sig: sig, Msg: msg, Replay: replay, Count: 1, Prop: prop}
	r.order = append(r.order, key)
}

// NumSigs returns the number of distinct failure signatures so far.
func (r *Run) NumSigs() int {
	r.mu.Lock()
	defer r.mu.Unlock()
	return len(r.bySig)
}

func (r *Run) matchKnown(v *Violation) int {
	for i, k := range r.known {
		if k.prop != v.Prop {
			continue
		}
		if k.sig == v.Sig {
			return i
		}
		if strings.HasSuffix(k.sig, "*") && strings.HasPrefix(v.Sig, strings.TrimSuffix(k.sig, "*")) {
			return i
		}
	}
	return -1
}

// Coverage is the free-form coverage object of the evidence file.
type Coverage map[string]interface{}

// Finish prints VIOLATION / KNOWN-FINDING lines, writes the evidence file and
// exits 0 or 1.
func (r *Run) Finish(cov Coverage) {
	r.mu.Lock()
	defer r.mu.Unlock()
	if IsWorker() {
		r.finishShard(cov)
	}
	os.MkdirAll(filepath.Join(VerifDir, "replays"), 0o755)
	os.MkdirAll(filepath.Join(VerifDir, "evidence"), 0o755)

	nviol := 0
	knownPrinted := map[int]bool{}
	var knownLines, violLines []string
	keys := append([]string{}, r.order...)
	sort.Strings(keys)
	for _, key := range keys {
		v := r.bySig[key]
		if i := r.matchKnown(v); i >= 0 {
			r.knownHit[i] += v.Count
			if !knownPrinted[i] {
				knownPrinted[i] = true
				knownLines = append(knownLines, fmt.Sprintf("KNOWN-FINDING: property=%s sig=%s %s (e.g. %s)",
					v.Prop, r.known[i].sig, r.known[i].desc, oneLine(v.Msg)))
			}
			continue
		}
		nviol++
		path := filepath.Join(VerifDir, "replays", fmt.Sprintf("%s-%d.json", v.Prop, nviol))
		b, _ := json.MarshalIndent(v, "", " ")
		os.WriteFile(path, b, 0o644)
		violLines = append(violLines, fmt.Sprintf("VIOLATION property=%s replay=%s", v.Prop, path))
		fmt.Printf("  signature: %s\n  message:   %s\n  failing cases with this signature: %d\n", v.Sig, oneLine(v.Msg), v.Count)
	}
	for _, l := range knownLines {
		fmt.Println(l)
	}
	for _, l := range violLines {
		fmt.Println(l)
	}
	wall := time.Since(r.start).Seconds()
	if cov == nil {
		cov = Coverage{}
	}
	cov["known_findings_reported"] = len(knownLines)
	evd := map[string]interface{}{
		"property_id": r.Prop,
		"tier":        r.Tier,
		"seed":        r.Seed,
		"level":       r.Level,
		"coverage":    cov,
		"assumptions": r.Assumption,
		"wall_s":      wall,
		"violations":  nviol,
	}
	if r.Assumption == nil {
		evd["assumptions"] = []string{}
	}
	b, _ := json.MarshalIndent(evd, "", " ")
	if err := os.WriteFile(filepath.Join(VerifDir, "evidence", r.Prop+".json"), b, 0o644); err != nil {
		fmt.Fprintln(os.Stderr, "cannot write evidence:", err)
		os.Exit(2)
	}
	fmt.Printf("%s %s: wall=%.1fs violations=%d known=%d coverage=%s\n", r.Prop, r.Tier, wall, nviol, len(knownLines), summary(cov))
	Cleanup()
	if nviol > 0 {
		os.Exit(1)
	}
	os.Exit(0)
}

func summary(c Coverage) string {
	var ks []string
	for k, v := range c {
		switch v.(type) {
		case int, int64, bool, uint64, int32:
			ks = append(ks, fmt.Sprintf("%s=%v", k, v))
		}
	}
	sort.Strings(ks)
	return strings.Join(ks, " ")
}

func oneLine(s string) string {
	s = strings.ReplaceAll(s, "\n", " | ")
	if len(s) > 600 {
		s = s[:600] + "..."
	}
	return s
}

// Fatal is a harness error: exit 2, never a VIOLATION.
func Fatal(format string, a ...interface{}) {
	fmt.Fprintf(os.Stderr, "HARNESS-ERROR: "+format+"\n", a...)
	Cleanup()
	os.Exit(2)
}

// Scratch returns a per-process scratch directory on tmpfs.
func Scratch() string {
	base := "/dev/shm"
	if st, err := os.Stat(base); err != nil || !st.IsDir() {
		base = os.TempDir()
	}
	d := filepath.Join(base, fmt.Sprintf("verif-%d", os.Getpid()))
	os.MkdirAll(d, 0o755)
	return d
}

// Cleanup removes the scratch directory.
func Cleanup() { os.RemoveAll(Scratch()) }
