// Package c20 checks property C20 "a rejected broadcast leaves no trace;
// unconfirmed sends are re-offered" by bounded exhaustive enumeration of
// wallet histories x backend answers, executed on the real wallet (wsim).
package c20

import (
	"encoding/json"
	"fmt"
	"os"
	"path/filepath"
	"sort"
	"strings"

	"verif/harness/ev"
)

// ShardArgsPrefix is prepended to the arguments when the binary re-executes
// itself as a shard worker (the integration binary dispatches on a leading
// subcommand).
var ShardArgsPrefix []string

const workers = 16

// plan returns the histories in simplest-first order.
func plan(thorough bool) []History {
	var p []History
	eps := []string{"send", "publish"}
	syncs := []string{"restart", "rescan"}
	type fund struct {
		coins int
		lease bool
	}
	funds := []fund{{1, false}, {2, false}, {2, true}}

	// (a) one broadcast, every answer class, every funding and entry point
	for _, f := range funds {
		for _, e := range eps {
			p = append(p, History{Coins: f.coins, Lease: f.lease, EP1: e, A1: "full"})
		}
	}
	// (b) one broadcast then a resynchronisation (with and without the
	// confirming block)
	for _, f := range funds {
		for _, e := range eps {
			for _, sy := range syncs {
				for _, cf := range []bool{false, true} {
					a1 := "reduced"
					if thorough && f.coins == 1 {
						a1 = "full"
					}
					p = append(p, History{Coins: f.coins, Lease: f.lease, EP1: e, Confirm: cf, End: sy, A1: a1})
				}
			}
		}
	}
	// (c) two broadcasts (S2 child of S1), no resynchronisation: product of
	// the answer classes
	for _, f := range funds {
		for _, e1 := range eps {
			for _, e2 := range eps {
				switch {
				case thorough && f.coins == 1 && e1 == e2:
					p = append(p, History{Coins: 1, EP1: e1, EP2: e2, A1: "full", A2: "full"})
				case (thorough && (e1 == e2 || f.coins == 1)) || (f.coins == 1 && e1 == e2):
					p = append(p, History{Coins: f.coins, Lease: f.lease, EP1: e1, EP2: e2, A1: "full", A2: "reduced"})
					p = append(p, History{Coins: f.coins, Lease: f.lease, EP1: e1, EP2: e2, A1: "reduced", A2: "extra"})
				default:
					p = append(p, History{Coins: f.coins, Lease: f.lease, EP1: e1, EP2: e2, A1: "reduced", A2: "reduced"})
				}
			}
		}
	}
	// (d) two broadcasts with resynchronisations between and after them
	// (reduced alphabets at the initial broadcasts)
	for _, f := range funds {
		for _, e1 := range eps {
			for _, e2 := range eps {
				for _, mid := range []string{"", "restart", "rescan"} {
					for _, end := range []string{"", "restart", "rescan"} {
						for _, cf := range []bool{false, true} {
							if mid == "" && end == "" {
								continue // covered by (c)
							}
							if cf && end == "" {
								continue // the block is only interesting before a resynchronisation
							}
							mixed := mid != "" && end != "" && mid != end
							rescan := mid == "rescan" || end == "rescan"
							if thorough {
								if mixed && (f.coins == 2 || e1 != "send" || e2 != "send") {
									continue
								}
								if f.lease && (e1 != "send" || e2 != "send") {
									continue
								}
							} else {
								switch {
								case f.lease || mixed:
									continue
								case f.coins == 2 && (e1 != "send" || e2 != "send" || cf || rescan):
									continue
								case f.coins == 1 && rescan && (e1 != "send" || e2 != "send"):
									continue
								case f.coins == 1 && e1 != e2 && (cf || (mid != "" && end != "")):
									continue
								case f.coins == 2 && mid != "":
									continue
								case rescan && mid != "" && end != "" && !(f.coins == 1 && e1 == "send" && e2 == "send" && !cf):
									// (kept: two rescans with no block in between, so that the second
									// resynchronisation ends at the height of the first)
									continue
								case e1 == "publish" && cf && mid != "":
									continue
								}
							}
							p = append(p, History{Coins: f.coins, Lease: f.lease, EP1: e1, Mid: mid, EP2: e2,
								Confirm: cf, End: end, A1: "reduced", A2: "reduced"})
						}
					}
				}
			}
		}
	}
	// (e) two (thorough: also three) INDEPENDENT unconfirmed transactions,
	// each spending exactly its own coin, optionally a child of the first,
	// then a resynchronisation: every answer class at every rebroadcast
	// position
	for _, n := range []int{2, 3} {
		for _, e := range eps {
			for _, child := range []bool{false, true} {
				for _, end := range syncs {
					if n == 3 && (!thorough || e != "send") {
						continue
					}
					if !thorough && e == "publish" && child {
						continue
					}
					p = append(p, History{Coins: n, Indep: n, Child: child, EP1: e, End: end})
				}
			}
		}
	}
	// (f) S1 accepted, then the wallet learns of an external unconfirmed
	// transaction E1 spending S1's EXTERNAL payment output and paying the
	// wallet; optionally a wallet child S2 (spends S1's change and E1's
	// output); then a resynchronisation: every answer class for every
	// rebroadcast position (a rejected S1 must take E1 and S2 with it)
	for _, e1 := range eps {
		for _, end := range syncs {
			if !thorough && e1 == "publish" {
				continue
			}
			p = append(p, History{Coins: 1, EP1: e1, ExtChild: true, End: end, A1: "reduced"})
		}
	}
	for _, e := range eps {
		for _, end := range syncs {
			if !thorough && (e != "send" || end != "restart") {
				continue
			}
			a2 := "tiny"
			if thorough && e == "send" && end == "restart" {
				a2 = "reduced"
			}
			p = append(p, History{Coins: 1, EP1: e, ExtChild: true, EP2: e, End: end, A1: "tiny", A2: a2})
		}
	}
	// (g) backend kinds: the wallet asks its backend what it is
	// (chain.Interface.BackEnd) and may treat kinds differently, so the
	// resynchronisation histories with at least two unconfirmed
	// transactions including a parent/child pair are repeated for every
	// backend kind, all answers accept, with HELD hand-overs (see
	// History.Kind): offered exactly the unconfirmed set, each once, and no
	// child before or while its parent is handed over
	for _, kind := range backendKinds {
		for _, end := range syncs {
			// T1, T2 independent, C1 child of T1
			p = append(p, History{Kind: kind, Coins: 2, Indep: 2, Child: true, EP1: "send", End: end, AR: "accept"})
			// S1 and its child S2
			p = append(p, History{Kind: kind, Coins: 1, EP1: "send", EP2: "send", End: end, A1: "accept", A2: "accept", AR: "accept"})
		}
		// S1, external child E1 of S1, wallet child S2 of both
		p = append(p, History{Kind: kind, Coins: 1, EP1: "send", ExtChild: true, EP2: "send", End: "restart", A1: "accept", A2: "accept", AR: "accept"})
		p = append(p, History{Kind: kind, Coins: 2, Indep: 2, Child: true, EP1: "publish", End: "restart", AR: "accept"})
		if thorough {
			for _, end := range syncs {
				p = append(p, History{Kind: kind, Coins: 3, Indep: 3, Child: true, EP1: "send", End: end, AR: "accept"})
				p = append(p, History{Kind: kind, Coins: 1, EP1: "publish", EP2: "publish", End: end, A1: "accept", A2: "accept", AR: "accept"})
				p = append(p, History{Kind: kind, Coins: 1, EP1: "send", Mid: end, EP2: "send", End: end, A1: "accept", A2: "accept", AR: "accept"})
				// every answer class at every rebroadcast position
				p = append(p, History{Kind: kind, Coins: 2, Indep: 2, Child: true, EP1: "send", End: end})
			}
			p = append(p, History{Kind: kind, Coins: 1, EP1: "send", ExtChild: true, EP2: "send", End: "rescan", A1: "accept", A2: "accept", AR: "accept"})
		}
	}
	// (h) raw backend answers end to end: for every curated "the backend
	// already has it" message and every real client kind that receives it,
	// the backend answers the initial broadcast of S1 (or, for the
	// in-mempool class, its rebroadcast) with the RAW error and maps it with
	// the real client's MapRPCErr
	cls, _ := realClients()
	for _, cl := range cls {
		for _, rc := range rawCases() {
			if !rc.E2E || !rc.sentTo(cl.ID) {
				continue
			}
			for _, e := range eps {
				if !thorough && e == "publish" && rc.Class != kInMempool {
					continue
				}
				p = append(p, History{Client: cl.ID, Raw: rc.ID, Coins: 1, EP1: e, A1: "raw"})
			}
			if rc.Class != kInMempool {
				continue // the record is left open by the statement
			}
			for _, end := range syncs {
				p = append(p, History{Client: cl.ID, Raw: rc.ID, Coins: 1, EP1: "send", End: end, A1: "accept", AR: "raw"})
			}
		}
	}
	return p
}

var backendKinds = []string{"btcd", "bitcoind", "neutrino"}

// firstArity is the number of alternatives of the first choice point of a
// history (the work items are (history, first choice)).
func firstArity(al *alphabets, h History) int {
	dummy := &Answer{}
	if h.Indep > 0 {
		return len(resendAl(al, h, dummy))
	}
	return len(initialAl(al, h, 1, dummy))
}

// claim decides which worker process runs work item k: first come, first
// served through an exclusive file in the shard directory (all workers
// enumerate the same items in the same order); without a shard directory the
// static assignment ev.Mine is used.
func claim(k int) bool {
	dir := os.Getenv("VERIF_SHARD_DIR")
	if !ev.IsWorker() || dir == "" {
		return ev.Mine(k)
	}
	f, err := os.OpenFile(filepath.Join(dir, fmt.Sprintf("claim-%d", k)), os.O_CREATE|os.O_EXCL|os.O_WRONLY, 0o644)
	if err != nil {
		return false
	}
	f.Close()
	return true
}

const rule = "every history of the plan (funding 1|2 coins, optional lease, S1 and optional child S2 through SendOutputs|PublishTransaction, optional restart|rescan resynchronisation between and after them, optional block confirming S1; and 2|3 independent transactions T1..Tn each spending its own coin, optional child of T1, then a restart|rescan resynchronisation; and S1 followed by an externally built unconfirmed transaction E1 that spends S1's external output and pays the wallet, optional wallet child S2, then a resynchronisation) x every backend answer at every broadcast (dynamic choice points, odometer enumeration); after each broadcasting call: error or rejecting answer => unconfirmed set, balances(0..3) and spendable set equal the observation before the call and the tx is unknown; accept/already-in-mempool => call succeeds, tx recorded exactly once, balance(0) = before - inputs + change; already-known/confirmed => call succeeds; after each resynchronisation: the backend was offered exactly the unconfirmed set, each once, parents first, rejected ones and their descendants are gone, their inputs are spendable again, their outputs no longer count and (when nothing unrelated was sent since) the state equals the observation before they were first sent; non-trivial = executions with at least one non-accept answer; PLUS (backend kinds) the resynchronisation histories with >= 2 unconfirmed transactions incl. a parent/child pair repeated with BackEnd() = btcd|bitcoind|neutrino, all answers accept (thorough: all classes), hand-overs held until the wallet is quiescent: a child started before or WHILE its parent is handed over violates parents-first; PLUS (raw backend answers) a curated table of real btcd/bitcoind/neutrino rejection messages x the real MapRPCErr of chain.RPCClient (old and new btcd), BitcoindClient, NeutrinoClient: already-in-mempool => ErrTxAlreadyInMempool, already-known/confirmed => ErrTxAlreadyKnown|ErrTxAlreadyConfirmed, genuine rejection => none of them, and each already-present message end to end through the wallet with that real mapping"

// Run is the entry point: args[0] = quick | thorough.
func Run(args []string) {
	if len(args) >= 2 && args[0] == "one" {
		runOne(args[1:])
		return
	}
	if len(args) >= 2 && args[0] == "replay" {
		// replay <file written by ev (replays/C20-N.json)> [repetitions]
		b, err := os.ReadFile(args[1])
		if err != nil {
			ev.Fatal("replay: %v", err)
		}
		var r struct {
			Replay struct {
				Kind    string          `json:"kind"`
				Client  string          `json:"client"`
				Case    string          `json:"case"`
				History json.RawMessage `json:"history"`
				Choices json.RawMessage `json:"choices"`
			} `json:"replay"`
		}
		if err := json.Unmarshal(b, &r); err != nil {
			ev.Fatal("replay: %v", err)
		}
		if r.Replay.Kind == "c20-raw" {
			os.Exit(rawReplay(r.Replay.Client, r.Replay.Case))
		}
		runOne(append([]string{string(r.Replay.History), string(r.Replay.Choices)}, args[2:]...))
		return
	}
	run := ev.NewRun("C20", "model_checking", args)
	al := buildAlphabets()
	if nc, nv, ok := sourceSentinelCounts(); ok {
		// errSentinel is unexported and not counted (prefix "Err")
		if nc != al.nRPC || nv != al.nVar {
			ev.Fatal("sentinel enumeration incomplete: source has %d RPCErr constants and %d error variables, enumerated %d and %d",
				nc, nv, al.nRPC, al.nVar)
		}
	}
	if !ev.IsWorker() {
		cov := run.RunSharded(workers, append(append([]string{}, ShardArgsPrefix...), args...))
		// part "raw backend answers": table over the real error mappings
		rt := rawTable()
		for _, v := range rt.Viols {
			run.Violation(v.Sig, v.Msg, v.Replay)
		}
		cov["raw_answer_cases"] = rt.Cases
		cov["raw_answer_cases_already_present"] = rt.Already
		cov["raw_answer_cases_genuine_rejection"] = rt.Rejections
		cov["raw_answer_mapping_calls"] = rt.Calls
		cov["raw_answer_real_clients"] = strings.Join(rt.Clients, ", ")
		cov["raw_answer_clients_unavailable"] = len(rt.Unavailable)
		cov["raw_answer_samples"] = rt.Samples
		if n, _ := cov["evaluations"].(int); true {
			cov["evaluations"] = n + rt.Cases
		}
		cov["rule"] = rule
		cov["bounds"] = fmt.Sprintf("coins<=3 (1e8,2e8,3e8, P2WPKH BIP84 account 0), <=2 wallet sends in a chain (S1, child S2) or <=3 independent sends plus one child (initial answers accept, all 6 answer classes at each of the <=4 rebroadcast positions), <=2 resynchronisations (restart|rescan), <=1 confirming block, <=1 lease; initial-broadcast alphabet full=%d answers (accept, in-mempool, wrapped in-mempool, known, confirmed, %d other sentinels, opaque, NotifyReceived failure, change-subscription failure) or reduced=%d; rebroadcast alphabet=%d; full x full product for two-broadcast histories without resynchronisation (thorough, 1 coin, both sends through the same entry point), full x reduced + reduced x (full minus reduced) or reduced x reduced otherwise; reduced alphabets in histories with resynchronisations between two sends",
			len(al.full), al.nRPC-3+al.nVar, len(al.reduced), len(al.resend))
		cov["histories"] = len(plan(run.Thorough()))
		cov["sentinel_errors_enumerated"] = al.nRPC + al.nVar
		if _, ok := cov["samples"]; !ok {
			cov["samples"] = []string{"(none)"}
		}
		run.Assumption = []string{
			"the backend is the scripted fake chain.Interface of wsim; every notification is fed by the harness (no unconfirmed RelevantTx echo of the wallet's own sends)",
			"already-known / already-confirmed answers: only success of the call is required, the record is left open by the statement",
			"a transaction whose ancestor was answered with a removing class in the same resynchronisation may or may not be re-offered",
			"the order in which independent transactions are re-offered is the wallet's (map iteration in its dependency sort); answers are enumerated per rebroadcast position, the oracle maps them to transactions through the backend's log",
			"backend kinds: only BackEnd() of the fake backend changes (btcd | bitcoind | neutrino), the notification order stays the btcd one; in those histories every rebroadcast hand-over is held inside the fake SendRawTransaction until all other wallet goroutines are parked (goroutine states, no delay), so 'a child is handed over while its parent's hand-over has not returned' is observed deterministically and counts as a violation of parents-first (counters resynchronisations_with_parent_child_pair_per_backend_kind, handovers_held, parent_child_pairs_checked_held, handovers_overlapping, hold_timeouts)",
			"raw backend answers: the message list is curated from the btcd, bitcoind and neutrino sources (not generated from chain/errors.go) and only pairs (message, client kind) that really occur are asserted: old btcd wording for chain.RPCClient with a backend version without testmempoolaccept and for chain.NeutrinoClient, current btcd wording for chain.RPCClient with a newer backend and for NeutrinoClient, bitcoind wording (incl. the '<code>: reason' / 'reason (code n)' formats and the v28 utxo-set wording) for chain.BitcoindClient; bitcoind reject reasons relayed by neutrino peers are not asserted. RPC clients are never-connected zero values (the cached backend version of rpcclient.Client is preset); neutrino errors are made by the real pushtx.ParseBroadcastError. already-in-mempool messages must map to chain.ErrTxAlreadyInMempool, already-known/confirmed ones to ErrTxAlreadyKnown or ErrTxAlreadyConfirmed, genuine rejections to none of the three (counters raw_answer_*); every 'already has it' message is also driven through the wallet (fake backend returning RealClient.MapRPCErr(raw error)) with the oracle of the scripted answers (counter raw_answers_end_to_end)",
		}
		if len(rt.Unavailable) > 0 {
			run.Assumption = append(run.Assumption, "real clients that could not be built without a connection: "+strings.Join(rt.Unavailable, "; "))
		}
		run.Finish(cov)
		return
	}

	hs := plan(run.Thorough())
	shard, _ := ev.Shard()
	execs, ops, evals, nontriv, resent, syncs, balSkips := 0, 0, 0, 0, 0, 0, 0
	states := map[string]bool{}
	classes := map[string]int{}
	eps := map[string]int{}
	kindSyncs := map[string]int{}
	rawE2E := map[string]int{}
	heldN, overlaps, pairsHeld, holdTO, rawExecs := 0, 0, 0, 0, 0
	var kindSamples []string
	var samples []string
	complete := true
	simID := shard * 1000000
	// Work items (history, first answer) are claimed largest-first (the
	// plan is simplest-first, so it is walked backwards) to keep the
	// worker processes evenly loaded; the smallest witness per signature
	// is selected below.
	type found struct {
		v      violation
		replay map[string]interface{}
		size   int
		count  int
	}
	best := map[string]*found{}
	k := 0
outer:
	for hi := len(hs) - 1; hi >= 0; hi-- {
		h := hs[hi]
		n1 := firstArity(al, h)
		for c1 := 0; c1 < n1; c1++ {
			k++
			if !claim(k) {
				continue
			}
			choices := []int{c1}
			for {
				if run.Expired() {
					complete = false
					break outer
				}
				res := runExec(al, h, choices, simID)
				execs++
				ops += res.Ops
				evals += res.Evals
				resent += res.Resent
				syncs += res.Syncs
				balSkips += res.BalSkips
				if res.NonTriv {
					nontriv++
				}
				for s := range res.States {
					states[s] = true
				}
				for c, n := range res.Classes {
					classes[c] += n
				}
				for e, n := range res.EPs {
					eps[e] += n
				}
				for e, n := range res.KindSyncs {
					kindSyncs[e] += n
				}
				for e, n := range res.RawE2E {
					rawE2E[e] += n
					rawExecs += n
				}
				heldN += res.Held
				overlaps += res.Overlaps
				pairsHeld += res.PairsHeld
				holdTO += res.HoldTimeouts
				if (h.Kind != "" || h.Client != "") && len(kindSamples) < 1 && res.Viol == nil {
					kindSamples = append(kindSamples, "["+h.String()+"] answers "+fmt.Sprint(res.Answers)+" :: "+strings.Join(res.Trace, " | "))
				}
				if res.Viol != nil {
					if strings.HasPrefix(res.Viol.Sig, "panic:") {
						simID++ // the wallet of that execution is abandoned
					}
					rp := map[string]interface{}{"kind": "c20", "history": h, "choices": res.Choices,
						"answers": res.Answers, "trace": res.Trace}
					b, _ := json.Marshal(rp)
					v := violation{Sig: res.Viol.Sig, Msg: res.Viol.Msg + " :: history [" + h.String() + "] answers " + fmt.Sprint(res.Answers)}
					if f := best[v.Sig]; f == nil {
						best[v.Sig] = &found{v: v, replay: rp, size: len(b), count: 1}
					} else {
						f.count++
						if len(b) < f.size {
							f.v, f.replay, f.size = v, rp, len(b)
						}
					}
				}
				if len(samples) < 2 && res.NonTriv && res.Viol == nil && len(res.Choices) >= 2 && execs%37 == 5 {
					samples = append(samples, "["+h.String()+"] answers "+fmt.Sprint(res.Answers)+" :: "+strings.Join(res.Trace, " | "))
				}
				// odometer over the dynamic choice points (the first one is
				// fixed by the work item)
				ch := res.Choices
				i := len(ch) - 1
				for ; i >= 1; i-- {
					if ch[i]+1 < res.Arity[i] {
						break
					}
				}
				if i < 1 {
					break
				}
				choices = append(append([]int{}, ch[:i]...), ch[i]+1)
			}
		}
	}
	var sigs []string
	for sg := range best {
		sigs = append(sigs, sg)
	}
	sort.Strings(sigs)
	for _, sg := range sigs {
		f := best[sg]
		for i := 0; i < f.count; i++ {
			run.Violation(f.v.Sig, f.v.Msg, f.replay)
		}
	}
	var sl []string
	for s := range states {
		sl = append(sl, s)
	}
	sort.Strings(sl)
	run.Finish(ev.Coverage{
		"states@set":                    sl,
		"transitions":                   ops,
		"traces_validated_against_impl": execs,
		"executions":                    execs,
		"evaluations":                   evals,
		"distinct_nontrivial":           nontriv,
		"rebroadcast_events_checked":    resent,
		"resynchronisations_checked":    syncs,
		"balance_checks_skipped":        balSkips,
		"broadcasts_per_answer_class":   classes,
		"initial_broadcasts_per_entry":  eps,
		"resynchronisations_with_parent_child_pair_per_backend_kind": kindSyncs,
		"handovers_held":                  heldN,
		"handovers_overlapping":           overlaps,
		"parent_child_pairs_checked_held": pairsHeld,
		"hold_timeouts":                   holdTO,
		"raw_answers_end_to_end":          rawExecs,
		"raw_answers_end_to_end_cases":    rawE2E,
		"samples_backend_kinds_and_raw":   kindSamples,
		"exhaustive":                      complete,
		"samples":                         samples,
	})
}

// runOne executes a single history (JSON) with a choice vector (JSON list)
// and prints its trace: `one '{"coins":1,"s1":"send"}' '[6]' [repeat]`.
func runOne(args []string) {
	var h History
	if err := json.Unmarshal([]byte(args[0]), &h); err != nil {
		ev.Fatal("history: %v", err)
	}
	var ch []int
	if len(args) > 1 {
		if err := json.Unmarshal([]byte(args[1]), &ch); err != nil {
			ev.Fatal("choices: %v", err)
		}
	}
	rep := 1
	if len(args) > 2 {
		fmt.Sscan(args[2], &rep)
	}
	al := buildAlphabets()
	bad := 0
	for i := 0; i < rep; i++ {
		res := runExec(al, h, ch, i)
		fmt.Printf("[%s] answers %v arity %v ops=%d evals=%d\n", h, res.Answers, res.Arity, res.Ops, res.Evals)
		for _, t := range res.Trace {
			fmt.Println("  ", t)
		}
		if res.Viol != nil {
			bad++
			fmt.Printf("  FAIL %s: %s\n", res.Viol.Sig, res.Viol.Msg)
		}
	}
	ev.Cleanup()
	if bad > 0 {
		os.Exit(1)
	}
}
