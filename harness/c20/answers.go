package c20

import (
	"errors"
	"fmt"
	"go/ast"
	"go/parser"
	"go/token"
	"strings"

	"github.com/btcsuite/btcwallet/chain"
)

// Answer kinds (the backend answer classes of the property statement).
const (
	kAccept       = "accept"
	kInMempool    = "already-in-mempool"
	kKnown        = "already-known"
	kConfirmed    = "already-confirmed"
	kOther        = "other-sentinel"
	kOpaque       = "opaque-error"
	kNotify       = "notify-received-failure" // NotifyReceived of reliablyPublishTransaction fails
	kNotifyChange = "notify-change-failure"   // NotifyReceived for the change address (tx creation) fails
)

// Answer is one backend answer to one broadcast attempt.
type Answer struct {
	Name string // unique name (for replays and samples)
	Kind string
	Err  error
}

// rejecting reports whether the answer means "the broadcast failed".
func (a Answer) rejecting() bool {
	return a.Kind == kOther || a.Kind == kOpaque || a.Kind == kNotify || a.Kind == kNotifyChange
}

// removing reports whether the wallet may drop the record on this answer.
func (a Answer) removing() bool {
	return a.rejecting() || a.Kind == kKnown || a.Kind == kConfirmed
}

var errNotify = errors.New("backend: NotifyReceived subscription failed")

// rpcSentinels enumerates every chain.RPCErr value: the constants are an iota
// block terminated by an unexported marker, every real value has its own
// message and the first value without one is the end marker.
func rpcSentinels() []chain.RPCErr {
	var l []chain.RPCErr
	for i := 0; i < 1000; i++ {
		e := chain.RPCErr(i)
		if e.Error() == "unknown error" {
			break
		}
		l = append(l, e)
	}
	return l
}

// sourceSentinelCounts parses /repo/chain/errors.go and counts the exported
// Err* constants of type RPCErr and the exported Err* error variables, to
// cross-check the programmatic enumeration. ok=false when the file cannot be
// read (then the cross-check is skipped).
func sourceSentinelCounts() (consts, vars int, ok bool) {
	fset := token.NewFileSet()
	f, err := parser.ParseFile(fset, "/repo/chain/errors.go", nil, 0)
	if err != nil {
		return 0, 0, false
	}
	for _, d := range f.Decls {
		g, isGen := d.(*ast.GenDecl)
		if !isGen {
			continue
		}
		for _, sp := range g.Specs {
			vs, isVal := sp.(*ast.ValueSpec)
			if !isVal {
				continue
			}
			for _, n := range vs.Names {
				if !strings.HasPrefix(n.Name, "Err") {
					continue
				}
				if g.Tok == token.CONST {
					consts++
				} else if g.Tok == token.VAR {
					vars++
				}
			}
		}
	}
	return consts, vars, true
}

// alphabets
type alphabets struct {
	full    []Answer // every answer class for an initial broadcast
	reduced []Answer // one representative per class, initial broadcast
	extra   []Answer // full minus reduced
	tiny    []Answer // accept and one rejecting representative
	accept  []Answer // accept only
	resend  []Answer // classes for a rebroadcast position
	nRPC    int
	nVar    int
}

func buildAlphabets() *alphabets {
	a := &alphabets{}
	acc := Answer{Name: "accept", Kind: kAccept}
	inm := Answer{Name: "ErrTxAlreadyInMempool", Kind: kInMempool, Err: chain.ErrTxAlreadyInMempool}
	inmW := Answer{Name: "wrapped(ErrTxAlreadyInMempool)", Kind: kInMempool,
		Err: fmt.Errorf("rpc: -26: %w", chain.ErrTxAlreadyInMempool)}
	kn := Answer{Name: "ErrTxAlreadyKnown", Kind: kKnown, Err: chain.ErrTxAlreadyKnown}
	cf := Answer{Name: "ErrTxAlreadyConfirmed", Kind: kConfirmed, Err: chain.ErrTxAlreadyConfirmed}
	opq := Answer{Name: "errors.New(boom)", Kind: kOpaque, Err: errors.New("boom")}
	nfy := Answer{Name: "NotifyReceived-fails", Kind: kNotify, Err: errNotify}
	nfc := Answer{Name: "NotifyReceived(change)-fails", Kind: kNotifyChange, Err: errNotify}
	rep := Answer{Name: "RPCErr:insufficient fee", Kind: kOther, Err: chain.ErrInsufficientFee}

	var others []Answer
	for _, e := range rpcSentinels() {
		switch e {
		case chain.ErrTxAlreadyInMempool, chain.ErrTxAlreadyKnown, chain.ErrTxAlreadyConfirmed:
			continue
		}
		others = append(others, Answer{Name: "RPCErr:" + e.Error(), Kind: kOther, Err: e})
	}
	a.nRPC = len(rpcSentinels())
	vars := []struct {
		n string
		e error
	}{{"ErrBackendVersion", chain.ErrBackendVersion}, {"ErrInvalidParam", chain.ErrInvalidParam},
		{"ErrUndefined", chain.ErrUndefined}}
	for _, v := range vars {
		others = append(others, Answer{Name: v.n, Kind: kOther, Err: v.e})
	}
	a.nVar = len(vars)

	a.full = append(a.full, acc, inm, kn, cf)
	a.full = append(a.full, others...)
	a.full = append(a.full, opq, inmW, nfy, nfc)
	a.reduced = []Answer{acc, inm, kn, cf, rep, opq, nfy, nfc}
	a.resend = []Answer{acc, inm, kn, cf, rep, opq}
	a.tiny = []Answer{acc, rep}
	a.accept = []Answer{acc}
	in := map[string]bool{}
	for _, e := range a.reduced {
		in[e.Name] = true
	}
	for _, e := range a.full {
		if !in[e.Name] {
			a.extra = append(a.extra, e)
		}
	}
	return a
}
