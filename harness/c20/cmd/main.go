// Development entry point of check C20.
package main

import (
	"os"

	"verif/harness/c20"
)

func main() { c20.Run(os.Args[1:]) }
