package c20

import (
	"fmt"
	"runtime/debug"
	"sort"
	"strings"
	"time"

	"github.com/btcsuite/btcd/btcutil"
	"github.com/btcsuite/btcd/chaincfg/chainhash"
	"github.com/btcsuite/btcd/txscript"
	"github.com/btcsuite/btcd/wire"
	"github.com/btcsuite/btcwallet/waddrmgr"
	"github.com/btcsuite/btcwallet/wallet"
	"github.com/btcsuite/btcwallet/walletdb"
	"github.com/btcsuite/btcwallet/wtxmgr"

	"verif/harness/ev"
	"verif/harness/wsim"
)

// History is one wallet history shape; the backend answers are the dynamic
// choice points of its execution.
type History struct {
	Coins   int    `json:"coins"`                // 1 or 2 confirmed P2WPKH coins (1e8, 2e8)
	Lease   bool   `json:"lease,omitempty"`      // LeaseOutput on the 2e8 coin before S1
	EP1     string `json:"s1"`                   // entry point of S1: send | publish
	Mid     string `json:"mid,omitempty"`        // resynchronisation between S1 and S2: restart | rescan
	EP2     string `json:"s2,omitempty"`         // entry point of S2 (child of S1 while S1 is recorded)
	Confirm bool   `json:"confirm_s1,omitempty"` // a block confirming S1 (if still unconfirmed)
	End     string `json:"end,omitempty"`        // final resynchronisation: restart | rescan
	A1      string `json:"alphabet_s1,omitempty"`
	A2      string `json:"alphabet_s2,omitempty"`
	// Indep > 0 selects the independent-sends shape instead: Indep coins,
	// transactions T1..Tn each spending exactly its own coin (entry point
	// EP1, explicit input), optionally a child C1 of T1, then the final
	// resynchronisation End whose per-position answers are enumerated.
	// ExtChild: after S1 the wallet is notified (unconfirmed RelevantTx) of
	// an externally built transaction E1 that spends S1's EXTERNAL payment
	// output and pays a fresh wallet address.
	ExtChild bool `json:"ext_child,omitempty"`
	Indep    int  `json:"independent,omitempty"`
	Child    bool `json:"child_of_t1,omitempty"`
	// AR selects the answer alphabet of the rebroadcast positions: "" = the
	// six answer classes, "accept" = accept only, "raw" = the raw answer Raw.
	AR string `json:"alphabet_resend,omitempty"`
	// Kind != "": the fake backend's BackEnd() says Kind (btcd | bitcoind |
	// neutrino) for the whole history and every rebroadcast hand-over is
	// HELD by the backend until the rest of the wallet is quiescent, so that
	// concurrent hand-overs are observed deterministically.
	Kind string `json:"backend,omitempty"`
	// Client/Raw: end-to-end "raw backend answer" history. The backend is of
	// the kind of the real client Client, its error mapping is that
	// client's real MapRPCErr, and the alphabets "raw" consist of the raw
	// error of the curated case Raw.
	Client string `json:"client,omitempty"`
	Raw    string `json:"raw,omitempty"`
}

func (h History) String() string {
	var p []string
	if h.Kind != "" {
		p = append(p, "backend="+h.Kind+"(held hand-overs)")
	}
	if h.Client != "" {
		p = append(p, "client="+h.Client+" raw="+h.Raw)
	}
	p = append(p, fmt.Sprintf("fund(%d)", h.Coins))
	if h.Lease {
		p = append(p, "lease(F2)")
	}
	if h.Indep > 0 {
		for i := 1; i <= h.Indep; i++ {
			p = append(p, fmt.Sprintf("T%d(F%d):%s", i, i, h.EP1))
		}
		if h.Child {
			p = append(p, "C1(T1:chg):"+h.EP1)
		}
		if h.End != "" {
			p = append(p, h.End)
		}
		return strings.Join(p, " ")
	}
	p = append(p, "S1:"+h.EP1)
	if h.ExtChild {
		p = append(p, "seen(E1 spends S1:ext)")
	}
	if h.Mid != "" {
		p = append(p, h.Mid)
	}
	if h.EP2 != "" {
		p = append(p, "S2:"+h.EP2)
	}
	if h.Confirm {
		p = append(p, "confirm(S1)")
	}
	if h.End != "" {
		p = append(p, h.End)
	}
	return strings.Join(p, " ")
}

// Obs is one observation of the wallet.
type Obs struct {
	Bal     [4]int64
	Unspent map[wire.OutPoint]int64
	Unmined []chainhash.Hash
	Epoch   int // number of blocks connected so far
	Tip     int32
	Leased  []wire.OutPoint
}

type violation struct {
	Sig, Msg string
}

// Result is what one execution reports.
type Result struct {
	History  History
	Choices  []int
	Arity    []int
	Answers  []string
	Trace    []string
	Ops      int
	Evals    int
	NonTriv  bool
	States   map[string]bool
	Classes  map[string]int
	EPs      map[string]int
	Resent   int // rebroadcast events checked
	Syncs    int
	BalSkips int
	Viol     *violation
	// backend-kind family / raw answers
	KindSyncs    map[string]int // resynchronisations with >= 2 unconfirmed transactions incl. a parent/child pair, per backend kind
	Held         int            // hand-overs held until quiescence
	Overlaps     int            // hand-overs started while another one was in progress
	PairsHeld    int            // parent/child pairs whose hand-overs were compared under hold
	HoldTimeouts int
	RawE2E       map[string]int // raw answers driven through the wallet: "client|case|initial/resend" -> n
}

type exec struct {
	al     *alphabets
	h      History
	in     []int
	pos    int
	res    *Result
	s      *wsim.Sim
	names  map[chainhash.Hash]string
	txs    map[string]*wire.MsgTx
	pre    map[string]*Obs // observation just before S<i> was first handed over
	ext    []byte
	leased *wire.OutPoint
	epoch  int
	where  string
	failed bool
	dirty  bool     // a wallet operation ran since the last quiescence wait
	order  []string // names of the wallet's sends in the order of their first hand-over
	raw    *Answer  // the raw answer of a raw-answer history
}

var scope84 = waddrmgr.KeyScopeBIP0084

func (x *exec) fail(sig, format string, a ...interface{}) {
	if x.failed {
		return
	}
	x.failed = true
	x.res.Viol = &violation{Sig: sig, Msg: fmt.Sprintf(format, a...)}
}

func (x *exec) tracef(format string, a ...interface{}) {
	x.res.Trace = append(x.res.Trace, fmt.Sprintf(format, a...))
}

func (x *exec) choose(al []Answer, what string) Answer {
	c := 0
	if x.pos < len(x.in) {
		c = x.in[x.pos]
	}
	if c >= len(al) {
		ev.Fatal("choice %d out of range %d at %s (%s)", c, len(al), what, x.h)
	}
	x.pos++
	x.res.Choices = append(x.res.Choices, c)
	x.res.Arity = append(x.res.Arity, len(al))
	a := al[c]
	x.res.Answers = append(x.res.Answers, what+"="+a.Name)
	x.res.Classes[a.Kind]++
	if a.Kind != kAccept {
		x.res.NonTriv = true
	}
	return a
}

func (x *exec) register(name string, tx *wire.MsgTx) {
	x.names[tx.TxHash()] = name
	x.txs[name] = tx
}

func (x *exec) txName(h chainhash.Hash) string {
	if n, ok := x.names[h]; ok {
		return n
	}
	return "X"
}

func (x *exec) opName(op wire.OutPoint) string {
	n := x.txName(op.Hash)
	tx := x.txs[n]
	if tx == nil || n[0] == 'F' || n[0] == 'E' || n == "X" || int(op.Index) >= len(tx.TxOut) {
		return fmt.Sprintf("%s:%d", n, op.Index)
	}
	if string(tx.TxOut[op.Index].PkScript) == string(x.ext) {
		return n + ":ext"
	}
	return n + ":chg"
}

// settle waits for quiescence if a wallet operation ran since the last wait
// (FinishRescans ends with a wait of its own).
func (x *exec) settle() {
	if x.dirty {
		x.s.Quiesce()
		x.dirty = false
	}
}

// observe quiesces the wallet and reads balances, spendable set and the set
// of unconfirmed transactions through the wallet's exported API.
func (x *exec) observe() *Obs {
	x.settle()
	o := &Obs{Unspent: map[wire.OutPoint]int64{}, Epoch: x.epoch}
	for m := 0; m < 4; m++ {
		b, err := x.s.W.CalculateBalance(int32(m))
		if err != nil {
			ev.Fatal("CalculateBalance(%d): %v (%s)", m, err, x.h)
		}
		o.Bal[m] = int64(b)
	}
	us, err := x.s.W.ListUnspent(0, 9999999, "")
	if err != nil {
		ev.Fatal("ListUnspent: %v", err)
	}
	for _, u := range us {
		h, err := chainhash.NewHashFromStr(u.TxID)
		if err != nil {
			ev.Fatal("txid: %v", err)
		}
		amt, err := btcutil.NewAmount(u.Amount)
		if err != nil {
			ev.Fatal("amount: %v", err)
		}
		o.Unspent[wire.OutPoint{Hash: *h, Index: u.Vout}] += int64(amt)
	}
	err = walletdb.View(x.s.DB, func(tx walletdb.ReadTx) error {
		ns := tx.ReadBucket([]byte("wtxmgr"))
		hs, err := x.s.W.TxStore.UnminedTxHashes(ns)
		for _, h := range hs {
			o.Unmined = append(o.Unmined, *h)
		}
		return err
	})
	if err != nil {
		ev.Fatal("UnminedTxHashes: %v", err)
	}
	o.Tip = x.s.SyncedTo().Height
	ls, err := x.s.W.ListLeasedOutputs()
	if err != nil {
		ev.Fatal("ListLeasedOutputs: %v", err)
	}
	for _, l := range ls {
		o.Leased = append(o.Leased, l.Outpoint)
	}
	x.res.States[x.render(o, true)] = true
	return o
}

func (x *exec) unminedTxs() map[chainhash.Hash]*wire.MsgTx {
	m := map[chainhash.Hash]*wire.MsgTx{}
	err := walletdb.View(x.s.DB, func(tx walletdb.ReadTx) error {
		ns := tx.ReadBucket([]byte("wtxmgr"))
		l, err := x.s.W.TxStore.UnminedTxs(ns)
		for _, t := range l {
			m[t.TxHash()] = t
		}
		return err
	})
	if err != nil {
		ev.Fatal("UnminedTxs: %v", err)
	}
	return m
}

func (x *exec) known(h chainhash.Hash) bool {
	var d *wtxmgr.TxDetails
	err := walletdb.View(x.s.DB, func(tx walletdb.ReadTx) error {
		ns := tx.ReadBucket([]byte("wtxmgr"))
		var err error
		d, err = x.s.W.TxStore.TxDetails(ns, &h)
		return err
	})
	if err != nil {
		ev.Fatal("TxDetails: %v", err)
	}
	return d != nil
}

// render gives the canonical text of an observation (transaction hashes are
// replaced by their role, so that the randomised change position does not
// matter).
func (x *exec) render(o *Obs, withConf bool) string {
	var us, um []string
	for op, a := range o.Unspent {
		us = append(us, fmt.Sprintf("%s=%d", x.opName(op), a))
	}
	sort.Strings(us)
	for _, h := range o.Unmined {
		um = append(um, x.txName(h))
	}
	sort.Strings(um)
	if withConf {
		var ls []string
		for _, op := range o.Leased {
			ls = append(ls, x.opName(op))
		}
		sort.Strings(ls)
		return fmt.Sprintf("tip=%d bal=%v unspent=%v unmined=%v leased=%v", o.Tip, o.Bal, us, um, ls)
	}
	return fmt.Sprintf("bal0=%d unspent=%v", o.Bal[0], us)
}

func sameUnspent(a, b *Obs) bool {
	if len(a.Unspent) != len(b.Unspent) {
		return false
	}
	for k, v := range a.Unspent {
		if w, ok := b.Unspent[k]; !ok || w != v {
			return false
		}
	}
	return true
}

func sameUnmined(a, b *Obs) bool {
	if len(a.Unmined) != len(b.Unmined) {
		return false
	}
	c := map[chainhash.Hash]int{}
	for _, h := range a.Unmined {
		c[h]++
	}
	for _, h := range b.Unmined {
		c[h]--
	}
	for _, n := range c {
		if n != 0 {
			return false
		}
	}
	return true
}

// sameObs compares two observations; balances with a confirmation
// requirement and the unconfirmed set are only comparable when no block was
// connected in between.
func sameObs(a, b *Obs) bool {
	if a.Bal[0] != b.Bal[0] || !sameUnspent(a, b) {
		return false
	}
	if a.Epoch == b.Epoch {
		if a.Bal != b.Bal || !sameUnmined(a, b) {
			return false
		}
	}
	return true
}

func count(l []chainhash.Hash, h chainhash.Hash) int {
	n := 0
	for _, e := range l {
		if e == h {
			n++
		}
	}
	return n
}

// runExec performs one execution of history h with the given choice prefix
// (missing choices default to 0 = accept).
func runExec(al *alphabets, h History, choices []int, simID int) (res *Result) {
	res = &Result{History: h, States: map[string]bool{}, Classes: map[string]int{}, EPs: map[string]int{},
		KindSyncs: map[string]int{}, RawE2E: map[string]int{}}
	x := &exec{al: al, h: h, in: choices, res: res, names: map[chainhash.Hash]string{},
		txs: map[string]*wire.MsgTx{}, pre: map[string]*Obs{}}
	wd := time.AfterFunc(60*time.Second, func() {
		ev.Fatal("execution hangs for more than 60 s at %s: %s answers=%v", x.where, h, res.Answers)
	})
	defer wd.Stop()
	clean := false
	defer func() {
		if r := recover(); r != nil {
			msg := fmt.Sprint(r)
			if strings.HasPrefix(msg, "wsim:") {
				ev.Fatal("%s at %s: %s answers=%v", msg, x.where, h, res.Answers)
			}
			st := string(debug.Stack())
			if len(st) > 1500 {
				st = st[:1500]
			}
			x.failed = false
			site := x.where
			if i := strings.Index(site, ":"); i >= 0 && strings.HasPrefix(site, "S") {
				site = "initial-broadcast" + site[i:]
			}
			x.fail("panic:"+site, "panic at %s: %v\n%s", x.where, r, st)
		}
		if x.s != nil {
			if clean || res.Viol == nil || !strings.HasPrefix(res.Viol.Sig, "panic:") {
				x.s.Close()
			}
		}
	}()
	if err := x.configureBackend(); err != nil {
		ev.Fatal("%v (%s)", err, h)
	}
	defer func() { wsim.NewBackendHook = nil }()
	x.run(simID)
	clean = true
	return res
}

// configureBackend installs the backend kind and the real error mapping of
// the history for every backend its Sim creates (Attach makes a new one at
// every restart).
func (x *exec) configureBackend() error {
	wsim.NewBackendHook = nil
	kind := x.h.Kind
	var mapper func(error) error
	if x.h.Client != "" {
		cl := clientByID(x.h.Client)
		if cl == nil {
			return fmt.Errorf("real client %q cannot be built", x.h.Client)
		}
		a, err := rawAnswer(x.h.Client, x.h.Raw)
		if err != nil {
			return err
		}
		x.raw = &a
		kind, mapper = cl.BackEnd, cl.Map
	}
	if kind == "" {
		return nil
	}
	wsim.NewBackendHook = func(b *wsim.Backend) {
		b.Kind = kind
		b.Mapper = mapper
	}
	return nil
}

// initialAl / resendAl give the alphabets of a history's choice points.
func initialAl(al *alphabets, h History, which int, raw *Answer) []Answer {
	name, ep := h.A1, h.EP1
	if which == 2 {
		name, ep = h.A2, h.EP2
	}
	switch name {
	case "accept":
		return al.accept
	case "raw":
		return []Answer{*raw}
	}
	return al.initial(name, ep)
}

func resendAl(al *alphabets, h History, raw *Answer) []Answer {
	switch h.AR {
	case "accept":
		return al.accept
	case "raw":
		return []Answer{*raw}
	}
	return al.resend
}

func (x *exec) run(simID int) {
	c := wsim.NewChain()
	x.where = "setup"
	s, err := wsim.NewSim(ev.Scratch(), simID, "A", c)
	if err != nil {
		ev.Fatal("NewSim: %v", err)
	}
	x.s = s
	if err := s.Open(0); err != nil {
		ev.Fatal("Open: %v", err)
	}
	s.Attach()
	x.resync("initial")
	if x.failed {
		return
	}
	if err := s.Unlock(); err != nil {
		ev.Fatal("Unlock: %v", err)
	}
	extAddr, err := btcutil.NewAddressWitnessPubKeyHash([]byte("c20-external-addr-20"), wsim.Params)
	if err != nil {
		ev.Fatal("ext addr: %v", err)
	}
	x.ext, _ = txscript.PayToAddrScript(extAddr)

	// funding: each coin in its own block, then one empty block
	for i := 1; i <= x.h.Coins; i++ {
		addr, err := s.W.NewAddress(0, scope84)
		if err != nil {
			ev.Fatal("NewAddress: %v", err)
		}
		tx := wsim.FundingTx(fmt.Sprintf("c20-f%d", i), addr, int64(i)*1e8)
		x.register(fmt.Sprintf("F%d", i), tx)
		s.Connect(c.NewBlock(c.Tip, "a", []*wire.MsgTx{tx}), wsim.StyleFiltered)
		x.epoch++
	}
	s.Connect(c.NewBlock(c.Tip, "a", nil), wsim.StyleFiltered)
	x.epoch++
	x.res.Ops++
	x.dirty = true
	x.tracef("fund %d coin(s)", x.h.Coins)

	if x.h.Lease {
		x.where = "lease"
		op := wire.OutPoint{Hash: x.txs["F2"].TxHash(), Index: 0}
		if _, err := s.W.LeaseOutput(wtxmgr.LockID{0xc2, 0x0}, op, time.Hour); err != nil {
			ev.Fatal("LeaseOutput: %v", err)
		}
		x.leased = &op
		x.dirty = true
		x.res.Ops++
		x.tracef("lease F2:0")
	}

	if x.h.Indep > 0 {
		x.runIndep()
		return
	}
	x.broadcast(1, x.h.EP1, initialAl(x.al, x.h, 1, x.raw))
	if x.failed {
		return
	}
	if x.h.ExtChild {
		x.seenExtChild()
	}
	if x.h.Mid != "" {
		x.resync(x.h.Mid)
		if x.failed {
			return
		}
	}
	if x.h.EP2 != "" {
		x.broadcast(2, x.h.EP2, initialAl(x.al, x.h, 2, x.raw))
		if x.failed {
			return
		}
	}
	if x.h.Confirm {
		x.confirmS1()
	}
	if x.h.End != "" {
		x.resync(x.h.End)
		if x.failed {
			return
		}
	}
	x.where = "final"
	x.observe()
}

func (a *alphabets) initial(which, ep string) []Answer {
	src := a.reduced
	switch which {
	case "full":
		src = a.full
	case "extra":
		src = a.extra
	case "tiny":
		return a.tiny
	}
	if ep != "publish" {
		return src
	}
	var l []Answer
	for _, e := range src {
		if e.Kind != kNotifyChange {
			l = append(l, e)
		}
	}
	return l
}

// sendSpec describes one initial hand-over.
type sendSpec struct {
	name    string
	ep      string
	minconf int32
	amt     int64           // 0: everything spendable minus 1e7
	inputs  []wire.OutPoint // explicit coins (SendOutputsWithInput / WithCustomSelectUtxos)
	al      []Answer        // answer alphabet (choice point); nil: fixed accept
}

// broadcast performs the initial hand-over of S<which> through entry point ep.
func (x *exec) broadcast(which int, ep string, al []Answer) {
	sp := sendSpec{name: fmt.Sprintf("S%d", which), ep: ep, minconf: 1, amt: 3e7, al: al}
	if which == 2 {
		sp.minconf, sp.amt = 0, 0
	}
	x.broadcastSpec(sp)
}

// runIndep: independent transactions T1..Tn (each spends exactly its own
// coin), optionally a child of T1, then a resynchronisation.
func (x *exec) runIndep() {
	for i := 1; i <= x.h.Indep; i++ {
		f := x.txs[fmt.Sprintf("F%d", i)]
		x.broadcastSpec(sendSpec{name: fmt.Sprintf("T%d", i), ep: x.h.EP1, minconf: 1, amt: 3e7,
			inputs: []wire.OutPoint{{Hash: f.TxHash(), Index: 0}}})
		if x.failed {
			return
		}
	}
	if x.h.Child {
		t1 := x.txs["T1"]
		if t1 == nil {
			ev.Fatal("T1 unknown (%s)", x.h)
		}
		for i, o := range t1.TxOut {
			if string(o.PkScript) != string(x.ext) {
				x.broadcastSpec(sendSpec{name: "C1", ep: x.h.EP1, minconf: 0, amt: o.Value / 2,
					inputs: []wire.OutPoint{{Hash: t1.TxHash(), Index: uint32(i)}}})
			}
		}
		if x.failed {
			return
		}
	}
	if x.h.End != "" {
		x.resync(x.h.End)
		if x.failed {
			return
		}
	}
	x.where = "final"
	x.observe()
}

// seenExtChild: while S1 is recorded as unconfirmed, the backend notifies an
// unconfirmed transaction E1 (built outside the wallet, unsigned) that spends
// S1's external payment output and pays a fresh wallet address.
func (x *exec) seenExtChild() {
	x.where = "seen:E1"
	s1 := x.txs["S1"]
	if s1 == nil {
		return
	}
	pre := x.observe()
	if count(pre.Unmined, s1.TxHash()) == 0 {
		x.tracef("E1 skipped: S1 is not recorded")
		return
	}
	addr, err := x.s.W.NewAddress(0, scope84)
	if err != nil {
		ev.Fatal("NewAddress: %v", err)
	}
	pk, err := txscript.PayToAddrScript(addr)
	if err != nil {
		ev.Fatal("script: %v", err)
	}
	e := wire.NewMsgTx(2)
	for i, o := range s1.TxOut {
		if string(o.PkScript) == string(x.ext) {
			e.AddTxIn(wire.NewTxIn(&wire.OutPoint{Hash: s1.TxHash(), Index: uint32(i)}, nil, nil))
			e.AddTxOut(wire.NewTxOut(o.Value-1000, pk))
		}
	}
	if len(e.TxIn) != 1 {
		ev.Fatal("S1 has no external output (%s)", x.h)
	}
	x.register("E1", e)
	x.pre["E1"] = pre
	x.order = append(x.order, "E1")
	x.s.SeenUnconfirmed(e)
	x.dirty = true
	x.res.Ops++
	post := x.observe()
	x.tracef("seen unconfirmed E1 (spends S1:ext, pays the wallet %d) -> %s", e.TxOut[0].Value, x.render(post, true))
	if count(post.Unmined, e.TxHash()) != 1 {
		ev.Fatal("E1 was not recorded by the wallet (%s): %s", x.h, x.render(post, true))
	}
}

// broadcastSpec performs one initial hand-over and checks clauses (1)-(4).
func (x *exec) broadcastSpec(sp sendSpec) {
	s := x.s
	name, ep, minconf := sp.name, sp.ep, sp.minconf
	x.where = name + ":" + ep
	pre := x.observe()
	amt := sp.amt
	if amt == 0 {
		var total int64
		for _, v := range pre.Unspent {
			total += v
		}
		amt = total - 1e7
		if amt < 1e6 {
			x.tracef("%s skipped: nothing spendable", name)
			return
		}
	}
	outs := []*wire.TxOut{wire.NewTxOut(amt, x.ext)}
	var a Answer
	if sp.al != nil {
		a = x.choose(sp.al, name+":"+ep)
	} else {
		a = Answer{Name: "accept", Kind: kAccept}
		x.res.Classes[a.Kind]++
	}
	x.res.EPs[ep]++
	x.res.Ops++
	if x.raw != nil && a.Name == x.raw.Name {
		x.res.RawE2E[x.h.Client+"|"+x.h.Raw+"|initial:"+ep]++
	}

	var tx *wire.MsgTx
	var callErr error
	base := len(s.BE.Sent)
	var sendScript []error
	if !strings.HasPrefix(a.Kind, "notify") {
		sendScript = []error{a.Err}
	}
	if ep == "publish" {
		atx, err := s.W.CreateSimpleTx(&scope84, 0, outs, minconf, 1000, wallet.CoinSelectionLargest, false,
			wallet.WithCustomSelectUtxos(sp.inputs))
		if err != nil {
			ev.Fatal("CreateSimpleTx for %s failed: %v (%s answers=%v)", name, err, x.h, x.res.Answers)
		}
		tx = atx.Tx
		x.register(name, tx)
		pre = x.observe() // B0: right before the broadcasting call
		s.BE.SendAnswers = sendScript
		if a.Kind == kNotify {
			s.BE.NotifyAnswers = []error{a.Err}
		}
		callErr = s.W.PublishTransaction(tx, "")
	} else {
		s.BE.SendAnswers = sendScript
		switch a.Kind {
		case kNotify:
			s.BE.NotifyAnswers = []error{nil, a.Err}
		case kNotifyChange:
			s.BE.NotifyAnswers = []error{a.Err}
		}
		if len(sp.inputs) > 0 {
			tx, callErr = s.W.SendOutputsWithInput(outs, &scope84, 0, minconf, 1000, wallet.CoinSelectionLargest, "", sp.inputs)
		} else {
			tx, callErr = s.W.SendOutputs(outs, &scope84, 0, minconf, 1000, wallet.CoinSelectionLargest, "")
		}
	}
	x.dirty = true
	x.settle()
	eff := a
	if strings.HasPrefix(a.Kind, "notify") && len(s.BE.NotifyAnswers) > 0 {
		// the scripted subscription failure was never requested: the
		// backend accepted everything it was asked
		eff = Answer{Name: "accept(no NotifyReceived call)", Kind: kAccept}
		x.tracef("%s: scripted NotifyReceived failure not consumed", name)
	}
	offered := len(s.BE.Sent) - base
	s.BE.SendAnswers, s.BE.NotifyAnswers = nil, nil
	if tx == nil && offered > 0 {
		tx = s.BE.Sent[len(s.BE.Sent)-1]
	}
	if tx == nil {
		// the call returned no transaction and offered none: a new
		// unconfirmed record (if any) is the one it created
		for h, t := range x.unminedTxs() {
			if _, ok := x.names[h]; !ok {
				tx = t
			}
		}
	}
	if tx != nil {
		x.register(name, tx)
	}
	if _, ok := x.pre[name]; !ok {
		x.pre[name] = pre
		x.order = append(x.order, name)
	}
	post := x.observe()
	x.tracef("%s via %s amount=%d answer=%s -> err=%v offered=%d", name, ep, amt, a.Name, callErr, offered)
	x.tracef("   before: %s", x.render(pre, true))
	x.tracef("   after:  %s", x.render(post, true))

	if x.leased != nil && tx != nil {
		x.res.Evals++
		for _, in := range tx.TxIn {
			if in.PreviousOutPoint == *x.leased {
				x.fail("lease:leased-input-spent:"+ep, "%s spends the leased output F2:0", name)
				return
			}
		}
	}

	if len(sp.inputs) > 0 && tx != nil {
		for _, in := range tx.TxIn {
			ok := false
			for _, op := range sp.inputs {
				ok = ok || op == in.PreviousOutPoint
			}
			if !ok {
				ev.Fatal("%s was to spend exactly %v but spends %v (%s)", name, sp.inputs, in.PreviousOutPoint, x.h)
			}
		}
	}
	// clauses (2)-(4): these answers are not failures, the call must succeed
	if !eff.rejecting() && callErr != nil {
		x.res.Evals++
		x.fail(eff.Kind+":returned-error:"+ep, "%s: backend answer %s but the call returned %v", name, eff.Name, callErr)
		return
	}
	// clause (1): failed attempt leaves no trace
	if eff.rejecting() || callErr != nil {
		x.res.Evals++
		bad := ""
		switch {
		case !sameUnmined(pre, post):
			bad = "set of unconfirmed transactions differs"
		case pre.Bal != post.Bal:
			bad = "balances differ"
		case !sameUnspent(pre, post):
			bad = "spendable set differs"
		case tx != nil && x.known(tx.TxHash()):
			bad = "transaction still known"
		}
		if bad != "" {
			x.fail("rejected:trace-left:"+eff.Kind+":"+ep,
				"%s via %s, answer %s, call returned %v: %s; before {%s} after {%s}",
				name, ep, eff.Name, callErr, bad, x.render(pre, true), x.render(post, true))
		}
		return
	}
	// clauses (2) and (4): recorded exactly once, change counted once
	if eff.Kind == kAccept || eff.Kind == kInMempool {
		x.res.Evals++
		if tx == nil {
			x.fail(eff.Kind+":no-transaction:"+ep, "%s: call succeeded without a transaction", name)
			return
		}
		if n := count(post.Unmined, tx.TxHash()); n != 1 {
			x.fail(eff.Kind+":not-recorded-once:"+ep,
				"%s via %s, answer %s: transaction appears %d times in the unconfirmed set; before {%s} after {%s}",
				name, ep, eff.Name, n, x.render(pre, true), x.render(post, true))
			return
		}
		var in, change int64
		okIn := true
		for _, ti := range tx.TxIn {
			v, ok := pre.Unspent[ti.PreviousOutPoint]
			if !ok {
				okIn = false
			}
			in += v
		}
		for _, to := range tx.TxOut {
			if string(to.PkScript) != string(x.ext) {
				change += to.Value
			}
		}
		if !okIn {
			x.res.BalSkips++
			return
		}
		x.res.Evals++
		want := pre.Bal[0] - in + change
		if post.Bal[0] != want {
			x.fail(eff.Kind+":balance-miscounted:"+ep,
				"%s via %s, answer %s: balance(0)=%d, expected %d = %d - inputs %d + change %d",
				name, ep, eff.Name, post.Bal[0], want, pre.Bal[0], in, change)
		}
	}
	// clause (3): already known / confirmed: nothing asserted beyond success
}

func (x *exec) confirmS1() {
	x.where = "confirm"
	tx := x.txs["S1"]
	if tx == nil {
		return
	}
	o := x.observe()
	if count(o.Unmined, tx.TxHash()) == 0 {
		x.tracef("confirm(S1) skipped: S1 not unconfirmed")
		return
	}
	c := x.s.Chain
	x.s.Connect(c.NewBlock(c.Tip, "a", []*wire.MsgTx{tx}), wsim.StyleFiltered)
	x.epoch++
	x.res.Ops++
	x.dirty = true
	o = x.observe()
	x.tracef("block confirming S1 -> %s", x.render(o, true))
}

// resync performs a (re)synchronisation and checks clause (5) and the
// rebroadcast part of clause (1).
func (x *exec) resync(kind string) {
	s := x.s
	x.where = "sync:" + kind
	switch kind {
	case "restart":
		s.Stop()
		if err := s.Open(0); err != nil {
			ev.Fatal("re-Open: %v", err)
		}
		s.Attach()
	case "rescan":
		if err := s.W.Rescan(nil, nil); err != nil {
			ev.Fatal("Rescan: %v", err)
		}
	}
	x.res.Ops++
	x.res.Syncs++
	x.dirty = true
	pre := x.observe()
	U := x.unminedTxs()
	var answers []Answer
	ral := resendAl(x.al, x.h, x.raw)
	for i := 0; i < len(U); i++ {
		a := x.choose(ral, fmt.Sprintf("%s:resend#%d", kind, i+1))
		answers = append(answers, a)
		if x.raw != nil && a.Name == x.raw.Name {
			x.res.RawE2E[x.h.Client+"|"+x.h.Raw+"|resend:"+kind]++
		}
	}
	var script []error
	for _, a := range answers {
		script = append(script, a.Err)
	}
	s.BE.SendAnswers = script
	base := len(s.BE.Sent)
	held := x.h.Kind != ""
	s.BE.HoldSends = held
	ht0 := s.BE.HoldTimeouts
	s.FinishRescans()
	s.BE.HoldSends = false
	x.dirty = false
	s.BE.SendAnswers = nil
	if got := s.BE.BackEnd(); x.h.Kind != "" && got != x.h.Kind {
		ev.Fatal("backend kind is %q, wanted %q (%s)", got, x.h.Kind, x.h)
	}
	x.res.HoldTimeouts += s.BE.HoldTimeouts - ht0
	if kind == "restart" {
		if err := s.Unlock(); err != nil {
			ev.Fatal("Unlock: %v", err)
		}
	}
	post := x.observe()
	sent := s.BE.Sent[base:]
	var sn []string
	for _, t := range sent {
		sn = append(sn, x.txName(t.TxHash()))
	}
	var an []string
	for _, a := range answers {
		an = append(an, a.Name)
	}
	x.tracef("%s: unconfirmed before {%s}; offered %v; answers %v", kind, x.render(pre, true), sn, an)
	x.tracef("   after: %s", x.render(post, true))
	x.res.Resent += len(sent)

	// clause (5)
	x.res.Evals++
	pos := map[chainhash.Hash]int{}
	ansOf := map[chainhash.Hash]Answer{}
	for i, t := range sent {
		h := t.TxHash()
		if _, ok := U[h]; !ok {
			x.fail("resend:not-unconfirmed", "%s: offered %s which is not an unconfirmed wallet transaction; unconfirmed {%s} offered %v",
				kind, x.txName(h), x.render(pre, true), sn)
			return
		}
		if _, dup := pos[h]; dup {
			x.fail("resend:duplicate", "%s: %s offered more than once: %v", kind, x.txName(h), sn)
			return
		}
		pos[h] = i
		if i < len(answers) {
			ansOf[h] = answers[i]
		} else {
			ansOf[h] = Answer{Name: "accept", Kind: kAccept}
		}
	}
	parents := func(t *wire.MsgTx) []chainhash.Hash {
		var l []chainhash.Hash
		for _, in := range t.TxIn {
			p := in.PreviousOutPoint.Hash
			if _, ok := U[p]; ok && p != t.TxHash() {
				l = append(l, p)
			}
		}
		return l
	}
	pairs := 0
	for _, t := range sent {
		for _, p := range parents(t) {
			pairs++
			if pp, ok := pos[p]; ok && pp > pos[t.TxHash()] {
				x.fail("resend:child-before-parent", "%s: %s offered before its parent %s: %v",
					kind, x.txName(t.TxHash()), x.txName(p), sn)
				return
			}
		}
	}
	if held {
		// hand-overs were held by the backend until the rest of the wallet
		// was quiescent: a hand-over that starts while another one has not
		// returned is visible in the backend's log whatever the scheduler did
		calls := s.BE.Calls[base:]
		for i, t := range sent {
			x.res.Held++
			if !calls[i].Held {
				ev.Fatal("hand-over #%d was not held (%s)", i, x.h)
			}
			if len(calls[i].InFlight) > 0 {
				x.res.Overlaps++
			}
			for _, p := range parents(t) {
				pp, ok := pos[p]
				if !ok {
					continue
				}
				x.res.PairsHeld++
				x.res.Evals++
				for _, f := range calls[i].InFlight {
					if f == base+pp {
						x.fail("resend:child-before-parent", "%s (backend %s): %s was handed to the backend while the hand-over of its parent %s was still in progress (SendRawTransaction for the parent had not returned): calls started in the order %v, in progress when %s started: call(s) %v",
							kind, x.h.Kind, x.txName(t.TxHash()), x.txName(p), sn, x.txName(t.TxHash()), calls[i].InFlight)
						return
					}
				}
			}
		}
	}
	if len(U) >= 2 && pairs > 0 {
		k := x.h.Kind
		if k == "" {
			k = "btcd(not held)"
		}
		x.res.KindSyncs[k]++
	}
	// which transactions may the wallet have dropped because of an answer
	// to an ancestor (their re-offer is left open by the statement)
	dropped := map[chainhash.Hash]bool{}
	var hasAncestorRemoved func(t *wire.MsgTx, depth int) bool
	hasAncestorRemoved = func(t *wire.MsgTx, depth int) bool {
		if depth > 8 {
			return false
		}
		for _, p := range parents(t) {
			if a, ok := ansOf[p]; ok && a.removing() {
				return true
			}
			if hasAncestorRemoved(U[p], depth+1) {
				return true
			}
		}
		return false
	}
	for h, t := range U {
		if hasAncestorRemoved(t, 0) {
			dropped[h] = true
		}
	}
	for h := range U {
		x.res.Evals++
		if _, ok := pos[h]; !ok && !dropped[h] {
			x.fail("resend:missing", "%s: unconfirmed transaction %s was not offered to the backend; unconfirmed {%s} offered %v",
				kind, x.txName(h), x.render(pre, true), sn)
			return
		}
	}

	// state after the answers
	open := false
	var roots []chainhash.Hash
	worst := kAccept
	for h := range U {
		if dropped[h] {
			continue
		}
		a := ansOf[h]
		switch {
		case a.Kind == kKnown || a.Kind == kConfirmed:
			open = true
		case a.rejecting():
			roots = append(roots, h)
		case a.Kind == kInMempool:
			worst = kInMempool
		}
	}
	// a transaction that was accepted / reported as already in the mempool
	// stays recorded exactly once (unless an ancestor was dropped)
	for h := range U {
		if a := ansOf[h]; !dropped[h] && (a.Kind == kAccept || a.Kind == kInMempool) {
			x.res.Evals++
			if n := count(post.Unmined, h); n != 1 {
				x.fail("resend:state-changed:"+a.Kind, "%s: %s was answered %s on rebroadcast and is now recorded %d times; before {%s} after {%s}",
					kind, x.txName(h), a.Name, n, x.render(pre, true), x.render(post, true))
				return
			}
		}
	}
	// rejected on rebroadcast: the transaction and its unconfirmed
	// descendants are forgotten
	removed := map[chainhash.Hash]bool{}
	descOf := map[chainhash.Hash]map[chainhash.Hash]bool{}
	for _, r := range roots {
		d := map[chainhash.Hash]bool{r: true}
		for grew := true; grew; {
			grew = false
			for h, t := range U {
				if d[h] {
					continue
				}
				for _, p := range parents(t) {
					if d[p] {
						d[h], grew = true, true
					}
				}
			}
		}
		descOf[r] = d
		for g := range d {
			x.res.Evals++
			removed[g] = true
			if count(post.Unmined, g) > 0 || x.known(g) {
				x.fail("rejected:trace-left:"+ansOf[r].Kind+":rebroadcast",
					"%s: %s rejected on rebroadcast (%s) but %s is still recorded; before {%s} after {%s}",
					kind, x.txName(r), ansOf[r].Name, x.txName(g), x.render(pre, true), x.render(post, true))
				return
			}
		}
	}
	if open {
		return // the statement leaves the record open for these answers
	}
	x.res.Evals++
	if len(roots) == 0 {
		if !sameUnmined(pre, post) || pre.Bal != post.Bal || !sameUnspent(pre, post) {
			x.fail("resend:state-changed:"+worst, "%s: every offer answered %v yet the wallet state changed: before {%s} after {%s}",
				kind, an, x.render(pre, true), x.render(post, true))
		}
		return
	}
	sort.Slice(roots, func(i, j int) bool { return x.txName(roots[i]) < x.txName(roots[j]) })
	sig := "rejected:trace-left:" + ansOf[roots[0]].Kind + ":rebroadcast"

	// the coins the forgotten transactions spent are spendable again, their
	// outputs no longer count, nothing else changes (relative to the
	// observation at the start of this resynchronisation)
	exp := &Obs{Unspent: map[wire.OutPoint]int64{}, Epoch: pre.Epoch}
	for k, v := range pre.Unspent {
		exp.Unspent[k] = v
	}
	exp.Bal[0] = pre.Bal[0]
	okDelta := true
	for g := range removed {
		t := U[g]
		for i := range t.TxOut {
			op := wire.OutPoint{Hash: g, Index: uint32(i)}
			if v, ok := exp.Unspent[op]; ok {
				exp.Bal[0] -= v
				delete(exp.Unspent, op)
			}
		}
		first := x.pre[x.txName(g)]
		for _, in := range t.TxIn {
			if removed[in.PreviousOutPoint.Hash] {
				continue
			}
			if src := x.txs[x.txName(in.PreviousOutPoint.Hash)]; src != nil && src.TxHash() == in.PreviousOutPoint.Hash &&
				int(in.PreviousOutPoint.Index) < len(src.TxOut) &&
				string(src.TxOut[in.PreviousOutPoint.Index].PkScript) == string(x.ext) {
				continue // not a wallet coin (external payment output)
			}
			if first == nil {
				okDelta = false
				continue
			}
			v, ok := first.Unspent[in.PreviousOutPoint]
			if !ok {
				okDelta = false
				continue
			}
			exp.Unspent[in.PreviousOutPoint] = v
			exp.Bal[0] += v
		}
	}
	for _, h := range pre.Unmined {
		if !removed[h] {
			exp.Unmined = append(exp.Unmined, h)
		}
	}
	if okDelta {
		x.res.Evals++
		if post.Bal[0] != exp.Bal[0] || !sameUnspent(exp, post) || !sameUnmined(exp, post) {
			exp.Bal[1], exp.Bal[2], exp.Bal[3] = post.Bal[1], post.Bal[2], post.Bal[3]
			exp.Tip, exp.Leased = post.Tip, post.Leased
			x.fail(sig, "%s: rejected on rebroadcast %v: the spent coins must be spendable again and the outputs must no longer count: expected {%s} (balances 1..3 not predicted) got {%s}; at the start of the resynchronisation {%s}",
				kind, an, x.render(exp, true), x.render(post, true), x.render(pre, true))
			return
		}
	} else {
		x.res.BalSkips++
	}

	// pure observation: if nothing but the rejected transaction and its
	// descendants was sent since the observation before it was first sent,
	// the wallet is back at that observation
	if len(roots) != 1 {
		return
	}
	rn := x.txName(roots[0])
	ref := x.pre[rn]
	if ref == nil {
		return
	}
	after := false
	for _, n := range x.order {
		if n == rn {
			after = true
			continue
		}
		if !after {
			continue
		}
		t := x.txs[n]
		if t == nil {
			continue
		}
		if _, inU := U[t.TxHash()]; inU && !descOf[roots[0]][t.TxHash()] {
			return // an unrelated transaction was sent in between
		}
	}
	x.res.Evals++
	if !sameObs(ref, post) {
		x.fail(sig, "%s: %s rejected on rebroadcast (%s): balances/spendable set differ from those before it was first sent: then {%s} now {%s}",
			kind, rn, ansOf[roots[0]].Name, x.render(ref, true), x.render(post, true))
	}
}
