package c20

// Part "raw backend answers": the wallet never sees a backend's rejection
// text, it sees what the chain client's MapRPCErr makes of it. The classes of
// the property statement (already in the mempool / already known / already
// confirmed => the call succeeds and, for the first, the record stays) are
// therefore only as good as that mapping. This file holds
//   - the real mappings, callable without a connection (realClients),
//   - a CURATED list of messages real backends send (written from the btcd,
//     bitcoind and neutrino sources, not from the tables of chain/errors.go),
//     each with the class the property requires,
//   - the table check (parent process) and the lookup used by the end-to-end
//     histories (History.Raw).

import (
	"errors"
	"fmt"
	"reflect"
	"sort"
	"strings"
	"unsafe"

	"github.com/btcsuite/btcd/btcjson"
	"github.com/btcsuite/btcd/chaincfg/chainhash"
	"github.com/btcsuite/btcd/rpcclient"
	"github.com/btcsuite/btcd/wire"
	"github.com/btcsuite/btcwallet/chain"
	"github.com/lightninglabs/neutrino/pushtx"
)

// Client ids.
const (
	clBtcdOld  = "btcd<0.24.2"  // chain.RPCClient, backend version without testmempoolaccept
	clBtcdNew  = "btcd>=0.24.2" // chain.RPCClient, backend version with testmempoolaccept
	clBitcoind = "bitcoind"     // chain.BitcoindClient
	clNeutrino = "neutrino"     // chain.NeutrinoClient
)

// realClient is one real error mapping.
type realClient struct {
	ID      string
	BackEnd string // what the client's BackEnd() says
	Map     func(error) error
}

// btcdClient builds a chain.RPCClient around a never-connected
// rpcclient.Client whose cached backend version (the only thing MapRPCErr
// consults) is preset.
func btcdClient(v rpcclient.BackendVersion) (*chain.RPCClient, error) {
	c := &rpcclient.Client{}
	f := reflect.ValueOf(c).Elem().FieldByName("backendVersion")
	if !f.IsValid() || f.Kind() != reflect.Interface {
		return nil, errors.New("rpcclient.Client has no cached backendVersion field")
	}
	reflect.NewAt(f.Type(), unsafe.Pointer(f.UnsafeAddr())).Elem().Set(reflect.ValueOf(v))
	got, err := c.BackendVersion()
	if err != nil || got == nil || got.SupportTestMempoolAccept() != v.SupportTestMempoolAccept() {
		return nil, fmt.Errorf("preset backend version not returned: %v %v", got, err)
	}
	return &chain.RPCClient{Client: c}, nil
}

// realClients returns the mappings that can be built; unavailable lists the
// ids that cannot (never expected).
func realClients() (l []realClient, unavailable []string) {
	for _, e := range []struct {
		id string
		v  rpcclient.BackendVersion
	}{{clBtcdOld, rpcclient.BtcdPre2401}, {clBtcdNew, rpcclient.BtcdPost2401}} {
		c, err := btcdClient(e.v)
		if err != nil {
			unavailable = append(unavailable, e.id+": "+err.Error())
			continue
		}
		l = append(l, realClient{ID: e.id, BackEnd: c.BackEnd(), Map: c.MapRPCErr})
	}
	bc := &chain.BitcoindClient{}
	l = append(l, realClient{ID: clBitcoind, BackEnd: bc.BackEnd(), Map: bc.MapRPCErr})
	nc := &chain.NeutrinoClient{}
	l = append(l, realClient{ID: clNeutrino, BackEnd: nc.BackEnd(), Map: nc.MapRPCErr})
	return l, unavailable
}

func clientByID(id string) *realClient {
	l, _ := realClients()
	for i := range l {
		if l[i].ID == id {
			return &l[i]
		}
	}
	return nil
}

// rawCase is one message a real backend sends for a broadcast.
type rawCase struct {
	ID      string
	Class   string   // kInMempool | kKnown | kConfirmed | kOther (genuine rejection)
	Clients []string // the client kinds that really receive it
	Code    btcjson.RPCErrorCode
	Reject  wire.RejectCode // p2p reject code (neutrino)
	Msg     string          // the backend's own description / reject reason
	E2E     bool            // also driven through the wallet
}

const (
	hexA = "4a5e1e4baab89f3a32518a88c31bc87f618f76673e2cc77ab2127b7afdeda33b"
	hexB = "0e3e2357e806b6cdb1f70b54c3a3a17b6714ee1f0e68bebb44a74b1efd512098"
	hexC = "9b0fc92260312ce44e74ef369f5c66bbb85848f2eddd5a7a1cde251e54ccfdd5"
	peer = "203.0.113.7:18555"
)

// rawCases is the curated list. Sources: btcd mempool/mempool.go, policy.go and
// rpcserver.go handleSendRawTransaction ("TX rejected: " + rule error, codes
// -25/-26/-27; the reject message to peers carries the bare description);
// bitcoind validation.cpp reject reasons, node/transaction.cpp /
// util/error.cpp TransactionError strings and the historic RPC formats
// ("<code>: <reason>" up to 0.18, "<reason> (code <code>)" in 0.19);
// neutrino pushtx.ParseBroadcastError ("rejected by <peer>: <reason>").
func rawCases() []rawCase {
	btcdOld := []string{clBtcdOld, clNeutrino}
	btcdNew := []string{clBtcdNew, clNeutrino}
	btcdAll := []string{clBtcdOld, clBtcdNew, clNeutrino}
	bd := []string{clBitcoind}
	return []rawCase{
		// ---- the backend already has the transaction ----
		{ID: "btcd-old:already-have-transaction", Class: kInMempool, Clients: btcdOld, Code: btcjson.ErrRPCTxRejected,
			Reject: wire.RejectDuplicate, Msg: "already have transaction " + hexA, E2E: true},
		{ID: "btcd-new:already-have-transaction-in-mempool", Class: kInMempool, Clients: btcdNew, Code: btcjson.ErrRPCTxRejected,
			Reject: wire.RejectDuplicate, Msg: "already have transaction in mempool " + hexA, E2E: true},
		{ID: "btcd-old:transaction-already-exists", Class: kConfirmed, Clients: btcdOld, Code: btcjson.ErrRPCTxAlreadyInChain,
			Reject: wire.RejectDuplicate, Msg: "transaction already exists", E2E: true},
		{ID: "btcd-new:transaction-already-exists-in-blockchain", Class: kConfirmed, Clients: btcdNew, Code: btcjson.ErrRPCTxAlreadyInChain,
			Reject: wire.RejectDuplicate, Msg: "transaction already exists in blockchain", E2E: true},
		{ID: "bitcoind:txn-already-in-mempool", Class: kInMempool, Clients: bd, Code: btcjson.ErrRPCTxRejected,
			Msg: "txn-already-in-mempool", E2E: true},
		{ID: "bitcoind<=0.18:18: txn-already-in-mempool", Class: kInMempool, Clients: bd, Code: btcjson.ErrRPCTxRejected,
			Msg: "18: txn-already-in-mempool", E2E: true},
		{ID: "bitcoind-0.19:txn-already-in-mempool (code 18)", Class: kInMempool, Clients: bd, Code: btcjson.ErrRPCTxRejected,
			Msg: "txn-already-in-mempool (code 18)", E2E: true},
		{ID: "bitcoind:txn-already-known", Class: kKnown, Clients: bd, Code: btcjson.ErrRPCTxRejected,
			Msg: "txn-already-known", E2E: true},
		{ID: "bitcoind<=0.18:18: txn-already-known", Class: kKnown, Clients: bd, Code: btcjson.ErrRPCTxRejected,
			Msg: "18: txn-already-known", E2E: true},
		{ID: "bitcoind:Transaction already in block chain", Class: kConfirmed, Clients: bd, Code: btcjson.ErrRPCTxAlreadyInChain,
			Msg: "Transaction already in block chain", E2E: true},
		{ID: "bitcoind<=0.18:transaction already in block chain", Class: kConfirmed, Clients: bd, Code: btcjson.ErrRPCTxAlreadyInChain,
			Msg: "transaction already in block chain", E2E: true},
		{ID: "bitcoind>=28:Transaction outputs already in utxo set", Class: kConfirmed, Clients: bd, Code: btcjson.ErrRPCTxAlreadyInChain,
			Msg: "Transaction outputs already in utxo set", E2E: true},

		// ---- genuine rejections: btcd / btcd peers ----
		{ID: "btcd:fees-under-required", Class: kOther, Clients: btcdAll, Code: btcjson.ErrRPCTxRejected, Reject: wire.RejectInsufficientFee,
			Msg: "transaction " + hexA + " has 141 fees which is under the required amount of 1000"},
		{ID: "btcd:orphan", Class: kOther, Clients: btcdAll, Code: btcjson.ErrRPCTxError, Reject: wire.RejectDuplicate,
			Msg: "orphan transaction " + hexA + " references outputs of unknown or fully-spent transaction " + hexB},
		{ID: "btcd-new:output-already-spent-in-mempool", Class: kOther, Clients: btcdNew, Code: btcjson.ErrRPCTxRejected, Reject: wire.RejectDuplicate,
			Msg: "output already spent in mempool: output=" + hexB + ":0, tx=" + hexC},
		{ID: "btcd-old:output-already-spent-by-transaction", Class: kOther, Clients: btcdOld, Code: btcjson.ErrRPCTxRejected, Reject: wire.RejectDuplicate,
			Msg: "output " + hexB + ":0 already spent by transaction " + hexC + " in the memory pool"},
		{ID: "btcd:not-finalized", Class: kOther, Clients: btcdAll, Code: btcjson.ErrRPCTxRejected, Reject: wire.RejectNonstandard,
			Msg: "transaction is not finalized"},
		{ID: "btcd:dust", Class: kOther, Clients: btcdAll, Code: btcjson.ErrRPCTxRejected, Reject: wire.RejectNonstandard,
			Msg: "transaction output 0: payment of 100 is dust"},
		{ID: "btcd:insufficient-priority", Class: kOther, Clients: btcdAll, Code: btcjson.ErrRPCTxRejected, Reject: wire.RejectInsufficientFee,
			Msg: "transaction " + hexA + " has insufficient priority (1000 <= 57600000)"},
		{ID: "btcd:replacement-insufficient-fee-rate", Class: kOther, Clients: btcdAll, Code: btcjson.ErrRPCTxRejected, Reject: wire.RejectInsufficientFee,
			Msg: "replacement transaction " + hexA + " has an insufficient fee rate: needs more than 1000, has 500"},
		{ID: "btcd:non-standard-script", Class: kOther, Clients: btcdAll, Code: btcjson.ErrRPCTxRejected, Reject: wire.RejectNonstandard,
			Msg: "transaction output 0: non-standard script form"},
		{ID: "btcd:script-validation", Class: kOther, Clients: btcdAll, Code: btcjson.ErrRPCTxRejected, Reject: wire.RejectInvalid,
			Msg: "failed to validate input " + hexA + ":0 which references output " + hexB + ":1 - signature not empty on failed checksig"},

		// ---- genuine rejections: bitcoind ----
		{ID: "bitcoind:min-relay-fee-not-met", Class: kOther, Clients: bd, Code: btcjson.ErrRPCTxRejected, Msg: "min relay fee not met, 100 < 141"},
		{ID: "bitcoind<=0.18:66: min relay fee not met", Class: kOther, Clients: bd, Code: btcjson.ErrRPCTxRejected, Msg: "66: min relay fee not met"},
		{ID: "bitcoind:mempool-min-fee-not-met", Class: kOther, Clients: bd, Code: btcjson.ErrRPCTxRejected, Msg: "mempool min fee not met, 1000 < 1500"},
		{ID: "bitcoind:insufficient-fee", Class: kOther, Clients: bd, Code: btcjson.ErrRPCTxRejected,
			Msg: "insufficient fee, rejecting replacement " + hexA + "; new feerate 0.00001000 BTC/kvB <= old feerate 0.00002000 BTC/kvB"},
		{ID: "bitcoind:bad-txns-inputs-missingorspent", Class: kOther, Clients: bd, Code: btcjson.ErrRPCTxError, Msg: "bad-txns-inputs-missingorspent"},
		{ID: "bitcoind<=0.18:Missing inputs", Class: kOther, Clients: bd, Code: btcjson.ErrRPCTxError, Msg: "Missing inputs"},
		{ID: "bitcoind:missing-inputs", Class: kOther, Clients: bd, Code: btcjson.ErrRPCTxError, Msg: "missing-inputs"},
		{ID: "bitcoind:txn-mempool-conflict", Class: kOther, Clients: bd, Code: btcjson.ErrRPCTxRejected, Msg: "txn-mempool-conflict"},
		{ID: "bitcoind<=0.18:18: txn-mempool-conflict", Class: kOther, Clients: bd, Code: btcjson.ErrRPCTxRejected, Msg: "18: txn-mempool-conflict"},
		{ID: "bitcoind:non-final", Class: kOther, Clients: bd, Code: btcjson.ErrRPCTxRejected, Msg: "non-final"},
		{ID: "bitcoind:non-BIP68-final", Class: kOther, Clients: bd, Code: btcjson.ErrRPCTxRejected, Msg: "non-BIP68-final"},
		{ID: "bitcoind:dust", Class: kOther, Clients: bd, Code: btcjson.ErrRPCTxRejected, Msg: "dust"},
		{ID: "bitcoind-0.19:dust (code 64)", Class: kOther, Clients: bd, Code: btcjson.ErrRPCTxRejected, Msg: "dust (code 64)"},
		{ID: "bitcoind:scriptpubkey", Class: kOther, Clients: bd, Code: btcjson.ErrRPCTxRejected, Msg: "scriptpubkey"},
		{ID: "bitcoind:bad-txns-in-belowout", Class: kOther, Clients: bd, Code: btcjson.ErrRPCTxRejected,
			Msg: "bad-txns-in-belowout, value in (0.001) < value out (0.002)"},
		{ID: "bitcoind:mandatory-script-verify-flag-failed", Class: kOther, Clients: bd, Code: btcjson.ErrRPCTxRejected,
			Msg: "mandatory-script-verify-flag-failed (Signature must be zero for failed CHECK(MULTI)SIG operation)"},
		{ID: "bitcoind:too-long-mempool-chain", Class: kOther, Clients: bd, Code: btcjson.ErrRPCTxRejected,
			Msg: "too-long-mempool-chain, too many unconfirmed ancestors [limit: 25]"},
		{ID: "bitcoind:tx-size", Class: kOther, Clients: bd, Code: btcjson.ErrRPCTxRejected, Msg: "tx-size"},
		{ID: "bitcoind:bad-txns-oversize", Class: kOther, Clients: bd, Code: btcjson.ErrRPCTxRejected, Msg: "bad-txns-oversize"},
		{ID: "bitcoind:max-fee-exceeded", Class: kOther, Clients: bd, Code: btcjson.ErrRPCTxError,
			Msg: "Fee exceeds maximum configured by user (e.g. -maxtxfee, maxfeerate)"},
		{ID: "bitcoind:TX decode failed", Class: kOther, Clients: bd, Code: btcjson.ErrRPCDeserialization,
			Msg: "TX decode failed. Make sure the tx has at least one input."},
	}
}

func rawCaseByID(id string) *rawCase {
	l := rawCases()
	for i := range l {
		if l[i].ID == id {
			return &l[i]
		}
	}
	return nil
}

func (rc *rawCase) sentTo(client string) bool {
	for _, c := range rc.Clients {
		if c == client {
			return true
		}
	}
	return false
}

// wrapped is one way a message reaches MapRPCErr.
type wrapped struct {
	How string
	Err error
}

// deliveries returns the error values with which the message reaches the
// client's MapRPCErr; the first one is what the client's own
// SendRawTransaction passes on (used by the end-to-end histories).
func (rc *rawCase) deliveries(client string) []wrapped {
	switch client {
	case clNeutrino:
		// what neutrino's broadcaster returns for a peer's reject message
		h, _ := chainhash.NewHashFromStr(hexA)
		rej := wire.NewMsgReject(wire.CmdTx, rc.Reject, rc.Msg)
		rej.Hash = *h
		return []wrapped{{"pushtx.ParseBroadcastError(reject from peer)", pushtx.ParseBroadcastError(rej, peer)}}
	case clBitcoind:
		return []wrapped{
			{"*btcjson.RPCError", &btcjson.RPCError{Code: rc.Code, Message: rc.Msg}},
			{"reject-reason as plain error", errors.New(rc.Msg)},
		}
	default:
		return []wrapped{
			{"*btcjson.RPCError(TX rejected: ...)", &btcjson.RPCError{Code: rc.Code, Message: "TX rejected: " + rc.Msg}},
			{"reject-reason as plain error", errors.New(rc.Msg)},
		}
	}
}

// classOK reports whether the mapped error satisfies the class the property
// requires for the message.
func classOK(class string, mapped error) (ok bool, why string) {
	inm := errors.Is(mapped, chain.ErrTxAlreadyInMempool)
	kn := errors.Is(mapped, chain.ErrTxAlreadyKnown)
	cf := errors.Is(mapped, chain.ErrTxAlreadyConfirmed)
	switch class {
	case kInMempool:
		// only this sentinel makes the wallet keep the record
		if !inm {
			return false, "is not chain.ErrTxAlreadyInMempool (the wallet forgets the transaction)"
		}
	case kKnown, kConfirmed:
		// the wallet treats the two alike (the call succeeds)
		if !kn && !cf {
			return false, "is neither chain.ErrTxAlreadyKnown nor chain.ErrTxAlreadyConfirmed (the call fails)"
		}
	default:
		if mapped == nil {
			return false, "is nil (a rejection became a success)"
		}
		if inm || kn || cf {
			return false, "is one of the chain.ErrTxAlready* sentinels (a rejected transaction is kept / reported as sent)"
		}
	}
	return true, ""
}

// rawTableResult is the evidence of the table part.
type rawTableResult struct {
	Cases, Already, Rejections, Calls int
	Clients                           []string
	Unavailable                       []string
	Samples                           []string
	Viols                             []rawViolation
}

type rawViolation struct {
	Sig, Msg string
	Replay   map[string]interface{}
}

const rawRepeat = 16 // the real tables are Go maps walked in random order

// checkRawCase evaluates one (client, message): every delivery, rawRepeat times.
func checkRawCase(cl realClient, rc rawCase, r *rawTableResult) {
	for _, d := range rc.deliveries(cl.ID) {
		r.Cases++
		if rc.Class == kOther {
			r.Rejections++
		} else {
			r.Already++
		}
		var last error
		for i := 0; i < rawRepeat; i++ {
			r.Calls++
			m := cl.Map(d.Err)
			last = m
			if ok, why := classOK(rc.Class, m); !ok {
				sig := "raw-answer:" + rc.Class + ":not-recognised"
				if rc.Class == kOther {
					sig = "raw-answer:rejection:classified-as-already-present"
				}
				r.Viols = append(r.Viols, rawViolation{Sig: sig,
					Msg: fmt.Sprintf("client %s (BackEnd %q), backend message %q delivered as %s (%q), required class %s: MapRPCErr gives %q which %s",
						cl.ID, cl.BackEnd, rc.Msg, d.How, d.Err.Error(), rc.Class, fmt.Sprint(m), why),
					Replay: map[string]interface{}{"kind": "c20-raw", "client": cl.ID, "case": rc.ID, "delivery": d.How}})
				break
			}
		}
		if len(r.Samples) < 6 && (r.Cases%9 == 1) {
			r.Samples = append(r.Samples, fmt.Sprintf("%s <- %q => %q (class %s)", cl.ID, d.Err.Error(), fmt.Sprint(last), rc.Class))
		}
	}
}

// rawTable runs the table part.
func rawTable() *rawTableResult {
	r := &rawTableResult{}
	cls, un := realClients()
	r.Unavailable = un
	for _, cl := range cls {
		r.Clients = append(r.Clients, cl.ID)
		for _, rc := range rawCases() {
			if rc.sentTo(cl.ID) {
				checkRawCase(cl, rc, r)
			}
		}
	}
	sort.Strings(r.Clients)
	return r
}

// rawAnswer is the single-answer alphabet element of an end-to-end history:
// the RAW error as the client's SendRawTransaction receives it; the backend
// (wsim) maps it with the real client's MapRPCErr.
func rawAnswer(client, id string) (Answer, error) {
	rc := rawCaseByID(id)
	if rc == nil {
		return Answer{}, fmt.Errorf("unknown raw case %q", id)
	}
	if !rc.sentTo(client) {
		return Answer{}, fmt.Errorf("raw case %q is not sent to client %q", id, client)
	}
	d := rc.deliveries(client)[0]
	return Answer{Name: "raw[" + client + "]:" + strings.ReplaceAll(d.Err.Error(), hexA, "<txid>"), Kind: rc.Class, Err: d.Err}, nil
}

// rawReplay re-evaluates one table case (replay of a raw-answer violation).
func rawReplay(client, id string) int {
	cl := clientByID(client)
	rc := rawCaseByID(id)
	if cl == nil || rc == nil {
		fmt.Printf("unknown client %q or case %q\n", client, id)
		return 2
	}
	r := &rawTableResult{}
	checkRawCase(*cl, *rc, r)
	for _, d := range rc.deliveries(cl.ID) {
		fmt.Printf("%s <- %q => %q (required class %s)\n", cl.ID, d.Err.Error(), fmt.Sprint(cl.Map(d.Err)), rc.Class)
	}
	for _, v := range r.Viols {
		fmt.Printf("  FAIL %s: %s\n", v.Sig, v.Msg)
	}
	if len(r.Viols) > 0 {
		return 1
	}
	return 0
}
