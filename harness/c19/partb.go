package c19

import (
	"bytes"
	"encoding/binary"
	"fmt"
	"io"
	"os"
	"path/filepath"
	"time"

	"github.com/btcsuite/btcd/btcutil/hdkeychain"
	"github.com/btcsuite/btcd/chaincfg"
	"github.com/btcsuite/btcwallet/snacl"
	"github.com/btcsuite/btcwallet/waddrmgr"
	"github.com/btcsuite/btcwallet/wallet"
	"github.com/btcsuite/btcwallet/walletdb"
	"github.com/btcsuite/btcwallet/walletdb/migration"
	"github.com/btcsuite/btcwallet/wtxmgr"

	"verif/harness/ev"
)

// Layout of the stored versions, read from wtxmgr/db.go (rootVersion "vers",
// big endian, in the namespace root) and waddrmgr/db.go (mgrVersionName
// "mgrver", little endian, in the nested "main" bucket). The namespace keys
// are those of wallet/wallet.go. All of it is cross-checked at run time
// against the exported MigrationManagers.
var (
	wtxmgrNsKey   = []byte("wtxmgr")
	waddrmgrNsKey = []byte("waddrmgr")
	wtxVersionKey = []byte("vers")
	addrMainKey   = []byte("main")
	addrVerKey    = []byte("mgrver")
)

type partBStats struct {
	opens, refusalsRequired, currentOpens, lowered, loweredSucceeded, loweredFailed, panics, componentOpens int
	latestTx, latestAddr                                                                    uint32
	samples                                                                                 []string
}

func copyFile(src, dst string) {
	in, err := os.Open(src)
	if err != nil {
		ev.Fatal("copy: %v", err)
	}
	defer in.Close()
	out, err := os.Create(dst)
	if err != nil {
		ev.Fatal("copy: %v", err)
	}
	if _, err := io.Copy(out, in); err != nil {
		ev.Fatal("copy: %v", err)
	}
	if err := out.Close(); err != nil {
		ev.Fatal("copy: %v", err)
	}
}

func readRealVersions(db walletdb.DB) (txRaw, txMgr, addrRaw, addrMgr uint32) {
	err := walletdb.Update(db, func(tx walletdb.ReadWriteTx) error {
		tns := tx.ReadWriteBucket(wtxmgrNsKey)
		ans := tx.ReadWriteBucket(waddrmgrNsKey)
		if tns == nil || ans == nil {
			return fmt.Errorf("wallet namespaces missing")
		}
		v := tns.Get(wtxVersionKey)
		if len(v) != 4 {
			return fmt.Errorf("wtxmgr version key has %d bytes", len(v))
		}
		txRaw = binary.BigEndian.Uint32(v)
		mb := ans.NestedReadBucket(addrMainKey)
		if mb == nil {
			return fmt.Errorf("waddrmgr main bucket missing")
		}
		v = mb.Get(addrVerKey)
		if len(v) != 4 {
			return fmt.Errorf("waddrmgr version key has %d bytes", len(v))
		}
		addrRaw = binary.LittleEndian.Uint32(v)
		var err error
		if txMgr, err = wtxmgr.NewMigrationManager(tns).CurrentVersion(nil); err != nil {
			return err
		}
		if addrMgr, err = waddrmgr.NewMigrationManager(ans).CurrentVersion(nil); err != nil {
			return err
		}
		return fmt.Errorf("read only") // roll back
	})
	if err == nil || err.Error() != "read only" {
		ev.Fatal("reading real versions: %v", err)
	}
	return
}

func writeRealVersions(db walletdb.DB, txV, addrV uint32) {
	err := walletdb.Update(db, func(tx walletdb.ReadWriteTx) error {
		var raw [4]byte
		binary.BigEndian.PutUint32(raw[:], txV)
		if err := tx.ReadWriteBucket(wtxmgrNsKey).Put(wtxVersionKey, raw[:]); err != nil {
			return err
		}
		var raw2 [4]byte
		binary.LittleEndian.PutUint32(raw2[:], addrV)
		return tx.ReadWriteBucket(waddrmgrNsKey).NestedReadWriteBucket(addrMainKey).Put(addrVerKey, raw2[:])
	})
	if err != nil {
		ev.Fatal("overwriting versions: %v", err)
	}
	a, b, c, d := readRealVersions(db)
	if a != txV || b != txV || c != addrV || d != addrV {
		ev.Fatal("version layout assumption wrong: wrote %d/%d, raw %d/%d, managers report %d/%d", txV, addrV, a, c, b, d)
	}
}

// runPartB drives wallet.Open (which runs migration.Upgrade for the real
// wtxmgr and waddrmgr managers inside one walletdb.Update) over stored
// versions below, at and above the latest of each component.
func runPartB(coll *collector) partBStats {
	var st partBStats
	waddrmgr.SetSecretKeyGen(func(p *[]byte, _ *waddrmgr.ScryptOptions) (*snacl.SecretKey, error) {
		return snacl.NewSecretKey(p, 16, 8, 1)
	})
	dir := ev.Scratch()
	tmpl := filepath.Join(dir, "c19-wallet-template.db")
	pub, priv := []byte("public"), []byte("private")
	params := &chaincfg.SimNetParams

	db, err := walletdb.Create("bdb", tmpl, true, time.Minute, false)
	if err != nil {
		ev.Fatal("create wallet db: %v", err)
	}
	root, err := hdkeychain.NewMaster(bytes.Repeat([]byte{0x19}, 32), params)
	if err != nil {
		ev.Fatal("master key: %v", err)
	}
	if err := wallet.Create(db, pub, priv, root, params, time.Unix(1600000000, 0)); err != nil {
		ev.Fatal("wallet.Create: %v", err)
	}
	txRaw, txM, addrRaw, addrM := readRealVersions(db)
	if txRaw != txM || addrRaw != addrM {
		ev.Fatal("version layout assumption wrong: raw %d/%d, managers report %d/%d", txRaw, addrRaw, txM, addrM)
	}
	// A freshly created wallet is at the latest version of both components.
	var latestTx, latestAddr uint32
	walletdb.Update(db, func(tx walletdb.ReadWriteTx) error {
		vt := wtxmgr.NewMigrationManager(tx.ReadWriteBucket(wtxmgrNsKey)).Versions()
		va := waddrmgr.NewMigrationManager(tx.ReadWriteBucket(waddrmgrNsKey)).Versions()
		for _, v := range vt {
			if v.Number > latestTx {
				latestTx = v.Number
			}
		}
		for _, v := range va {
			if v.Number > latestAddr {
				latestAddr = v.Number
			}
		}
		return fmt.Errorf("read only")
	})
	if latestTx != txRaw || latestAddr != addrRaw || latestAddr != waddrmgr.LatestMgrVersion {
		ev.Fatal("fresh wallet is not at the latest versions: stored %d/%d, tables say %d/%d", txRaw, addrRaw, latestTx, latestAddr)
	}
	st.latestTx, st.latestAddr = latestTx, latestAddr
	if err := db.Close(); err != nil {
		ev.Fatal("close: %v", err)
	}

	vals := func(latest uint32) []uint32 {
		var v []uint32
		v = append(v, latest) // current version first (simplest)
		v = append(v, latest+1, latest+2, 255, 1<<32-1)
		for x := int(latest) - 1; x >= 0; x-- {
			v = append(v, uint32(x))
		}
		return v
	}
	ord := uint64(1) << 40
	for _, tv := range vals(latestTx) {
		for _, av := range vals(latestAddr) {
			ord++
			path := filepath.Join(dir, "c19-wallet-case.db")
			copyFile(tmpl, path)
			db, err := walletdb.Open("bdb", path, true, time.Minute, false)
			if err != nil {
				ev.Fatal("open copy: %v", err)
			}
			writeRealVersions(db, tv, av)
			pre := flat(dumpDB(db))
			// the component openers on their own (a caller that does not go through
			// wallet.Open): anything but the latest version is refused, read-only
			{
				var txErr, addrErr error
				walletdb.View(db, func(tx walletdb.ReadTx) error {
					func() {
						defer func() {
							if r := recover(); r != nil {
								txErr = fmt.Errorf("panic: %v", r)
							}
						}()
						_, txErr = wtxmgr.Open(tx.ReadBucket(wtxmgrNsKey), params)
					}()
					func() {
						defer func() {
							if r := recover(); r != nil {
								addrErr = fmt.Errorf("panic: %v", r)
							}
						}()
						var m *waddrmgr.Manager
						m, addrErr = waddrmgr.Open(tx.ReadBucket(waddrmgrNsKey), pub, params)
						if m != nil {
							m.Close()
						}
					}()
					return nil
				})
				st.componentOpens += 2
				o := ord
				comp := func(sig, name string, v, latest uint32, err error) {
					coll.add(sig, o, func() (string, interface{}) {
						return fmt.Sprintf("%s.Open with stored version %d (latest %d) returned %v", name, v, latest, err),
							map[string]interface{}{"kind": "component.Open", "component": name, "stored_version": v, "latest": latest}
					})
				}
				switch {
				case tv > latestTx && txErr == nil:
					comp("component-open:newer-version-accepted:wtxmgr", "wtxmgr", tv, latestTx, txErr)
				case tv < latestTx && txErr == nil:
					comp("component-open:older-version-accepted:wtxmgr", "wtxmgr", tv, latestTx, txErr)
				case tv == latestTx && txErr != nil:
					comp("component-open:current-version-refused:wtxmgr", "wtxmgr", tv, latestTx, txErr)
				}
				switch {
				case av > latestAddr && addrErr == nil:
					comp("component-open:newer-version-accepted:waddrmgr", "waddrmgr", av, latestAddr, addrErr)
				case av < latestAddr && addrErr == nil:
					comp("component-open:older-version-accepted:waddrmgr", "waddrmgr", av, latestAddr, addrErr)
				case av == latestAddr && addrErr != nil:
					comp("component-open:current-version-refused:waddrmgr", "waddrmgr", av, latestAddr, addrErr)
				}
			}
			var openErr error
			panicked := ""
			func() {
				defer func() {
					if r := recover(); r != nil {
						panicked = fmt.Sprint(r)
					}
				}()
				_, openErr = wallet.Open(db, pub, nil, params, 10)
			}()
			post := flat(dumpDB(db))
			txAfter, _, addrAfter, _ := readRealVersions(db)
			st.opens++

			desc := fmt.Sprintf("wallet.Open with stored versions wtxmgr=%d (latest %d), waddrmgr=%d (latest %d)", tv, latestTx, av, latestAddr)
			o := ord
			viol := func(sig, what string) {
				coll.add(sig, o, func() (string, interface{}) {
					return fmt.Sprintf("%s: %s (error: %v, panic: %q)", desc, what, openErr, panicked),
						map[string]interface{}{"kind": "wallet.Open", "wtxmgr_version": tv, "waddrmgr_version": av,
							"latest_wtxmgr": latestTx, "latest_waddrmgr": latestAddr, "db_diff": diffLines(pre, post)}
				})
			}
			failed := openErr != nil || panicked != ""
			if panicked != "" {
				st.panics++
				if os.Getenv("C19_DEBUG") != "" {
					fmt.Printf("debug: %s panicked: %s\n", desc, panicked)
				}
			} else if os.Getenv("C19_DEBUG") != "" {
				fmt.Printf("debug: %s -> %v\n", desc, openErr)
			}
			outcome := ""
			switch {
			case tv > latestTx || av > latestAddr:
				st.refusalsRequired++
				if !failed {
					viol("open:reversion-not-refused", "a component stores a version newer than the software understands but the wallet opened")
				}
				if !sameLines(pre, post) {
					viol("open:reversion-modified-db", "database differs after the refused open")
				}
				outcome = "refused"
			case tv == latestTx && av == latestAddr:
				st.currentOpens++
				if failed {
					viol("open:current-version-refused", "both components are at their latest version but the wallet did not open")
				}
				if !sameLines(pre, post) {
					viol("open:same-version-modified-db", "both components are at their latest version but opening changed the database")
				}
				outcome = "opened, nothing to do"
			default:
				// Some real migrations are pending. Whether they can
				// succeed on this database is not part of the property:
				// either everything is upgraded or nothing changed.
				st.lowered++
				if failed {
					st.loweredFailed++
					if !sameLines(pre, post) {
						viol("open:failure-left-changes", "opening failed but the database differs")
					}
					outcome = "failed, database unchanged"
				} else {
					st.loweredSucceeded++
					if txAfter != latestTx || addrAfter != latestAddr {
						viol("open:version-after", fmt.Sprintf("opened, but stored versions afterwards are wtxmgr=%d waddrmgr=%d", txAfter, addrAfter))
					}
					outcome = fmt.Sprintf("upgraded to wtxmgr=%d waddrmgr=%d", txAfter, addrAfter)
				}
			}
			if (tv == latestTx+1 && av == latestAddr) || (tv == 1 && av == latestAddr+1) || (tv == latestTx && av == latestAddr) ||
				(tv == 1 && av == latestAddr-1) || (tv == latestTx && av == 255) {
				st.samples = append(st.samples, fmt.Sprintf("%s -> %s (error: %v)", desc, outcome, openErr))
			}
			if err := db.Close(); err != nil {
				ev.Fatal("close: %v", err)
			}
			os.Remove(path)
		}
	}
	os.Remove(tmpl)
	_ = migration.ErrReversion
	return st
}
