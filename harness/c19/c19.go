// Package c19 checks property C19: database upgrades apply each pending
// migration once, in order, or not at all.
//
// Part A drives the real migration.Upgrade with harness-defined services over
// a real bdb database, exhaustively over version tables, declaration orders,
// migration behaviours (nil / succeeds / fails) and stored versions, with one
// and with two services in one call, and compares every execution with a
// sorted-filter model. Part B drives wallet.Open on a real wallet database
// whose stored wtxmgr / waddrmgr versions were overwritten.
package c19

import (
	"fmt"
	"runtime"

	"verif/harness/ev"
)

func Run(args []string) {
	run := ev.NewRun("C19", "exploration", args)

	// version numbers {1..nSingle} for one service; two services in one
	// Upgrade call: first over {1..nFirst}, second over {1..nSecond}.
	nSingle, nFirst, nSecond := 4, 3, 2
	if run.Thorough() {
		nSingle, nFirst, nSecond = 6, 4, 2
	}
	workers := runtime.NumCPU()
	if workers > 16 {
		workers = 16
	}

	coll := &collector{}
	hs := checkHelpers(coll, nSingle)
	a := runPartA(run, coll, nSingle, nFirst, nSecond, workers)
	b := runPartB(coll)
	coll.flush(run)

	st := a.st
	samples := append([]string{}, a.samples...)
	samples = append(samples, b.samples...)
	if len(samples) == 0 {
		samples = []string{"(none)"}
	}
	run.Assumption = []string{
		"the harness services store their version as 4 bytes under the key \"version\" in their namespace; a namespace without that key reports version 0",
		"part B overwrites the stored version bytes of a freshly created wallet; for lowered versions the real migrations run on a database that already has the latest layout, so the check only requires all-or-nothing (either both components end at their latest version or the database is unchanged)",
	}
	run.Finish(ev.Coverage{
		"evaluations":         st.evaluations + b.opens,
		"distinct_nontrivial": len(st.nontrivialKeys) + b.refusalsRequired + b.lowered,
		"rule": fmt.Sprintf("every non-empty subset of version numbers {1..%d} x every declaration order x every behaviour (nil, succeeds, fails after writing) per version x every stored version 0..%d and 'no version stored', one migration.Upgrade call each inside walletdb.Update on a real bdb file; plus two services in one Upgrade call (first over {1..%d}, second over {1..%d}, same dimensions each); non-trivial = the model requires a refusal or has at least one version pending (stored < latest) for a service reached by the call. Part B: wallet.Open, and wtxmgr.Open / waddrmgr.Open on their own (read-only: only the latest version opens), over wtxmgr x waddrmgr stored versions {0..latest+2, 255, 2^32-1}; non-trivial = not both at latest",
			nSingle, nSingle+1, nFirst, nSecond),
		"upgrade_calls":                              st.evaluations,
		"distinct_cases":                             len(st.keys),
		"cases_with_injected_failure_reached":        st.failure,
		"cases_with_reversion":                       st.reversion,
		"cases_upgraded":                             st.upgraded,
		"cases_nothing_to_do":                        st.noop,
		"executions_declared_out_of_order":           st.unsortedExec,
		"executions_skipping_a_nil_migration":        st.nilSkipped,
		"cases_without_stored_version":               st.absentVersion,
		"two_service_calls":                          st.twoMgr,
		"second_service_stops_after_first_done":      st.secondStopsAfterFirstUp,
		"helper_tables":                              hs.tables,
		"getlatestversion_calls":                     hs.latestCalls,
		"versionstoapply_calls":                      hs.toApplyCalls,
		"versionstoapply_nonempty_results":           hs.nontrivialToApply,
		"wallet_opens":                               b.opens,
		"wallet_opens_refusal_required":              b.refusalsRequired,
		"wallet_opens_at_latest":                     b.currentOpens,
		"wallet_opens_with_pending_real_migrations":  b.lowered,
		"wallet_opens_real_migrations_succeeded":     b.loweredSucceeded,
		"wallet_opens_real_migrations_failed_intact": b.loweredFailed,
		"wallet_open_panics":                         b.panics,
		"component_open_calls":                       b.componentOpens,
		"latest_wtxmgr_version":                      int(b.latestTx),
		"latest_waddrmgr_version":                    int(b.latestAddr),
		"workers":                                    workers,
		"exhaustive":                                 a.completed,
		"samples":                                    samples,
	})
}
