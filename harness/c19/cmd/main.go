package main

import (
	"os"

	"verif/harness/c19"
)

func main() { c19.Run(os.Args[1:]) }
