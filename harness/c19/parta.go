package c19

import (
	"encoding/binary"
	"errors"
	"fmt"
	"path/filepath"
	"sort"
	"strings"
	"sync"
	"sync/atomic"
	"time"

	"github.com/btcsuite/btcwallet/walletdb"
	_ "github.com/btcsuite/btcwallet/walletdb/bdb"
	"github.com/btcsuite/btcwallet/walletdb/migration"

	"verif/harness/ev"
)

// Behaviour of one declared version of a harness-defined service.
const (
	behNil  = 0 // Migration == nil
	behOK   = 1 // writes its markers, succeeds
	behFail = 2 // writes its markers, then returns an error
)

var behName = [...]string{"nil", "ok", "fail"}

type entry struct {
	Num uint32
	Beh uint8
}

// mgrSpec is one service: its version table in DECLARATION order and the
// version stored in its namespace before the call (-1: no version key at all,
// which the harness manager reports as version 0 like a fresh namespace).
type mgrSpec struct {
	Table  []entry
	Stored int
}

type kase struct{ Mgrs []mgrSpec }

var (
	nsKeys      = [][]byte{[]byte("svcA"), []byte("svcB")}
	otherKey    = []byte("other")
	versionKey  = []byte("version")
	migratedKey = []byte("migrated")
	errInjected = errors.New("injected migration failure")
)

func markerKey(n uint32) []byte { return []byte(fmt.Sprintf("marker-%d", n)) }

type logEntry struct {
	Mgr  int    `json:"manager"`
	Num  uint32 `json:"migration"`
	Seen int64  `json:"version_seen_by_migration"`
}

// hmgr is the harness-defined migration.Manager.
type hmgr struct {
	idx   int
	ns    walletdb.ReadWriteBucket
	table []entry
	log   *[]logEntry
}

var _ migration.Manager = (*hmgr)(nil)

func (m *hmgr) Name() string                        { return string(nsKeys[m.idx]) }
func (m *hmgr) Namespace() walletdb.ReadWriteBucket { return m.ns }

func readVersion(b walletdb.ReadBucket) (uint32, bool) {
	v := b.Get(versionKey)
	if len(v) != 4 {
		return 0, false
	}
	return binary.BigEndian.Uint32(v), true
}

func (m *hmgr) CurrentVersion(b walletdb.ReadBucket) (uint32, error) {
	if b == nil {
		b = m.ns
	}
	v, _ := readVersion(b)
	return v, nil
}

func (m *hmgr) SetVersion(b walletdb.ReadWriteBucket, v uint32) error {
	if b == nil {
		b = m.ns
	}
	var raw [4]byte
	binary.BigEndian.PutUint32(raw[:], v)
	return b.Put(versionKey, raw[:])
}

// Versions returns a fresh slice in declaration order on every call.
func (m *hmgr) Versions() []migration.Version {
	vs := make([]migration.Version, len(m.table))
	for i, e := range m.table {
		e := e
		vs[i].Number = e.Num
		if e.Beh == behNil {
			continue
		}
		vs[i].Migration = func(b walletdb.ReadWriteBucket) error {
			seen := int64(-2) // -2: migration was handed no bucket
			if b != nil {
				v, _ := readVersion(b)
				seen = int64(v)
			}
			*m.log = append(*m.log, logEntry{m.idx, e.Num, seen})
			if b == nil {
				return errors.New("harness migration called with nil bucket")
			}
			if err := b.Put(markerKey(e.Num), []byte("done")); err != nil {
				return err
			}
			sub, err := b.CreateBucketIfNotExists(migratedKey)
			if err != nil {
				return err
			}
			if err := sub.Put(markerKey(e.Num), []byte("done")); err != nil {
				return err
			}
			if e.Beh == behFail {
				return fmt.Errorf("%s migration #%d: %w", m.Name(), e.Num, errInjected)
			}
			return nil
		}
	}
	return vs
}

// ---------------------------------------------------------------- dumps

// dumpDB returns, per top-level bucket, every nested bucket (with its
// sequence) and every key/value below it, read through a fresh read
// transaction.
func dumpDB(db walletdb.DB) map[string][]string {
	out := map[string][]string{}
	err := walletdb.View(db, func(tx walletdb.ReadTx) error {
		var tops [][]byte
		if err := tx.ForEachBucket(func(k []byte) error {
			tops = append(tops, append([]byte{}, k...))
			return nil
		}); err != nil {
			return err
		}
		for _, k := range tops {
			b := tx.ReadBucket(k)
			if b == nil {
				return fmt.Errorf("top-level bucket %q vanished", k)
			}
			var lines []string
			if err := dumpBucket(b, fmt.Sprintf("%q", k), &lines); err != nil {
				return err
			}
			sort.Strings(lines)
			out[string(k)] = lines
		}
		return nil
	})
	if err != nil {
		ev.Fatal("dump failed: %v", err)
	}
	return out
}

func bucketLine(path string, seq uint64) string { return fmt.Sprintf("B %s seq=%d", path, seq) }
func kvLine(path string, k, v []byte) string    { return fmt.Sprintf("K %s/%q = %x", path, k, v) }

func dumpBucket(b walletdb.ReadBucket, path string, out *[]string) error {
	*out = append(*out, bucketLine(path, b.Sequence()))
	return b.ForEach(func(k, v []byte) error {
		if v == nil {
			if nb := b.NestedReadBucket(k); nb != nil {
				return dumpBucket(nb, fmt.Sprintf("%s/%q", path, k), out)
			}
		}
		*out = append(*out, kvLine(path, k, v))
		return nil
	})
}

func flat(d map[string][]string) []string {
	var all []string
	for _, l := range d {
		all = append(all, l...)
	}
	sort.Strings(all)
	return all
}

func sameLines(a, b []string) bool {
	if len(a) != len(b) {
		return false
	}
	for i := range a {
		if a[i] != b[i] {
			return false
		}
	}
	return true
}

// diffLines lists lines only in a ("-") and only in b ("+").
func diffLines(a, b []string) []string {
	in := func(s string, l []string) bool {
		i := sort.SearchStrings(l, s)
		return i < len(l) && l[i] == s
	}
	var d []string
	for _, s := range a {
		if !in(s, b) {
			d = append(d, "- "+s)
		}
	}
	for _, s := range b {
		if !in(s, a) {
			d = append(d, "+ "+s)
		}
	}
	return d
}

// nsLines is the model of the contents of one harness service namespace.
func nsLines(idx int, hasVersion bool, version uint32, markers []uint32) []string {
	p := fmt.Sprintf("%q", nsKeys[idx])
	lines := []string{
		bucketLine(p, 0),
		kvLine(p, []byte("base-key"), []byte("base-value")),
		bucketLine(fmt.Sprintf("%s/%q", p, "data"), 0),
		kvLine(fmt.Sprintf("%s/%q", p, "data"), []byte("k1"), []byte("v1")),
	}
	if hasVersion {
		var raw [4]byte
		binary.BigEndian.PutUint32(raw[:], version)
		lines = append(lines, kvLine(p, versionKey, raw[:]))
	}
	if len(markers) > 0 {
		mp := fmt.Sprintf("%s/%q", p, migratedKey)
		lines = append(lines, bucketLine(mp, 0))
		for _, n := range markers {
			lines = append(lines, kvLine(p, markerKey(n), []byte("done")))
			lines = append(lines, kvLine(mp, markerKey(n), []byte("done")))
		}
	}
	sort.Strings(lines)
	return lines
}

func otherLines() []string {
	p := fmt.Sprintf("%q", otherKey)
	l := []string{bucketLine(p, 0), kvLine(p, []byte("x"), []byte("y"))}
	sort.Strings(l)
	return l
}

// ---------------------------------------------------------------- enumeration

// tables lists every non-empty subset of {1..n} x every declaration order x
// every behaviour assignment, smallest first.
func tables(n int) [][]entry {
	var out [][]entry
	for k := 1; k <= n; k++ {
		for mask := 1; mask < 1<<uint(n); mask++ {
			var nums []uint32
			for i := 0; i < n; i++ {
				if mask&(1<<uint(i)) != 0 {
					nums = append(nums, uint32(i+1))
				}
			}
			if len(nums) != k {
				continue
			}
			for _, perm := range permutations(nums) {
				total := 1
				for range perm {
					total *= 3
				}
				// behaviour digit order: ok, nil, fail (simplest first)
				digit := [...]uint8{behOK, behNil, behFail}
				for code := 0; code < total; code++ {
					t := make([]entry, k)
					c := code
					for i := range perm {
						t[i] = entry{perm[i], digit[c%3]}
						c /= 3
					}
					out = append(out, t)
				}
			}
		}
	}
	return out
}

// permutations in lexicographic order (identity = sorted order first).
func permutations(a []uint32) [][]uint32 {
	if len(a) <= 1 {
		return [][]uint32{append([]uint32{}, a...)}
	}
	var out [][]uint32
	for i := range a {
		rest := append(append([]uint32{}, a[:i]...), a[i+1:]...)
		for _, p := range permutations(rest) {
			out = append(out, append([]uint32{a[i]}, p...))
		}
	}
	return out
}

// specCode is an injective encoding of one mgrSpec (numbers <= 7, <= 6 entries).
func specCode(s mgrSpec) uint64 {
	if len(s.Table) > 6 || s.Stored+1 > 15 || s.Stored < -1 {
		ev.Fatal("specCode: out of range")
	}
	c := uint64(len(s.Table)) | uint64(s.Stored+1)<<3
	for i, e := range s.Table {
		if e.Num > 7 {
			ev.Fatal("specCode: number out of range")
		}
		c |= (uint64(e.Num) | uint64(e.Beh)<<3) << (7 + 5*uint(i))
	}
	return c // < 2^37
}

func caseCode(k kase) uint64 {
	c := specCode(k.Mgrs[0])
	if len(k.Mgrs) > 1 {
		if len(k.Mgrs[1].Table) > 3 {
			ev.Fatal("caseCode: second table too large")
		}
		c |= (specCode(k.Mgrs[1]) + 1) << 38
	}
	return c
}

// ---------------------------------------------------------------- model

const (
	outNoop      = "nothing-to-do"
	outUpgraded  = "upgraded"
	outFailed    = "migration-failed"
	outReversion = "reversion-refused"
)

type expectation struct {
	outcome   string
	log       [][2]uint32 // (manager, number) in expected invocation order
	markers   [][]uint32  // per manager (only meaningful when no error)
	version   []int       // per manager version afterwards (-1: still none)
	processed []bool      // manager reached by Upgrade
	upgraded  []bool      // manager had stored < latest and completed
	same      []bool      // manager had stored == latest
	errMgr    int
	pendingN  int  // total pending versions (nil ones included) of processed managers
	unsorted  bool // some processed manager had >=2 pending versions declared out of order
}

// model is the sorted-filter model written from the property statement.
func model(k kase) expectation {
	n := len(k.Mgrs)
	e := expectation{outcome: outNoop, markers: make([][]uint32, n), version: make([]int, n),
		processed: make([]bool, n), upgraded: make([]bool, n), same: make([]bool, n), errMgr: -1}
	for i, m := range k.Mgrs {
		e.version[i] = m.Stored
	}
	for i, m := range k.Mgrs {
		e.processed[i] = true
		stored := uint32(0)
		if m.Stored > 0 {
			stored = uint32(m.Stored)
		}
		latest := uint32(0)
		for _, t := range m.Table {
			if t.Num > latest {
				latest = t.Num
			}
		}
		if stored > latest {
			e.outcome, e.errMgr = outReversion, i
			return e
		}
		if stored == latest {
			e.same[i] = true
			continue
		}
		var pending []entry
		for _, t := range m.Table {
			if t.Num > stored {
				pending = append(pending, t)
			}
		}
		if !sort.SliceIsSorted(pending, func(a, b int) bool { return pending[a].Num < pending[b].Num }) {
			e.unsorted = true
		}
		sort.Slice(pending, func(a, b int) bool { return pending[a].Num < pending[b].Num })
		e.pendingN += len(pending)
		for _, p := range pending {
			switch p.Beh {
			case behNil:
			case behOK:
				e.log = append(e.log, [2]uint32{uint32(i), p.Num})
				e.markers[i] = append(e.markers[i], p.Num)
			case behFail:
				e.log = append(e.log, [2]uint32{uint32(i), p.Num})
				e.outcome, e.errMgr = outFailed, i
				return e
			}
		}
		e.version[i] = int(latest)
		e.upgraded[i] = true
		e.outcome = outUpgraded
	}
	return e
}

// ---------------------------------------------------------------- violations

type vrec struct {
	ord    uint64
	msg    string
	replay interface{}
	count  int
}

type collector struct {
	mu sync.Mutex
	m  map[string]*vrec
}

func (c *collector) add(sig string, ord uint64, mk func() (string, interface{})) {
	c.mu.Lock()
	defer c.mu.Unlock()
	if c.m == nil {
		c.m = map[string]*vrec{}
	}
	r, ok := c.m[sig]
	if !ok {
		r = &vrec{ord: ord}
		r.msg, r.replay = mk()
		c.m[sig] = r
	} else if ord < r.ord {
		r.ord = ord
		r.msg, r.replay = mk()
	}
	r.count++
}

func (c *collector) flush(run *ev.Run) {
	var sigs []string
	for s := range c.m {
		sigs = append(sigs, s)
	}
	sort.Strings(sigs)
	for _, s := range sigs {
		r := c.m[s]
		for i := 0; i < r.count; i++ {
			run.Violation(s, r.msg, r.replay)
		}
	}
}

type replayMgr struct {
	Table  []string `json:"versions_in_declaration_order"`
	Stored string   `json:"stored_version"`
}

type replayCase struct {
	Kind     string      `json:"kind"`
	Managers []replayMgr `json:"managers"`
	Expected string      `json:"expected_outcome"`
	ExpLog   []string    `json:"expected_invocations"`
	GotLog   []logEntry  `json:"observed_invocations"`
	GotErr   string      `json:"observed_error"`
	Diff     []string    `json:"db_diff_vs_expected,omitempty"`
}

func describeSpec(s mgrSpec) string {
	var p []string
	for _, e := range s.Table {
		p = append(p, fmt.Sprintf("%d:%s", e.Num, behName[e.Beh]))
	}
	st := fmt.Sprint(s.Stored)
	if s.Stored < 0 {
		st = "none"
	}
	return fmt.Sprintf("table[%s] stored=%s", strings.Join(p, ","), st)
}

func describeCase(k kase) string {
	var p []string
	for i, m := range k.Mgrs {
		p = append(p, fmt.Sprintf("%s{%s}", nsKeys[i], describeSpec(m)))
	}
	return strings.Join(p, " + ")
}

func mkReplay(k kase, e expectation, log []logEntry, err error, diff []string) replayCase {
	r := replayCase{Kind: "upgrade", Expected: e.outcome, GotLog: log, Diff: diff, GotErr: fmt.Sprint(err)}
	for _, m := range k.Mgrs {
		rm := replayMgr{Stored: fmt.Sprint(m.Stored)}
		if m.Stored < 0 {
			rm.Stored = "none"
		}
		for _, t := range m.Table {
			rm.Table = append(rm.Table, fmt.Sprintf("%d:%s", t.Num, behName[t.Beh]))
		}
		r.Managers = append(r.Managers, rm)
	}
	for _, l := range e.log {
		r.ExpLog = append(r.ExpLog, fmt.Sprintf("%s#%d", nsKeys[l[0]], l[1]))
	}
	return r
}

func fmtInv(l [][2]uint32) string {
	var p []string
	for _, g := range l {
		p = append(p, fmt.Sprintf("%s#%d", nsKeys[g[0]], g[1]))
	}
	return "[" + strings.Join(p, ",") + "]"
}

// ---------------------------------------------------------------- execution

type stats struct {
	evaluations, nontrivial                       int
	failure, reversion, upgraded, noop            int
	unsortedExec, twoMgr, secondStopsAfterFirstUp int
	absentVersion, nilSkipped                     int
	keys                                          map[uint64]struct{}
	nontrivialKeys                                map[uint64]struct{}
}

func newStats() *stats {
	return &stats{keys: map[uint64]struct{}{}, nontrivialKeys: map[uint64]struct{}{}}
}

func (s *stats) merge(o *stats) {
	s.evaluations += o.evaluations
	s.failure += o.failure
	s.reversion += o.reversion
	s.upgraded += o.upgraded
	s.noop += o.noop
	s.unsortedExec += o.unsortedExec
	s.twoMgr += o.twoMgr
	s.secondStopsAfterFirstUp += o.secondStopsAfterFirstUp
	s.absentVersion += o.absentVersion
	s.nilSkipped += o.nilSkipped
	for k := range o.keys {
		s.keys[k] = struct{}{}
	}
	for k := range o.nontrivialKeys {
		s.nontrivialKeys[k] = struct{}{}
	}
}

type worker struct {
	db   walletdb.DB
	st   *stats
	coll *collector
}

func newWorker(id int, coll *collector) *worker {
	path := filepath.Join(ev.Scratch(), fmt.Sprintf("c19-a-%d.db", id))
	db, err := walletdb.Create("bdb", path, true, time.Minute, false)
	if err != nil {
		ev.Fatal("create db: %v", err)
	}
	return &worker{db: db, st: newStats(), coll: coll}
}

// reset puts the database into the pre-call state of case k.
func (w *worker) reset(k kase) {
	err := walletdb.Update(w.db, func(tx walletdb.ReadWriteTx) error {
		for _, key := range [][]byte{nsKeys[0], nsKeys[1], otherKey} {
			if tx.ReadWriteBucket(key) != nil {
				if err := tx.DeleteTopLevelBucket(key); err != nil {
					return err
				}
			}
		}
		o, err := tx.CreateTopLevelBucket(otherKey)
		if err != nil {
			return err
		}
		if err := o.Put([]byte("x"), []byte("y")); err != nil {
			return err
		}
		for i, m := range k.Mgrs {
			b, err := tx.CreateTopLevelBucket(nsKeys[i])
			if err != nil {
				return err
			}
			if err := b.Put([]byte("base-key"), []byte("base-value")); err != nil {
				return err
			}
			d, err := b.CreateBucket([]byte("data"))
			if err != nil {
				return err
			}
			if err := d.Put([]byte("k1"), []byte("v1")); err != nil {
				return err
			}
			if m.Stored >= 0 {
				var raw [4]byte
				binary.BigEndian.PutUint32(raw[:], uint32(m.Stored))
				if err := b.Put(versionKey, raw[:]); err != nil {
					return err
				}
			}
		}
		return nil
	})
	if err != nil {
		ev.Fatal("reset: %v", err)
	}
}

// runCase executes one Upgrade call on the real code and compares it with the
// model. It returns a one-line description of what happened (for samples).
func (w *worker) runCase(k kase, ord uint64) string {
	exp := model(k)
	w.reset(k)
	pre := dumpDB(w.db)

	// harness sanity: the pre-state is what the model thinks it is
	for i, m := range k.Mgrs {
		v := uint32(0)
		if m.Stored > 0 {
			v = uint32(m.Stored)
		}
		if !sameLines(pre[string(nsKeys[i])], nsLines(i, m.Stored >= 0, v, nil)) {
			ev.Fatal("pre-state of %s differs from model: %v", nsKeys[i], pre[string(nsKeys[i])])
		}
	}
	if !sameLines(pre[string(otherKey)], otherLines()) || len(pre) != len(k.Mgrs)+1 {
		ev.Fatal("pre-state has unexpected buckets: %v", pre)
	}

	var log []logEntry
	inTxVer := make([]int64, len(k.Mgrs))
	var upErr error
	panicked := ""
	func() {
		defer func() {
			if r := recover(); r != nil {
				panicked = fmt.Sprint(r)
			}
		}()
		upErr = walletdb.Update(w.db, func(tx walletdb.ReadWriteTx) error {
			mgrs := make([]migration.Manager, len(k.Mgrs))
			hs := make([]*hmgr, len(k.Mgrs))
			for i, m := range k.Mgrs {
				ns := tx.ReadWriteBucket(nsKeys[i])
				if ns == nil {
					ev.Fatal("namespace %s missing", nsKeys[i])
				}
				hs[i] = &hmgr{idx: i, ns: ns, table: m.Table, log: &log}
				mgrs[i] = hs[i]
			}
			err := migration.Upgrade(mgrs...)
			for i := range hs {
				v, ok := readVersion(hs[i].ns)
				inTxVer[i] = int64(v)
				if !ok {
					inTxVer[i] = -1
				}
			}
			return err
		})
	}()
	post := dumpDB(w.db)

	// ---- bookkeeping
	st := w.st
	st.evaluations++
	code := caseCode(k)
	st.keys[code] = struct{}{}
	if exp.outcome != outNoop {
		st.nontrivialKeys[code] = struct{}{}
	}
	switch exp.outcome {
	case outNoop:
		st.noop++
	case outUpgraded:
		st.upgraded++
	case outFailed:
		st.failure++
	case outReversion:
		st.reversion++
	}
	if exp.unsorted {
		st.unsortedExec++
	}
	if len(k.Mgrs) > 1 {
		st.twoMgr++
		if exp.errMgr == 1 && exp.upgraded[0] {
			st.secondStopsAfterFirstUp++
		}
	}
	for _, m := range k.Mgrs {
		if m.Stored < 0 {
			st.absentVersion++
			break
		}
	}
	if exp.pendingN > len(exp.log) {
		st.nilSkipped++
	}

	// ---- oracle
	viol := func(sig, what string, diff []string) {
		w.coll.add(sig, ord, func() (string, interface{}) {
			return fmt.Sprintf("migration.Upgrade on %s: %s (expected outcome %s, returned error: %v)",
				describeCase(k), what, exp.outcome, upErr), mkReplay(k, exp, log, upErr, diff)
		})
	}
	if panicked != "" {
		viol("upgrade:panic", "panicked: "+panicked, nil)
		return "panic"
	}

	// invocations: each non-nil pending migration exactly once, ascending
	got := make([][2]uint32, len(log))
	for i, l := range log {
		got[i] = [2]uint32{uint32(l.Mgr), l.Num}
	}
	if fmt.Sprint(got) != fmt.Sprint(exp.log) {
		descending := false
		for i := 1; i < len(got); i++ {
			if got[i][0] == got[i-1][0] && got[i][1] < got[i-1][1] {
				descending = true
			}
		}
		if descending {
			viol("upgrade:order", fmt.Sprintf("migrations ran in order %s, expected %s", fmtInv(got), fmtInv(exp.log)), nil)
		} else {
			viol("upgrade:applied-set", fmt.Sprintf("migrations run were %s, expected exactly %s", fmtInv(got), fmtInv(exp.log)), nil)
		}
	}
	// the latest version is recorded after the migrations, not before
	for _, l := range log {
		want := int64(0)
		if s := k.Mgrs[l.Mgr].Stored; s > 0 {
			want = int64(s)
		}
		if l.Seen != want {
			viol("upgrade:version-recorded-before-migrations", fmt.Sprintf(
				"migration #%d of %s saw stored version %d while running, expected the old version %d",
				l.Num, nsKeys[l.Mgr], l.Seen, want), nil)
			break
		}
	}

	preFlat, postFlat := flat(pre), flat(post)
	switch exp.outcome {
	case outReversion:
		if upErr == nil || !errors.Is(upErr, migration.ErrReversion) {
			viol("upgrade:reversion-not-refused", fmt.Sprintf(
				"%s stores a version above its latest but Upgrade did not return ErrReversion", nsKeys[exp.errMgr]), nil)
		}
		if !sameLines(preFlat, postFlat) {
			viol("upgrade:reversion-modified-db", "database differs after the refused upgrade", diffLines(preFlat, postFlat))
		}
	case outFailed:
		if upErr == nil {
			viol("upgrade:failure-not-reported", fmt.Sprintf(
				"a migration of %s failed but Upgrade returned nil", nsKeys[exp.errMgr]), nil)
		}
		if inTxVer[exp.errMgr] != int64(k.Mgrs[exp.errMgr].Stored) {
			viol("upgrade:failure-version-changed", fmt.Sprintf(
				"stored version of %s is %d right after the failed Upgrade (inside the transaction), was %d",
				nsKeys[exp.errMgr], inTxVer[exp.errMgr], k.Mgrs[exp.errMgr].Stored), nil)
		}
		if !sameLines(preFlat, postFlat) {
			viol("upgrade:failure-left-changes", "database differs after the failed upgrade", diffLines(preFlat, postFlat))
		}
	default:
		if upErr != nil {
			viol("upgrade:spurious-error", "Upgrade returned an error although nothing should fail", nil)
			if !sameLines(preFlat, postFlat) {
				viol("upgrade:failure-left-changes", "database differs after Upgrade returned an error", diffLines(preFlat, postFlat))
			}
			break
		}
		if !sameLines(post[string(otherKey)], otherLines()) || len(post) != len(pre) {
			viol("upgrade:unexpected-db-change", "buckets outside the service namespaces changed", diffLines(preFlat, postFlat))
		}
		for i := range k.Mgrs {
			name := string(nsKeys[i])
			if exp.same[i] {
				if !sameLines(pre[name], post[name]) {
					viol("upgrade:same-version-modified-db", name+" was already at its latest version but its namespace changed",
						diffLines(pre[name], post[name]))
				}
				continue
			}
			want := nsLines(i, true, uint32(exp.version[i]), exp.markers[i])
			if sameLines(post[name], want) {
				continue
			}
			d := diffLines(want, post[name])
			verBad, otherBad := false, false
			for _, l := range d {
				if strings.Contains(l, fmt.Sprintf("/%q = ", versionKey)) {
					verBad = true
				} else {
					otherBad = true
				}
			}
			if verBad {
				viol("upgrade:version-after", fmt.Sprintf("stored version of %s after the upgrade is not its latest version %d", name, exp.version[i]), d)
			}
			if otherBad {
				viol("upgrade:applied-set", fmt.Sprintf("markers left in %s are not those of the pending migrations %v", name, exp.markers[i]), d)
			}
		}
	}
	return fmt.Sprintf("%s -> %s; migrations invoked %s; error %v; versions afterwards %v", describeCase(k), exp.outcome,
		fmtInv(got), upErr, exp.version)
}

// job is one table for the first service; the worker crosses it with every
// stored version and (two-service mode) with every second service.
type partAResult struct {
	st        *stats
	samples   []string
	completed bool
}

func storedRange(n int) []int {
	r := []int{}
	for s := 0; s <= n+1; s++ {
		r = append(r, s)
	}
	return append(r, -1) // "no version stored yet" last
}

func runPartA(run *ev.Run, coll *collector, nSingle, nFirst, nSecond, workers int) partAResult {
	type job struct {
		table []entry
		two   bool
	}
	var jobs []job
	for _, t := range tables(nSingle) {
		jobs = append(jobs, job{t, false})
	}
	nSingleJobs := len(jobs)
	for _, t := range tables(nFirst) {
		jobs = append(jobs, job{t, true})
	}
	var seconds []mgrSpec
	for _, t := range tables(nSecond) {
		for _, s := range storedRange(nSecond) {
			seconds = append(seconds, mgrSpec{t, s})
		}
	}
	if len(seconds) >= 1<<12 {
		ev.Fatal("too many second-service specs for the ordinal encoding")
	}

	sampleAt := map[int]bool{}
	for _, f := range []int{0, 1, 2, 3} {
		sampleAt[nSingleJobs*f/4+nSingleJobs/9] = true
		sampleAt[nSingleJobs+(len(jobs)-nSingleJobs)*f/4+7] = true
	}
	sampleAt[nSingleJobs-1] = true

	var next int64
	var wg sync.WaitGroup
	var mu sync.Mutex
	total := newStats()
	sampleMap := map[int]string{}
	expired := int32(0)
	for wi := 0; wi < workers; wi++ {
		wg.Add(1)
		go func(wi int) {
			defer wg.Done()
			w := newWorker(wi, coll)
			defer w.db.Close()
			for {
				ji := int(atomic.AddInt64(&next, 1) - 1)
				if ji >= len(jobs) {
					break
				}
				if run.Expired() {
					atomic.StoreInt32(&expired, 1)
					break
				}
				j := jobs[ji]
				nmax := nSingle
				if j.two {
					nmax = nFirst
				}
				inner := uint64(0)
				for si, s := range storedRange(nmax) {
					first := mgrSpec{j.table, s}
					if !j.two {
						d := w.runCase(kase{[]mgrSpec{first}}, uint64(ji)<<20|inner)
						inner++
						if sampleAt[ji] && si == len(j.table)%3 {
							mu.Lock()
							sampleMap[ji] = d
							mu.Unlock()
						}
						continue
					}
					for bi, b := range seconds {
						d := w.runCase(kase{[]mgrSpec{first, b}}, uint64(ji)<<20|inner)
						inner++
						if sampleAt[ji] && si == 0 && bi == len(seconds)/2+5 {
							mu.Lock()
							sampleMap[ji] = d
							mu.Unlock()
						}
					}
				}
			}
			mu.Lock()
			total.merge(w.st)
			mu.Unlock()
		}(wi)
	}
	wg.Wait()
	var idx []int
	for i := range sampleMap {
		idx = append(idx, i)
	}
	sort.Ints(idx)
	var samples []string
	for _, i := range idx {
		samples = append(samples, sampleMap[i])
	}
	return partAResult{st: total, samples: samples, completed: expired == 0}
}

// ---------------------------------------------------------------- exported helpers

type helperStats struct {
	tables, latestCalls, toApplyCalls, nontrivialToApply int
}

// checkHelpers compares migration.GetLatestVersion and
// migration.VersionsToApply with the model on every table (subset x
// declaration order x nil/non-nil pattern) and every current version.
func checkHelpers(coll *collector, n int) helperStats {
	var hs helperStats
	ord := uint64(0)
	for k := 1; k <= n; k++ {
		for mask := 1; mask < 1<<uint(n); mask++ {
			var nums []uint32
			for i := 0; i < n; i++ {
				if mask&(1<<uint(i)) != 0 {
					nums = append(nums, uint32(i+1))
				}
			}
			if len(nums) != k {
				continue
			}
			for _, perm := range permutations(nums) {
				for nilMask := 0; nilMask < 1<<uint(k); nilMask++ {
					hs.tables++
					called := uint32(0)
					build := func() []migration.Version {
						vs := make([]migration.Version, k)
						for i, num := range perm {
							num := num
							vs[i].Number = num
							if nilMask&(1<<uint(i)) == 0 {
								vs[i].Migration = func(walletdb.ReadWriteBucket) error { called = num; return nil }
							}
						}
						return vs
					}
					isNil := map[uint32]bool{}
					for i, num := range perm {
						isNil[num] = nilMask&(1<<uint(i)) != 0
					}
					desc := func() string {
						var p []string
						for _, num := range perm {
							s := fmt.Sprint(num)
							if isNil[num] {
								s += ":nil"
							}
							p = append(p, s)
						}
						return "[" + strings.Join(p, ",") + "]"
					}
					ord++
					max := nums[len(nums)-1]
					hs.latestCalls++
					if got := migration.GetLatestVersion(build()); got != max {
						o := ord
						coll.add("getlatestversion:wrong", o, func() (string, interface{}) {
							return fmt.Sprintf("GetLatestVersion(%s) = %d, expected %d", desc(), got, max),
								map[string]interface{}{"kind": "GetLatestVersion", "table": desc()}
						})
					}
					for cur := uint32(0); cur <= uint32(n)+1; cur++ {
						hs.toApplyCalls++
						var want []uint32
						for _, num := range nums { // nums is ascending
							if num > cur {
								want = append(want, num)
							}
						}
						if len(want) > 0 {
							hs.nontrivialToApply++
						}
						res := migration.VersionsToApply(cur, build())
						var gotNums []uint32
						mix := ""
						for _, v := range res {
							gotNums = append(gotNums, v.Number)
							if (v.Migration == nil) != isNil[v.Number] {
								mix = fmt.Sprintf("version %d returned with the wrong migration (nil-ness)", v.Number)
							} else if v.Migration != nil {
								called = 0
								v.Migration(nil)
								if called != v.Number {
									mix = fmt.Sprintf("version %d returned with the migration of version %d", v.Number, called)
								}
							}
						}
						o := ord<<4 | uint64(cur)
						rep := map[string]interface{}{"kind": "VersionsToApply", "table": desc(), "current": cur}
						if fmt.Sprint(gotNums) != fmt.Sprint(want) {
							a := append([]uint32{}, gotNums...)
							sort.Slice(a, func(i, j int) bool { return a[i] < a[j] })
							sig := "versionstoapply:set"
							if fmt.Sprint(a) == fmt.Sprint(want) {
								sig = "versionstoapply:order"
							}
							coll.add(sig, o, func() (string, interface{}) {
								return fmt.Sprintf("VersionsToApply(%d, %s) = %v, expected %v", cur, desc(), gotNums, want), rep
							})
						} else if mix != "" {
							coll.add("versionstoapply:migration-mixup", o, func() (string, interface{}) {
								return fmt.Sprintf("VersionsToApply(%d, %s): %s", cur, desc(), mix), rep
							})
						}
					}
				}
			}
		}
	}
	return hs
}
