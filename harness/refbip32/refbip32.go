// Package refbip32 is an independent implementation of hierarchical key
// derivation used as the oracle for C03/C04. Only HMAC-SHA512 and secp256k1
// group arithmetic (btcec, trusted base) are used; nothing from hdkeychain.
//
// "Legacy rule" (btcsuite): for a hardened child the parent private key bytes
// AS HELD (big-endian without leading zero bytes when the key was just derived,
// 32 bytes when it came from a seed or from its serialized xprv form) are copied
// left-aligned into the 33-byte field after the 0x00 prefix. This equals BIP32
// unless the held key is shorter than 32 bytes, i.e. a freshly derived
// intermediate private key has a leading zero byte.
package refbip32

import (
	"crypto/hmac"
	"crypto/sha512"
	"encoding/binary"
	"errors"
	"math/big"

	"github.com/btcsuite/btcd/btcec/v2"
)

// Hardened is the first hardened child index.
const Hardened = uint32(0x80000000)

var curveN = btcec.S256().N

// Key is an extended key of the reference.
type Key struct {
	Priv  []byte // private key bytes as held (nil for a public key)
	Pub   *btcec.PublicKey
	Chain []byte
}

// ErrInvalidChild mirrors BIP32's invalid child condition.
var ErrInvalidChild = errors.New("invalid child")

// Master derives the master key from a seed.
func Master(seed []byte) Key {
	m := hmac.New(sha512.New, []byte("Bitcoin seed"))
	m.Write(seed)
	lr := m.Sum(nil)
	k := Key{Priv: append([]byte{}, lr[:32]...), Chain: append([]byte{}, lr[32:]...)}
	k.Pub = pubOf(k.Priv)
	return k
}

func pubOf(priv []byte) *btcec.PublicKey {
	_, pub := btcec.PrivKeyFromBytes(pad32(priv))
	return pub
}

func pad32(b []byte) []byte {
	if len(b) >= 32 {
		return b
	}
	out := make([]byte, 32)
	copy(out[32-len(b):], b)
	return out
}

// Serialized returns the key as it is after a round trip through its
// serialized (xprv) form: 32 bytes, left padded.
func (k Key) Serialized() Key {
	c := k
	if k.Priv != nil {
		c.Priv = pad32(k.Priv)
	}
	return c
}

// Priv32 returns the 32-byte private key.
func (k Key) Priv32() []byte { return pad32(k.Priv) }

// Child derives child i with the legacy rule (private parent) or the public
// derivation (public parent, non-hardened only).
func (k Key) Child(i uint32) (Key, error) {
	data := make([]byte, 37)
	if i >= Hardened {
		if k.Priv == nil {
			return Key{}, errors.New("hardened child of public key")
		}
		copy(data[1:], k.Priv) // legacy: left aligned, as held
	} else {
		copy(data, k.Pub.SerializeCompressed())
	}
	binary.BigEndian.PutUint32(data[33:], i)
	m := hmac.New(sha512.New, k.Chain)
	m.Write(data)
	ilr := m.Sum(nil)
	il := new(big.Int).SetBytes(ilr[:32])
	if il.Cmp(curveN) >= 0 || il.Sign() == 0 {
		return Key{}, ErrInvalidChild
	}
	child := Key{Chain: append([]byte{}, ilr[32:]...)}
	if k.Priv != nil {
		kn := new(big.Int).SetBytes(k.Priv)
		kn.Add(kn, il)
		kn.Mod(kn, curveN)
		child.Priv = kn.Bytes() // as held: no leading zero bytes
		child.Pub = pubOf(child.Priv)
		return child, nil
	}
	// public: child = il*G + parent
	var ilS btcec.ModNScalar
	ilS.SetByteSlice(ilr[:32])
	var ilJ, pJ, sumJ btcec.JacobianPoint
	btcec.ScalarBaseMultNonConst(&ilS, &ilJ)
	k.Pub.AsJacobian(&pJ)
	btcec.AddNonConst(&ilJ, &pJ, &sumJ)
	if sumJ.Z.IsZero() {
		return Key{}, ErrInvalidChild
	}
	sumJ.ToAffine()
	child.Pub = btcec.NewPublicKey(&sumJ.X, &sumJ.Y)
	return child, nil
}

// Neuter drops the private key.
func (k Key) Neuter() Key { return Key{Pub: k.Pub, Chain: k.Chain} }

// Path derives along a path.
func (k Key) Path(idx ...uint32) (Key, error) {
	cur := k
	for _, i := range idx {
		n, err := cur.Child(i)
		if err != nil {
			return Key{}, err
		}
		cur = n
	}
	return cur, nil
}

// LeadingZero reports whether the held private key is shorter than 32 bytes
// or starts with a zero byte.
func (k Key) LeadingZero() bool {
	return k.Priv != nil && (len(k.Priv) < 32 || k.Priv[0] == 0)
}
