// Package faultdb wraps walletdb buckets so that every mutating call (Put,
// Delete, CreateBucket*, DeleteNestedBucket, SetSequence, NextSequence, cursor
// Delete) is counted, logged and, for a chosen position k, failed with a
// sentinel error instead of being executed. waddrmgr and wtxmgr only see the
// walletdb interfaces, so no source change is needed.
package faultdb

import (
	"errors"
	"fmt"

	"github.com/btcsuite/btcwallet/walletdb"
)

// ErrInjected is the sentinel returned by the failed write.
var ErrInjected = errors.New("faultdb: injected write failure")

// Ctl controls one transaction's fault plan.
type Ctl struct {
	FailAt    int // 1-based index of the mutating call to fail; 0 = none
	Count     int
	Log       []string
	Fired     bool
	FiredSite string
}

func (c *Ctl) hit(site string) error {
	c.Count++
	c.Log = append(c.Log, site)
	if c.FailAt != 0 && c.Count == c.FailAt {
		c.Fired = true
		c.FiredSite = site
		return ErrInjected
	}
	return nil
}

// Wrap wraps a read-write bucket (name is used in the write log).
func Wrap(b walletdb.ReadWriteBucket, c *Ctl, name string) walletdb.ReadWriteBucket {
	if b == nil {
		return nil
	}
	return &bucket{b: b, c: c, name: name}
}

type bucket struct {
	b    walletdb.ReadWriteBucket
	c    *Ctl
	name string
}

func (w *bucket) sub(key []byte) string { return fmt.Sprintf("%s/%x", w.name, trunc(key)) }

func trunc(k []byte) []byte {
	if len(k) > 6 {
		return k[:6]
	}
	return k
}

func (w *bucket) NestedReadBucket(key []byte) walletdb.ReadBucket {
	nb := w.b.NestedReadWriteBucket(key)
	if nb == nil {
		return nil
	}
	return &bucket{b: nb, c: w.c, name: w.name + "/" + string(printable(key))}
}
func (w *bucket) ForEach(f func(k, v []byte) error) error { return w.b.ForEach(f) }
func (w *bucket) Get(key []byte) []byte                   { return w.b.Get(key) }
func (w *bucket) ReadCursor() walletdb.ReadCursor         { return w.b.ReadCursor() }
func (w *bucket) Sequence() uint64                        { return w.b.Sequence() }
func (w *bucket) NestedReadWriteBucket(key []byte) walletdb.ReadWriteBucket {
	nb := w.b.NestedReadWriteBucket(key)
	if nb == nil {
		return nil
	}
	return &bucket{b: nb, c: w.c, name: w.name + "/" + string(printable(key))}
}
func (w *bucket) CreateBucket(key []byte) (walletdb.ReadWriteBucket, error) {
	if err := w.c.hit("CreateBucket " + w.name + "/" + string(printable(key))); err != nil {
		return nil, err
	}
	nb, err := w.b.CreateBucket(key)
	if err != nil {
		return nil, err
	}
	return &bucket{b: nb, c: w.c, name: w.name + "/" + string(printable(key))}, nil
}
func (w *bucket) CreateBucketIfNotExists(key []byte) (walletdb.ReadWriteBucket, error) {
	if err := w.c.hit("CreateBucketIfNotExists " + w.name + "/" + string(printable(key))); err != nil {
		return nil, err
	}
	nb, err := w.b.CreateBucketIfNotExists(key)
	if err != nil {
		return nil, err
	}
	return &bucket{b: nb, c: w.c, name: w.name + "/" + string(printable(key))}, nil
}
func (w *bucket) DeleteNestedBucket(key []byte) error {
	if err := w.c.hit("DeleteNestedBucket " + w.name + "/" + string(printable(key))); err != nil {
		return err
	}
	return w.b.DeleteNestedBucket(key)
}
func (w *bucket) Put(key, value []byte) error {
	if err := w.c.hit("Put " + w.name); err != nil {
		return err
	}
	return w.b.Put(key, value)
}
func (w *bucket) Delete(key []byte) error {
	if err := w.c.hit("Delete " + w.name); err != nil {
		return err
	}
	return w.b.Delete(key)
}
func (w *bucket) ReadWriteCursor() walletdb.ReadWriteCursor {
	return &cursor{c: w.b.ReadWriteCursor(), ctl: w.c, name: w.name}
}
func (w *bucket) Tx() walletdb.ReadWriteTx { return &tx{t: w.b.Tx(), c: w.c} }
func (w *bucket) NextSequence() (uint64, error) {
	if err := w.c.hit("NextSequence " + w.name); err != nil {
		return 0, err
	}
	return w.b.NextSequence()
}
func (w *bucket) SetSequence(v uint64) error {
	if err := w.c.hit("SetSequence " + w.name); err != nil {
		return err
	}
	return w.b.SetSequence(v)
}

func printable(k []byte) []byte {
	for _, c := range k {
		if c < 0x20 || c > 0x7e {
			return []byte(fmt.Sprintf("%x", trunc(k)))
		}
	}
	return k
}

type cursor struct {
	c    walletdb.ReadWriteCursor
	ctl  *Ctl
	name string
}

func (c *cursor) First() (k, v []byte)        { return c.c.First() }
func (c *cursor) Last() (k, v []byte)         { return c.c.Last() }
func (c *cursor) Next() (k, v []byte)         { return c.c.Next() }
func (c *cursor) Prev() (k, v []byte)         { return c.c.Prev() }
func (c *cursor) Seek(s []byte) (k, v []byte) { return c.c.Seek(s) }
func (c *cursor) Delete() error {
	if err := c.ctl.hit("CursorDelete " + c.name); err != nil {
		return err
	}
	return c.c.Delete()
}

type tx struct {
	t walletdb.ReadWriteTx
	c *Ctl
}

func (t *tx) ReadBucket(key []byte) walletdb.ReadBucket {
	b := t.t.ReadWriteBucket(key)
	if b == nil {
		return nil
	}
	return &bucket{b: b, c: t.c, name: string(printable(key))}
}
func (t *tx) ForEachBucket(f func(key []byte) error) error { return t.t.ForEachBucket(f) }
func (t *tx) Rollback() error                              { return t.t.Rollback() }
func (t *tx) ReadWriteBucket(key []byte) walletdb.ReadWriteBucket {
	b := t.t.ReadWriteBucket(key)
	if b == nil {
		return nil
	}
	return &bucket{b: b, c: t.c, name: string(printable(key))}
}
func (t *tx) CreateTopLevelBucket(key []byte) (walletdb.ReadWriteBucket, error) {
	if err := t.c.hit("CreateTopLevelBucket " + string(printable(key))); err != nil {
		return nil, err
	}
	b, err := t.t.CreateTopLevelBucket(key)
	if err != nil {
		return nil, err
	}
	return &bucket{b: b, c: t.c, name: string(printable(key))}, nil
}
func (t *tx) DeleteTopLevelBucket(key []byte) error {
	if err := t.c.hit("DeleteTopLevelBucket " + string(printable(key))); err != nil {
		return err
	}
	return t.t.DeleteTopLevelBucket(key)
}
func (t *tx) Commit() error     { return t.t.Commit() }
func (t *tx) OnCommit(f func()) { t.t.OnCommit(f) }
