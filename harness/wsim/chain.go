// Package wsim is the wallet-level closed system: a block-tree chain model, a
// fake chain.Interface backed by it, and a driver that runs the REAL wallet
// (wallet.Create/Open, Start, SynchronizeRPC, handleChainNotifications,
// syncWithChain, recovery, rescan, publish) against them deterministically.
package wsim

import (
	"crypto/sha256"
	"fmt"
	"time"

	"github.com/btcsuite/btcd/chaincfg"
	"github.com/btcsuite/btcd/chaincfg/chainhash"
	"github.com/btcsuite/btcd/wire"
)

// Params are the chain parameters (simnet: the wallet's dev-env path, no
// 1-second "backend current" polling).
var Params = &chaincfg.SimNetParams

// Block is one block of the model's block tree.
type Block struct {
	Name   string // e.g. "2a": height 2, branch a
	Height int32
	Prev   *Block
	Header wire.BlockHeader
	Hash   chainhash.Hash
	Txs    []*wire.MsgTx // wallet-relevant transactions, in order
}

// Chain is a block tree with a best-chain pointer.
type Chain struct {
	Genesis *Block
	Tip     *Block
	ByHash  map[chainhash.Hash]*Block
}

// NewChain returns a chain consisting of the genesis block.
func NewChain() *Chain {
	g := &Block{Name: "0", Height: 0, Header: Params.GenesisBlock.Header, Hash: *Params.GenesisHash}
	return &Chain{Genesis: g, Tip: g, ByHash: map[chainhash.Hash]*Block{g.Hash: g}}
}

// NewBlock creates (but does not connect) a child of prev.
func (c *Chain) NewBlock(prev *Block, branch string, txs []*wire.MsgTx) *Block {
	b := &Block{Name: fmt.Sprintf("%d%s", prev.Height+1, branch), Height: prev.Height + 1, Prev: prev, Txs: txs}
	h := sha256.Sum256([]byte("merkle-" + b.Name + fmt.Sprint(len(txs))))
	b.Header = wire.BlockHeader{
		Version:    1,
		PrevBlock:  prev.Hash,
		MerkleRoot: chainhash.Hash(h),
		Timestamp:  prev.Header.Timestamp.Add(10 * time.Minute),
		Bits:       0x207fffff,
		Nonce:      uint32(len(c.ByHash)),
	}
	b.Hash = b.Header.BlockHash()
	c.ByHash[b.Hash] = b
	return b
}

// AtHeight returns the best-chain block at a height or nil.
func (c *Chain) AtHeight(h int32) *Block {
	for b := c.Tip; b != nil; b = b.Prev {
		if b.Height == h {
			return b
		}
	}
	return nil
}

// OnBest reports whether b is on the best chain.
func (c *Chain) OnBest(b *Block) bool { return c.AtHeight(b.Height) == b }

// MsgBlock renders the block for GetBlock/FilterBlocks.
func (b *Block) MsgBlock() *wire.MsgBlock {
	mb := wire.NewMsgBlock(&b.Header)
	// a coinbase-like first transaction that pays nobody we know
	cb := wire.NewMsgTx(1)
	cb.AddTxIn(wire.NewTxIn(&wire.OutPoint{Index: wire.MaxPrevOutIndex}, []byte{0x51, byte(b.Height), byte(len(b.Name))}, nil))
	cb.AddTxOut(wire.NewTxOut(50e8, []byte{0x51}))
	mb.AddTransaction(cb)
	for _, tx := range b.Txs {
		mb.AddTransaction(tx)
	}
	return mb
}
