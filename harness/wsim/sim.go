package wsim

import (
	"bytes"
	"crypto/sha256"
	"fmt"
	"io"
	"os"
	"path/filepath"
	"regexp"
	"runtime"
	"strings"
	"sync"
	"time"

	"github.com/btcsuite/btcd/btcutil"
	"github.com/btcsuite/btcd/btcutil/hdkeychain"
	"github.com/btcsuite/btcd/chaincfg/chainhash"
	"github.com/btcsuite/btcd/txscript"
	"github.com/btcsuite/btcd/wire"
	"github.com/btcsuite/btclog"
	"github.com/btcsuite/btcwallet/chain"
	"github.com/btcsuite/btcwallet/snacl"
	"github.com/btcsuite/btcwallet/waddrmgr"
	"github.com/btcsuite/btcwallet/wallet"
	"github.com/btcsuite/btcwallet/walletdb"
	_ "github.com/btcsuite/btcwallet/walletdb/bdb"
	"github.com/btcsuite/btcwallet/wtxmgr"
)

var (
	// PubPass / PrivPass are the wallet passphrases.
	PubPass  = []byte("public")
	PrivPass = []byte("private-pass")

	fastOnce sync.Once
	tmplMu   sync.Mutex
	tmpls    = map[string]string{}
)

func fastScrypt() {
	fastOnce.Do(func() {
		if os.Getenv("WSIM_LOG") != "" {
			backend := btclog.NewBackend(os.Stderr)
			l := backend.Logger("WLLT")
			l.SetLevel(btclog.LevelDebug)
			wallet.UseLogger(l)
		}
		waddrmgr.SetSecretKeyGen(func(p *[]byte, _ *waddrmgr.ScryptOptions) (*snacl.SecretKey, error) {
			return snacl.NewSecretKey(p, 16, 8, 1)
		})
	})
}

// Seed returns the named seed.
func Seed(name string) []byte {
	h := sha256.Sum256([]byte("verif-wsim-seed-" + name))
	return h[:]
}

// Birthday is the wallet birthday: the genesis time stamp, so that every model
// block is after it.
func Birthday() time.Time { return Params.GenesisBlock.Header.Timestamp }

// barrier is a notification value the wallet ignores; when the (unbuffered)
// notification channel accepts it, the previous notification has been fully
// processed by the sequential notification loop.
type barrier struct{}

// Sim is one running wallet attached to a model chain.
type Sim struct {
	Dir      string
	ID       int
	Path     string
	SeedName string
	DB       walletdb.DB
	W        *wallet.Wallet
	Chain    *Chain
	BE       *Backend
	Window   uint32
	attached bool
}

func copyFile(src, dst string) error {
	in, err := os.Open(src)
	if err != nil {
		return err
	}
	defer in.Close()
	out, err := os.Create(dst)
	if err != nil {
		return err
	}
	if _, err := io.Copy(out, in); err != nil {
		out.Close()
		return err
	}
	return out.Close()
}

func template(dir, seedName string) (string, error) {
	tmplMu.Lock()
	defer tmplMu.Unlock()
	if p, ok := tmpls[dir+seedName]; ok {
		return p, nil
	}
	fastScrypt()
	path := filepath.Join(dir, "wsim-tmpl-"+seedName+".db")
	os.Remove(path)
	db, err := walletdb.Create("bdb", path, true, time.Minute, false)
	if err != nil {
		return "", err
	}
	root, err := hdkeychain.NewMaster(Seed(seedName), Params)
	if err != nil {
		return "", err
	}
	err = wallet.Create(db, PubPass, PrivPass, root, Params, Birthday().Add(49*time.Hour))
	db.Close()
	if err != nil {
		return "", err
	}
	tmpls[dir+seedName] = path
	return path, nil
}

// NewSim creates a wallet file for the seed (copy of a template created with
// the real wallet.Create). The wallet is not opened yet.
func NewSim(dir string, id int, seedName string, c *Chain) (*Sim, error) {
	tp, err := template(dir, seedName)
	if err != nil {
		return nil, err
	}
	s := &Sim{Dir: dir, ID: id, SeedName: seedName, Chain: c,
		Path: filepath.Join(dir, fmt.Sprintf("wsim-%d.db", id))}
	if err := copyFile(tp, s.Path); err != nil {
		return nil, err
	}
	return s, nil
}

// Open opens the wallet with the given recovery window and starts it.
func (s *Sim) Open(window uint32) error {
	db, err := walletdb.Open("bdb", s.Path, true, time.Minute, false)
	if err != nil {
		return err
	}
	s.DB = db
	w, err := wallet.OpenWithRetry(db, PubPass, nil, Params, window, 10*time.Millisecond)
	if err != nil {
		db.Close()
		return err
	}
	s.W = w
	s.Window = window
	w.Start()
	return nil
}

// Attach connects the fake backend and runs the wallet's start-up
// synchronisation (ClientConnected -> birthday check -> syncWithChain ->
// recovery -> rollback loop -> rescan request). It returns when the
// notification loop is ready for the next notification.
func (s *Sim) Attach() {
	s.BE = NewBackend(s.Chain)
	s.W.SynchronizeRPC(s.BE)
	s.attached = true
	s.Feed(chain.ClientConnected{})
}

// StuckError is the panic value raised when the wallet's notification loop
// does not accept a notification (or its barrier) within FeedTimeout: the
// wallet is stuck, e.g. its start-up synchronisation fails and retries forever.
type StuckError struct{ What string }

func (e *StuckError) Error() string {
	return "wallet notification loop stuck while processing " + e.What
}

// FeedTimeout bounds how long Feed waits for the wallet to take a value.
var FeedTimeout = 45 * time.Second

func (s *Sim) send(v interface{}, what string) {
	select {
	case s.BE.ntfns <- v:
	case <-time.After(FeedTimeout):
		// shut the stuck wallet down so that its goroutines end, then report
		w := s.W
		go func() {
			if w != nil {
				w.Stop()
			}
		}()
		panic(&StuckError{What: what})
	}
}

// Feed delivers one notification and waits until it has been processed. It
// panics with *StuckError if the wallet does not get there within FeedTimeout.
func (s *Sim) Feed(n interface{}) {
	what := fmt.Sprintf("%T", n)
	s.send(n, what)
	s.send(barrier{}, what)
}

// FinishRescans answers every pending Rescan request with RescanFinished at
// the current tip (the feeder is the only sender of notifications) and waits
// for the asynchronous rebroadcast to settle.
func (s *Sim) FinishRescans() {
	t := s.Chain.Tip
	h := t.Hash
	s.Feed(&chain.RescanFinished{Hash: &h, Height: t.Height, Time: t.Header.Timestamp})
	s.Quiesce()
}

var goroutineHdr = regexp.MustCompile(`(?m)^goroutine \d+ \[([^\]]+)\]:$`)

// Quiesce waits until every wallet goroutine is parked in a select or channel
// receive and no rebroadcast is in flight (event based: it polls goroutine
// states, it does not sleep for a fixed time).
func (s *Sim) Quiesce() {
	// (no verdict depends on this bound being short; a loaded machine must not trip it)
	deadline := time.Now().Add(240 * time.Second)
	buf := make([]byte, 1<<20)
	calm := 0
	lastBusy := ""
	for calm < 3 {
		n := runtime.Stack(buf, true)
		busy := false
		for _, g := range strings.Split(string(buf[:n]), "\n\n") {
			if !strings.Contains(g, "btcwallet/wallet.") || strings.Contains(g, "wsim.(*Sim).Quiesce") {
				continue
			}
			m := goroutineHdr.FindStringSubmatch(g)
			state := ""
			if m != nil {
				state = strings.Split(m[1], ",")[0]
			}
			if strings.Contains(g, "resendUnminedTxs") || strings.Contains(g, "publishTransaction") {
				busy, lastBusy = true, g
				break
			}
			if state != "select" && state != "chan receive" && state != "select (no cases)" {
				busy, lastBusy = true, g
				break
			}
		}
		if busy {
			calm = 0
		} else {
			calm++
		}
		if time.Now().After(deadline) {
			if len(lastBusy) > 1500 {
				lastBusy = lastBusy[:1500]
			}
			panic("wsim: wallet did not quiesce within 240s (harness error); last busy wallet goroutine:\n" + lastBusy)
		}
		if calm < 3 {
			runtime.Gosched()
			time.Sleep(50 * time.Microsecond)
		}
	}
}

// Stop shuts the wallet down and closes the database.
func (s *Sim) Stop() {
	if s.W != nil {
		s.W.Stop()
		s.W.WaitForShutdown()
		s.W = nil
	}
	if s.DB != nil {
		s.DB.Close()
		s.DB = nil
	}
	s.attached = false
}

// Close stops and removes the files.
func (s *Sim) Close() {
	s.Stop()
	os.Remove(s.Path)
}

// Unlock unlocks the wallet (no timeout).
func (s *Sim) Unlock() error { return s.W.Unlock(PrivPass, nil) }

// Style selects how a backend announces a block.
type Style int

const (
	// StyleFiltered: FilteredBlockConnected{block, txs} then BlockConnected (btcd).
	StyleFiltered Style = iota
	// StyleTxFirst: RelevantTx per tx, FilteredBlockConnected, BlockConnected (bitcoind).
	StyleTxFirst
	// StyleBlockFirst: BlockConnected then RelevantTx per tx (legacy order).
	StyleBlockFirst
)

// Meta returns the wtxmgr block meta of a model block.
func (b *Block) Meta() wtxmgr.BlockMeta {
	return wtxmgr.BlockMeta{Block: wtxmgr.Block{Hash: b.Hash, Height: b.Height}, Time: b.Header.Timestamp}
}

// Connect makes b the tip of the model and notifies the wallet.
func (s *Sim) Connect(b *Block, st Style) {
	s.BE.mu.Lock()
	s.Chain.Tip = b
	s.BE.mu.Unlock()
	meta := b.Meta()
	var recs []*wtxmgr.TxRecord
	for _, tx := range b.Txs {
		rec, _ := wtxmgr.NewTxRecordFromMsgTx(tx, b.Header.Timestamp)
		recs = append(recs, rec)
	}
	switch st {
	case StyleFiltered:
		s.Feed(chain.FilteredBlockConnected{Block: &meta, RelevantTxs: recs})
		s.Feed(chain.BlockConnected(meta))
	case StyleTxFirst:
		for _, r := range recs {
			s.Feed(chain.RelevantTx{TxRecord: r, Block: &meta})
		}
		s.Feed(chain.FilteredBlockConnected{Block: &meta, RelevantTxs: recs})
		s.Feed(chain.BlockConnected(meta))
	case StyleBlockFirst:
		s.Feed(chain.BlockConnected(meta))
		for _, r := range recs {
			s.Feed(chain.RelevantTx{TxRecord: r, Block: &meta})
		}
	}
}

// Disconnect removes the tip from the best chain and notifies the wallet.
func (s *Sim) Disconnect() *Block {
	s.BE.mu.Lock()
	b := s.Chain.Tip
	s.Chain.Tip = b.Prev
	s.BE.mu.Unlock()
	s.Feed(chain.BlockDisconnected(b.Meta()))
	return b
}

// NotifyDisconnected sends a BlockDisconnected for an arbitrary block without
// changing the model (duplicate / stale notifications).
func (s *Sim) NotifyDisconnected(b *Block) { s.Feed(chain.BlockDisconnected(b.Meta())) }

// SeenUnconfirmed notifies an unconfirmed relevant transaction.
func (s *Sim) SeenUnconfirmed(tx *wire.MsgTx) {
	rec, _ := wtxmgr.NewTxRecordFromMsgTx(tx, time.Unix(1500000000, 0))
	s.Feed(chain.RelevantTx{TxRecord: rec})
}

// FundingTx builds a transaction paying amt to addr from a fresh external
// outpoint identified by tag.
func FundingTx(tag string, addr btcutil.Address, amt int64) *wire.MsgTx {
	tx := wire.NewMsgTx(2)
	h := sha256.Sum256([]byte("wsim-external-" + tag))
	tx.AddTxIn(wire.NewTxIn(&wire.OutPoint{Hash: chainhash.Hash(h), Index: 0}, nil, nil))
	pk, err := txscript.PayToAddrScript(addr)
	if err != nil {
		panic(err)
	}
	tx.AddTxOut(wire.NewTxOut(amt, pk))
	return tx
}

// SyncedTo returns the wallet's synced-to stamp.
func (s *Sim) SyncedTo() waddrmgr.BlockStamp { return s.W.Manager.SyncedTo() }

var _ = bytes.Equal

// ServeRescans answers every pending Rescan request the way a real backend
// does: relevant transactions of the best-chain blocks after the start block
// are delivered (RelevantTx with block), then RescanFinished at the tip. All
// sent by the feeder. Then waits for quiescence.
func (s *Sim) ServeRescans() {
	s.BE.mu.Lock()
	reqs := s.BE.RescanReqs
	s.BE.RescanReqs = nil
	s.BE.mu.Unlock()
	for _, r := range reqs {
		start := int32(0)
		if b, ok := s.Chain.ByHash[r.Start]; ok && s.Chain.OnBest(b) {
			start = b.Height
		}
		for h := start + 1; h <= s.Chain.Tip.Height; h++ {
			b := s.Chain.AtHeight(h)
			meta := b.Meta()
			for _, tx := range b.Txs {
				rec, _ := wtxmgr.NewTxRecordFromMsgTx(tx, b.Header.Timestamp)
				s.Feed(chain.RelevantTx{TxRecord: rec, Block: &meta})
			}
		}
	}
	s.FinishRescans()
}

// SetTip changes the model's best chain without notifying the wallet (chain
// evolution while the wallet is stopped, or before a notification).
func (s *Sim) SetTip(b *Block) {
	if s.BE != nil {
		s.BE.mu.Lock()
		defer s.BE.mu.Unlock()
	}
	s.Chain.Tip = b
}
