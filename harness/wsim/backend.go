package wsim

import (
	"errors"
	"fmt"
	"runtime"
	"sort"
	"strings"
	"sync"
	"time"

	"github.com/btcsuite/btcd/btcjson"
	"github.com/btcsuite/btcd/btcutil"
	"github.com/btcsuite/btcd/chaincfg/chainhash"
	"github.com/btcsuite/btcd/rpcclient"
	"github.com/btcsuite/btcd/wire"
	"github.com/btcsuite/btcwallet/chain"
	"github.com/btcsuite/btcwallet/waddrmgr"
)

// Answer is the backend's scripted answer to one SendRawTransaction or
// NotifyReceived call.
type Answer struct {
	Err error
}

// Backend is the fake chain.Interface. All chain queries are answered from
// the model; every notification is sent by the harness feeder only.
type Backend struct {
	mu    sync.Mutex
	Chain *Chain
	ntfns chan interface{}

	// scripted answers, consumed in call order; default (empty) = accept
	SendAnswers   []error
	NotifyAnswers []error
	// FailHeaderAt makes GetBlockHash fail for that height (sync
	// interruption); 0 = never.
	FailHashAt int32

	Sent        []*wire.MsgTx // every transaction offered through SendRawTransaction, in the order in which the calls STARTED
	SentErr     []error
	RescanReqs  []RescanReq
	NotifyRecv  [][]btcutil.Address
	FilterCalls int
	stopped     bool

	// Kind is what BackEnd() answers: "btcd" (default), "neutrino" or
	// "bitcoind" (the names the real clients of package chain use).
	Kind string
	// Mapper, when set, is the error mapping of a real client
	// (chain.RPCClient / BitcoindClient / NeutrinoClient .MapRPCErr):
	// MapRPCErr delegates to it and SendRawTransaction returns
	// Mapper(scripted answer) the way the real clients' SendRawTransaction
	// do, so that SendAnswers can hold RAW backend errors. SentErr keeps the
	// raw answers, SentMapped what the wallet was given.
	Mapper     func(error) error
	SentMapped []error
	// HoldSends makes every SendRawTransaction call stay "in progress" (after
	// it has been logged) until every other wallet goroutine is parked or is
	// itself held in SendRawTransaction: a hand-over that is started while
	// another one has not returned yet is then observed deterministically
	// (Calls[i].InFlight), whatever the scheduler does. Event based
	// (goroutine states), no fixed delay.
	HoldSends bool
	// Calls is parallel to Sent.
	Calls []SendCall
	// HoldTimeouts counts held calls that were released by the safety
	// deadline instead of by quiescence (expected 0).
	HoldTimeouts int
	inflight     map[int]bool
}

// SendCall describes one SendRawTransaction call.
type SendCall struct {
	// InFlight lists the indexes (into Sent) of the calls that had started
	// and not yet returned when this call started (only tracked while
	// HoldSends is set).
	InFlight []int
	// Held reports whether the call was held until quiescence.
	Held bool
}

// NewBackendHook, when set, is applied to every backend made by NewBackend
// (Sim.Attach creates its backend through NewBackend): a check that needs
// another backend kind or a real error mapping for ALL backends of its Sims
// sets it before Attach and clears it afterwards. Not for concurrent use with
// different settings in one process.
var NewBackendHook func(*Backend)

// RescanReq records one Rescan call.
type RescanReq struct {
	Start     chainhash.Hash
	Addrs     []btcutil.Address
	OutPoints map[wire.OutPoint]btcutil.Address
}

// NewBackend returns a backend over a chain model.
func NewBackend(c *Chain) *Backend {
	b := &Backend{Chain: c, ntfns: make(chan interface{}), Kind: "btcd", inflight: map[int]bool{}}
	if NewBackendHook != nil {
		NewBackendHook(b)
	}
	return b
}

// NewBackendKind returns a backend whose BackEnd() answers kind.
func NewBackendKind(c *Chain, kind string) *Backend {
	b := NewBackend(c)
	b.Kind = kind
	return b
}

var _ chain.Interface = (*Backend)(nil)

func (b *Backend) Start() error     { return nil }
func (b *Backend) Stop()            { b.mu.Lock(); b.stopped = true; b.mu.Unlock() }
func (b *Backend) WaitForShutdown() {}
func (b *Backend) BackEnd() string {
	b.mu.Lock()
	defer b.mu.Unlock()
	if b.Kind == "" {
		return "btcd"
	}
	return b.Kind
}
func (b *Backend) IsCurrent() bool                   { return true }
func (b *Backend) NotifyBlocks() error               { return nil }
func (b *Backend) Notifications() <-chan interface{} { return b.ntfns }
func (b *Backend) MapRPCErr(err error) error {
	b.mu.Lock()
	m := b.Mapper
	b.mu.Unlock()
	if m != nil && err != nil {
		return m(err)
	}
	return err
}

func (b *Backend) GetBestBlock() (*chainhash.Hash, int32, error) {
	b.mu.Lock()
	defer b.mu.Unlock()
	h := b.Chain.Tip.Hash
	return &h, b.Chain.Tip.Height, nil
}

func (b *Backend) GetBlock(h *chainhash.Hash) (*wire.MsgBlock, error) {
	b.mu.Lock()
	defer b.mu.Unlock()
	blk, ok := b.Chain.ByHash[*h]
	if !ok {
		return nil, fmt.Errorf("block %v not found", h)
	}
	return blk.MsgBlock(), nil
}

func (b *Backend) GetBlockHash(height int64) (*chainhash.Hash, error) {
	b.mu.Lock()
	defer b.mu.Unlock()
	if b.FailHashAt != 0 && int32(height) == b.FailHashAt {
		return nil, errors.New("backend: injected GetBlockHash failure")
	}
	blk := b.Chain.AtHeight(int32(height))
	if blk == nil {
		return nil, fmt.Errorf("no block at height %d", height)
	}
	h := blk.Hash
	return &h, nil
}

func (b *Backend) GetBlockHeader(h *chainhash.Hash) (*wire.BlockHeader, error) {
	b.mu.Lock()
	defer b.mu.Unlock()
	blk, ok := b.Chain.ByHash[*h]
	if !ok {
		return nil, fmt.Errorf("header %v not found", h)
	}
	hdr := blk.Header
	return &hdr, nil
}

func (b *Backend) BlockStamp() (*waddrmgr.BlockStamp, error) {
	b.mu.Lock()
	defer b.mu.Unlock()
	t := b.Chain.Tip
	return &waddrmgr.BlockStamp{Hash: t.Hash, Height: t.Height, Timestamp: t.Header.Timestamp}, nil
}

// FilterBlocks runs the REAL chain.BlockFilterer over the model's blocks, the
// way the btcd/bitcoind clients do.
func (b *Backend) FilterBlocks(req *chain.FilterBlocksRequest) (*chain.FilterBlocksResponse, error) {
	b.mu.Lock()
	b.FilterCalls++
	b.mu.Unlock()
	f := chain.NewBlockFilterer(Params, req)
	for i, blk := range req.Blocks {
		raw, err := b.GetBlock(&blk.Hash)
		if err != nil {
			return nil, err
		}
		if !f.FilterBlock(raw) {
			continue
		}
		return &chain.FilterBlocksResponse{
			BatchIndex:         uint32(i),
			BlockMeta:          blk,
			FoundExternalAddrs: f.FoundExternal,
			FoundInternalAddrs: f.FoundInternal,
			FoundOutPoints:     f.FoundOutPoints,
			RelevantTxns:       f.RelevantTxns,
		}, nil
	}
	return nil, nil
}

func (b *Backend) SendRawTransaction(tx *wire.MsgTx, _ bool) (*chainhash.Hash, error) {
	b.mu.Lock()
	var err error
	if len(b.SendAnswers) > 0 {
		err = b.SendAnswers[0]
		b.SendAnswers = b.SendAnswers[1:]
	}
	raw := err
	if b.Mapper != nil && err != nil {
		err = b.Mapper(err)
	}
	idx := len(b.Sent)
	b.Sent = append(b.Sent, tx.Copy())
	b.SentErr = append(b.SentErr, raw)
	b.SentMapped = append(b.SentMapped, err)
	call := SendCall{Held: b.HoldSends}
	for i := range b.inflight {
		call.InFlight = append(call.InFlight, i)
	}
	sort.Ints(call.InFlight)
	b.Calls = append(b.Calls, call)
	if call.Held {
		if b.inflight == nil {
			b.inflight = map[int]bool{}
		}
		b.inflight[idx] = true
	}
	b.mu.Unlock()
	if call.Held {
		ok := waitOthersParked(10 * time.Second)
		b.mu.Lock()
		delete(b.inflight, idx)
		if !ok {
			b.HoldTimeouts++
		}
		b.mu.Unlock()
	}
	if err != nil {
		return nil, err
	}
	h := tx.TxHash()
	return &h, nil
}

// parkedStates are the goroutine wait states in which a goroutine cannot make
// progress on its own.
var parkedStates = map[string]bool{
	"select": true, "chan receive": true, "chan send": true, "select (no cases)": true,
	"semacquire": true, "sync.Mutex.Lock": true, "sync.RWMutex.RLock": true, "sync.RWMutex.Lock": true,
	"sync.Cond.Wait": true, "sync.WaitGroup.Wait": true,
	"chan receive (nil chan)": true, "chan send (nil chan)": true,
}

// othersParked reports whether, in one consistent snapshot of all goroutines,
// every goroutine that runs wallet code is either parked or inside the fake
// backend's SendRawTransaction (a held hand-over): then no further
// SendRawTransaction call can start before a held one returns. Same technique
// as Sim.Quiesce (goroutine states from runtime.Stack).
func othersParked(buf []byte) bool {
	n := runtime.Stack(buf, true)
	for _, g := range strings.Split(string(buf[:n]), "\n\n") {
		if !strings.Contains(g, "btcwallet/wallet.") {
			continue
		}
		if strings.Contains(g, "wsim.(*Backend).SendRawTransaction") || strings.Contains(g, "wsim.(*Sim).Quiesce") {
			continue
		}
		m := goroutineHdr.FindStringSubmatch(g)
		state := ""
		if m != nil {
			state = strings.Split(m[1], ",")[0]
		}
		if !parkedStates[state] {
			return false
		}
	}
	return true
}

// waitOthersParked polls othersParked until two consecutive snapshots are
// calm; false if the safety deadline passed first.
func waitOthersParked(limit time.Duration) bool {
	deadline := time.Now().Add(limit)
	buf := make([]byte, 1<<20)
	calm := 0
	for {
		if othersParked(buf) {
			calm++
		} else {
			calm = 0
		}
		if calm >= 2 {
			return true
		}
		if time.Now().After(deadline) {
			return false
		}
		runtime.Gosched()
		time.Sleep(50 * time.Microsecond)
	}
}

func (b *Backend) Rescan(start *chainhash.Hash, addrs []btcutil.Address, ops map[wire.OutPoint]btcutil.Address) error {
	b.mu.Lock()
	defer b.mu.Unlock()
	b.RescanReqs = append(b.RescanReqs, RescanReq{Start: *start, Addrs: addrs, OutPoints: ops})
	return nil
}

func (b *Backend) NotifyReceived(addrs []btcutil.Address) error {
	b.mu.Lock()
	defer b.mu.Unlock()
	b.NotifyRecv = append(b.NotifyRecv, addrs)
	if len(b.NotifyAnswers) > 0 {
		err := b.NotifyAnswers[0]
		b.NotifyAnswers = b.NotifyAnswers[1:]
		return err
	}
	return nil
}

func (b *Backend) TestMempoolAccept([]*wire.MsgTx, float64) ([]*btcjson.TestMempoolAcceptResult, error) {
	return nil, rpcclient.ErrBackendVersion
}

// SentCount returns the number of transactions offered so far.
func (b *Backend) SentCount() int {
	b.mu.Lock()
	defer b.mu.Unlock()
	return len(b.Sent)
}
