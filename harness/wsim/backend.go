package wsim

import (
	"errors"
	"fmt"
	"sync"

	"github.com/btcsuite/btcd/btcjson"
	"github.com/btcsuite/btcd/btcutil"
	"github.com/btcsuite/btcd/chaincfg/chainhash"
	"github.com/btcsuite/btcd/rpcclient"
	"github.com/btcsuite/btcd/wire"
	"github.com/btcsuite/btcwallet/chain"
	"github.com/btcsuite/btcwallet/waddrmgr"
)

// Answer is the backend's scripted answer to one SendRawTransaction or
// NotifyReceived call.
type Answer struct {
	Err error
}

// Backend is the fake chain.Interface. All chain queries are answered from
// the model; every notification is sent by the harness feeder only.
type Backend struct {
	mu    sync.Mutex
	Chain *Chain
	ntfns chan interface{}

	// scripted answers, consumed in call order; default (empty) = accept
	SendAnswers   []error
	NotifyAnswers []error
	// FailHeaderAt makes GetBlockHash fail for that height (sync
	// interruption); 0 = never.
	FailHashAt int32

	Sent        []*wire.MsgTx // every transaction offered through SendRawTransaction
	SentErr     []error
	RescanReqs  []RescanReq
	NotifyRecv  [][]btcutil.Address
	FilterCalls int
	stopped     bool
}

// RescanReq records one Rescan call.
type RescanReq struct {
	Start     chainhash.Hash
	Addrs     []btcutil.Address
	OutPoints map[wire.OutPoint]btcutil.Address
}

// NewBackend returns a backend over a chain model.
func NewBackend(c *Chain) *Backend {
	return &Backend{Chain: c, ntfns: make(chan interface{})}
}

var _ chain.Interface = (*Backend)(nil)

func (b *Backend) Start() error                      { return nil }
func (b *Backend) Stop()                             { b.mu.Lock(); b.stopped = true; b.mu.Unlock() }
func (b *Backend) WaitForShutdown()                  {}
func (b *Backend) BackEnd() string                   { return "btcd" }
func (b *Backend) IsCurrent() bool                   { return true }
func (b *Backend) NotifyBlocks() error               { return nil }
func (b *Backend) Notifications() <-chan interface{} { return b.ntfns }
func (b *Backend) MapRPCErr(err error) error         { return err }

func (b *Backend) GetBestBlock() (*chainhash.Hash, int32, error) {
	b.mu.Lock()
	defer b.mu.Unlock()
	h := b.Chain.Tip.Hash
	return &h, b.Chain.Tip.Height, nil
}

func (b *Backend) GetBlock(h *chainhash.Hash) (*wire.MsgBlock, error) {
	b.mu.Lock()
	defer b.mu.Unlock()
	blk, ok := b.Chain.ByHash[*h]
	if !ok {
		return nil, fmt.Errorf("block %v not found", h)
	}
	return blk.MsgBlock(), nil
}

func (b *Backend) GetBlockHash(height int64) (*chainhash.Hash, error) {
	b.mu.Lock()
	defer b.mu.Unlock()
	if b.FailHashAt != 0 && int32(height) == b.FailHashAt {
		return nil, errors.New("backend: injected GetBlockHash failure")
	}
	blk := b.Chain.AtHeight(int32(height))
	if blk == nil {
		return nil, fmt.Errorf("no block at height %d", height)
	}
	h := blk.Hash
	return &h, nil
}

func (b *Backend) GetBlockHeader(h *chainhash.Hash) (*wire.BlockHeader, error) {
	b.mu.Lock()
	defer b.mu.Unlock()
	blk, ok := b.Chain.ByHash[*h]
	if !ok {
		return nil, fmt.Errorf("header %v not found", h)
	}
	hdr := blk.Header
	return &hdr, nil
}

func (b *Backend) BlockStamp() (*waddrmgr.BlockStamp, error) {
	b.mu.Lock()
	defer b.mu.Unlock()
	t := b.Chain.Tip
	return &waddrmgr.BlockStamp{Hash: t.Hash, Height: t.Height, Timestamp: t.Header.Timestamp}, nil
}

// FilterBlocks runs the REAL chain.BlockFilterer over the model's blocks, the
// way the btcd/bitcoind clients do.
func (b *Backend) FilterBlocks(req *chain.FilterBlocksRequest) (*chain.FilterBlocksResponse, error) {
	b.mu.Lock()
	b.FilterCalls++
	b.mu.Unlock()
	f := chain.NewBlockFilterer(Params, req)
	for i, blk := range req.Blocks {
		raw, err := b.GetBlock(&blk.Hash)
		if err != nil {
			return nil, err
		}
		if !f.FilterBlock(raw) {
			continue
		}
		return &chain.FilterBlocksResponse{
			BatchIndex:         uint32(i),
			BlockMeta:          blk,
			FoundExternalAddrs: f.FoundExternal,
			FoundInternalAddrs: f.FoundInternal,
			FoundOutPoints:     f.FoundOutPoints,
			RelevantTxns:       f.RelevantTxns,
		}, nil
	}
	return nil, nil
}

func (b *Backend) SendRawTransaction(tx *wire.MsgTx, _ bool) (*chainhash.Hash, error) {
	b.mu.Lock()
	defer b.mu.Unlock()
	var err error
	if len(b.SendAnswers) > 0 {
		err = b.SendAnswers[0]
		b.SendAnswers = b.SendAnswers[1:]
	}
	b.Sent = append(b.Sent, tx.Copy())
	b.SentErr = append(b.SentErr, err)
	if err != nil {
		return nil, err
	}
	h := tx.TxHash()
	return &h, nil
}

func (b *Backend) Rescan(start *chainhash.Hash, addrs []btcutil.Address, ops map[wire.OutPoint]btcutil.Address) error {
	b.mu.Lock()
	defer b.mu.Unlock()
	b.RescanReqs = append(b.RescanReqs, RescanReq{Start: *start, Addrs: addrs, OutPoints: ops})
	return nil
}

func (b *Backend) NotifyReceived(addrs []btcutil.Address) error {
	b.mu.Lock()
	defer b.mu.Unlock()
	b.NotifyRecv = append(b.NotifyRecv, addrs)
	if len(b.NotifyAnswers) > 0 {
		err := b.NotifyAnswers[0]
		b.NotifyAnswers = b.NotifyAnswers[1:]
		return err
	}
	return nil
}

func (b *Backend) TestMempoolAccept([]*wire.MsgTx, float64) ([]*btcjson.TestMempoolAcceptResult, error) {
	return nil, rpcclient.ErrBackendVersion
}

// SentCount returns the number of transactions offered so far.
func (b *Backend) SentCount() int {
	b.mu.Lock()
	defer b.mu.Unlock()
	return len(b.Sent)
}
