package c06

import (
	"errors"
	"fmt"
	"sort"
	"strings"
	"time"

	"github.com/btcsuite/btcd/btcutil"
	"github.com/btcsuite/btcd/btcutil/psbt"
	"github.com/btcsuite/btcd/txscript"
	"github.com/btcsuite/btcd/wire"
	"github.com/btcsuite/btcwallet/waddrmgr"
	"github.com/btcsuite/btcwallet/wallet"
	"github.com/btcsuite/btcwallet/wallet/txauthor"
	"github.com/btcsuite/btcwallet/wallet/txrules"
	"github.com/btcsuite/btcwallet/wallet/txsizes"
)

const (
	smallAmount = 10000
	mostMargin  = 2000
)

// Request is one call of one of the wallet's transaction-creating entry
// points.
type Request struct {
	Entry    string `json:"entry"`              // CreateSimpleTx | SendOutputs | SendOutputsWithInput | FundPsbt | FundPsbtInputs
	Scope    int    `json:"scope"`              // -1 = nil key scope, else index into 44/49/84/86
	Account  uint32 `json:"account"`            //
	MinConf  int32  `json:"minconf"`            //
	Amount   string `json:"amount"`             // small | most | edgeNN | two | all (the last two: see amountFor)
	FeeRate  int64  `json:"fee_rate"`           // sat/kvB
	Strategy []int  `json:"strategy,omitempty"` // nil = a built-in strategy, else preference order of the state's coins
	// Builtin selects the wallet's exported strategy when Strategy is nil:
	// "" = wallet.CoinSelectionLargest, "random" = wallet.CoinSelectionRandom
	// (arranges by rand.Shuffle: such a request is REPEATED, Rep counts).
	Builtin string `json:"builtin_strategy,omitempty"`
	Rep     int    `json:"repetition,omitempty"`
	Select  []int  `json:"select,omitempty"`  // explicit input selection (indexes of the state's coins)
	DryRun  bool   `json:"dry_run,omitempty"` //
	// Resync, when non-nil, makes the wallet resynchronise BEFORE this
	// request: one rebroadcast answer ("accept" | "mempool") per
	// transaction that is still unconfirmed at that moment.
	Resync     []string `json:"resync,omitempty"`
	ResyncKind string   `json:"resync_kind,omitempty"` // rescan | restart
	// Realized records which unconfirmed transaction received which
	// answer (the wallet's rebroadcast order of independent transactions
	// is not fixed); a replay repeats until the same assignment occurs.
	Realized map[string]string `json:"rebroadcast_answer_by_tx,omitempty"`

	got map[string]string
}

func (r *Request) entryName() string {
	if r.Entry == "FundPsbtInputs" {
		return "FundPsbt"
	}
	return r.Entry
}

func (r *Request) String() string {
	sc := "nil"
	if r.Scope >= 0 {
		sc = scopeNames[r.Scope]
	}
	s := fmt.Sprintf("%s(scope=%s acct=%d minconf=%d amount=%s fee=%d", r.Entry, sc, r.Account, r.MinConf, r.Amount, r.FeeRate)
	if r.Strategy != nil {
		s += fmt.Sprintf(" strategy=order%v", r.Strategy)
	} else if r.Builtin == "random" {
		s += fmt.Sprintf(" strategy=random(repetition %d)", r.Rep)
	} else if len(r.Select) == 0 {
		s += " strategy=largest"
	}
	if len(r.Select) > 0 {
		s += fmt.Sprintf(" select=%v", r.Select)
	}
	if r.DryRun {
		s += " dryrun"
	}
	s += ")"
	if r.Resync != nil {
		ans := fmt.Sprint(r.Resync)
		if r.Realized != nil {
			var ks []string
			for k := range r.Realized {
				ks = append(ks, k)
			}
			sort.Strings(ks)
			var ps []string
			for _, k := range ks {
				ps = append(ps, k+"="+r.Realized[k])
			}
			ans = "[" + strings.Join(ps, " ") + "]"
		}
		s = fmt.Sprintf("resync[%s, rebroadcast answers %s] then %s", r.ResyncKind, ans, s)
	}
	return s
}

// permStrategy is a CoinSelectionStrategy that arranges whatever the wallet
// offers in a fixed preference order of the state's coins.
type permStrategy struct {
	w    *world
	rank map[int]int
}

func (p *permStrategy) ArrangeCoins(el []wallet.Coin, _ btcutil.Amount) ([]wallet.Coin, error) {
	rk := func(c *wallet.Coin) int {
		if cn := p.w.prev[c.OutPoint]; cn != nil && !cn.change {
			if r, ok := p.rank[cn.idx]; ok {
				return r
			}
		}
		return 1000
	}
	sort.SliceStable(el, func(i, j int) bool {
		ri, rj := rk(&el[i]), rk(&el[j])
		if ri != rj {
			return ri < rj
		}
		return el[i].OutPoint.String() < el[j].OutPoint.String()
	})
	return el, nil
}

type finding struct{ sig, msg string }

func isFundsErr(err error) bool {
	var ise txauthor.InputSourceError
	if errors.As(err, &ise) {
		return true
	}
	return strings.Contains(err.Error(), "insufficient funds")
}

// verifyInputs runs the script engine on every input; it returns the indexes
// that fail.
func (w *world) verifyInputs(tx *wire.MsgTx) map[int]error {
	fetcher := txscript.NewMultiPrevOutFetcher(nil)
	for _, cn := range w.coins {
		fetcher.AddPrevOut(cn.op, &wire.TxOut{Value: cn.amount, PkScript: cn.pkScript})
	}
	bad := map[int]error{}
	hc := txscript.NewTxSigHashes(tx, fetcher)
	for i, in := range tx.TxIn {
		cn := w.prev[in.PreviousOutPoint]
		vm, err := txscript.NewEngine(cn.pkScript, tx, i, txscript.StandardVerifyFlags, nil, hc, cn.amount, fetcher)
		if err == nil {
			err = vm.Execute()
		}
		if err != nil {
			bad[i] = err
		}
	}
	return bad
}

// exec runs one request against the live wallet and applies the oracle. If
// keep is false an accepted broadcast is undone afterwards.
func (w *world) exec(r *Request, keep bool, st *stats) (fs []finding) {
	en := r.entryName()
	if st != nil {
		t0 := time.Now()
		key := r.Entry
		if keep {
			key += "(sequence)"
		}
		defer func() { st.nsByEntry[key] += int64(time.Since(t0)) }()
	}
	if r.Resync != nil {
		r.got = w.resync(r.ResyncKind, r.Resync)
		if r.Realized == nil {
			r.Realized = r.got
		}
	}
	var scopePtr *waddrmgr.KeyScope
	if r.Scope >= 0 {
		sc := scopes[r.Scope]
		scopePtr = &sc
	}
	// The oracle's eligible set, from the harness' own record.
	reasons := map[*coin]string{}
	var sumE int64
	nE := 0
	for _, cn := range w.coins {
		rs := w.reason(cn, r.Scope, r.Account, r.MinConf)
		reasons[cn] = rs
		if rs == "" {
			nE++
			sumE += cn.amount
		}
	}
	explicit := len(r.Select) > 0
	var selOps []wire.OutPoint
	selSet := map[wire.OutPoint]bool{}
	var sumSel int64
	selBad, selDup := "", false
	for _, i := range r.Select {
		cn := w.coins[i]
		selOps = append(selOps, cn.op)
		if selSet[cn.op] {
			selDup = true
		} else {
			sumSel += cn.amount
		}
		selSet[cn.op] = true
		if reasons[cn] != "" && selBad == "" {
			selBad = reasons[cn]
		}
	}
	amt := int64(smallAmount)
	if r.Amount == "most" {
		if explicit {
			amt = sumSel - mostMargin
		} else {
			amt = sumE - mostMargin
		}
		if amt < smallAmount {
			if st != nil {
				st.skipped++
			}
			return nil
		}
	}
	if strings.HasPrefix(r.Amount, "edge") {
		var size int
		fmt.Sscan(strings.TrimPrefix(r.Amount, "edge"), &size)
		probe := []*wire.TxOut{wire.NewTxOut(smallAmount, append([]byte{}, destPk...))}
		guess := txrules.FeeForSerializeSize(btcutil.Amount(r.FeeRate), txsizes.EstimateVirtualSize(0, 1, 0, 0, probe, size))
		amt = sumE - int64(guess)
		if amt < smallAmount {
			if st != nil {
				st.skipped++
			}
			return nil
		}
	}
	if r.Amount == "two" || r.Amount == "all" {
		var ok bool
		if amt, ok = w.amountFor(r, reasons); !ok {
			if st != nil {
				st.skipped++
			}
			return nil
		}
	}
	outputs := []*wire.TxOut{wire.NewTxOut(amt, append([]byte{}, destPk...))}
	var strat wallet.CoinSelectionStrategy = wallet.CoinSelectionLargest
	if r.Builtin == "random" {
		strat = wallet.CoinSelectionRandom
	}
	if r.Strategy != nil {
		ps := &permStrategy{w: w, rank: map[int]int{}}
		for pos, idx := range r.Strategy {
			ps.rank[idx] = pos
		}
		strat = ps
	}
	fee := btcutil.Amount(r.FeeRate)
	W := w.s.W

	var (
		tx        *wire.MsgTx
		err       error
		signed    bool
		published bool
		pkt       *psbt.Packet
	)
	func() {
		defer func() {
			if p := recover(); p != nil {
				fs = append(fs, finding{"panic:" + en, fmt.Sprintf("%s panicked: %v", r, p)})
				err = fmt.Errorf("panic: %v", p)
			}
		}()
		switch r.Entry {
		case "CreateSimpleTx":
			var opts []wallet.TxCreateOption
			if explicit {
				opts = append(opts, wallet.WithCustomSelectUtxos(selOps))
			}
			var atx *txauthor.AuthoredTx
			atx, err = W.CreateSimpleTx(scopePtr, r.Account, outputs, r.MinConf, fee, strat, r.DryRun, opts...)
			if err == nil && atx != nil {
				tx = atx.Tx
				signed = !r.DryRun
			}
		case "SendOutputs":
			tx, err = W.SendOutputs(outputs, scopePtr, r.Account, r.MinConf, fee, strat, "c06")
			signed, published = err == nil, err == nil
		case "SendOutputsWithInput":
			tx, err = W.SendOutputsWithInput(outputs, scopePtr, r.Account, r.MinConf, fee, strat, "c06", selOps)
			signed, published = err == nil, err == nil
		case "FundPsbt":
			pkt, err = psbt.New(nil, outputs, 2, 0, nil)
			if err != nil {
				panic(err)
			}
			_, err = W.FundPsbt(pkt, scopePtr, r.MinConf, r.Account, fee, strat)
			if err == nil {
				tx = pkt.UnsignedTx
			}
		case "FundPsbtInputs":
			var ins []*wire.OutPoint
			var seqs []uint32
			for i := range selOps {
				ins = append(ins, &selOps[i])
				seqs = append(seqs, wire.MaxTxInSequenceNum)
			}
			pkt, err = psbt.New(ins, outputs, 2, 0, seqs)
			if err != nil {
				panic(err)
			}
			_, err = W.FundPsbt(pkt, scopePtr, r.MinConf, r.Account, fee, strat)
			if err == nil {
				tx = pkt.UnsignedTx
			}
		default:
			panic("unknown entry " + r.Entry)
		}
	}()
	if published {
		w.s.Quiesce()
	}

	nontrivial := false
	if st != nil {
		st.requests++
		st.byEntry[r.Entry]++
		if r.Strategy == nil && !explicit {
			if r.Builtin == "random" {
				st.randomRequests++
			} else if hasSmall(w.specs) {
				st.largestFamilyRequests++
			}
		}
		for _, cn := range w.coins[:w.nbase] {
			st.byStatus[statusNames[cn.Status]]++
		}
		if explicit {
			st.explicit++
			for _, i := range r.Select {
				if rs := reasons[w.coins[i]]; rs != "" {
					st.byReason[rs]++
					nontrivial = true
				}
			}
		} else {
			for _, cn := range w.coins {
				if rs := reasons[cn]; rs != "" {
					st.byReason[rs]++
					nontrivial = true
				}
			}
		}
		if nontrivial {
			st.nontrivial++
		}
	}

	if err != nil || tx == nil {
		if err == nil {
			err = errors.New("no transaction returned")
		}
		if st != nil {
			st.failed++
			if explicit && selBad != "" {
				st.explicitRefused++
			}
			kind := "other"
			switch {
			case isFundsErr(err):
				kind = "insufficient-funds"
			case strings.Contains(err.Error(), "not eligible"):
				kind = "selected-not-eligible"
			}
			st.failKinds[en+":"+kind]++
		}
		// A request the eligible coins can pay for must not fail for a
		// reason other than funds.
		payable := (!explicit && nE > 0) || (explicit && selBad == "" && !selDup)
		if payable && !isFundsErr(err) && len(fs) == 0 {
			fs = append(fs, finding{"failure:non-funds-error:" + en,
				fmt.Sprintf("%s failed with %q although every coin it may use is eligible (state %s)", r, err, specsString(w.specs))})
		}
		return fs
	}

	// Successful result.
	if st != nil {
		st.byEntryOK[r.Entry]++
		if len(st.samples) < 3 && (st.requests%401 == 7 || (nontrivial && st.requests%97 == 5)) {
			var ins []string
			for _, in := range tx.TxIn {
				if cn := w.prev[in.PreviousOutPoint]; cn != nil {
					ins = append(ins, fmt.Sprintf("coin%d", cn.idx))
				} else {
					ins = append(ins, "?")
				}
			}
			st.samples = append(st.samples, fmt.Sprintf("state %s: %s => ok inputs=%v", specsString(w.specs), r, ins))
		}
	}
	if st != nil && r.Builtin == "random" && r.Strategy == nil {
		st.noteRandom(w, r, tx)
	}
	seen := map[wire.OutPoint]bool{}
	unknown := false
	for _, in := range tx.TxIn {
		op := in.PreviousOutPoint
		if st != nil {
			st.inputsChecked++
		}
		if seen[op] {
			fs = append(fs, finding{"input:duplicate:" + en,
				fmt.Sprintf("%s returned a transaction that spends %v twice (state %s)", r, w.coinName(op), specsString(w.specs))})
			continue
		}
		seen[op] = true
		cn := w.prev[op]
		if cn == nil {
			unknown = true
			fs = append(fs, finding{"input:ineligible:unknown:" + en,
				fmt.Sprintf("%s spends %v which is no output of the state (state %s)", r, op, specsString(w.specs))})
			continue
		}
		if explicit && !selSet[op] {
			fs = append(fs, finding{"explicit:input-not-selected:" + en,
				fmt.Sprintf("%s spends %s which was not selected (state %s)", r, w.coinName(op), specsString(w.specs))})
		}
		if rs := reasons[cn]; rs != "" {
			switch {
			case w.pubInputs[op]:
				fs = append(fs, finding{"sequence:input-reused",
					fmt.Sprintf("%s reuses %s, an input of an earlier published transaction of this sequence (state %s)", r, w.coinName(op), specsString(w.specs))})
			case explicit && selSet[op]:
				// reported once below as explicit:ineligible-accepted
			default:
				fs = append(fs, finding{"input:ineligible:" + rs + ":" + en,
					fmt.Sprintf("%s spends %s which is not eligible: %s (state %s)", r, w.coinName(op), rs, specsString(w.specs))})
			}
		}
	}
	if explicit && selBad != "" {
		fs = append(fs, finding{"explicit:ineligible-accepted:" + selBad + ":" + en,
			fmt.Sprintf("%s succeeded although a selected input is not eligible: %s (state %s)", r, selBad, specsString(w.specs))})
	}
	if signed && !unknown {
		bad := w.verifyInputs(tx)
		for i, in := range tx.TxIn {
			tn := typeNames[typeOfScriptSafe(w.prev[in.PreviousOutPoint].pkScript)]
			if e, ok := bad[i]; ok {
				fs = append(fs, finding{"signature:invalid:" + tn,
					fmt.Sprintf("%s: input %d (%s) does not verify under the standard flags: %v (state %s)", r, i, w.coinName(in.PreviousOutPoint), e, specsString(w.specs))})
			} else if st != nil {
				st.sigsVerified++
				st.sigByType[tn]++
			}
		}
	}
	// FundPsbt returns an unsigned packet. When all its inputs are eligible
	// witness outputs, let the wallet finalize it and verify the result.
	if pkt != nil && !unknown && len(fs) == 0 && w.allWitness(tx) {
		if ferr := W.FinalizePsbt(scopePtr, r.Account, pkt); ferr == nil {
			if ftx, xerr := psbt.Extract(pkt); xerr == nil {
				bad := w.verifyInputs(ftx)
				for i, in := range ftx.TxIn {
					tn := typeNames[typeOfScriptSafe(w.prev[in.PreviousOutPoint].pkScript)]
					if e, ok := bad[i]; ok {
						fs = append(fs, finding{"signature:invalid:" + tn + ":FinalizePsbt",
							fmt.Sprintf("%s then FinalizePsbt: input %d (%s) does not verify: %v (state %s)", r, i, w.coinName(in.PreviousOutPoint), e, specsString(w.specs))})
					} else if st != nil {
						st.sigsVerified++
						st.sigByType[tn+"(FinalizePsbt)"]++
					}
				}
			} else if st != nil {
				st.finalizeFailed++
			}
		} else if st != nil {
			st.finalizeFailed++
		}
	}

	if published {
		w.published = append(w.published, tx)
		w.roles[tx.TxHash()] = fmt.Sprintf("send%d", len(w.published))
		for _, in := range tx.TxIn {
			w.pubInputs[in.PreviousOutPoint] = true
			if cn := w.prev[in.PreviousOutPoint]; cn != nil && cn.spent == "" {
				cn.spent = "own"
			}
		}
		h := tx.TxHash()
		for i, o := range tx.TxOut {
			if !keep {
				break // undone right away: the change coins are never looked at
			}
			if string(o.PkScript) == string(destPk) {
				continue
			}
			// Scope and account of the change address come from the
			// address manager (not from the code under test); note
			// that scope 49 issues P2WKH change addresses.
			ty, acct, ok := w.ownerOf(o.PkScript)
			if !ok {
				continue
			}
			cn := &coin{CoinSpec: CoinSpec{Type: ty, Account: acct, Status: stUnconfirmed},
				idx: len(w.coins), amount: o.Value, op: wire.OutPoint{Hash: h, Index: uint32(i)},
				pkScript: o.PkScript, height: -1, change: true}
			w.coins = append(w.coins, cn)
			w.prev[cn.op] = cn
		}
		if !keep {
			w.undoTainted(len(fs) > 0)
		}
	}
	return fs
}

func typeOfScriptSafe(pk []byte) int {
	if t := typeOfScript(pk); t >= 0 {
		return t
	}
	return 0
}

func (w *world) allWitness(tx *wire.MsgTx) bool {
	for _, in := range tx.TxIn {
		cn := w.prev[in.PreviousOutPoint]
		if cn == nil || typeOfScript(cn.pkScript) < 1 {
			return false
		}
	}
	return true
}

func (w *world) coinName(op wire.OutPoint) string {
	cn := w.prev[op]
	if cn == nil {
		return op.String()
	}
	if cn.change {
		return fmt.Sprintf("change-coin%d(%s)", cn.idx, typeNames[cn.Type])
	}
	return fmt.Sprintf("coin%d(%s)", cn.idx, cn.CoinSpec)
}

// ownerOf asks the address manager which scope and account a script belongs
// to.
func (w *world) ownerOf(pk []byte) (int, uint32, bool) {
	_, addrs, _, err := txscript.ExtractPkScriptAddrs(pk, w.s.W.ChainParams())
	if err != nil || len(addrs) != 1 {
		return 0, 0, false
	}
	ma, err := w.s.W.AddressInfo(addrs[0])
	if err != nil {
		return 0, 0, false
	}
	pka, ok := ma.(waddrmgr.ManagedPubKeyAddress)
	if !ok {
		return 0, 0, false
	}
	ks, _, known := pka.DerivationInfo()
	if !known {
		return 0, 0, false
	}
	for i, sc := range scopes {
		if sc == ks {
			return i, ma.InternalAccount(), true
		}
	}
	return 0, 0, false
}

// yieldsPositively says whether spending the coin pays for its own input at the
// fee rate (the notion the wallet's random strategy filters by); it shapes
// REQUESTS only (which amounts need how many coins), never the oracle.
func yieldsPositively(cn *coin, feeRate int64) bool {
	return feeRate*int64(txsizes.GetMinInputVirtualSize(cn.pkScript))/1000 < cn.amount
}

// amountFor computes the amounts of the built-in strategy family from the
// oracle's eligible coins that yield positively at the fee rate (P):
// "two" = the largest coin of P + 50000 sat (no single coin suffices: at least
// two inputs, whatever the arrangement), "all" = sum(P) minus the fee of a
// transaction spending all of P with the largest change script (every coin of P
// is needed). ok is false when P cannot pay the amount.
func (w *world) amountFor(r *Request, reasons map[*coin]string) (int64, bool) {
	var sum, max int64
	var n [4]int
	cnt := 0
	for _, cn := range w.coins {
		if reasons[cn] != "" || !yieldsPositively(cn, r.FeeRate) {
			continue
		}
		cnt++
		sum += cn.amount
		if cn.amount > max {
			max = cn.amount
		}
		n[typeOfScriptSafe(cn.pkScript)]++
	}
	if cnt == 0 {
		return 0, false
	}
	probe := []*wire.TxOut{wire.NewTxOut(smallAmount, append([]byte{}, destPk...))}
	fee := int64(txrules.FeeForSerializeSize(btcutil.Amount(r.FeeRate),
		txsizes.EstimateVirtualSize(n[0], n[3], n[2], n[1], probe, txsizes.P2TRPkScriptSize)))
	all := sum - fee
	switch r.Amount {
	case "two":
		amt := max + 50000
		return amt, cnt >= 2 && amt <= all
	default:
		return all, all >= smallAmount
	}
}

// noteRandom records the order of the inputs of a successful request with the
// wallet's random strategy.
func (st *stats) noteRandom(w *world, r *Request, tx *wire.MsgTx) {
	var ins []string
	for _, in := range tx.TxIn {
		if cn := w.prev[in.PreviousOutPoint]; cn != nil {
			ins = append(ins, fmt.Sprintf("coin%d", cn.idx))
		} else {
			ins = append(ins, "?")
		}
	}
	order := strings.Join(ins, ">")
	st.randomOK++
	st.randomInputs[fmt.Sprintf("%d-input", len(ins))]++
	if r.Entry == "FundPsbt" {
		return // FundPsbt sorts the inputs of its packet: their order says nothing about the arrangement
	}
	st.randomOrders[order] = true
	st.randomStateOrders[specsString(w.specs)+"|"+order] = true
	rc := *r
	rc.Rep = 0
	g := specsString(w.specs) + " " + rc.String()
	if st.randomGroups[g] == nil {
		st.randomGroups[g] = map[string]bool{}
		st.randomGroupMax[g] = 0
	}
	st.randomGroups[g][order] = true
	if len(ins) > st.randomGroupMax[g] {
		st.randomGroupMax[g] = len(ins)
	}
	if len(st.randomSamples) < 2 && len(ins) >= 2 && r.Rep == 7 {
		st.randomSamples = append(st.randomSamples, fmt.Sprintf("state %s: %s => ok inputs in this order: %s", specsString(w.specs), r, order))
	}
}
