// Development entry point for check C06.
package main

import (
	"os"

	"verif/harness/c06"
)

func main() { c06.Run(os.Args[1:]) }
