#!/bin/bash
# Demonstrates that check C06 detects property-breaking changes. Nothing under
# /repo is edited: every mutation is a build overlay of a patched copy.
#   usage: mutations.sh [name ...]      (default: all)
# For each mutation the 1-coin and 2-coin quick states are explored and the
# signatures that do not fire on the unchanged tree are listed.
set -u
export GOFLAGS=-mod=mod GOPROXY=off GOSUMDB=off GOTOOLCHAIN=local GOCACHE=/verif/.cache/go-build
T=/tmp/c06mut
rm -rf $T; mkdir -p $T
cd /verif/harness || exit 2

patch() { # patch <src> <dst> <old> <new>
python3 - "$@" <<'EOF'
import sys
src,dst,old,new=sys.argv[1:5]
s=open(src).read()
if s.count(old)!=1:
    sys.exit("pattern occurs %d times in %s: %r"%(s.count(old),src,old))
open(dst,'w').write(s.replace(old,new))
EOF
}

sigs() { grep '^  signature:' | sed 's/^  signature: //' | sort -u; }

runbin() { # runbin <binary> -> prints signatures, returns exit code
	C06_SIZES=${C06_SIZES:-12} "$1" quick > $T/out.txt 2>&1
	local rc=$?
	sigs < $T/out.txt > $T/sigs.txt
	return $rc
}

go build -tags verif -o $T/base ./c06/cmd || exit 2
runbin $T/base; echo "unchanged tree: exit $? ($(wc -l < $T/sigs.txt) signatures)"
cp $T/sigs.txt $T/base-sigs.txt

mut() { # mut <name> <overlay-json>
	echo "$2" > $T/ov.json
	if ! go build -tags verif -overlay $T/ov.json -o $T/m ./c06/cmd 2> $T/build.txt; then
		echo "MUTATION $1: build failed"; cat $T/build.txt; return
	fi
	runbin $T/m; local rc=$?
	echo "MUTATION $1: exit $rc; signatures not firing on the unchanged tree:"
	comm -13 $T/base-sigs.txt $T/sigs.txt | sed 's/^/    /'
	grep -q HARNESS-ERROR $T/out.txt && grep HARNESS-ERROR $T/out.txt | head -3
}

want() { [ $# -eq 0 ] && return 0; local n=$1; shift; for a in "$@"; do [ "$a" = "$n" ] && return 0; done; return 1; }
ALL="$*"
sel() { if [ -z "$ALL" ]; then return 0; fi; want "$1" $ALL; }

C=/repo/wallet/createtx.go

if sel lock; then
patch $C $T/lock.go '		if w.LockedOutpoint(output.OutPoint) {
			continue
		}' '		if false && w.LockedOutpoint(output.OutPoint) {
			continue
		}'
mut "lock (findEligibleOutputs ignores LockOutpoint)" "{\"Replace\":{\"$C\":\"$T/lock.go\"}}"
fi

if sel maturity; then
patch $C $T/mat.go '		if output.FromCoinBase {' '		if false && output.FromCoinBase {'
mut "maturity (coinbase maturity check dropped)" "{\"Replace\":{\"$C\":\"$T/mat.go\"}}"
fi

if sel minconf; then
patch /repo/wallet/wallet.go $T/minconf.go '	return confirms(txHeight, curHeight) >= minconf' '	return confirms(txHeight, curHeight)+1 >= minconf'
mut "minconf (off by one: confs+1 >= minconf)" "{\"Replace\":{\"/repo/wallet/wallet.go\":\"$T/minconf.go\"}}"
fi

if sel account; then
patch $C $T/acct.go '		if addrAcct != account {
			continue
		}' '		_ = addrAcct'
mut "account (account filter dropped)" "{\"Replace\":{\"$C\":\"$T/acct.go\"}}"
fi

if sel scope; then
patch $C $T/scope.go '		if keyScope != nil && scopedMgr.Scope() != *keyScope {
			continue
		}' '		_ = scopedMgr'
mut "scope (key scope filter dropped)" "{\"Replace\":{\"$C\":\"$T/scope.go\"}}"
fi

if sel unmined; then
patch /repo/wtxmgr/tx.go $T/unmined.go '	return s.fetchCredits(ns, false, false, true)' '	return s.fetchCredits(ns, false, true, true)'
mut "unmined (wtxmgr.UnspentOutputs includes outputs spent by unmined txs)" "{\"Replace\":{\"/repo/wtxmgr/tx.go\":\"$T/unmined.go\"}}"
fi

if sel lease; then
patch /repo/wtxmgr/tx.go $T/lease.go '	return s.fetchCredits(ns, false, false, true)' '	return s.fetchCredits(ns, true, false, true)'
mut "lease (wtxmgr.UnspentOutputs includes leased outputs)" "{\"Replace\":{\"/repo/wtxmgr/tx.go\":\"$T/lease.go\"}}"
fi

if sel explicit; then
patch $C $T/expl.go '		eligible, err := w.findEligibleOutputs(
			dbtx, coinSelectKeyScope, account, minconf,
			bs, allowUtxo,
		)' '		mc := minconf
		if len(selectedUtxos) > 0 {
			mc = 0
		}
		eligible, err := w.findEligibleOutputs(
			dbtx, coinSelectKeyScope, account, mc,
			bs, allowUtxo,
		)'
mut "explicit (minconf ignored for explicitly selected inputs)" "{\"Replace\":{\"$C\":\"$T/expl.go\"}}"
fi

if sel signing; then
patch $C $T/sign1.go '	inputFetcher, err := txauthor.TXPrevOutFetcher(
		tx, prevScripts, inputValues,
	)
	if err != nil {
		return err
	}
' '	inputFetcher, err := txauthor.TXPrevOutFetcher(
		tx, prevScripts, inputValues,
	)
	if err != nil || true {
		return err
	}
'
patch /repo/wallet/txauthor/author.go $T/sign2.go '		txscript.SigHashDefault, privKey,
	)
	if err != nil {
		return err
	}
' '		txscript.SigHashDefault, privKey,
	)
	if err != nil {
		return err
	}
	witnessScript[0][7] ^= 1
'
mut "signing (corrupted P2TR key-spend signature, validateMsgTx disabled)" "{\"Replace\":{\"$C\":\"$T/sign1.go\",\"/repo/wallet/txauthor/author.go\":\"$T/sign2.go\"}}"
fi


# The two classes below need the small-coin family (3/4-coin states) resp. the
# "spender seen before its receipt" statuses: C06_SIZES=134 ./mutations.sh random spenderfirst
if sel random; then
patch $C $T/random.go '	rand.Shuffle(len(positivelyYielding), func(i, j int) {
		positivelyYielding[i], positivelyYielding[j] =
			positivelyYielding[j], positivelyYielding[i]
	})

	return positivelyYielding, nil' '	n := len(positivelyYielding)
	positivelyYielding = append(positivelyYielding, positivelyYielding...)
	rand.Shuffle(len(positivelyYielding), func(i, j int) {
		positivelyYielding[i], positivelyYielding[j] =
			positivelyYielding[j], positivelyYielding[i]
	})

	return positivelyYielding[:n], nil'
mut "random (CoinSelectionRandom may arrange the same coin twice)" "{\"Replace\":{\"$C\":\"$T/random.go\"}}"
fi

if sel spenderfirst; then
patch /repo/wtxmgr/unconfirmed.go $T/spfirst.go '		prevOut := &input.PreviousOutPoint
		k := canonicalOutPoint(&prevOut.Hash, prevOut.Index)
		err = putRawUnminedInput(ns, k, rec.Hash[:])' '		prevOut := &input.PreviousOutPoint
		if !isKnownOutput(ns, *prevOut) {
			continue
		}
		k := canonicalOutPoint(&prevOut.Hash, prevOut.Index)
		err = putRawUnminedInput(ns, k, rec.Hash[:])'
mut "spenderfirst (unmined spender indexed only when the spent output is already a credit)" "{\"Replace\":{\"/repo/wtxmgr/unconfirmed.go\":\"$T/spfirst.go\"}}"
fi

rm -rf $T
