package c06

import (
	"crypto/sha256"
	"fmt"
	"io"
	"os"
	"path/filepath"
	"sort"
	"strings"
	"time"

	"github.com/btcsuite/btcd/btcutil"
	"github.com/btcsuite/btcd/chaincfg/chainhash"
	"github.com/btcsuite/btcd/txscript"
	"github.com/btcsuite/btcd/wire"
	"github.com/btcsuite/btcwallet/chain"
	"github.com/btcsuite/btcwallet/waddrmgr"
	"github.com/btcsuite/btcwallet/wallet"
	"github.com/btcsuite/btcwallet/walletdb"
	"github.com/btcsuite/btcwallet/wtxmgr"

	"verif/harness/ev"
	"verif/harness/wsim"
)

// Address types = key scopes (index into scopes / typeNames).
var (
	scopes = []waddrmgr.KeyScope{
		waddrmgr.KeyScopeBIP0044, waddrmgr.KeyScopeBIP0049Plus,
		waddrmgr.KeyScopeBIP0084, waddrmgr.KeyScopeBIP0086,
	}
	typeNames  = []string{"P2PKH", "NP2WKH", "P2WKH", "P2TR"}
	scopeNames = []string{"44", "49", "84", "86"}
)

// Coin statuses.
const (
	stUnconfirmed = iota
	stConf1
	stDeep
	stCoinbaseImmature
	stCoinbaseMature
	stSpentUnconfirmed
	stSpentConfirmed
	stRolledBack
	stLocked
	stLeased
	stLeaseExpired
	// The wallet learned the unconfirmed spender BEFORE the credit it spends:
	stSpenderFirstUnconf // ... the receipt is unconfirmed and was delivered after its spender
	stSpenderFirstConf   // ... the receipt is confirmed by a block delivered after its spender
	numStatus
)

// smallCoinAmount is the value of a "small" coin (CoinSpec.Small): a valid
// output whose spending costs more than it yields at the higher fee rates of
// the built-in strategy family (10000 sat/kvB: every address type; 5000
// sat/kvB: P2PKH and NP2WKH only).
const smallCoinAmount = 400

var statusNames = []string{"unconfirmed", "conf1", "deep3", "coinbase-immature", "coinbase-mature",
	"spent-by-unconfirmed", "spent-by-confirmed", "rolled-back", "locked", "leased", "lease-expired",
	"spender-seen-before-unconfirmed-receipt", "spender-seen-before-confirmed-receipt"}

// CoinSpec is one coin of a wallet state: what was received where and what
// happened to it afterwards.
type CoinSpec struct {
	Type    int    `json:"type"`            // index into typeNames
	Account uint32 `json:"account"`         // 0 or 1
	Status  int    `json:"status"`          // index into statusNames
	Small   bool   `json:"small,omitempty"` // receives smallCoinAmount instead of the ordinary amount
}

func (c CoinSpec) String() string {
	s := fmt.Sprintf("%s/acct%d/%s", typeNames[c.Type], c.Account, statusNames[c.Status])
	if c.Small {
		s += fmt.Sprintf("/small%d", smallCoinAmount)
	}
	return s
}

func hasSmall(sp []CoinSpec) bool {
	for _, c := range sp {
		if c.Small {
			return true
		}
	}
	return false
}

func specsString(sp []CoinSpec) string {
	var p []string
	for _, c := range sp {
		p = append(p, c.String())
	}
	return "[" + strings.Join(p, " ") + "]"
}

// coin is the harness' own record of one wallet output.
type coin struct {
	CoinSpec
	idx      int
	amount   int64
	op       wire.OutPoint
	pkScript []byte
	height   int32 // -1 = unconfirmed
	coinbase bool
	spent    string // "", "spent-by-confirmed", "spent-by-unconfirmed"
	locked   bool
	leased   bool
	change   bool // created by a send of the current sequence
}

// world is one running wallet plus the harness' record of how its state was
// built.
type world struct {
	s     *wsim.Sim
	specs []CoinSpec
	coins []*coin // base coins, then change coins of published sends
	nbase int
	tip   int32
	prev  map[wire.OutPoint]*coin

	published []*wire.MsgTx // accepted sends since the base state
	pubInputs map[wire.OutPoint]bool
	baseSnap  string

	simID       int
	roles       map[chainhash.Hash]string // names of the unconfirmed transactions
	baseUnmined int                       // unconfirmed transactions of the base state
	resynced    bool                      // a resynchronisation happened since the base state
}

var (
	tmplPath  string
	destPk    []byte // foreign P2WPKH script every request pays to
	foreignPk []byte // where the crafted spenders pay to
	wtxmgrKey = []byte("wtxmgr")
	leaseID   = wtxmgr.LockID{0xc0, 0x06}
	maturity  = int32(wsim.Params.CoinbaseMaturity)
	builds    int
	rebuilds  int
	resyncs   int
)

func init() {
	h := sha256.Sum256([]byte("c06-destination"))
	a, err := btcutil.NewAddressWitnessPubKeyHash(h[:20], wsim.Params)
	if err != nil {
		panic(err)
	}
	destPk, _ = txscript.PayToAddrScript(a)
	h = sha256.Sum256([]byte("c06-foreign"))
	a, _ = btcutil.NewAddressWitnessPubKeyHash(h[:20], wsim.Params)
	foreignPk, _ = txscript.PayToAddrScript(a)
}

func copyFile(src, dst string) error {
	in, err := os.Open(src)
	if err != nil {
		return err
	}
	defer in.Close()
	out, err := os.Create(dst)
	if err != nil {
		return err
	}
	if _, err := io.Copy(out, in); err != nil {
		out.Close()
		return err
	}
	return out.Close()
}

// ensureTemplate creates (once per process) a wallet file that already holds
// account 1 ("second") in every key scope, made with the real wallet calls.
func ensureTemplate() {
	if tmplPath != "" {
		return
	}
	dir := ev.Scratch()
	c := wsim.NewChain()
	s, err := wsim.NewSim(dir, 9000, "A", c)
	if err != nil {
		ev.Fatal("template sim: %v", err)
	}
	if err := s.Open(0); err != nil {
		ev.Fatal("template open: %v", err)
	}
	s.Attach()
	s.FinishRescans()
	if err := s.Unlock(); err != nil {
		ev.Fatal("template unlock: %v", err)
	}
	for _, sc := range scopes {
		n, err := s.W.NextAccount(sc, "second")
		if err != nil || n != 1 {
			ev.Fatal("NextAccount(%v): %d %v", sc, n, err)
		}
	}
	s.Stop()
	p := filepath.Join(dir, "c06-tmpl.db")
	if err := copyFile(s.Path, p); err != nil {
		ev.Fatal("template copy: %v", err)
	}
	os.Remove(s.Path)
	tmplPath = p
}

func coinbaseTx(tag string, pk []byte, amt int64) *wire.MsgTx {
	tx := wire.NewMsgTx(2)
	tx.AddTxIn(wire.NewTxIn(&wire.OutPoint{Hash: chainhash.Hash{}, Index: wire.MaxPrevOutIndex},
		append([]byte{0x04}, []byte(tag)...), nil))
	tx.AddTxOut(wire.NewTxOut(amt, pk))
	return tx
}

func spendTx(op wire.OutPoint, amt int64) *wire.MsgTx {
	tx := wire.NewMsgTx(2)
	tx.AddTxIn(wire.NewTxIn(&op, nil, nil))
	out := amt - 1000
	if out < 1 {
		out = amt / 2 // small coins
	}
	tx.AddTxOut(wire.NewTxOut(out, foreignPk))
	return tx
}

func coinAmount(i int) int64 { return int64(1_000_000*(i+1) + 100_000) }

// buildWorld builds the wallet state described by specs on a fresh wallet.
func buildWorld(simID int, specs []CoinSpec) *world {
	ensureTemplate()
	builds++
	c := wsim.NewChain()
	s, err := wsim.NewSim(ev.Scratch(), simID, "A", c)
	if err != nil {
		ev.Fatal("sim: %v", err)
	}
	if err := copyFile(tmplPath, s.Path); err != nil {
		ev.Fatal("copy template: %v", err)
	}
	if err := s.Open(0); err != nil {
		ev.Fatal("open: %v", err)
	}
	s.Attach()
	s.FinishRescans()
	if err := s.Unlock(); err != nil {
		ev.Fatal("unlock: %v", err)
	}
	w := &world{s: s, specs: specs, prev: map[wire.OutPoint]*coin{}, pubInputs: map[wire.OutPoint]bool{}, simID: simID,
		roles: map[chainhash.Hash]string{}}

	T := int32(3)
	for _, sp := range specs {
		if sp.Status == stCoinbaseImmature || sp.Status == stCoinbaseMature {
			T = maturity + 2
		}
	}
	w.tip = T
	txsAt := map[int32][]*wire.MsgTx{}
	var rolled, late []*wire.MsgTx
	var spendsAtTip, lateSpends []*wire.MsgTx
	earlySpends := map[int32][]*wire.MsgTx{} // unconfirmed spenders delivered BEFORE the block of that height
	var spenderFirst [][2]*wire.MsgTx        // {spender, receipt}, both unconfirmed, delivered in this order
	for i, sp := range specs {
		addr, err := s.W.NewAddress(sp.Account, scopes[sp.Type])
		if err != nil {
			ev.Fatal("NewAddress(%d,%v): %v", sp.Account, scopes[sp.Type], err)
		}
		pk, err := txscript.PayToAddrScript(addr)
		if err != nil {
			ev.Fatal("script: %v", err)
		}
		cn := &coin{CoinSpec: sp, idx: i, amount: coinAmount(i), pkScript: pk, height: -1}
		if sp.Small {
			cn.amount = smallCoinAmount
		}
		var tx *wire.MsgTx
		if sp.Status == stCoinbaseImmature || sp.Status == stCoinbaseMature {
			tx = coinbaseTx(fmt.Sprintf("c06-cb-%d", i), pk, cn.amount)
			cn.coinbase = true
		} else {
			tx = wsim.FundingTx(fmt.Sprintf("c06-%d", i), addr, cn.amount)
		}
		cn.op = wire.OutPoint{Hash: tx.TxHash(), Index: 0}
		switch sp.Status {
		case stUnconfirmed:
			late = append(late, tx)
			w.roles[tx.TxHash()] = fmt.Sprintf("receipt-coin%d", i)
		case stRolledBack:
			rolled = append(rolled, tx)
			w.roles[tx.TxHash()] = fmt.Sprintf("receipt-coin%d", i)
		case stSpenderFirstUnconf:
			w.roles[tx.TxHash()] = fmt.Sprintf("receipt-coin%d", i)
		case stConf1:
			cn.height = T
		case stCoinbaseImmature:
			cn.height = T - maturity + 2 // maturity-1 confirmations
		case stCoinbaseMature:
			cn.height = T - maturity + 1 // exactly maturity confirmations
		default:
			cn.height = T - 2
		}
		if cn.height > 0 {
			txsAt[cn.height] = append(txsAt[cn.height], tx)
		}
		switch sp.Status {
		case stSpentConfirmed:
			spendsAtTip = append(spendsAtTip, spendTx(cn.op, cn.amount))
			cn.spent = "spent-by-confirmed"
		case stSpentUnconfirmed:
			sp := spendTx(cn.op, cn.amount)
			lateSpends = append(lateSpends, sp)
			w.roles[sp.TxHash()] = fmt.Sprintf("spender-coin%d", i)
			cn.spent = "spent-by-unconfirmed"
		case stSpenderFirstUnconf:
			// child seen before its (unconfirmed) parent
			sp := spendTx(cn.op, cn.amount)
			spenderFirst = append(spenderFirst, [2]*wire.MsgTx{sp, tx})
			w.roles[sp.TxHash()] = fmt.Sprintf("spender-coin%d", i)
			cn.spent = "spent-by-unconfirmed"
		case stSpenderFirstConf:
			// the unconfirmed child is recorded before the block that
			// confirms its parent is delivered
			sp := spendTx(cn.op, cn.amount)
			earlySpends[cn.height] = append(earlySpends[cn.height], sp)
			w.roles[sp.TxHash()] = fmt.Sprintf("spender-coin%d", i)
			cn.spent = "spent-by-unconfirmed"
		}
		w.coins = append(w.coins, cn)
		w.prev[cn.op] = cn
	}
	w.nbase = len(w.coins)
	w.baseUnmined = len(late) + len(rolled) + len(lateSpends) + 2*len(spenderFirst)
	for _, e := range earlySpends {
		w.baseUnmined += len(e)
	}
	txsAt[T] = append(txsAt[T], spendsAtTip...)
	for h := int32(1); h <= T; h++ {
		for _, tx := range earlySpends[h] {
			w.feedSpenderFirst(tx)
		}
		b := c.NewBlock(c.Tip, "a", txsAt[h])
		s.Connect(b, wsim.StyleFiltered)
	}
	if len(rolled) > 0 {
		b := c.NewBlock(c.Tip, "r", rolled)
		s.Connect(b, wsim.StyleFiltered)
		s.Disconnect()
	}
	for _, tx := range late {
		s.SeenUnconfirmed(tx)
	}
	for _, tx := range lateSpends {
		s.SeenUnconfirmed(tx)
	}
	for _, p := range spenderFirst {
		w.feedSpenderFirst(p[0])
		s.SeenUnconfirmed(p[1])
	}
	for _, cn := range w.coins {
		switch cn.Status {
		case stLocked:
			s.W.LockOutpoint(cn.op)
			cn.locked = true
		case stLeased:
			if _, err := s.W.LeaseOutput(leaseID, cn.op, 24*time.Hour); err != nil {
				ev.Fatal("LeaseOutput: %v", err)
			}
			cn.leased = true
		case stLeaseExpired:
			// a lease whose expiry is already in the past
			if _, err := s.W.LeaseOutput(leaseID, cn.op, -time.Hour); err != nil {
				ev.Fatal("LeaseOutput(expired): %v", err)
			}
		}
	}
	s.Quiesce()
	if c.Tip.Height != T {
		ev.Fatal("model tip %d != %d", c.Tip.Height, T)
	}
	if st := s.SyncedTo(); st.Height != T {
		ev.Fatal("wallet synced to %d, expected %d (state %s)", st.Height, T, specsString(specs))
	}
	// Sanity (not an oracle): the wallet knows every receipt at the height
	// the harness recorded.
	for _, cn := range w.coins {
		d, err := wallet.UnstableAPI(s.W).TxDetails(&cn.op.Hash)
		if err != nil || d == nil {
			ev.Fatal("state %s: wallet does not know receipt %d: %v", specsString(specs), cn.idx, err)
		}
		if d.Block.Height != cn.height {
			ev.Fatal("state %s: receipt %d at height %d, harness recorded %d", specsString(specs), cn.idx, d.Block.Height, cn.height)
		}
		if len(d.Credits) != 1 {
			ev.Fatal("state %s: receipt %d has %d credits", specsString(specs), cn.idx, len(d.Credits))
		}
	}
	w.baseSnap = w.snapshot()
	return w
}

func (w *world) close() { w.s.Close() }

// feedSpenderFirst delivers an unconfirmed spender whose spent output the
// wallet must not know yet, and makes sure (sanity of the state construction,
// not an oracle) that this is the order in which the wallet learned them.
func (w *world) feedSpenderFirst(sp *wire.MsgTx) {
	parent := sp.TxIn[0].PreviousOutPoint.Hash
	if d, err := wallet.UnstableAPI(w.s.W).TxDetails(&parent); err != nil || d != nil {
		ev.Fatal("state %s: the receipt %v is known before its spender was delivered (%v)", specsString(w.specs), parent, err)
	}
	w.s.SeenUnconfirmed(sp)
	h := sp.TxHash()
	if d, err := wallet.UnstableAPI(w.s.W).TxDetails(&h); err != nil || d == nil || d.Block.Height != -1 {
		ev.Fatal("state %s: the wallet did not record the unconfirmed spender %v (%v)", specsString(w.specs), h, err)
	}
}

// snapshot renders the transaction store's view (unspent outputs and unmined
// transactions); it is used only to make sure that undoing a published send
// restored the base state, never as an oracle.
func (w *world) snapshot() string {
	var parts []string
	err := walletdb.View(w.s.W.Database(), func(tx walletdb.ReadTx) error {
		ns := tx.ReadBucket(wtxmgrKey)
		us, err := w.s.W.TxStore.UnspentOutputs(ns)
		if err != nil {
			return err
		}
		for _, u := range us {
			parts = append(parts, fmt.Sprintf("u:%v@%d", u.OutPoint, u.Height))
		}
		txs, err := w.s.W.TxStore.UnminedTxs(ns)
		if err != nil {
			return err
		}
		for _, t := range txs {
			parts = append(parts, "m:"+t.TxHash().String())
		}
		return nil
	})
	if err != nil {
		ev.Fatal("snapshot: %v", err)
	}
	sort.Strings(parts)
	return strings.Join(parts, ",")
}

// storeOrder returns the outpoints in the order in which the store lists its
// unspent outputs.
func (w *world) storeOrder() []wire.OutPoint {
	var out []wire.OutPoint
	err := walletdb.View(w.s.W.Database(), func(tx walletdb.ReadTx) error {
		us, err := w.s.W.TxStore.UnspentOutputs(tx.ReadBucket(wtxmgrKey))
		for _, u := range us {
			out = append(out, u.OutPoint)
		}
		return err
	})
	if err != nil {
		ev.Fatal("storeOrder: %v", err)
	}
	return out
}

// undo removes the sends published since the base state (the way the wallet
// itself removes a rejected transaction) and resets the harness' record.
func (w *world) undo() { w.undoTainted(false) }

// undoTainted is undo; tainted says that the oracle already reported a
// finding about one of the published sends (e.g. a transaction spending an
// output twice): the store may then be unable to take it back, and the harness
// continues on a freshly built copy of the state instead of stopping.
func (w *world) undoTainted(tainted bool) {
	if len(w.published) == 0 {
		return
	}
	err := walletdb.Update(w.s.W.Database(), func(tx walletdb.ReadWriteTx) error {
		ns := tx.ReadWriteBucket(wtxmgrKey)
		for i := len(w.published) - 1; i >= 0; i-- {
			rec, err := wtxmgr.NewTxRecordFromMsgTx(w.published[i], time.Now())
			if err != nil {
				return err
			}
			if err := w.s.W.TxStore.RemoveUnminedTx(ns, rec); err != nil {
				return err
			}
		}
		return nil
	})
	if err != nil {
		if tainted {
			w.rebuild()
			return
		}
		ev.Fatal("undo: %v", err)
	}
	for _, tx := range w.published {
		delete(w.roles, tx.TxHash())
	}
	w.published = nil
	w.pubInputs = map[wire.OutPoint]bool{}
	for _, cn := range w.coins[w.nbase:] {
		delete(w.prev, cn.op)
	}
	w.coins = w.coins[:w.nbase]
	for _, cn := range w.coins {
		if cn.spent == "own" {
			cn.spent = ""
		}
	}
	if snap := w.snapshot(); snap != w.baseSnap {
		if w.resynced || tainted {
			// A resynchronisation may legitimately or (under a defect)
			// wrongly have changed what the store holds; the harness
			// does not judge that here, it continues on a fresh copy
			// of the state.
			w.rebuild()
			return
		}
		ev.Fatal("state %s: undo did not restore the base state:\n before %s\n after  %s", specsString(w.specs), w.baseSnap, snap)
	}
	w.resynced = false
}

// rebuild replaces the wallet by a freshly built copy of the same state.
func (w *world) rebuild() {
	w.s.Close()
	rebuilds++
	*w = *buildWorld(w.simID, w.specs)
}

// resync makes the wallet resynchronise (kind "rescan": Wallet.Rescan, kind
// "restart": stop, open, attach) and answers the rebroadcast of the i-th
// unconfirmed transaction with answers[i] ("accept" or "mempool" =
// chain.ErrTxAlreadyInMempool).
func (w *world) resync(kind string, answers []string) map[string]string {
	s := w.s
	resyncs++
	w.resynced = true
	if os.Getenv("C06_TIME") != "" {
		t0 := time.Now()
		defer func() { fmt.Fprintf(os.Stderr, "resync %s %v\n", kind, time.Since(t0)) }()
	}
	switch kind {
	case "restart":
		s.Stop()
		if err := s.Open(0); err != nil {
			ev.Fatal("re-open: %v", err)
		}
		s.Attach()
	default:
		if err := s.W.Rescan(nil, nil); err != nil {
			ev.Fatal("Rescan: %v", err)
		}
	}
	var script []error
	for _, a := range answers {
		if a == "mempool" {
			script = append(script, chain.ErrTxAlreadyInMempool)
		} else {
			script = append(script, nil)
		}
	}
	s.BE.SendAnswers = script
	sentBefore := s.BE.SentCount()
	s.FinishRescans()
	s.BE.SendAnswers = nil
	// The order in which the wallet rebroadcasts independent transactions
	// is not fixed; record which transaction received which answer.
	got := map[string]string{}
	for i := sentBefore; i < len(s.BE.Sent); i++ {
		name, ok := w.roles[s.BE.Sent[i].TxHash()]
		if !ok {
			name = s.BE.Sent[i].TxHash().String()
		}
		a := "accept"
		if s.BE.SentErr[i] != nil {
			a = "mempool"
		}
		got[name] = a
	}
	if kind == "restart" {
		if err := s.Unlock(); err != nil {
			ev.Fatal("unlock after restart: %v", err)
		}
		// LockOutpoint is in-memory only: a restarted wallet has
		// forgotten it, the harness applies it again.
		for _, cn := range w.coins {
			if cn.locked {
				s.W.LockOutpoint(cn.op)
			}
		}
	}
	s.Quiesce()
	return got
}

// reason returns "" when the coin is eligible for a request with the given
// scope (index, -1 = nil), account and minconf, else why it is not.
func (w *world) reason(cn *coin, scope int, account uint32, minconf int32) string {
	switch cn.spent {
	case "spent-by-confirmed", "spent-by-unconfirmed":
		return cn.spent
	case "own":
		return "spent-by-unconfirmed"
	}
	if cn.locked {
		return "locked"
	}
	if cn.leased {
		return "leased"
	}
	confs := int32(0)
	if cn.height >= 0 {
		confs = w.tip - cn.height + 1
	}
	if cn.coinbase && confs < maturity {
		return "immature-coinbase"
	}
	if confs < minconf {
		return "too-few-confs"
	}
	if cn.Account != account {
		return "other-account"
	}
	if scope >= 0 && cn.Type != scope {
		return "other-scope"
	}
	return ""
}

// typeOfScript classifies a wallet output script.
func typeOfScript(pk []byte) int {
	switch txscript.GetScriptClass(pk) {
	case txscript.PubKeyHashTy:
		return 0
	case txscript.ScriptHashTy:
		return 1
	case txscript.WitnessV0PubKeyHashTy:
		return 2
	case txscript.WitnessV1TaprootTy:
		return 3
	}
	return -1
}
