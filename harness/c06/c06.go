// Package c06 checks property C06: created transactions spend only eligible
// own coins, once, with valid signatures. It enumerates wallet states x
// requests exhaustively inside stated bounds on the REAL wallet (driven through
// wsim) and compares every result with an eligibility oracle computed from the
// harness' own record of how each state was built.
package c06

import (
	"encoding/json"
	"fmt"
	"os"
	"runtime/pprof"
	"sort"
	"strconv"
	"strings"

	"verif/harness/ev"
)

// ShardArgsPrefix is prepended to the arguments of the worker processes (the
// integration binary sets it to its subcommand name).
var ShardArgsPrefix []string

type stats struct {
	states, requests, failed, skipped, explicit, explicitRefused int
	inputsChecked, sigsVerified, nontrivial, sequences           int
	finalizeFailed, confirmations                                int
	byEntry, byEntryOK, byStatus, byReason, sigByType            map[string]int
	failKinds, msByEntry                                         map[string]int
	nsByEntry                                                    map[string]int64
	byStateSize                                                  map[string]int
	samples                                                      []string

	// built-in strategy family (states with a small coin)
	randomRequests, randomOK, largestFamilyRequests int
	randomInputs, smallCoinStorePos, smallYield     map[string]int
	randomOrders                                    map[string]bool            // input orders observed (coin indexes)
	randomStateOrders                               map[string]bool            // state|order
	randomGroups                                    map[string]map[string]bool // state+request (without repetition number) -> input orders
	randomGroupMax                                  map[string]int             // ... -> largest number of inputs of a result
	randomSamples                                   []string
}

func newStats() *stats {
	return &stats{byEntry: map[string]int{}, byEntryOK: map[string]int{}, byStatus: map[string]int{},
		byReason: map[string]int{}, sigByType: map[string]int{}, failKinds: map[string]int{},
		byStateSize: map[string]int{}, msByEntry: map[string]int{}, nsByEntry: map[string]int64{},
		randomInputs: map[string]int{}, smallCoinStorePos: map[string]int{}, smallYield: map[string]int{},
		randomOrders: map[string]bool{}, randomStateOrders: map[string]bool{}, randomGroups: map[string]map[string]bool{}, randomGroupMax: map[string]int{}}
}

// bounds describes what a tier enumerates.
type bounds struct {
	singles  []CoinSpec   // 1-coin states
	pairs    [][]CoinSpec // 2-coin states
	triples  [][]CoinSpec // 3-coin states
	dust     [][]CoinSpec // built-in strategy family: states holding a small coin
	feeExtra []int64      // additional fee rates for the CreateSimpleTx coin-selection slice
	desc     string
}

func allSpecs(accounts []uint32) []CoinSpec {
	var out []CoinSpec
	for st := 0; st < numStatus; st++ {
		for _, a := range accounts {
			for t := 0; t < 4; t++ {
				out = append(out, CoinSpec{Type: t, Account: a, Status: st})
			}
		}
	}
	return out
}

// reduced is the reduced coin set R used for the second (and third) coin.
var reduced = []CoinSpec{
	{Type: 2, Account: 0, Status: stDeep},
	{Type: 3, Account: 1, Status: stConf1},
	{Type: 0, Account: 0, Status: stUnconfirmed},
	{Type: 1, Account: 1, Status: stDeep},
	{Type: 3, Account: 0, Status: stLocked},
	{Type: 2, Account: 1, Status: stSpentUnconfirmed},
}

func makeBounds(thorough bool) *bounds {
	b := &bounds{}
	all := allSpecs([]uint32{0, 1})
	acct0 := allSpecs([]uint32{0})
	b.singles = all
	var rs []string
	for _, r := range reduced {
		rs = append(rs, r.String())
	}
	R := "R={" + strings.Join(rs, ", ") + "}"
	if thorough {
		for i := range all {
			for j := i; j < len(all); j++ {
				if all[i].Account == 0 || all[j].Account == 0 {
					b.pairs = append(b.pairs, []CoinSpec{all[i], all[j]})
				}
			}
		}
		fixed := [][2]int{{0, 1}, {2, 4}, {3, 5}}
		var fs []string
		for _, a := range acct0 {
			for _, f := range fixed {
				b.triples = append(b.triples, []CoinSpec{a, reduced[f[0]], reduced[f[1]]})
			}
		}
		for _, f := range fixed {
			fs = append(fs, "("+reduced[f[0]].String()+", "+reduced[f[1]].String()+")")
		}
		b.feeExtra = []int64{3000}
		b.dust = dustFamily(true)
		feeRatesFamily = []int64{1000, 5000, 10000}
		b.desc = fmt.Sprintf("states: every 1-coin state (4 address types x 2 accounts x %d statuses = %d), every unordered pair of those %d coins with at least one coin on account 0 (%d; pairs with both coins on account 1 mirror the account-0 pairs), and 3-coin states {a,b,c} with a over the %d account-0 coins and (b,c) over %s (%d); additional fee rate 3000 sat/kvB for signed CreateSimpleTx coin selection; %s",
			numStatus, len(all), len(all), len(b.pairs), len(acct0), strings.Join(fs, ", "), len(b.triples), dustDesc(true, len(b.dust)))
	} else {
		for _, a := range acct0 {
			for _, r := range reduced {
				b.pairs = append(b.pairs, []CoinSpec{a, r})
			}
		}
		b.dust = dustFamily(false)
		b.desc = fmt.Sprintf("states: every 1-coin state (4 address types x 2 accounts x %d statuses = %d) and 2-coin states {a,b} with a over the %d account-0 coins (4 types x %d statuses) and b over %s (%d); %s",
			numStatus, len(all), len(acct0), numStatus, R, len(b.pairs), dustDesc(false, len(b.dust)))
	}
	return b
}

// randomReps is how often every request with wallet.CoinSelectionRandom is
// repeated. The strategy arranges the coins with rand.Shuffle: the harness
// cannot choose the arrangement, it can only repeat the call. With at most 3
// arranged coins a given one of the <= 6 arrangements is missed by 40 calls with
// probability (5/6)^40 < 0.0007. The oracle does not depend on the order, so
// the repetition can never alarm falsely; it is repetition of a randomised
// implementation choice, NOT enumeration, and the evidence says so.
const randomReps = 40

// feeRatesFamily: at 1000 sat/kvB the small coin (400 sat) yields positively
// for every address type, at 10000 for none, at 5000 (thorough tier only) as
// P2WKH / P2TR but not as P2PKH / NP2WKH.
var feeRatesFamily = []int64{1000, 10000}

// dustFamily returns the states of the built-in strategy family.
func dustFamily(thorough bool) [][]CoinSpec {
	var out [][]CoinSpec
	for t := 0; t < 4; t++ {
		pairs := [][2]int{{(t + 1) % 4, (t + 2) % 4}}
		if thorough {
			pairs = nil
			for a := 0; a < 4; a++ {
				for b := a; b < 4; b++ {
					pairs = append(pairs, [2]int{a, b})
				}
			}
		}
		for _, ab := range pairs {
			for p := 0; p < 3; p++ {
				S := CoinSpec{Type: t, Status: stDeep, Small: true}
				rest := []CoinSpec{{Type: ab[0], Status: stDeep}, {Type: ab[1], Status: stConf1}}
				var sp []CoinSpec
				sp = append(sp, rest[:p]...)
				sp = append(sp, S)
				sp = append(sp, rest[p:]...)
				out = append(out, sp)
			}
		}
	}
	for t := 0; t < 4; t++ {
		X := []CoinSpec{
			{Type: (t + 1) % 4, Status: stLocked},
			{Type: (t + 3) % 4, Status: stSpentUnconfirmed},
			{Type: (t + 1) % 4, Status: stLeased, Small: true},
			{Type: (t + 3) % 4, Status: stSpenderFirstConf},
		}[t]
		out = append(out, []CoinSpec{
			{Type: t, Status: stDeep, Small: true},
			{Type: t, Status: stConf1},
			{Type: (t + 2) % 4, Status: stUnconfirmed},
			X,
		})
	}
	return out
}

func dustDesc(thorough bool, n int) string {
	ab := "of types t+1 (3 confs) and t+2 (1 conf)"
	if thorough {
		ab = "over every unordered pair of types (3 confs, 1 conf)"
	}
	return fmt.Sprintf("built-in strategy family (%d states, account 0): 3-coin states {S,A,B} with a small coin S of %d sat (3 confs) of each type t at each of the 3 positions next to two ordinary coins A, B %s, and for each t one 4-coin state [S(t), ordinary t/1 conf, ordinary t+2/unconfirmed, X] with X in {locked, spent-by-unconfirmed, small leased, spender-seen-before-confirmed-receipt}",
		n, smallCoinAmount, ab)
}

const requestRule = "coin i of a state receives (i+1)*1000000+100000 sat; statuses: unconfirmed, 1 conf, 3 confs, coinbase with maturity-1 confs, coinbase with exactly maturity confs, spent by an unconfirmed / by a confirmed foreign tx (receipt 3 confs), confirmed then disconnected, LockOutpoint, LeaseOutput 24h, LeaseOutput with expiry in the past (3 confs each), spent by an unconfirmed foreign tx that the wallet was told about BEFORE the credit existed: (i) spender, then the unconfirmed receipt (child seen before its parent), (ii) spender, then the block confirming the receipt (3 confs); both are ineligible for the reason spent-by-unconfirmed. " +
	"requests per state: key scope in {nil, every scope of a coin of the state, one scope without coins} x account {0,1} x minconf ({0,1,2,6} if a coin has <=1 confirmations else {1,6}) x fee 1000 sat/kvB, and for each of these: " +
	"(a) coin selection through CreateSimpleTx (signed), FundPsbt without inputs and SendOutputs (accepted broadcast) x amount {10000 sat, sum(eligible)-2000; CreateSimpleTx/Largest also sum(eligible) minus the first fee guess of txauthor for each change script size, where the input source is asked twice} x strategy {CoinSelectionLargest, a harness strategy for every preference order of the state's coins}, plus CreateSimpleTx dry-run with CoinSelectionLargest (only 10000 sat / Largest when the oracle's eligible set is empty: then every success is a violation whatever the strategy); " +
	"(b) explicit selection of every non-empty subset of the state's coins through CreateSimpleTx(WithCustomSelectUtxos) (signed and dry-run), SendOutputsWithInput and FundPsbt with pre-set inputs x amount {10000, sum(selected)-2000} (10000 only when a selected coin is ineligible: the call must fail anyway); " +
	"(c) the duplicated selection [c,c] of every eligible coin c through CreateSimpleTx, SendOutputsWithInput, FundPsbt; " +
	"(d) for minconf<=1 and a non-empty eligible set: every ordering of {10000, 10000, sum(eligible)-2000} as three successive SendOutputs with accepted broadcasts (Quiesce after each) x strategy {CoinSelectionLargest, smallest-coin-first order}; the change outputs of earlier sends join the oracle's coin set. " +
	"(e) for key scope nil, each account with a non-empty eligible set and the smallest minconf of the state: SendOutputs(10000, Largest), then a resynchronisation whose rebroadcast answers range over {accept, chain.ErrTxAlreadyInMempool}^n (n = number of transactions still unconfirmed: the state's unconfirmed receipts/spenders and the first send), then a second SendOutputs; 1-coin states: resynchronisation by Wallet.Rescan and by restart (stop, open, attach, unlock, LockOutpoint re-applied), second amount {10000, sum(eligible)-2000}; larger states: Wallet.Rescan and 10000 only. " +
	"(f) built-in strategy family (states with a small coin of 400 sat, see bounds): key scope {nil, scope of the small coin} x account {0, 1} x minconf ({0,1} if a coin is unconfirmed else {1}) x fee rate {1000, 10000; thorough tier also 5000} sat/kvB (the small coin yields positively for every type at 1000, for no type at 10000, only as P2WKH or P2TR at 5000) x amount {10000 sat (one coin), largest positively yielding eligible coin + 50000 (at least two inputs), sum of the positively yielding eligible coins minus the fee of spending them all (all of them)} x entry point {CreateSimpleTx signed, FundPsbt, SendOutputs} x strategy {wallet.CoinSelectionLargest once, wallet.CoinSelectionRandom} (the two strategies the wallet exports). CoinSelectionRandom arranges with rand.Shuffle, which the harness cannot steer: each such request is REPEATED 40 times (2 times when fewer than two coins are eligible) - this part is repetition of a randomised implementation choice, not enumeration; the oracle is order-independent (inputs eligible, each once, signatures valid), the random_* counters report how many input orders were actually observed (results of CreateSimpleTx and SendOutputs; FundPsbt sorts the inputs of its packet, so its results say nothing about the arrangement drawn). " +
	"States holding a coinbase coin additionally use minconf = confs and confs+1 of every coinbase coin and of the deepest non-coinbase coin. " +
	"oracle: eligible iff credited to the requested account (and scope unless nil), unspent by any known tx, not locked, no active lease, confs>=minconf, coinbase confs>=maturity, all from the harness' record of the state; every input of every success must be eligible and distinct, explicit selections containing an ineligible coin must fail, inputs of explicit requests are selected ones, later sends never reuse inputs of earlier published, still unconfirmed ones (also across a resynchronisation), every input of a signed result passes txscript.Engine with StandardVerifyFlags, payable requests fail only for lack of funds. " +
	"A published send is undone with TxStore.RemoveUnminedTx and the store compared with the base snapshot; the first witness of every signature is re-executed on a freshly built state before it is reported. " +
	"non-trivial = requests for which the state holds (coin selection) or the selection contains (explicit) at least one coin that is ineligible for the request"

type replayObj struct {
	State    []CoinSpec `json:"state"`
	Requests []*Request `json:"requests"`
	Text     string     `json:"text"`
}

type explorer struct {
	run       *ev.Run
	st        *stats
	b         *bounds
	confirmed map[string]bool
}

// Run is the entry point: args[0] = quick | thorough | replay.
func Run(args []string) {
	if len(args) > 0 && args[0] == "replay" {
		replay(args[1:])
		return
	}
	run := ev.NewRun("C06", "model_checking", args)
	b := makeBounds(run.Thorough())
	if !ev.IsWorker() && os.Getenv("C06_INPROC") == "" {
		cov := run.RunSharded(16, append(append([]string{}, ShardArgsPrefix...), args...))
		cov["rule"] = requestRule
		cov["bounds"] = b.desc
		if _, ok := cov["samples"]; !ok {
			cov["samples"] = []string{"(none)"}
		}
		run.Assumption = []string{
			"the fake chain backend accepts every broadcast; chain transactions delivered to the wallet carry no valid signatures (the wallet does not validate them)",
			"the change output of a published send is credited to the requested account and the scope of its script (used only to extend the oracle inside send sequences)",
			"FundPsbt results are unsigned by design: only their input selection is checked; packets whose inputs are all eligible witness outputs are additionally passed to FinalizePsbt and the extracted transaction verified when that succeeds",
		}
		run.Finish(cov)
		return
	}
	if pf := os.Getenv("C06_PROF"); pf != "" { // development aid
		f, _ := os.Create(pf)
		pprof.StartCPUProfile(f)
		defer pprof.StopCPUProfile()
	}
	x := &explorer{run: run, st: newStats(), b: b, confirmed: map[string]bool{}}
	var states [][]CoinSpec
	var parts []int // for the states of the small-coin family: which part of the requests (see dustParts)
	for _, s := range b.singles {
		states = append(states, []CoinSpec{s})
	}
	states = append(states, b.pairs...)
	states = append(states, b.triples...)
	parts = make([]int, len(states))
	// The requests of a state of the small-coin family are split into
	// parts (each part builds the state anew) to balance the workers.
	for _, d := range b.dust {
		for p := 0; p < dustParts(d); p++ {
			states = append(states, d)
			parts = append(parts, p)
		}
	}
	if sz := os.Getenv("C06_SIZES"); sz != "" { // development aid: only states of these sizes
		var f [][]CoinSpec
		var fp []int
		for i, s := range states {
			if strings.Contains(sz, strconv.Itoa(len(s))) {
				f = append(f, s)
				fp = append(fp, parts[i])
			}
		}
		states, parts = f, fp
	}
	complete := true
	limit := -1
	if s := os.Getenv("C06_MAX_STATES"); s != "" {
		limit, _ = strconv.Atoi(s)
	}
	for k, sp := range states {
		if !ev.Mine(k) {
			continue
		}
		if run.Expired() || (limit >= 0 && x.st.states >= limit) {
			complete = false
			break
		}
		if hasSmall(sp) {
			x.exploreDustState(sp, parts[k])
		} else {
			x.exploreState(sp)
		}
	}
	st := x.st
	for k, v := range st.nsByEntry {
		st.msByEntry[k] = int(v / 1e6)
	}
	pprof.StopCPUProfile()
	var orders []string
	for o := range st.randomOrders {
		orders = append(orders, o)
	}
	sort.Strings(orders)
	ordersPerGroup := map[string]int{}
	three, threeAll := 0, 0
	for g, os := range st.randomGroups {
		ordersPerGroup[fmt.Sprintf("%d-orders", len(os))]++
		if st.randomGroupMax[g] == 3 {
			only3 := true
			for o := range os {
				if strings.Count(o, ">") != 2 {
					only3 = false
				}
			}
			if only3 {
				three++
				if len(os) == 6 {
					threeAll++
				}
			}
		}
	}
	run.Finish(ev.Coverage{
		"random_strategy_requests":                          st.randomRequests,
		"random_strategy_successes":                         st.randomOK,
		"largest_strategy_requests_small_coin_family":       st.largestFamilyRequests,
		"random_input_orders@set":                           orders,
		"random_state_input_order_pairs":                    len(st.randomStateOrders),
		"random_inputs_per_success":                         st.randomInputs,
		"random_repeated_requests_with_success":             len(st.randomGroups),
		"random_orders_seen_per_repeated_request":           ordersPerGroup,
		"random_repeated_requests_always_3_inputs":          three,
		"random_repeated_requests_always_3_inputs_6_orders": threeAll,
		"random_requests_by_small_coin_yield":               st.smallYield,
		"small_coin_position_in_store_order":                st.smallCoinStorePos,
		"random_samples":                                    st.randomSamples,
		"states":                                            st.states,
		"state_builds":                                      builds,
		"state_rebuilds_after_resync":                       rebuilds,
		"resynchronisations":                                resyncs,
		"transitions":                                       st.requests,
		"traces_validated_against_impl":                     st.requests,
		"evaluations":                                       st.inputsChecked + st.sigsVerified,
		"inputs_checked":                                    st.inputsChecked,
		"signatures_verified":                               st.sigsVerified,
		"distinct_nontrivial":                               st.nontrivial,
		"requests_failed":                                   st.failed,
		"requests_skipped_no_amount":                        st.skipped,
		"explicit_requests":                                 st.explicit,
		"explicit_ineligible_refused":                       st.explicitRefused,
		"send_sequences":                                    st.sequences,
		"finalize_psbt_failed":                              st.finalizeFailed,
		"witness_confirmations":                             st.confirmations,
		"requests_per_entry_point":                          st.byEntry,
		"successes_per_entry_point":                         st.byEntryOK,
		"requests_per_coin_status":                          st.byStatus,
		"ineligibility_reasons":                             st.byReason,
		"signatures_per_address_type":                       st.sigByType,
		"failure_kinds":                                     st.failKinds,
		"wall_ms_per_entry_point":                           st.msByEntry,
		"states_per_size":                                   st.byStateSize,
		"samples":                                           st.samples,
		"exhaustive":                                        complete,
	})
}

func permutations(k int) [][]int {
	var out [][]int
	var rec func(cur []int, used []bool)
	rec = func(cur []int, used []bool) {
		if len(cur) == k {
			out = append(out, append([]int{}, cur...))
			return
		}
		for i := 0; i < k; i++ {
			if !used[i] {
				used[i] = true
				rec(append(cur, i), used)
				used[i] = false
			}
		}
	}
	rec(nil, make([]bool, k))
	return out
}

func subsets(k int) [][]int {
	var out [][]int
	for size := 1; size <= k; size++ {
		for m := 1; m < 1<<k; m++ {
			var s []int
			for i := 0; i < k; i++ {
				if m&(1<<i) != 0 {
					s = append(s, i)
				}
			}
			if len(s) == size {
				out = append(out, s)
			}
		}
	}
	return out
}

// do executes a request (or a sequence of sends) and reports what the oracle
// found.
func (x *explorer) do(w *world, seq ...*Request) {
	keep := len(seq) > 1
	tainted := false
	for i, r := range seq {
		rc := *r
		fs := w.exec(&rc, keep, x.st)
		if rc.got != nil {
			r.Realized = rc.got
		}
		for _, f := range fs {
			tainted = true
			x.report(w, seq[:i+1], f)
		}
	}
	if keep {
		x.st.sequences++
		w.undoTainted(tainted)
	}
}

func cloneReqs(seq []*Request) []*Request {
	var out []*Request
	for _, r := range seq {
		c := *r
		out = append(out, &c)
	}
	return out
}

func (x *explorer) report(w *world, seq []*Request, f finding) {
	reqs := cloneReqs(seq)
	if !x.confirmed[f.sig] {
		// Re-execute on a freshly built state: a witness must not depend
		// on the requests executed (and undone) before it.
		if !confirmFresh(1, w.specs, reqs, f.sig) {
			ev.Fatal("finding %q (%s) did not reproduce on a fresh state %s, requests %v", f.sig, f.msg, specsString(w.specs), reqs)
		}
		x.st.confirmations++
		x.confirmed[f.sig] = true
	}
	var txt []string
	for _, r := range reqs {
		txt = append(txt, r.String())
	}
	x.run.Violation(f.sig, f.msg, replayObj{State: w.specs, Requests: reqs,
		Text: specsString(w.specs) + " : " + strings.Join(txt, " ; ")})
}

// runFresh builds the state anew and runs the requests (published sends stay
// published). matched is false when a resynchronisation handed its answers to
// the unconfirmed transactions in another assignment than the recorded one.
func runFresh(simID int, specs []CoinSpec, reqs []*Request) (out [][]finding, matched bool) {
	w := buildWorld(simID, specs)
	defer w.close()
	for _, r := range reqs {
		rc := *r
		fs := w.exec(&rc, true, nil)
		if r.Realized != nil && !sameAssignment(r.Realized, rc.got) {
			return nil, false
		}
		out = append(out, fs)
	}
	return out, true
}

func sameAssignment(a, b map[string]string) bool {
	if len(a) != len(b) {
		return false
	}
	for k, v := range a {
		if b[k] != v {
			return false
		}
	}
	return true
}

// maxAssignmentTries bounds the repetitions needed until the wallet's
// rebroadcast order yields the recorded assignment of answers (at most 4
// unconfirmed transactions: every try matches with probability >= 1/24).
const maxAssignmentTries = 400

// confirmFresh reports whether the signature shows up when the requests are
// executed on a freshly built state.
func confirmFresh(simID int, specs []CoinSpec, reqs []*Request, sig string) bool {
	tries := 1
	for _, r := range reqs {
		if r.Builtin == "random" {
			// the arrangement is drawn anew in every execution
			tries = randomConfirmTries
		}
	}
	for t := 0; t < tries; t++ {
		if confirmOnce(simID, specs, reqs, sig) {
			return true
		}
	}
	return false
}

// randomConfirmTries bounds the re-executions of a witness that uses the
// wallet's random strategy (the finding depends on the arrangement drawn).
const randomConfirmTries = 200

func confirmOnce(simID int, specs []CoinSpec, reqs []*Request, sig string) bool {
	for try := 0; try < maxAssignmentTries; try++ {
		out, matched := runFresh(simID, specs, reqs)
		if !matched {
			continue
		}
		for _, fs := range out {
			for _, f := range fs {
				if f.sig == sig {
					return true
				}
			}
		}
		return false
	}
	ev.Fatal("could not reproduce the rebroadcast assignment of %v in %d tries", reqs, maxAssignmentTries)
	return false
}

func (x *explorer) exploreState(specs []CoinSpec) {
	w := buildWorld(0, specs)
	defer w.close()
	x.st.states++
	x.st.byStateSize[fmt.Sprintf("%d-coin", len(specs))]++
	k := len(specs)

	scopeSet := []int{-1}
	used := map[int]bool{}
	for _, sp := range specs {
		if !used[sp.Type] {
			used[sp.Type] = true
			scopeSet = append(scopeSet, sp.Type)
		}
	}
	for t := 0; t < 4; t++ {
		if !used[t] {
			scopeSet = append(scopeSet, t)
			break
		}
	}
	young := false
	for _, cn := range w.coins {
		if cn.height < 0 || w.tip-cn.height+1 <= 1 {
			young = true
		}
	}
	minconfs := []int32{1, 6}
	if young {
		minconfs = []int32{0, 1, 2, 6}
	}
	// States with a coinbase coin: the boundary values confs and confs+1 of
	// every coinbase coin and of the deepest other coin.
	addMC := func(v int32) {
		for _, m := range minconfs {
			if m == v {
				return
			}
		}
		minconfs = append(minconfs, v)
	}
	hasCB, deepest := false, int32(-1)
	for _, cn := range w.coins {
		confs := int32(0)
		if cn.height >= 0 {
			confs = w.tip - cn.height + 1
		}
		if cn.coinbase {
			hasCB = true
		} else if confs > deepest {
			deepest = confs
		}
	}
	if hasCB {
		for _, cn := range w.coins {
			if cn.coinbase {
				confs := w.tip - cn.height + 1
				addMC(confs)
				addMC(confs + 1)
			}
		}
		if deepest >= 0 {
			addMC(deepest)
			addMC(deepest + 1)
		}
	}
	sort.Slice(minconfs, func(i, j int) bool { return minconfs[i] < minconfs[j] })
	var perms [][]int
	if k >= 2 {
		perms = permutations(k)
	}
	subs := subsets(k)

	for _, sc := range scopeSet {
		for acct := uint32(0); acct <= 1; acct++ {
			for _, mc := range minconfs {
				elig := make([]bool, k)
				nE := 0
				for i, cn := range w.coins[:k] {
					if w.reason(cn, sc, acct, mc) == "" {
						elig[i] = true
						nE++
					}
				}
				base := Request{Scope: sc, Account: acct, MinConf: mc, FeeRate: 1000, Amount: "small"}
				amounts := []string{"small"}
				strategies := [][]int{nil}
				if nE > 0 {
					amounts = append(amounts, "most")
					strategies = append(strategies, perms...)
				}
				// (a) coin selection
				for _, am := range amounts {
					for _, stg := range strategies {
						r := base
						r.Amount, r.Strategy = am, stg
						r.Entry = "CreateSimpleTx"
						x.do(w, &r)
						for _, fr := range x.b.feeExtra {
							rf := r
							rf.FeeRate = fr
							x.do(w, &rf)
						}
						if stg == nil {
							rd := r
							rd.DryRun = true
							x.do(w, &rd)
						}
						if stg == nil && am == "most" {
							// the whole eligible value minus the author's FIRST fee guess (one
							// P2TR input; per change script size): the first fetch just fits,
							// the real fee does not, the input source is asked a second time
							for _, e := range []string{"edge22", "edge23", "edge25", "edge34"} {
								for _, fr := range append([]int64{1000}, x.b.feeExtra...) {
									re := r
									re.Amount, re.FeeRate = e, fr
									x.do(w, &re)
								}
							}
						}
						r.Entry = "FundPsbt"
						x.do(w, &r)
						r.Entry = "SendOutputs"
						x.do(w, &r)
					}
				}
				// (b) explicit selection
				for _, sel := range subs {
					bad := false
					for _, i := range sel {
						if !elig[i] {
							bad = true
						}
					}
					ams := []string{"small"}
					if !bad {
						ams = append(ams, "most")
					}
					for _, am := range ams {
						r := base
						r.Amount, r.Select = am, sel
						r.Entry = "CreateSimpleTx"
						x.do(w, &r)
						rd := r
						rd.DryRun = true
						x.do(w, &rd)
						r.Entry = "SendOutputsWithInput"
						x.do(w, &r)
						r.Entry = "FundPsbtInputs"
						x.do(w, &r)
					}
				}
				// (c) duplicated selection of an eligible coin
				for i := 0; i < k; i++ {
					if !elig[i] {
						continue
					}
					r := base
					r.Select = []int{i, i}
					for _, e := range []string{"CreateSimpleTx", "SendOutputsWithInput", "FundPsbtInputs"} {
						r.Entry = e
						x.do(w, &r)
					}
				}
				// (e) a resynchronisation between two sends
				if sc == -1 && mc == minconfs[0] && nE > 0 {
					n := w.baseUnmined + 1
					kinds, seconds := []string{"rescan"}, []string{"small"}
					if k == 1 {
						kinds, seconds = []string{"rescan", "restart"}, []string{"small", "most"}
					}
					for _, kind := range kinds {
						for _, second := range seconds {
							for m := 0; m < 1<<n; m++ {
								ans := make([]string, n)
								for i := range ans {
									ans[i] = "accept"
									if m&(1<<i) != 0 {
										ans[i] = "mempool"
									}
								}
								r1 := base
								r1.Entry = "SendOutputs"
								r2 := r1
								r2.Amount, r2.Resync, r2.ResyncKind = second, ans, kind
								x.do(w, &r1, &r2)
							}
						}
					}
				}
				// (d) sequences of successive sends
				if nE > 0 && mc <= 1 {
					seqStrategies := [][]int{nil}
					if k >= 2 {
						seqStrategies = append(seqStrategies, perms[0]) // smallest coin first
					}
					for _, stg := range seqStrategies {
						for _, ord := range [][]string{{"small", "small", "most"}, {"small", "most", "small"}, {"most", "small", "small"}} {
							var seq []*Request
							for _, am := range ord {
								r := base
								r.Entry, r.Amount, r.Strategy = "SendOutputs", am, stg
								seq = append(seq, &r)
							}
							x.do(w, seq...)
						}
					}
				}
			}
		}
	}
}

// replay re-executes a recorded witness on fresh states:
// replay <file-or-json> [times].
func replay(args []string) {
	if len(args) == 0 {
		ev.Fatal("usage: replay <replay.json | json> [times]")
	}
	raw := []byte(args[0])
	if b, err := os.ReadFile(args[0]); err == nil {
		raw = b
	}
	var v struct {
		Sig    string    `json:"signature"`
		Replay replayObj `json:"replay"`
	}
	if err := json.Unmarshal(raw, &v); err != nil {
		ev.Fatal("replay: %v", err)
	}
	if v.Replay.State == nil {
		if err := json.Unmarshal(raw, &v.Replay); err != nil {
			ev.Fatal("replay: %v", err)
		}
	}
	times := 1
	if len(args) > 1 {
		times, _ = strconv.Atoi(args[1])
	}
	// A witness that uses the wallet's random strategy depends on the
	// arrangement drawn by rand.Shuffle: repeat it until a finding shows (at
	// most randomConfirmTries times).
	if len(args) < 2 {
		for _, r := range v.Replay.Requests {
			if r.Builtin == "random" {
				times = randomConfirmTries
			}
		}
	}
	stopAtFirst := times == randomConfirmTries
	fails := 0
	for n := 0; n < times && !(stopAtFirst && fails > 0); n++ {
		var out [][]finding
		matched := false
		for try := 0; try < maxAssignmentTries && !matched; try++ {
			out, matched = runFresh(0, v.Replay.State, v.Replay.Requests)
		}
		if !matched {
			ev.Fatal("could not reproduce the rebroadcast assignment")
		}
		for i, r := range v.Replay.Requests {
			fmt.Printf("run %d: %s on %s: %d finding(s)\n", n+1, r, specsString(v.Replay.State), len(out[i]))
			for _, f := range out[i] {
				fmt.Printf("  FAIL %s: %s\n", f.sig, f.msg)
				fails++
			}
		}
	}
	ev.Cleanup()
	if fails > 0 {
		fmt.Println("replay: violation reproduced")
		os.Exit(1)
	}
	fmt.Println("replay: no oracle failure")
	os.Exit(0)
}

// dustParts says into how many parts (key scope x minconf combinations) the
// requests of a state of the small-coin family are split.
func dustParts(specs []CoinSpec) int {
	for _, sp := range specs {
		if sp.Status == stUnconfirmed || sp.Status == stSpenderFirstUnconf || sp.Status == stRolledBack {
			return 4
		}
	}
	if len(specs) > 3 {
		return 2
	}
	return 1
}

// exploreDustState runs part (f) of the rule on one state of the built-in
// strategy family.
func (x *explorer) exploreDustState(specs []CoinSpec, part int) {
	w := buildWorld(0, specs)
	defer func() { w.close() }() // w may be replaced by a rebuilt copy
	nparts := dustParts(specs)
	if part == 0 {
		x.st.states++
		x.st.byStateSize[fmt.Sprintf("%d-coin(small-coin family)", len(specs))]++
	}
	smallType := -1
	for _, sp := range specs {
		if sp.Small && smallType < 0 {
			smallType = sp.Type
		}
	}
	// Where the wallet's store lists the first small coin among its unspent
	// outputs (measured, for the record only).
	ord := w.storeOrder()
	if part != 0 {
		ord = nil
	}
	for i, op := range ord {
		if cn := w.prev[op]; cn != nil && cn.Small {
			pos := "middle"
			switch {
			case i == 0:
				pos = "first"
			case i == len(ord)-1:
				pos = "last"
			}
			x.st.smallCoinStorePos[pos]++
			break
		}
	}
	minconfs := []int32{1}
	for _, cn := range w.coins {
		if cn.height < 0 {
			minconfs = []int32{0, 1}
		}
	}
	combo := 0
	for _, sc := range []int{-1, smallType} {
		for _, mc := range minconfs {
			combo++
			if (combo-1)%nparts != part {
				continue
			}
			for acct := uint32(0); acct <= 1; acct++ {
				nE := 0
				var smallElig []*coin
				for _, cn := range w.coins {
					if w.reason(cn, sc, acct, mc) == "" {
						nE++
						if cn.Small {
							smallElig = append(smallElig, cn)
						}
					}
				}
				for _, fr := range feeRatesFamily {
					amounts := []string{"small", "two", "all"}
					if nE == 0 {
						amounts = []string{"small"}
					}
					for _, am := range amounts {
						for _, e := range []string{"CreateSimpleTx", "FundPsbt", "SendOutputs"} {
							r := Request{Entry: e, Scope: sc, Account: acct, MinConf: mc, FeeRate: fr, Amount: am}
							x.do(w, &r)
							reps := randomReps
							if nE < 2 {
								reps = 2
							}
							for rep := 1; rep <= reps; rep++ {
								rr := r
								rr.Builtin, rr.Rep = "random", rep
								x.do(w, &rr)
								for _, cn := range smallElig {
									if yieldsPositively(cn, fr) {
										x.st.smallYield[fmt.Sprintf("fee%d:eligible-small-coin-yields-positively", fr)]++
									} else {
										x.st.smallYield[fmt.Sprintf("fee%d:eligible-small-coin-yields-negatively", fr)]++
									}
								}
							}
						}
					}
				}
			}
		}
	}
}
