// Package c06 checks property C06: created transactions spend only eligible
// own coins, once, with valid signatures. It enumerates wallet states x
// requests exhaustively inside stated bounds on the REAL wallet (driven through
// wsim) and compares every result with an eligibility oracle computed from the
// harness' own record of how each state was built.
package c06

import (
	"encoding/json"
	"fmt"
	"os"
	"runtime/pprof"
	"sort"
	"strconv"
	"strings"

	"verif/harness/ev"
)

// ShardArgsPrefix is prepended to the arguments of the worker processes (the
// integration binary sets it to its subcommand name).
var ShardArgsPrefix []string

type stats struct {
	states, requests, failed, skipped, explicit, explicitRefused int
	inputsChecked, sigsVerified, nontrivial, sequences           int
	finalizeFailed, confirmations                                int
	byEntry, byEntryOK, byStatus, byReason, sigByType            map[string]int
	failKinds, msByEntry                                         map[string]int
	nsByEntry                                                    map[string]int64
	byStateSize                                                  map[string]int
	samples                                                      []string
}

func newStats() *stats {
	return &stats{byEntry: map[string]int{}, byEntryOK: map[string]int{}, byStatus: map[string]int{},
		byReason: map[string]int{}, sigByType: map[string]int{}, failKinds: map[string]int{},
		byStateSize: map[string]int{}, msByEntry: map[string]int{}, nsByEntry: map[string]int64{}}
}

// bounds describes what a tier enumerates.
type bounds struct {
	singles  []CoinSpec   // 1-coin states
	pairs    [][]CoinSpec // 2-coin states
	triples  [][]CoinSpec // 3-coin states
	feeExtra []int64      // additional fee rates for the CreateSimpleTx coin-selection slice
	desc     string
}

func allSpecs(accounts []uint32) []CoinSpec {
	var out []CoinSpec
	for st := 0; st < numStatus; st++ {
		for _, a := range accounts {
			for t := 0; t < 4; t++ {
				out = append(out, CoinSpec{Type: t, Account: a, Status: st})
			}
		}
	}
	return out
}

// reduced is the reduced coin set R used for the second (and third) coin.
var reduced = []CoinSpec{
	{Type: 2, Account: 0, Status: stDeep},
	{Type: 3, Account: 1, Status: stConf1},
	{Type: 0, Account: 0, Status: stUnconfirmed},
	{Type: 1, Account: 1, Status: stDeep},
	{Type: 3, Account: 0, Status: stLocked},
	{Type: 2, Account: 1, Status: stSpentUnconfirmed},
}

func makeBounds(thorough bool) *bounds {
	b := &bounds{}
	all := allSpecs([]uint32{0, 1})
	acct0 := allSpecs([]uint32{0})
	b.singles = all
	var rs []string
	for _, r := range reduced {
		rs = append(rs, r.String())
	}
	R := "R={" + strings.Join(rs, ", ") + "}"
	if thorough {
		for i := range all {
			for j := i; j < len(all); j++ {
				if all[i].Account == 0 || all[j].Account == 0 {
					b.pairs = append(b.pairs, []CoinSpec{all[i], all[j]})
				}
			}
		}
		fixed := [][2]int{{0, 1}, {2, 4}, {3, 5}}
		var fs []string
		for _, a := range acct0 {
			for _, f := range fixed {
				b.triples = append(b.triples, []CoinSpec{a, reduced[f[0]], reduced[f[1]]})
			}
		}
		for _, f := range fixed {
			fs = append(fs, "("+reduced[f[0]].String()+", "+reduced[f[1]].String()+")")
		}
		b.feeExtra = []int64{3000}
		b.desc = "states: every 1-coin state (4 address types x 2 accounts x 11 statuses = 88), every unordered pair of those 88 coins with at least one coin on account 0 (2926; pairs with both coins on account 1 mirror the account-0 pairs), and 3-coin states {a,b,c} with a over the 44 account-0 coins and (b,c) over " + strings.Join(fs, ", ") + " (132); additional fee rate 3000 sat/kvB for signed CreateSimpleTx coin selection"
	} else {
		for _, a := range acct0 {
			for _, r := range reduced {
				b.pairs = append(b.pairs, []CoinSpec{a, r})
			}
		}
		b.desc = "states: every 1-coin state (4 address types x 2 accounts x 11 statuses = 88) and 2-coin states {a,b} with a over the 44 account-0 coins (4 types x 11 statuses) and b over " + R + " (264)"
	}
	return b
}

const requestRule = "coin i of a state receives (i+1)*1000000+100000 sat; statuses: unconfirmed, 1 conf, 3 confs, coinbase with maturity-1 confs, coinbase with exactly maturity confs, spent by an unconfirmed / by a confirmed foreign tx (receipt 3 confs), confirmed then disconnected, LockOutpoint, LeaseOutput 24h, LeaseOutput with expiry in the past (3 confs each). " +
	"requests per state: key scope in {nil, every scope of a coin of the state, one scope without coins} x account {0,1} x minconf ({0,1,2,6} if a coin has <=1 confirmations else {1,6}) x fee 1000 sat/kvB, and for each of these: " +
	"(a) coin selection through CreateSimpleTx (signed), FundPsbt without inputs and SendOutputs (accepted broadcast) x amount {10000 sat, sum(eligible)-2000; CreateSimpleTx/Largest also sum(eligible) minus the first fee guess of txauthor for each change script size, where the input source is asked twice} x strategy {CoinSelectionLargest, a harness strategy for every preference order of the state's coins}, plus CreateSimpleTx dry-run with CoinSelectionLargest (only 10000 sat / Largest when the oracle's eligible set is empty: then every success is a violation whatever the strategy); " +
	"(b) explicit selection of every non-empty subset of the state's coins through CreateSimpleTx(WithCustomSelectUtxos) (signed and dry-run), SendOutputsWithInput and FundPsbt with pre-set inputs x amount {10000, sum(selected)-2000} (10000 only when a selected coin is ineligible: the call must fail anyway); " +
	"(c) the duplicated selection [c,c] of every eligible coin c through CreateSimpleTx, SendOutputsWithInput, FundPsbt; " +
	"(d) for minconf<=1 and a non-empty eligible set: every ordering of {10000, 10000, sum(eligible)-2000} as three successive SendOutputs with accepted broadcasts (Quiesce after each) x strategy {CoinSelectionLargest, smallest-coin-first order}; the change outputs of earlier sends join the oracle's coin set. " +
	"(e) for key scope nil, each account with a non-empty eligible set and the smallest minconf of the state: SendOutputs(10000, Largest), then a resynchronisation whose rebroadcast answers range over {accept, chain.ErrTxAlreadyInMempool}^n (n = number of transactions still unconfirmed: the state's unconfirmed receipts/spenders and the first send), then a second SendOutputs; 1-coin states: resynchronisation by Wallet.Rescan and by restart (stop, open, attach, unlock, LockOutpoint re-applied), second amount {10000, sum(eligible)-2000}; larger states: Wallet.Rescan and 10000 only. " +
	"States holding a coinbase coin additionally use minconf = confs and confs+1 of every coinbase coin and of the deepest non-coinbase coin. " +
	"oracle: eligible iff credited to the requested account (and scope unless nil), unspent by any known tx, not locked, no active lease, confs>=minconf, coinbase confs>=maturity, all from the harness' record of the state; every input of every success must be eligible and distinct, explicit selections containing an ineligible coin must fail, inputs of explicit requests are selected ones, later sends never reuse inputs of earlier published, still unconfirmed ones (also across a resynchronisation), every input of a signed result passes txscript.Engine with StandardVerifyFlags, payable requests fail only for lack of funds. " +
	"A published send is undone with TxStore.RemoveUnminedTx and the store compared with the base snapshot; the first witness of every signature is re-executed on a freshly built state before it is reported. " +
	"non-trivial = requests for which the state holds (coin selection) or the selection contains (explicit) at least one coin that is ineligible for the request"

type replayObj struct {
	State    []CoinSpec `json:"state"`
	Requests []*Request `json:"requests"`
	Text     string     `json:"text"`
}

type explorer struct {
	run       *ev.Run
	st        *stats
	b         *bounds
	confirmed map[string]bool
}

// Run is the entry point: args[0] = quick | thorough | replay.
func Run(args []string) {
	if len(args) > 0 && args[0] == "replay" {
		replay(args[1:])
		return
	}
	run := ev.NewRun("C06", "model_checking", args)
	b := makeBounds(run.Thorough())
	if !ev.IsWorker() && os.Getenv("C06_INPROC") == "" {
		cov := run.RunSharded(16, append(append([]string{}, ShardArgsPrefix...), args...))
		cov["rule"] = requestRule
		cov["bounds"] = b.desc
		if _, ok := cov["samples"]; !ok {
			cov["samples"] = []string{"(none)"}
		}
		run.Assumption = []string{
			"the fake chain backend accepts every broadcast; chain transactions delivered to the wallet carry no valid signatures (the wallet does not validate them)",
			"the change output of a published send is credited to the requested account and the scope of its script (used only to extend the oracle inside send sequences)",
			"FundPsbt results are unsigned by design: only their input selection is checked; packets whose inputs are all eligible witness outputs are additionally passed to FinalizePsbt and the extracted transaction verified when that succeeds",
		}
		run.Finish(cov)
		return
	}
	if pf := os.Getenv("C06_PROF"); pf != "" { // development aid
		f, _ := os.Create(pf)
		pprof.StartCPUProfile(f)
		defer pprof.StopCPUProfile()
	}
	x := &explorer{run: run, st: newStats(), b: b, confirmed: map[string]bool{}}
	var states [][]CoinSpec
	for _, s := range b.singles {
		states = append(states, []CoinSpec{s})
	}
	states = append(states, b.pairs...)
	states = append(states, b.triples...)
	if sz := os.Getenv("C06_SIZES"); sz != "" { // development aid: only states of these sizes
		var f [][]CoinSpec
		for _, s := range states {
			if strings.Contains(sz, strconv.Itoa(len(s))) {
				f = append(f, s)
			}
		}
		states = f
	}
	complete := true
	limit := -1
	if s := os.Getenv("C06_MAX_STATES"); s != "" {
		limit, _ = strconv.Atoi(s)
	}
	for k, sp := range states {
		if !ev.Mine(k) {
			continue
		}
		if run.Expired() || (limit >= 0 && x.st.states >= limit) {
			complete = false
			break
		}
		x.exploreState(sp)
	}
	st := x.st
	for k, v := range st.nsByEntry {
		st.msByEntry[k] = int(v / 1e6)
	}
	pprof.StopCPUProfile()
	run.Finish(ev.Coverage{
		"states":                        st.states,
		"state_builds":                  builds,
		"state_rebuilds_after_resync":   rebuilds,
		"resynchronisations":            resyncs,
		"transitions":                   st.requests,
		"traces_validated_against_impl": st.requests,
		"evaluations":                   st.inputsChecked + st.sigsVerified,
		"inputs_checked":                st.inputsChecked,
		"signatures_verified":           st.sigsVerified,
		"distinct_nontrivial":           st.nontrivial,
		"requests_failed":               st.failed,
		"requests_skipped_no_amount":    st.skipped,
		"explicit_requests":             st.explicit,
		"explicit_ineligible_refused":   st.explicitRefused,
		"send_sequences":                st.sequences,
		"finalize_psbt_failed":          st.finalizeFailed,
		"witness_confirmations":         st.confirmations,
		"requests_per_entry_point":      st.byEntry,
		"successes_per_entry_point":     st.byEntryOK,
		"requests_per_coin_status":      st.byStatus,
		"ineligibility_reasons":         st.byReason,
		"signatures_per_address_type":   st.sigByType,
		"failure_kinds":                 st.failKinds,
		"wall_ms_per_entry_point":       st.msByEntry,
		"states_per_size":               st.byStateSize,
		"samples":                       st.samples,
		"exhaustive":                    complete,
	})
}

func permutations(k int) [][]int {
	var out [][]int
	var rec func(cur []int, used []bool)
	rec = func(cur []int, used []bool) {
		if len(cur) == k {
			out = append(out, append([]int{}, cur...))
			return
		}
		for i := 0; i < k; i++ {
			if !used[i] {
				used[i] = true
				rec(append(cur, i), used)
				used[i] = false
			}
		}
	}
	rec(nil, make([]bool, k))
	return out
}

func subsets(k int) [][]int {
	var out [][]int
	for size := 1; size <= k; size++ {
		for m := 1; m < 1<<k; m++ {
			var s []int
			for i := 0; i < k; i++ {
				if m&(1<<i) != 0 {
					s = append(s, i)
				}
			}
			if len(s) == size {
				out = append(out, s)
			}
		}
	}
	return out
}

// do executes a request (or a sequence of sends) and reports what the oracle
// found.
func (x *explorer) do(w *world, seq ...*Request) {
	keep := len(seq) > 1
	for i, r := range seq {
		rc := *r
		fs := w.exec(&rc, keep, x.st)
		if rc.got != nil {
			r.Realized = rc.got
		}
		for _, f := range fs {
			x.report(w, seq[:i+1], f)
		}
	}
	if keep {
		x.st.sequences++
		w.undo()
	}
}

func cloneReqs(seq []*Request) []*Request {
	var out []*Request
	for _, r := range seq {
		c := *r
		out = append(out, &c)
	}
	return out
}

func (x *explorer) report(w *world, seq []*Request, f finding) {
	reqs := cloneReqs(seq)
	if !x.confirmed[f.sig] {
		// Re-execute on a freshly built state: a witness must not depend
		// on the requests executed (and undone) before it.
		if !confirmFresh(1, w.specs, reqs, f.sig) {
			ev.Fatal("finding %q (%s) did not reproduce on a fresh state %s, requests %v", f.sig, f.msg, specsString(w.specs), reqs)
		}
		x.st.confirmations++
		x.confirmed[f.sig] = true
	}
	var txt []string
	for _, r := range reqs {
		txt = append(txt, r.String())
	}
	x.run.Violation(f.sig, f.msg, replayObj{State: w.specs, Requests: reqs,
		Text: specsString(w.specs) + " : " + strings.Join(txt, " ; ")})
}

// runFresh builds the state anew and runs the requests (published sends stay
// published). matched is false when a resynchronisation handed its answers to
// the unconfirmed transactions in another assignment than the recorded one.
func runFresh(simID int, specs []CoinSpec, reqs []*Request) (out [][]finding, matched bool) {
	w := buildWorld(simID, specs)
	defer w.close()
	for _, r := range reqs {
		rc := *r
		fs := w.exec(&rc, true, nil)
		if r.Realized != nil && !sameAssignment(r.Realized, rc.got) {
			return nil, false
		}
		out = append(out, fs)
	}
	return out, true
}

func sameAssignment(a, b map[string]string) bool {
	if len(a) != len(b) {
		return false
	}
	for k, v := range a {
		if b[k] != v {
			return false
		}
	}
	return true
}

// maxAssignmentTries bounds the repetitions needed until the wallet's
// rebroadcast order yields the recorded assignment of answers (at most 4
// unconfirmed transactions: every try matches with probability >= 1/24).
const maxAssignmentTries = 400

// confirmFresh reports whether the signature shows up when the requests are
// executed on a freshly built state.
func confirmFresh(simID int, specs []CoinSpec, reqs []*Request, sig string) bool {
	for try := 0; try < maxAssignmentTries; try++ {
		out, matched := runFresh(simID, specs, reqs)
		if !matched {
			continue
		}
		for _, fs := range out {
			for _, f := range fs {
				if f.sig == sig {
					return true
				}
			}
		}
		return false
	}
	ev.Fatal("could not reproduce the rebroadcast assignment of %v in %d tries", reqs, maxAssignmentTries)
	return false
}

func (x *explorer) exploreState(specs []CoinSpec) {
	w := buildWorld(0, specs)
	defer w.close()
	x.st.states++
	x.st.byStateSize[fmt.Sprintf("%d-coin", len(specs))]++
	k := len(specs)

	scopeSet := []int{-1}
	used := map[int]bool{}
	for _, sp := range specs {
		if !used[sp.Type] {
			used[sp.Type] = true
			scopeSet = append(scopeSet, sp.Type)
		}
	}
	for t := 0; t < 4; t++ {
		if !used[t] {
			scopeSet = append(scopeSet, t)
			break
		}
	}
	young := false
	for _, cn := range w.coins {
		if cn.height < 0 || w.tip-cn.height+1 <= 1 {
			young = true
		}
	}
	minconfs := []int32{1, 6}
	if young {
		minconfs = []int32{0, 1, 2, 6}
	}
	// States with a coinbase coin: the boundary values confs and confs+1 of
	// every coinbase coin and of the deepest other coin.
	addMC := func(v int32) {
		for _, m := range minconfs {
			if m == v {
				return
			}
		}
		minconfs = append(minconfs, v)
	}
	hasCB, deepest := false, int32(-1)
	for _, cn := range w.coins {
		confs := int32(0)
		if cn.height >= 0 {
			confs = w.tip - cn.height + 1
		}
		if cn.coinbase {
			hasCB = true
		} else if confs > deepest {
			deepest = confs
		}
	}
	if hasCB {
		for _, cn := range w.coins {
			if cn.coinbase {
				confs := w.tip - cn.height + 1
				addMC(confs)
				addMC(confs + 1)
			}
		}
		if deepest >= 0 {
			addMC(deepest)
			addMC(deepest + 1)
		}
	}
	sort.Slice(minconfs, func(i, j int) bool { return minconfs[i] < minconfs[j] })
	var perms [][]int
	if k >= 2 {
		perms = permutations(k)
	}
	subs := subsets(k)

	for _, sc := range scopeSet {
		for acct := uint32(0); acct <= 1; acct++ {
			for _, mc := range minconfs {
				elig := make([]bool, k)
				nE := 0
				for i, cn := range w.coins[:k] {
					if w.reason(cn, sc, acct, mc) == "" {
						elig[i] = true
						nE++
					}
				}
				base := Request{Scope: sc, Account: acct, MinConf: mc, FeeRate: 1000, Amount: "small"}
				amounts := []string{"small"}
				strategies := [][]int{nil}
				if nE > 0 {
					amounts = append(amounts, "most")
					strategies = append(strategies, perms...)
				}
				// (a) coin selection
				for _, am := range amounts {
					for _, stg := range strategies {
						r := base
						r.Amount, r.Strategy = am, stg
						r.Entry = "CreateSimpleTx"
						x.do(w, &r)
						for _, fr := range x.b.feeExtra {
							rf := r
							rf.FeeRate = fr
							x.do(w, &rf)
						}
						if stg == nil {
							rd := r
							rd.DryRun = true
							x.do(w, &rd)
						}
						if stg == nil && am == "most" {
							// the whole eligible value minus the author's FIRST fee guess (one
							// P2TR input; per change script size): the first fetch just fits,
							// the real fee does not, the input source is asked a second time
							for _, e := range []string{"edge22", "edge23", "edge25", "edge34"} {
								for _, fr := range append([]int64{1000}, x.b.feeExtra...) {
									re := r
									re.Amount, re.FeeRate = e, fr
									x.do(w, &re)
								}
							}
						}
						r.Entry = "FundPsbt"
						x.do(w, &r)
						r.Entry = "SendOutputs"
						x.do(w, &r)
					}
				}
				// (b) explicit selection
				for _, sel := range subs {
					bad := false
					for _, i := range sel {
						if !elig[i] {
							bad = true
						}
					}
					ams := []string{"small"}
					if !bad {
						ams = append(ams, "most")
					}
					for _, am := range ams {
						r := base
						r.Amount, r.Select = am, sel
						r.Entry = "CreateSimpleTx"
						x.do(w, &r)
						rd := r
						rd.DryRun = true
						x.do(w, &rd)
						r.Entry = "SendOutputsWithInput"
						x.do(w, &r)
						r.Entry = "FundPsbtInputs"
						x.do(w, &r)
					}
				}
				// (c) duplicated selection of an eligible coin
				for i := 0; i < k; i++ {
					if !elig[i] {
						continue
					}
					r := base
					r.Select = []int{i, i}
					for _, e := range []string{"CreateSimpleTx", "SendOutputsWithInput", "FundPsbtInputs"} {
						r.Entry = e
						x.do(w, &r)
					}
				}
				// (e) a resynchronisation between two sends
				if sc == -1 && mc == minconfs[0] && nE > 0 {
					n := w.baseUnmined + 1
					kinds, seconds := []string{"rescan"}, []string{"small"}
					if k == 1 {
						kinds, seconds = []string{"rescan", "restart"}, []string{"small", "most"}
					}
					for _, kind := range kinds {
						for _, second := range seconds {
							for m := 0; m < 1<<n; m++ {
								ans := make([]string, n)
								for i := range ans {
									ans[i] = "accept"
									if m&(1<<i) != 0 {
										ans[i] = "mempool"
									}
								}
								r1 := base
								r1.Entry = "SendOutputs"
								r2 := r1
								r2.Amount, r2.Resync, r2.ResyncKind = second, ans, kind
								x.do(w, &r1, &r2)
							}
						}
					}
				}
				// (d) sequences of successive sends
				if nE > 0 && mc <= 1 {
					seqStrategies := [][]int{nil}
					if k >= 2 {
						seqStrategies = append(seqStrategies, perms[0]) // smallest coin first
					}
					for _, stg := range seqStrategies {
						for _, ord := range [][]string{{"small", "small", "most"}, {"small", "most", "small"}, {"most", "small", "small"}} {
							var seq []*Request
							for _, am := range ord {
								r := base
								r.Entry, r.Amount, r.Strategy = "SendOutputs", am, stg
								seq = append(seq, &r)
							}
							x.do(w, seq...)
						}
					}
				}
			}
		}
	}
}

// replay re-executes a recorded witness on fresh states:
// replay <file-or-json> [times].
func replay(args []string) {
	if len(args) == 0 {
		ev.Fatal("usage: replay <replay.json | json> [times]")
	}
	raw := []byte(args[0])
	if b, err := os.ReadFile(args[0]); err == nil {
		raw = b
	}
	var v struct {
		Sig    string    `json:"signature"`
		Replay replayObj `json:"replay"`
	}
	if err := json.Unmarshal(raw, &v); err != nil {
		ev.Fatal("replay: %v", err)
	}
	if v.Replay.State == nil {
		if err := json.Unmarshal(raw, &v.Replay); err != nil {
			ev.Fatal("replay: %v", err)
		}
	}
	times := 1
	if len(args) > 1 {
		times, _ = strconv.Atoi(args[1])
	}
	fails := 0
	for n := 0; n < times; n++ {
		var out [][]finding
		matched := false
		for try := 0; try < maxAssignmentTries && !matched; try++ {
			out, matched = runFresh(0, v.Replay.State, v.Replay.Requests)
		}
		if !matched {
			ev.Fatal("could not reproduce the rebroadcast assignment")
		}
		for i, r := range v.Replay.Requests {
			fmt.Printf("run %d: %s on %s: %d finding(s)\n", n+1, r, specsString(v.Replay.State), len(out[i]))
			for _, f := range out[i] {
				fmt.Printf("  FAIL %s: %s\n", f.sig, f.msg)
				fails++
			}
		}
	}
	ev.Cleanup()
	if fails > 0 {
		fmt.Println("replay: violation reproduced")
		os.Exit(1)
	}
	fmt.Println("replay: no oracle failure")
	os.Exit(0)
}
