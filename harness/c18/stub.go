//go:build !c18ov

// Package c18 checks property C18 (ConcurrentQueue delivers in order, nothing
// lost or duplicated, producer never blocked, Stop terminates the worker) by
// model checking the rewritten chain/queue.go under the vsched scheduler.
// This file is the build without the overlay: use /verif/harness/c18/run.sh.
package c18

import "verif/harness/ev"

// Run needs the generated package verif/harness/c18/queue (build tag c18ov
// plus the overlay written by c18/ovgen).
func Run(args []string) {
	ev.Fatal("built without the c18 overlay (run /verif/harness/c18/run.sh <tier>)")
}
