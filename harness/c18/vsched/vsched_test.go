package vsched

import (
	"fmt"
	"sort"
	"strings"
	"testing"
)

// th is a minimal harness: the program writes its observations into obs.
type th struct {
	s   *Sched
	obs []string
}

func (h *th) State() string    { return strings.Join(h.obs, ",") }
func (h *th) Nontrivial() bool { return false }
func (h *th) Observe()         {}
func (h *th) Quiescent() bool  { return false }
func (h *th) Panicked(t *Thread) {
	h.obs = append(h.obs, "panic("+t.Name+":"+t.PanicVal+")")
}
func (h *th) Failed() bool { return false }
func (h *th) Terminal() string {
	o := append([]string{}, h.obs...)
	sort.Strings(o)
	return strings.Join(o, ",") + " | " + h.s.Describe()
}
func (h *th) EndOfExecution([]string, bool) {}

func outcomes(t *testing.T, prog func(h *th)) []string {
	HarnessError = func(m string) { t.Fatalf("harness error: %s", m) }
	r := Explore(Config{Setup: func(s *Sched) Harness {
		h := &th{s: s}
		prog(h)
		return h
	}})
	var out []string
	for k := range r.Terminals {
		out = append(out, k)
	}
	sort.Strings(out)
	return out
}

func expect(t *testing.T, got []string, want ...string) {
	sort.Strings(want)
	if strings.Join(got, "\n") != strings.Join(want, "\n") {
		t.Fatalf("outcomes:\n%s\nwant:\n%s", strings.Join(got, "\n"), strings.Join(want, "\n"))
	}
}

// default is taken unless the receiver is already parked.
func TestDefaultNeedsParkedCounterpart(t *testing.T) {
	got := outcomes(t, func(h *th) {
		c := Make(0)
		GoNamed("A", func() {
			i, _, _ := Select("A.sel", SendCase(c, 1), DefaultCase())
			h.obs = append(h.obs, fmt.Sprintf("A%d", i))
		})
		GoNamed("B", func() {
			v, ok := RecvAt("B.recv", c)
			h.obs = append(h.obs, fmt.Sprintf("B%v%v", v, ok))
		})
	})
	expect(t, got,
		"A0,B1true | A:finished B:finished",
		"A1 | A:finished B:blocked@B.recv")
}

// unbuffered send blocks until a receiver arrives; buffered keeps order.
func TestFifoAndBlocking(t *testing.T) {
	for _, capn := range []int{0, 1, 2} {
		got := outcomes(t, func(h *th) {
			c := Make(capn)
			GoNamed("P", func() {
				for i := 1; i <= 3; i++ {
					SendAt("P.send", c, i)
				}
			})
			GoNamed("C", func() {
				s := ""
				for i := 0; i < 3; i++ {
					v, _ := RecvAt("C.recv", c)
					s += fmt.Sprint(v)
				}
				h.obs = append(h.obs, s)
			})
		})
		expect(t, got, "123 | P:finished C:finished")
	}
	got := outcomes(t, func(h *th) {
		c := Make(1)
		GoNamed("P", func() {
			SendAt("P.send", c, 1)
			h.obs = append(h.obs, "sent1")
			SendAt("P.send", c, 2)
			h.obs = append(h.obs, "sent2")
		})
	})
	expect(t, got, "sent1 | P:blocked@P.send")
}

// both ready cases of a select are behaviours.
func TestSelectChoosesAnyReady(t *testing.T) {
	got := outcomes(t, func(h *th) {
		a, b := Make(1), Make(1)
		GoNamed("T", func() {
			SendAt("T.a", a, "x")
			SendAt("T.b", b, "y")
			i, v, _ := Select("T.sel", RecvCase(a), RecvCase(b), DefaultCase())
			h.obs = append(h.obs, fmt.Sprintf("%d%v", i, v))
		})
	})
	expect(t, got, "0x | T:finished", "1y | T:finished")
}

// close wakes parked receivers with (nil,false), later receives too; a send
// on a closed channel and a double close panic.
func TestClose(t *testing.T) {
	got := outcomes(t, func(h *th) {
		c := Make(0)
		GoNamed("R", func() {
			v, ok := RecvAt("R.recv", c)
			h.obs = append(h.obs, fmt.Sprintf("R%v%v", v, ok))
		})
		GoNamed("X", func() { CloseAt("X.close", c) })
	})
	expect(t, got, "R<nil>false | R:finished X:finished")
	got = outcomes(t, func(h *th) {
		c := Make(1)
		GoNamed("X", func() {
			CloseAt("X.close", c)
			SendAt("X.send", c, 1)
		})
	})
	expect(t, got, "panic(X:send on closed channel) | X:panicked(send on closed channel)")
	got = outcomes(t, func(h *th) {
		c := Make(0)
		GoNamed("S", func() { SendAt("S.send", c, 1); h.obs = append(h.obs, "sent") })
		GoNamed("X", func() { CloseAt("X.close", c) })
	})
	// S parks or not, then close: parked sender panics; send after close panics
	expect(t, got, "panic(S:send on closed channel) | S:panicked(send on closed channel) X:finished")
	got = outcomes(t, func(h *th) {
		c := Make(2)
		GoNamed("X", func() {
			SendAt("X.send", c, 7)
			CloseAt("X.close", c)
			v, ok := RecvAt("X.r1", c)
			w, ok2 := RecvAt("X.r2", c)
			h.obs = append(h.obs, fmt.Sprint(v, ok, w, ok2))
		})
	})
	expect(t, got, "7 true <nil> false | X:finished")
}

// a parked select is completed through exactly one of its offers; the other
// offer is cancelled (the second sender stays blocked).
func TestParkedSelectSingleCompletion(t *testing.T) {
	got := outcomes(t, func(h *th) {
		a, b := Make(0), Make(0)
		GoNamed("T", func() {
			i, v, _ := Select("T.sel", RecvCase(a), RecvCase(b))
			h.obs = append(h.obs, fmt.Sprintf("T%d%v", i, v))
		})
		GoNamed("A", func() { SendAt("A.send", a, "x") })
		GoNamed("B", func() { SendAt("B.send", b, "y") })
	})
	expect(t, got,
		"T0x | T:finished A:finished B:blocked@B.send",
		"T1y | T:finished A:blocked@A.send B:finished")
}

// a full buffered channel: the receiver takes the head and the parked
// sender's value moves into the buffer (order kept).
func TestParkedSenderOnFullBuffer(t *testing.T) {
	got := outcomes(t, func(h *th) {
		c := Make(1)
		GoNamed("P", func() {
			SendAt("P.s", c, 1)
			SendAt("P.s", c, 2)
			SendAt("P.s", c, 3)
		})
		GoNamed("C", func() {
			s := ""
			for i := 0; i < 3; i++ {
				v, _ := RecvAt("C.r", c)
				s += fmt.Sprint(v)
			}
			h.obs = append(h.obs, s)
		})
	})
	expect(t, got, "123 | P:finished C:finished")
}

// a program whose behaviour differs between executions is caught while
// replaying a prefix.
func TestNondeterminismIsReported(t *testing.T) {
	runs := 0
	caught := ""
	func() {
		defer func() {
			if r := recover(); r != nil {
				caught = fmt.Sprint(r)
			}
		}()
		HarnessError = func(m string) { panic(m) }
		Explore(Config{Setup: func(s *Sched) Harness {
			h := &th{s: s}
			runs++
			n := runs
			c := Make(1)
			GoNamed("A", func() {
				SendAt("A.s", c, 1)
				if n > 1 {
					SendAt("A.extra", c, 2)
				} else {
					RecvAt("A.r", c)
				}
			})
			GoNamed("B", func() { RecvAt("B.r", c); RecvAt("B.r2", c) })
			return h
		}})
	}()
	if !strings.Contains(caught, "nondeterminism") {
		t.Fatalf("nondeterministic program not reported (got %q)", caught)
	}
	if cur != nil {
		cur = nil
	}
}

// a nil channel case is never ready: the select takes the other case, and a
// select with only nil channels blocks for ever; default still works.
func TestNilChannels(t *testing.T) {
	got := outcomes(t, func(h *th) {
		var nilc *Chan
		c := Make(1)
		GoNamed("T", func() {
			SendAt("T.s", c, 5)
			i, v, _ := Select("T.sel", RecvCase(nilc), SendCase(nilc, 1), RecvCase(c))
			h.obs = append(h.obs, fmt.Sprintf("%d%v", i, v))
			j, _, _ := Select("T.sel2", RecvCase(nilc), DefaultCase())
			h.obs = append(h.obs, fmt.Sprintf("d%d", j))
			Select("T.sel3", RecvCase(nilc), SendCase(nilc, 1))
			h.obs = append(h.obs, "unreachable")
		})
	})
	expect(t, got, "25,d1 | T:blocked@T.sel3")
}

// Mutex: the critical sections never overlap, Lock blocks while held.
func TestMutex(t *testing.T) {
	got := outcomes(t, func(h *th) {
		var mu Mutex
		c := Make(0)
		in := 0
		body := func(name string) func() {
			return func() {
				mu.Lock()
				in++
				if in != 1 {
					h.obs = append(h.obs, "overlap")
				}
				Select(name+".yield", RecvCase(c), DefaultCase()) // a scheduling point inside the section
				in--
				mu.Unlock()
				h.obs = append(h.obs, name)
			}
		}
		GoNamed("A", body("A"))
		GoNamed("B", body("B"))
	})
	expect(t, got, "A,B | A:finished B:finished")
}
