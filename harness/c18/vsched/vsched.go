// Package vsched is a cooperative scheduler and a model of Go channels.
//
// Code rewritten by c18/ovgen performs every channel operation through this
// package. Threads are real goroutines gated by a baton: exactly one runs at a
// time, and every channel operation (send, receive, close, select) is a
// scheduling point at which the thread posts its pending operation and hands
// the baton back to the scheduler. All channel state lives in plain data owned
// by the scheduler, so the global state at a scheduling point is fully visible.
//
// Semantics follow the Go runtime:
//   - an operation that can complete when it is executed completes (buffer has
//     room / is non-empty, a counterpart is PARKED on the channel, the channel
//     is closed); a select with several such cases may take any of them (the
//     runtime picks uniformly at random, the explorer enumerates each);
//   - `default` is taken only when no other case can complete;
//   - otherwise the thread parks: one offer per case is queued (FIFO) on the
//     channels, and a later operation of another thread completes exactly one
//     offer (direct hand-off, unbuffered rendezvous), cancelling the others;
//   - send on / close of a closed channel and close of nil panic; close wakes
//     all parked receivers with (zero,false) and makes parked senders panic.
//
// A thread is runnable iff it is not parked and not finished. "No runnable
// thread" is quiescence; the harness decides whether that is a legal terminal
// state, a deadlock, or the start of the next phase.
package vsched

import (
	"fmt"
	"runtime"
	"strings"
	"sync"
	"sync/atomic"
)

// Kind of a select case / pending operation.
type Kind int

const (
	KRecv Kind = iota
	KSend
	KDefault
	KClose
)

// Case is one case of a select (or the single case of a plain operation).
type Case struct {
	Kind Kind
	C    *Chan
	V    interface{}
}

func RecvCase(c *Chan) Case                { return Case{Kind: KRecv, C: c} }
func SendCase(c *Chan, v interface{}) Case { return Case{Kind: KSend, C: c, V: v} }
func DefaultCase() Case                    { return Case{Kind: KDefault} }

type offer struct {
	t   *Thread
	idx int
	val interface{}
}

// Chan is the model of one channel.
type Chan struct {
	id     int
	cap    int
	buf    []interface{}
	closed bool
	recvq  []offer
	sendq  []offer
}

// String makes channel variables printable in thread-local snapshots.
func (c *Chan) String() string {
	if c == nil {
		return "nilchan"
	}
	return fmt.Sprintf("c%d", c.id)
}

// IsClosed reports whether close(c) has been executed.
func IsClosed(c *Chan) bool { return c != nil && c.closed }

// Mutex models sync.Mutex (and, conservatively, sync.RWMutex): Lock is a
// scheduling point that parks while the mutex is held.
type Mutex struct{ c *Chan }

func (m *Mutex) ch() *Chan {
	if m.c == nil {
		m.c = Make(1)
	}
	return m.c
}
func (m *Mutex) Lock()    { SendAt("mutex.Lock", m.ch(), "L") }
func (m *Mutex) RLock()   { m.Lock() }
func (m *Mutex) RUnlock() { m.Unlock() }
func (m *Mutex) Unlock() {
	c := m.ch()
	if len(c.buf) == 0 && cur != nil && !cur.dying {
		panic("sync: unlock of unlocked mutex")
	}
	RecvAt("mutex.Unlock", c)
}

// WaitGroup models the Add/Done half of sync.WaitGroup (nobody waits in the
// explored programs; Wait is not modelled).
type WaitGroup struct{ n, done int }

func (w *WaitGroup) Add(d int) { w.n += d }
func (w *WaitGroup) Done() {
	if cur != nil && cur.dying {
		return
	}
	w.n--
	w.done++
	if w.n < 0 {
		panic("sync: negative WaitGroup counter")
	}
}
func (w *WaitGroup) Wait()          { HarnessError("WaitGroup.Wait is not modelled") }
func (w *WaitGroup) DoneCount() int { return w.done }
func (w *WaitGroup) Counter() int   { return w.n }

// SetLocals registers a snapshot function for the locals of the running
// thread that live across scheduling points; it becomes part of the canonical
// state. The function is only called while the thread is not running.
func SetLocals(f func() string) {
	s := current()
	if s.running == nil {
		HarnessError("SetLocals outside a controlled thread")
	}
	s.running.locals = f
}

// Thread states.
const (
	stNew = iota
	stRunning
	stRunnable // posted a pending operation, not yet executed
	stParked   // executed a blocking operation, offers queued
	stDone
)

type resumeMsg struct {
	kill     bool
	idx      int
	val      interface{}
	ok       bool
	panicMsg string
}

// Thread is one controlled goroutine.
type Thread struct {
	ID     int
	Name   string
	status int
	site   string
	cases  []Case
	defIdx int
	resume chan resumeMsg
	killed bool
	// set when the thread body panicked
	PanicVal  string
	PanicSite string
	woke      resumeMsg
	locals    func() string
}

func (t *Thread) Done() bool     { return t.status == stDone }
func (t *Thread) Parked() bool   { return t.status == stParked }
func (t *Thread) Panicked() bool { return t.PanicVal != "" }

// Site is the site of the operation the thread is at (pending or parked).
func (t *Thread) Site() string { return t.site }

// Sched is the state of one execution.
type Sched struct {
	threads  []*Thread
	chans    []*Chan
	newborn  []*Thread
	running  *Thread
	yield    chan struct{}
	wg       sync.WaitGroup
	nextName string
	panicked *Thread
	dying    bool // the execution is being torn down
}

// cur is the scheduler of the execution in progress (one per process).
var cur *Sched

// Progress counts baton hand-overs; a watchdog can poll it.
var Progress uint64

// HarnessError is called for conditions that are bugs of the harness or
// behaviour the model does not cover; it must not return.
var HarnessError = func(msg string) { panic("vsched: " + msg) }

func current() *Sched {
	if cur == nil {
		HarnessError("channel operation outside a controlled execution")
	}
	return cur
}

// Make models make(chan T, n).
func Make(n int) *Chan {
	s := current()
	if n < 0 {
		panic("makechan: size out of range")
	}
	c := &Chan{id: len(s.chans), cap: n}
	s.chans = append(s.chans, c)
	return c
}

// Len and Cap model len(c) and cap(c).
func Len(c *Chan) int {
	if c == nil {
		return 0
	}
	return len(c.buf)
}
func Cap(c *Chan) int {
	if c == nil {
		return 0
	}
	return c.cap
}

// NameNext names the next thread created by Go.
func (s *Sched) NameNext(name string) { s.nextName = name }

// Go models the go statement.
func Go(f func()) {
	s := current()
	name := s.nextName
	s.nextName = ""
	if name == "" {
		name = fmt.Sprintf("go%d", len(s.threads))
	}
	s.spawn(name, f)
}

// GoNamed starts a named harness thread.
func GoNamed(name string, f func()) *Thread { return current().spawn(name, f) }

func (s *Sched) spawn(name string, f func()) *Thread {
	t := &Thread{ID: len(s.threads), Name: name, resume: make(chan resumeMsg), defIdx: -1, site: "start"}
	s.threads = append(s.threads, t)
	s.newborn = append(s.newborn, t)
	s.wg.Add(1)
	go func() {
		defer s.wg.Done()
		m := <-t.resume
		if m.kill {
			return
		}
		defer func() {
			if t.killed {
				return
			}
			if r := recover(); r != nil {
				t.PanicVal = fmt.Sprint(r)
				t.PanicSite = t.site
				if s.panicked == nil {
					s.panicked = t
				}
			}
			t.status = stDone
			t.cases = nil
			t.site = "end"
			s.yield <- struct{}{}
		}()
		f()
	}()
	return t
}

// op posts the pending operation of the running thread and waits for its
// completion.
func op(site string, cases []Case) resumeMsg {
	s := current()
	if s.dying {
		// deferred calls of a thread being torn down: nothing is modelled
		return resumeMsg{}
	}
	t := s.running
	if t == nil {
		HarnessError("channel operation at " + site + " outside a controlled thread")
	}
	t.site, t.cases, t.defIdx = site, cases, -1
	for i, c := range cases {
		if c.Kind == KDefault {
			t.defIdx = i
		}
	}
	t.status = stRunnable
	s.yield <- struct{}{}
	m := <-t.resume
	if m.kill {
		t.killed = true
		runtime.Goexit()
	}
	if m.panicMsg != "" {
		panic(m.panicMsg)
	}
	return m
}

// Select models a select statement; it returns the index of the chosen case
// and, for a receive, the value and the ok flag.
func Select(site string, cases ...Case) (int, interface{}, bool) {
	m := op(site, cases)
	return m.idx, m.val, m.ok
}

func SendAt(site string, c *Chan, v interface{}) { op(site, []Case{SendCase(c, v)}) }
func RecvAt(site string, c *Chan) (interface{}, bool) {
	m := op(site, []Case{RecvCase(c)})
	return m.val, m.ok
}
func RecvValAt(site string, c *Chan) interface{} {
	m := op(site, []Case{RecvCase(c)})
	return m.val
}
func CloseAt(site string, c *Chan) { op(site, []Case{{Kind: KClose, C: c}}) }

func Send(c *Chan, v interface{})      { SendAt("send", c, v) }
func Recv(c *Chan) (interface{}, bool) { return RecvAt("recv", c) }
func Close(c *Chan)                    { CloseAt("close", c) }
func (s *Sched) Threads() []*Thread    { return s.threads }
func (s *Sched) FirstPanic() *Thread   { return s.panicked }
func (s *Sched) Thread(name string) *Thread {
	for _, t := range s.threads {
		if t.Name == name {
			return t
		}
	}
	return nil
}

// ---------------------------------------------------------------- scheduler

func (s *Sched) runTo(t *Thread, m resumeMsg) {
	atomic.AddUint64(&Progress, 1)
	s.running = t
	t.status = stRunning
	t.resume <- m
	<-s.yield
	s.running = nil
}

// startNewborns runs every newly created thread up to its first channel
// operation (code before it is thread-local).
func (s *Sched) startNewborns() {
	for len(s.newborn) > 0 {
		t := s.newborn[0]
		s.newborn = s.newborn[1:]
		s.runTo(t, resumeMsg{})
	}
}

func caseReady(c Case) bool {
	if c.C == nil {
		return false // nil channel: never ready (close(nil) handled in apply)
	}
	switch c.Kind {
	case KSend:
		return c.C.closed || len(c.C.recvq) > 0 || len(c.C.buf) < c.C.cap
	case KRecv:
		return len(c.C.buf) > 0 || len(c.C.sendq) > 0 || c.C.closed
	}
	return false
}

// Choice is one scheduling decision: thread t executes case idx of its pending
// operation (idx -1: it parks because nothing can complete).
type Choice struct {
	T   *Thread
	Idx int
}

func (c Choice) String() string {
	switch {
	case c.Idx < 0:
		return fmt.Sprintf("%s@%s:park", c.T.Name, c.T.site)
	default:
		k := c.T.cases[c.Idx]
		switch k.Kind {
		case KDefault:
			return fmt.Sprintf("%s@%s:default", c.T.Name, c.T.site)
		case KClose:
			return fmt.Sprintf("%s@%s:close(c%d)", c.T.Name, c.T.site, chanID(k.C))
		case KSend:
			return fmt.Sprintf("%s@%s:case%d send c%d<-%v", c.T.Name, c.T.site, c.Idx, chanID(k.C), k.V)
		default:
			return fmt.Sprintf("%s@%s:case%d recv<-c%d", c.T.Name, c.T.site, c.Idx, chanID(k.C))
		}
	}
}

func chanID(c *Chan) int {
	if c == nil {
		return -1
	}
	return c.id
}

// choices lists every enabled scheduling decision, in thread then case order.
// multi is the number of threads whose select has more than one ready case.
func (s *Sched) choices() (out []Choice, multi int) {
	for _, t := range s.threads {
		if t.status != stRunnable {
			continue
		}
		n := 0
		for i, c := range t.cases {
			if c.Kind == KClose || caseReady(c) {
				out = append(out, Choice{t, i})
				n++
			}
		}
		if n > 1 {
			multi++
		}
		if n == 0 {
			if t.defIdx >= 0 {
				out = append(out, Choice{t, t.defIdx})
			} else {
				out = append(out, Choice{t, -1})
			}
		}
	}
	return
}

// cancel removes the remaining offers of a parked thread.
func (s *Sched) cancel(t *Thread) {
	for _, c := range t.cases {
		if c.C == nil {
			continue
		}
		c.C.recvq = dropOffers(c.C.recvq, t)
		c.C.sendq = dropOffers(c.C.sendq, t)
	}
}

func dropOffers(q []offer, t *Thread) []offer {
	out := q[:0]
	for _, o := range q {
		if o.t != t {
			out = append(out, o)
		}
	}
	return out
}

// apply executes one scheduling decision.
func (s *Sched) apply(ch Choice) {
	t := ch.T
	if ch.Idx < 0 {
		for i, c := range t.cases {
			if c.C == nil {
				continue
			}
			switch c.Kind {
			case KSend:
				c.C.sendq = append(c.C.sendq, offer{t, i, c.V})
			case KRecv:
				c.C.recvq = append(c.C.recvq, offer{t, i, nil})
			}
		}
		t.status = stParked
		return
	}
	k := t.cases[ch.Idx]
	res := resumeMsg{idx: ch.Idx}
	var woken []*Thread
	wake := func(o offer, m resumeMsg) {
		m.idx = o.idx
		s.cancel(o.t)
		o.t.woke = m
		woken = append(woken, o.t)
	}
	c := k.C
	switch k.Kind {
	case KDefault:
	case KSend:
		switch {
		case c.closed:
			res.panicMsg = "send on closed channel"
		case len(c.recvq) > 0:
			o := c.recvq[0]
			wake(o, resumeMsg{val: k.V, ok: true})
		default:
			if len(c.buf) >= c.cap {
				HarnessError("send chosen but not ready")
			}
			c.buf = append(c.buf, k.V)
		}
	case KRecv:
		switch {
		case len(c.buf) > 0:
			res.val, res.ok = c.buf[0], true
			c.buf = append([]interface{}{}, c.buf[1:]...)
			if len(c.sendq) > 0 {
				o := c.sendq[0]
				c.buf = append(c.buf, o.val)
				wake(o, resumeMsg{})
			}
		case len(c.sendq) > 0:
			o := c.sendq[0]
			res.val, res.ok = o.val, true
			wake(o, resumeMsg{})
		case c.closed:
			res.val, res.ok = nil, false
		default:
			HarnessError("recv chosen but not ready")
		}
	case KClose:
		switch {
		case c == nil:
			res.panicMsg = "close of nil channel"
		case c.closed:
			res.panicMsg = "close of closed channel"
		default:
			c.closed = true
			for len(c.recvq) > 0 {
				wake(c.recvq[0], resumeMsg{val: nil, ok: false})
			}
			for len(c.sendq) > 0 {
				wake(c.sendq[0], resumeMsg{panicMsg: "send on closed channel"})
			}
		}
	}
	s.runTo(t, res)
	s.startNewborns()
	for _, w := range woken {
		s.runTo(w, w.woke)
		s.startNewborns()
	}
}

// killAll terminates every goroutine of the execution.
func (s *Sched) killAll() {
	s.dying = true
	for _, t := range s.threads {
		if t.status != stDone {
			t.resume <- resumeMsg{kill: true}
		}
	}
	s.wg.Wait()
}

func fmtCases(b *strings.Builder, cs []Case) {
	for _, c := range cs {
		switch c.Kind {
		case KRecv:
			fmt.Fprintf(b, "r%d;", chanID(c.C))
		case KSend:
			fmt.Fprintf(b, "s%d=%v;", chanID(c.C), c.V)
		case KDefault:
			b.WriteString("d;")
		case KClose:
			fmt.Fprintf(b, "x%d;", chanID(c.C))
		}
	}
}

// stateKey is the canonical global state at a scheduling point.
func (s *Sched) stateKey(h string) string {
	var b strings.Builder
	b.WriteString(h)
	for _, t := range s.threads {
		fmt.Fprintf(&b, "|T%d:%s:%d:%s:", t.ID, t.Name, t.status, t.site)
		if t.PanicVal != "" {
			b.WriteString("panic:")
		}
		fmtCases(&b, t.cases)
		if t.locals != nil && t.status != stDone {
			b.WriteString("L{")
			b.WriteString(t.locals())
			b.WriteString("}")
		}
	}
	for _, c := range s.chans {
		fmt.Fprintf(&b, "|C%d:%d:%v:%v:r", c.id, c.cap, c.closed, c.buf)
		for _, o := range c.recvq {
			fmt.Fprintf(&b, "%d.%d,", o.t.ID, o.idx)
		}
		b.WriteString(":s")
		for _, o := range c.sendq {
			fmt.Fprintf(&b, "%d.%d=%v,", o.t.ID, o.idx, o.val)
		}
	}
	return b.String()
}

// Describe lists the threads with their status, for messages.
func (s *Sched) Describe() string {
	var parts []string
	for _, t := range s.threads {
		st := "runnable"
		switch t.status {
		case stParked:
			st = "blocked"
		case stDone:
			st = "finished"
			if t.PanicVal != "" {
				st = "panicked(" + t.PanicVal + ")"
			}
		}
		if t.status == stDone {
			parts = append(parts, fmt.Sprintf("%s:%s", t.Name, st))
		} else {
			parts = append(parts, fmt.Sprintf("%s:%s@%s", t.Name, st, t.site))
		}
	}
	return strings.Join(parts, " ")
}
