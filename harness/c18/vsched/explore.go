package vsched

import (
	"fmt"
	"strconv"
	"time"
)

// Harness is the scenario driven by the explorer. All methods are called from
// the scheduler goroutine while no thread runs.
type Harness interface {
	// State is the harness-visible part of the canonical state: phase,
	// observations so far, data structures private to the code under test.
	State() string
	// Nontrivial classifies the current state (counted once per new state).
	Nontrivial() bool
	// Observe is called after every transition (also while replaying).
	Observe()
	// Quiescent is called when no thread is runnable. It runs the oracles of
	// the phase that ended and either starts the next phase (spawning
	// threads; returns true) or declares the state terminal (false).
	Quiescent() bool
	// Panicked is called when a thread body panicked.
	Panicked(t *Thread)
	// Failed reports that an oracle recorded a violation: the execution ends.
	Failed() bool
	// Terminal describes the terminal observation.
	Terminal() string
	// EndOfExecution is called once per execution with the full schedule.
	EndOfExecution(trace []string, complete bool)
}

// Config of one exploration.
type Config struct {
	Setup    func(s *Sched) Harness
	MaxExecs int
	// MaxFailed ends the exploration (Exhaustive=false) once that many
	// executions ended in an oracle failure: the verdict is known.
	MaxFailed int
	Deadline  time.Time
}

// Result counts are all measured.
type Result struct {
	States           int // distinct canonical states
	NontrivialStates int // distinct states for which Harness.Nontrivial held
	Transitions      int // distinct (state, decision) edges executed
	Steps            int // scheduler steps executed, replayed prefixes included
	Executions       int
	Complete         int // executions that reached a terminal state
	Pruned           int // executions cut at an already visited state
	Failed           int // executions ended by an oracle
	MaxDepth         int
	MultiReady       int // (state, thread) pairs where a select had >1 ready case
	MultiRunnable    int // states with more than one runnable thread
	Terminals        map[string]int
	Exhaustive       bool
	Sample           []string // first complete schedule
}

type frame struct {
	n   int
	idx int
	sig string
}

func choicesSig(cs []Choice) string {
	buf := make([]byte, 0, 32*len(cs))
	for _, c := range cs {
		buf = strconv.AppendInt(buf, int64(c.T.ID), 10)
		buf = append(buf, '@')
		buf = append(buf, c.T.site...)
		buf = append(buf, '#')
		buf = strconv.AppendInt(buf, int64(c.Idx), 10)
		buf = append(buf, ',')
	}
	return string(buf)
}

// step is one executed decision, kept unformatted (formatting every replayed
// step would dominate the run time).
type step struct {
	name, site string
	idx        int
	c          Case
}

func (st step) String() string {
	t := &Thread{Name: st.name, site: st.site}
	if st.idx >= 0 {
		t.cases = make([]Case, st.idx+1)
		t.cases[st.idx] = st.c
	}
	return Choice{T: t, Idx: st.idx}.String()
}

func fmtTrace(tr []step) []string {
	out := make([]string, len(tr))
	for i, st := range tr {
		out[i] = st.String()
	}
	return out
}

// Explore runs a depth-first search over all scheduling decisions. Every
// branch is a fresh execution replaying the recorded prefix; a state already
// in the visited set ends the branch.
func Explore(cfg Config) *Result {
	res := &Result{Terminals: map[string]int{}, Exhaustive: true}
	visited := map[string]struct{}{}
	var stack []frame
	firstFail := 0
	for {
		res.Executions++
		runOne(&stack, visited, cfg, res)
		for len(stack) > 0 && stack[len(stack)-1].idx+1 >= stack[len(stack)-1].n {
			stack = stack[:len(stack)-1]
		}
		if len(stack) == 0 {
			break
		}
		stack[len(stack)-1].idx++
		if res.Failed > 0 && firstFail == 0 {
			firstFail = res.Executions
		}
		// once the verdict is known the search is cut short, by execution
		// counts (deterministic): at most as long again as it took to find
		// the first failure, or MaxFailed failing executions
		if (cfg.MaxExecs > 0 && res.Executions >= cfg.MaxExecs) || (cfg.MaxFailed > 0 && res.Failed >= cfg.MaxFailed) ||
			(cfg.MaxFailed > 0 && firstFail > 0 && res.Executions >= 2*firstFail+1000) || (!cfg.Deadline.IsZero() && res.Executions%256 == 0 && time.Now().After(cfg.Deadline)) {
			res.Exhaustive = false
			break
		}
	}
	return res
}

func runOne(stackp *[]frame, visited map[string]struct{}, cfg Config, res *Result) {
	s := &Sched{yield: make(chan struct{})}
	cur = s
	h := cfg.Setup(s)
	s.startNewborns()
	replayLen := len(*stackp)
	var trace []step
	complete := false
	d := 0
	for {
		if p := s.panicked; p != nil {
			h.Panicked(p)
		}
		if h.Failed() {
			res.Failed++
			break
		}
		fresh := d >= replayLen
		if fresh {
			key := s.stateKey(h.State())
			if _, seen := visited[key]; seen {
				res.Pruned++
				break
			}
			visited[key] = struct{}{}
			res.States++
			if h.Nontrivial() {
				res.NontrivialStates++
			}
		}
		choices, multi := s.choices()
		if len(choices) == 0 {
			cont := h.Quiescent()
			if h.Failed() {
				res.Failed++
				break
			}
			if !cont {
				if !fresh {
					HarnessError("nondeterminism: replayed prefix ended in a terminal state")
				}
				complete = true
				res.Complete++
				res.Terminals[h.Terminal()]++
				break
			}
			s.startNewborns()
			choices, multi = s.choices()
			if len(choices) == 0 {
				HarnessError("next phase started no runnable thread")
			}
		}
		sig := choicesSig(choices)
		if fresh {
			*stackp = append(*stackp, frame{n: len(choices), sig: sig})
			res.MultiReady += multi
			nthreads := map[int]bool{}
			for _, c := range choices {
				nthreads[c.T.ID] = true
			}
			if len(nthreads) > 1 {
				res.MultiRunnable++
			}
		} else if f := (*stackp)[d]; f.sig != sig || f.n != len(choices) {
			HarnessError(fmt.Sprintf("nondeterminism: replaying depth %d expected decisions [%s] but the execution offers [%s]", d, f.sig, sig))
		}
		ch := choices[(*stackp)[d].idx]
		if d >= replayLen-1 {
			res.Transitions++
		}
		res.Steps++
		st := step{name: ch.T.Name, site: ch.T.site, idx: ch.Idx}
		if ch.Idx >= 0 {
			st.c = ch.T.cases[ch.Idx]
		}
		trace = append(trace, st)
		s.apply(ch)
		h.Observe()
		d++
		if d > res.MaxDepth {
			res.MaxDepth = d
		}
	}
	if complete && res.Sample == nil {
		res.Sample = fmtTrace(trace)
	}
	if h.Failed() {
		h.EndOfExecution(fmtTrace(trace), complete)
	} else {
		h.EndOfExecution(nil, complete)
	}
	s.killAll()
	cur = nil
}

// CanonResult describes the single execution made by RunCanonical.
type CanonResult struct {
	Steps       int  // scheduler decisions executed
	MultiChoice int  // decisions at which more than one choice was enabled (the rule picked one)
	Complete    bool // a terminal state was reached
	Failed      bool // an oracle recorded a violation
	Aborted     bool // step bound or deadline reached before a terminal state
}

// RunCanonical makes ONE execution of the scenario under the canonical
// non-preempting schedule: the thread that executed the previous decision goes
// on while it has a pending operation (it parks if that operation cannot
// complete); otherwise the runnable thread with the lowest id goes; a select
// with several ready cases takes the first one in source order. Nothing is
// enumerated, no state is hashed: the cost is linear in the length of the
// execution, so very long executions (deep backlogs) are affordable. The same
// channel model, the same Harness oracles (Quiescent, Panicked, Failed) and
// phase protocol as Explore apply.
func RunCanonical(setup func(s *Sched) Harness, maxSteps int, deadline time.Time) *CanonResult {
	res := &CanonResult{}
	s := &Sched{yield: make(chan struct{})}
	cur = s
	h := setup(s)
	s.startNewborns()
	var trace []step
	var last *Thread
	for {
		if p := s.panicked; p != nil {
			h.Panicked(p)
		}
		if h.Failed() {
			res.Failed = true
			break
		}
		choices, _ := s.choices()
		if len(choices) == 0 {
			cont := h.Quiescent()
			if h.Failed() {
				res.Failed = true
				break
			}
			if !cont {
				res.Complete = true
				break
			}
			s.startNewborns()
			choices, _ = s.choices()
			if len(choices) == 0 {
				HarnessError("next phase started no runnable thread")
			}
		}
		if (maxSteps > 0 && res.Steps >= maxSteps) || (!deadline.IsZero() && res.Steps%4096 == 4095 && time.Now().After(deadline)) {
			res.Aborted = true
			break
		}
		pick := 0
		if last != nil {
			for i, c := range choices {
				if c.T == last {
					pick = i
					break
				}
			}
		}
		if len(choices) > 1 {
			res.MultiChoice++
		}
		ch := choices[pick]
		last = ch.T
		res.Steps++
		st := step{name: ch.T.Name, site: ch.T.site, idx: ch.Idx}
		if ch.Idx >= 0 {
			st.c = ch.T.cases[ch.Idx]
		}
		trace = append(trace, st)
		s.apply(ch)
		h.Observe()
	}
	if res.Failed {
		// only the ends are formatted: the schedule is determined by the rule
		const head, tail = 24, 40
		if len(trace) <= head+tail {
			h.EndOfExecution(fmtTrace(trace), res.Complete)
		} else {
			out := fmtTrace(trace[:head])
			out = append(out, fmt.Sprintf("... %d decisions of the canonical schedule elided ...", len(trace)-head-tail))
			out = append(out, fmtTrace(trace[len(trace)-tail:])...)
			h.EndOfExecution(out, res.Complete)
		}
	} else {
		h.EndOfExecution(nil, res.Complete)
	}
	s.killAll()
	cur = nil
	return res
}
