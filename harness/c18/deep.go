//go:build c18ov

package c18

// Deep backlog family: a second, DETERMINISTIC family of executions per
// component (queue.go for a few buffer sizes, the neutrino and the btcd
// handler loop). For EVERY burst size N in 1..deepMax the producer pushes N
// items while no consumer is receiving, then a consumer drains everything and
// the client is stopped; and, for a few splits (K, M), the consumer takes K
// items and stalls again, the producer pushes M more, then everything is
// drained. Each such scenario is executed ONCE, under the canonical
// non-preempting schedule of vsched.RunCanonical (no interleavings are
// enumerated here; that is what the exploration of the small scenarios does),
// so the cost is linear in the burst and backlogs of hundreds of items -- far
// beyond every buffer constant and slice-growth step in the code -- are run.
// The oracles are the same as in the exploration: the producer is never
// blocked, every item is delivered exactly once and in order, Stop terminates
// the worker.

import (
	"encoding/json"
	"fmt"
	"os"
	"sort"
	"strconv"
	"sync/atomic"
	"time"

	"verif/harness/c18/vsched"
	"verif/harness/ev"
)

const deepWhat = "ONE execution under the canonical non-preempting schedule (the thread that moved last goes on while it has a pending operation, else the lowest-numbered runnable thread; first ready select case), fully determined by the scenario: push `burst` items with no consumer, [take `consumer_takes`, push `second_burst` more,] drain everything, Stop; schedule = first and last decisions, executed against"

// deepVariants lists the scenarios of one burst size, simplest first.
func deepVariants(comp string, b, n int) []scen {
	out := []scen{{Comp: comp, Kind: "deep", B: b, N: n, K: n}}
	if n < 2 {
		return out
	}
	seen := map[[2]int]bool{}
	for _, km := range [][2]int{
		{n / 2, n / 2},   // half drained, refilled to the same depth
		{n - 1, n},       // almost empty, then as deep again
		{(n + 3) / 4, n}, // a quarter drained, then N more on top (deepest backlog)
	} {
		k, m := km[0], km[1]
		if k < 1 || k > n || m < 1 || seen[km] {
			continue
		}
		seen[km] = true
		out = append(out, scen{Comp: comp, Kind: "deep", B: b, N: n, K: k, M: m})
	}
	return out
}

// deepResult is what one deep shard (one component, bursts i+1, i+1+S, ...)
// reports; every count is measured.
type deepResult struct {
	Comp        string   `json:"component"`
	B           int      `json:"buffer"`
	Executions  int      `json:"executions"`
	Plain       int      `json:"plain"`
	Split       int      `json:"split"`
	Complete    int      `json:"complete"`
	Failed      int      `json:"failed"`
	Aborted     int      `json:"aborted"`
	Steps       int      `json:"steps"`
	MultiChoice int      `json:"multi_choice"`
	Bursts      []int    `json:"bursts"`
	Nontrivial  int      `json:"nontrivial"`
	MaxHeld     int      `json:"max_held"`
	MaxOverflow int      `json:"max_overflow"`
	MaxTotal    int      `json:"max_total"`
	MaxSteps    int      `json:"max_steps"`
	Exhaustive  bool     `json:"exhaustive"`
	Samples     []string `json:"samples"`
	Violations  []*viol  `json:"violations"`
	WallMs      int64    `json:"wall_ms"`
}

// heldOf / deliveredOf read the measured figures of a finished execution.
func deepFigures(h vsched.Harness) (held, delivered int) {
	switch x := h.(type) {
	case *harness:
		return x.held, len(x.recv)
	case *hharness:
		return x.held, len(x.recv)
	}
	return 0, 0
}

func runDeepShard(comp string, b, first, stride, maxN, deadlineS int) *deepResult {
	start := time.Now()
	deadline := start.Add(time.Duration(deadlineS) * time.Second)
	out := &deepResult{Comp: comp, B: b, Exhaustive: true}
	sh := &shard{viols: map[string]*viol{}}
	for n := first; n <= maxN; n += stride {
		out.Bursts = append(out.Bursts, n)
		for _, sc := range deepVariants(comp, b, n) {
			sh.sc = sc
			var hh vsched.Harness
			total := sc.N + sc.M
			// generous bound on the length of the canonical execution (a
			// worker that spins without making progress is cut there)
			r := vsched.RunCanonical(func(s *vsched.Sched) vsched.Harness {
				hh = setupScen(sh, sc, s)
				return hh
			}, 200*total+2000, deadline)
			out.Executions++
			if sc.M == 0 {
				out.Plain++
			} else {
				out.Split++
			}
			out.Steps += r.Steps
			out.MultiChoice += r.MultiChoice
			if r.Steps > out.MaxSteps {
				out.MaxSteps = r.Steps
			}
			held, delivered := deepFigures(hh)
			if held >= 2 {
				out.Nontrivial++
			}
			if held > out.MaxHeld {
				out.MaxHeld = held
			}
			switch {
			case r.Failed:
				out.Failed++
			case r.Aborted:
				out.Aborted++
				out.Exhaustive = false
			case r.Complete:
				out.Complete++
				if delivered > out.MaxTotal {
					out.MaxTotal = delivered
				}
				if n+stride > maxN && (sc.M == 0 || sc.K == (sc.N+3)/4) {
					out.Samples = append(out.Samples, fmt.Sprintf("deep backlog %s: %d decisions of the canonical schedule, backlog held with no consumer receiving peaked at %d, %d items delivered exactly once in order, Stop terminated the worker", sc, r.Steps, held, delivered))
				}
			}
			if time.Now().After(deadline) {
				out.Exhaustive = false
				break
			}
		}
		if !out.Exhaustive && time.Now().After(deadline) {
			break
		}
	}
	out.MaxOverflow = sh.maxOverflow
	for _, k := range sh.order {
		out.Violations = append(out.Violations, sh.viols[k])
	}
	out.WallMs = time.Since(start).Milliseconds()
	return out
}

func deepShardMain(args []string) {
	if len(args) != 6 {
		ev.Fatal("usage: deepshard <component> <B> <first> <stride> <maxN> <deadline_s>")
	}
	var v [5]int
	for i := range v {
		n, err := strconv.Atoi(args[i+1])
		if err != nil {
			ev.Fatal("deepshard: bad argument %q", args[i+1])
		}
		v[i] = n
	}
	label := fmt.Sprintf("%s deep/B%d/N%d+%dk..%d", args[0], v[0], v[1], v[2], v[3])
	vsched.HarnessError = func(msg string) {
		fmt.Fprintf(os.Stderr, "HARNESS-ERROR: c18 %s: %s\n", label, msg)
		os.Exit(2)
	}
	finished := startWatchdog(label)
	res := runDeepShard(args[0], v[0], v[1], v[2], v[3], v[4])
	atomic.StoreInt32(finished, 1)
	if err := json.NewEncoder(os.Stdout).Encode(res); err != nil {
		ev.Fatal("encode: %v", err)
	}
	os.Exit(0)
}

// ------------------------------------------------------- phases and oracles

// deepQuiescent (queue.go): the phase protocol of the deep backlog family.
func (h *harness) deepQuiescent() bool {
	note := func() {
		if n := h.sent - len(h.recv); n > h.held {
			h.held = n
		}
		if n := len(h.overflow()); n > h.sh.maxOverflow {
			h.sh.maxOverflow = n
		}
		if h.held >= 2 {
			h.sawOvf = true
		}
	}
	switch h.phase {
	case 0: // the first burst was pushed with nobody receiving
		if !h.checkDrained(false) {
			return false
		}
		note()
		if h.sc.M == 0 {
			h.take, h.phase = h.total, 3
		} else {
			h.take, h.phase = h.sc.K, 1
		}
		vsched.GoNamed("consumer", h.consumer)
		return true
	case 1: // K items were taken; the consumer stalls again
		if !h.checkDrained(true) {
			return false
		}
		h.pLo, h.pHi = h.sc.N+1, h.sc.N+h.sc.M
		h.phase = 2
		vsched.GoNamed("producer", h.producer)
		return true
	case 2: // the second burst was pushed on top of the rest
		if !h.checkDrained(false) {
			return false
		}
		note()
		h.take, h.phase = h.total, 3
		vsched.GoNamed("consumer", h.consumer)
		return true
	case 3: // full drain
		if !h.checkDrained(true) {
			return false
		}
		h.phase = 4
		vsched.GoNamed("stopper", h.stopper)
		return true
	}
	h.checkStopped()
	return false
}

// deepQuiescent (handler loops).
func (h *hharness) deepQuiescent() bool {
	note := func() {
		if n := h.sent - len(h.recv); n > h.held {
			h.held = n
		}
	}
	switch h.phase {
	case 0:
		if !h.checkDrained(false) {
			return false
		}
		note()
		if h.sc.M == 0 {
			h.take, h.phase = h.total, 3
		} else {
			h.take, h.phase = h.sc.K, 1
		}
		vsched.GoNamed("consumer", h.consumer)
		return true
	case 1:
		if !h.checkDrained(true) {
			return false
		}
		h.pLo, h.pHi = h.sc.N+1, h.sc.N+h.sc.M
		h.phase = 2
		vsched.GoNamed("producer", h.producer)
		return true
	case 2:
		if !h.checkDrained(false) {
			return false
		}
		note()
		h.take, h.phase = h.total, 3
		vsched.GoNamed("consumer", h.consumer)
		return true
	case 3:
		if !h.checkDrained(true) {
			return false
		}
		h.phase = 4
		vsched.GoNamed("stopper", h.stopper)
		return true
	}
	h.checkStopped()
	return false
}

// ------------------------------------------------------------ aggregation

type deepGroup struct {
	comp string
	b    int
}

func (g deepGroup) name() string {
	switch g.comp {
	case "queue":
		return fmt.Sprintf("queue.go ConcurrentQueue(buffer %d)", g.b)
	case "neutrino":
		return "neutrino.go notificationHandler"
	}
	return "btcd.go handler"
}

// mergeDeep sums the shard results; violations are returned simplest first
// (smallest burst, plain before split).
func mergeDeep(rs []*deepResult) (tot deepResult, per map[string]*deepResult, viols []*viol) {
	tot.Exhaustive = true
	per = map[string]*deepResult{}
	bursts := map[int]bool{}
	for _, r := range rs {
		name := deepGroup{r.Comp, r.B}.name()
		p := per[name]
		if p == nil {
			p = &deepResult{Comp: r.Comp, B: r.B, Exhaustive: true}
			per[name] = p
		}
		for _, t := range []*deepResult{&tot, p} {
			t.Executions += r.Executions
			t.Plain += r.Plain
			t.Split += r.Split
			t.Complete += r.Complete
			t.Failed += r.Failed
			t.Aborted += r.Aborted
			t.Steps += r.Steps
			t.MultiChoice += r.MultiChoice
			t.Nontrivial += r.Nontrivial
			t.WallMs += r.WallMs
			t.Exhaustive = t.Exhaustive && r.Exhaustive
			if r.MaxHeld > t.MaxHeld {
				t.MaxHeld = r.MaxHeld
			}
			if r.MaxOverflow > t.MaxOverflow {
				t.MaxOverflow = r.MaxOverflow
			}
			if r.MaxTotal > t.MaxTotal {
				t.MaxTotal = r.MaxTotal
			}
			if r.MaxSteps > t.MaxSteps {
				t.MaxSteps = r.MaxSteps
			}
		}
		p.Bursts = append(p.Bursts, r.Bursts...)
		for _, n := range r.Bursts {
			bursts[n] = true
		}
		tot.Samples = append(tot.Samples, r.Samples...)
		viols = append(viols, r.Violations...)
	}
	for n := range bursts {
		tot.Bursts = append(tot.Bursts, n)
	}
	sort.Ints(tot.Bursts)
	sort.Strings(tot.Samples)
	sort.SliceStable(viols, func(a, b int) bool {
		x, y := viols[a].Replay.Scenario, viols[b].Replay.Scenario
		if x.N != y.N {
			return x.N < y.N
		}
		return x.M < y.M
	})
	return
}

// contiguous reports whether l (sorted) is exactly 1..n.
func contiguous(l []int) (int, bool) {
	for i, x := range l {
		if x != i+1 {
			return len(l), false
		}
	}
	return len(l), true
}
