package main

import (
	"os"

	"verif/harness/c18"
)

func main() { c18.Run(os.Args[1:]) }
