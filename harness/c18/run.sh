#!/bin/bash
# run.sh <quick|thorough>   C18: rewrite the CURRENT chain/queue.go through c18/ovgen,
# build the model checker against it and run it.
# C18_QUEUE_SRC=<file> points the generator at another queue.go (used to show detection).
# exit: 0 held, 1 violation, 2 generator/build/harness error
set -u
export GOFLAGS=-mod=mod GOPROXY=off GOSUMDB=off GOTOOLCHAIN=local
export GOCACHE=/verif/.cache/go-build
tier="${1:-${VERIF_TIER:-quick}}"
src="${C18_QUEUE_SRC:-/repo/chain/queue.go}"
ov=/verif/.cache/ov/c18
mkdir -p "$ov/queue" /verif/bin /verif/evidence /verif/replays || exit 2
cd /verif/harness || exit 2
fail() { echo "HARNESS-ERROR: c18: $*" >&2; exit 2; }
(
  flock 9
  go build -o "$ov/ovgen" ./c18/ovgen 2>"$ov/build.err" || { cat "$ov/build.err" >&2; exit 2; }
  "$ov/ovgen" -src "$src" -out "$ov/queue/queue.go" -overlay "$ov/overlay.json" \
      -virtual /verif/harness/c18/queue/queue.go || exit 2
  go build -tags "verif c18ov" -overlay "$ov/overlay.json" -o "$ov/vh-c18.new" ./c18/cmd 2>"$ov/build.err" \
      || { echo "HARNESS-ERROR: c18: build of the rewritten queue.go failed (a tree that does not compile is not a property verdict)" >&2; cat "$ov/build.err" >&2; exit 2; }
  mv -f "$ov/vh-c18.new" /verif/bin/vh-c18 || exit 2
) 9>"$ov/.lock" || fail "generator or build failed"
[ -n "${VERIF_BUILD_ONLY:-}" ] && exit 0
exec /verif/bin/vh-c18 "$tier"
