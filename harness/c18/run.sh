#!/bin/bash
# run.sh <quick|thorough>   C18: rewrite the CURRENT chain/queue.go and extract the
# notification handler loops of chain/neutrino.go and chain/btcd.go through c18/ovgen,
# build the model checker against them and run it.
# C18_QUEUE_SRC / C18_NEUTRINO_SRC / C18_BTCD_SRC=<file> point the generator at another
# copy of queue.go / neutrino.go / btcd.go (used to show detection).
# exit: 0 held, 1 violation, 2 generator/build/harness error
set -u
export GOFLAGS=-mod=mod GOPROXY=off GOSUMDB=off GOTOOLCHAIN=local
export GOCACHE=/verif/.cache/go-build
tier="${1:-${VERIF_TIER:-quick}}"
src="${C18_QUEUE_SRC:-/repo/chain/queue.go}"
nsrc="${C18_NEUTRINO_SRC:-/repo/chain/neutrino.go}"
bsrc="${C18_BTCD_SRC:-/repo/chain/btcd.go}"
ov=/verif/.cache/ov/c18
mkdir -p "$ov" /verif/bin /verif/evidence /verif/replays || exit 2
cd /verif/harness || exit 2
fail() { echo "HARNESS-ERROR: c18: $*" >&2; exit 2; }
(
  flock 9
  go build -o "$ov/ovgen" ./c18/ovgen 2>"$ov/build.err" || { cat "$ov/build.err" >&2; exit 2; }
  rm -rf "$ov/queue" "$ov/hneutrino" "$ov/hbtcd" "$ov/overlay.json"
  "$ov/ovgen" -src "$src" -neutrino-src "$nsrc" -btcd-src "$bsrc" -pkgdir /repo/chain \
      -outdir "$ov" -overlay "$ov/overlay.json" -virtual /verif/harness/c18 || exit 2
  go build -tags "verif c18ov" -overlay "$ov/overlay.json" -o "$ov/vh-c18.new" ./c18/cmd 2>"$ov/build.err" \
      || { echo "HARNESS-ERROR: c18: build of the rewritten queue.go failed (a tree that does not compile is not a property verdict)" >&2; cat "$ov/build.err" >&2; exit 2; }
  mv -f "$ov/vh-c18.new" /verif/bin/vh-c18 || exit 2
) 9>"$ov/.lock" || fail "generator or build failed"
[ -n "${VERIF_BUILD_ONLY:-}" ] && exit 0
exec /verif/bin/vh-c18 "$tier"
