//go:build c18ov

package c18

// Model checking of the clients' own unbounded notification FIFO: the loop of
// (*NeutrinoClient).notificationHandler (chain/neutrino.go) and of
// (*RPCClient).handler (chain/btcd.go), extracted from the CURRENT tree by
// c18/ovgen into the packages hneutrino / hbtcd together with each client's
// real Stop method.

import (
	"fmt"

	"github.com/btcsuite/btcwallet/chain"
	"github.com/btcsuite/btcwallet/waddrmgr"
	"github.com/btcsuite/btcwallet/wtxmgr"

	"verif/harness/c18/hbtcd"
	"verif/harness/c18/hneutrino"
	"verif/harness/c18/vsched"
)

// client is what both generated stubs offer.
type client interface {
	VerifChan(name string) *vsched.Chan
	VerifHasChan(name string) bool
	VerifSetChan(name string, c *vsched.Chan)
	VerifWg() *vsched.WaitGroup
	VerifRun()
	VerifStop()
}

func newClient(comp string) client {
	switch comp {
	case "neutrino":
		return hneutrino.New()
	case "btcd":
		return hbtcd.New()
	}
	panic("unknown component " + comp)
}

// item wraps the i-th notification; every third one is a BlockConnected so
// that the handler's type switch (block stamp update) is exercised.
func item(i int) interface{} {
	if i%3 == 0 {
		return chain.BlockConnected{Block: wtxmgr.Block{Height: int32(i)}}
	}
	return i
}

func itemIndex(v interface{}) (int, bool) {
	switch x := v.(type) {
	case int:
		return x, true
	case chain.BlockConnected:
		if int(x.Height)%3 == 0 {
			return int(x.Height), true
		}
	}
	return 0, false
}

type hharness struct {
	sh        *shard
	sc        scen
	s         *vsched.Sched
	cl        client
	in, out   *vsched.Chan
	quit, cur *vsched.Chan
	phase     int
	recv      []int
	sent      int
	aborted   bool // the producer left through its quit case
	sawClose  bool // the consumer saw dequeueNotification closed
	stopRet   bool // Stop() returned
	reads     int
	gap       bool
	backlog   bool
	failSig   string
	failMsg   string
	total     int // items the producer sends in the whole execution
	take      int // items after which the consumer stops receiving (== total: it ranges until close)
	pLo, pHi  int // the running producer sends pLo..pHi
	held      int // deep: largest backlog seen at a quiescent point
}

func (h *hharness) fail(sig, msg string) {
	if h.failSig == "" {
		h.failSig, h.failMsg = sig, msg
	}
}

// producer is the clients' own enqueue idiom:
// select { case c.enqueueNotification <- n: case <-c.quit: }
func (h *hharness) producer() {
	for i := h.pLo; i <= h.pHi; i++ {
		idx, _, _ := vsched.Select("producer.send", vsched.SendCase(h.in, item(i)), vsched.RecvCase(h.quit))
		if idx != 0 {
			h.aborted = true
			return
		}
		h.sent = i
	}
}

// consumer ranges over Notifications() like the wallet; with K < N it stops
// receiving for good after K items (a consumer that is infinitely slow).
func (h *hharness) consumer() {
	for {
		if h.take < h.total && len(h.recv) >= h.take {
			return
		}
		v, ok := vsched.RecvAt("consumer.recv", h.out)
		if !ok {
			h.sawClose = true
			return
		}
		h.onRecv(v)
		if h.failSig != "" {
			return
		}
	}
}

func (h *hharness) stopper() {
	h.cl.VerifStop()
	h.stopRet = true
}

// reader is BlockStamp(): select { case bs := <-c.currentBlock: case <-c.quit: }
func (h *hharness) reader() {
	for i := 0; i < 2; i++ {
		idx, v, _ := vsched.Select("reader.blockstamp", vsched.RecvCase(h.cur), vsched.RecvCase(h.quit))
		if idx != 0 {
			return
		}
		if bs, ok := v.(*waddrmgr.BlockStamp); !ok || bs == nil {
			h.fail("alien:blockstamp", fmt.Sprintf("scenario %s: BlockStamp() received %v", h.sc, v))
			return
		}
		h.reads++
	}
}

func (h *hharness) stopped() bool { return vsched.IsClosed(h.quit) }

func (h *hharness) onRecv(v interface{}) {
	x, ok := itemIndex(v)
	if !ok || x < 1 || x > h.total {
		h.fail("alien:item-never-sent", fmt.Sprintf("scenario %s: consumer received %v after %v, which the producer never sent (sent 1..%d)", h.sc, v, abbrev(h.recv), h.total))
		return
	}
	for _, r := range h.recv {
		if r == x {
			h.recv = append(h.recv, x)
			h.fail("dup:item-twice", fmt.Sprintf("scenario %s: consumer received item %d twice: %v", h.sc, x, abbrev(h.recv)))
			return
		}
	}
	if n := len(h.recv); n > 0 && x < h.recv[n-1] {
		h.recv = append(h.recv, x)
		h.fail("order:out-of-order", fmt.Sprintf("scenario %s: consumer received %v but the items were sent as 1..%d in order", h.sc, abbrev(h.recv), h.total))
		return
	}
	if x != len(h.recv)+1 && !h.stopped() {
		h.gap = true
	}
	h.recv = append(h.recv, x)
}

func (h *hharness) State() string {
	return fmt.Sprintf("%s|ph%d|recv%v|sent%d|ab%v|cl%v|sr%v|rd%d|gap%v", h.sc, h.phase, h.recv, h.sent, h.aborted, h.sawClose, h.stopRet, h.reads, h.gap)
}

// Nontrivial: at least two notifications are held by the handler (its slice
// is really used as a queue).
func (h *hharness) Nontrivial() bool { return h.sent-len(h.recv) >= 2 }

func (h *hharness) Observe() {
	if n := h.sent - len(h.recv); n >= 2 {
		h.backlog = true
		if n > h.sh.maxOverflow {
			h.sh.maxOverflow = n
		}
	}
}

func (h *hharness) done(name string) bool { return allDone(h.s, name) }

func (h *hharness) Panicked(t *vsched.Thread) {
	h.fail("panic:"+t.PanicSite, fmt.Sprintf("scenario %s: thread %s panicked at %s: %s (received so far %v)", h.sc, t.Name, t.PanicSite, t.PanicVal, h.recv))
}

func (h *hharness) Failed() bool { return h.failSig != "" }

func (h *hharness) describe() string {
	return fmt.Sprintf("sent %d of %d, received %v; threads: %s", h.sent, h.pHi, abbrev(h.recv), h.s.Describe())
}

func abbrevV(r []interface{}) string {
	if len(r) <= 12 {
		return fmt.Sprint(r)
	}
	return fmt.Sprintf("%v ... %v (%d items)", r[:4], r[len(r)-6:], len(r))
}

func abbrev(r []int) string {
	if len(r) <= 12 {
		return fmt.Sprint(r)
	}
	return fmt.Sprintf("%v ... %v (%d items)", r[:4], r[len(r)-6:], len(r))
}

// checkDrained: the producer finished and (if a consumer is present) every
// item arrived.
func (h *hharness) checkDrained(consumerPresent bool) bool {
	if !h.done("producer") || h.aborted {
		if !consumerPresent {
			h.fail("producer-blocked:deadlock-without-consumer", fmt.Sprintf("scenario %s: no consumer is receiving and the producer cannot complete its sends: %s", h.sc, h.describe()))
		} else {
			h.fail("deadlock:"+h.sc.Kind, fmt.Sprintf("scenario %s: deadlock before Stop: %s", h.sc, h.describe()))
		}
		return false
	}
	if consumerPresent && len(h.recv) != h.take {
		h.fail("loss:item-missing", fmt.Sprintf("scenario %s: all %d sends completed, nothing more can arrive, and the consumer (asking for %d items) is missing %v: %s", h.sc, h.sent, h.take, missing(h.recv, h.take), h.describe()))
		return false
	}
	if h.sc.Kind == "r" && !h.done("reader") {
		h.fail("deadlock:r", fmt.Sprintf("scenario %s: BlockStamp() hangs while the client is running: %s", h.sc, h.describe()))
		return false
	}
	return true
}

func missing(recv []int, n int) []int {
	have := map[int]bool{}
	for _, r := range recv {
		have[r] = true
	}
	var out []int
	for i := 1; i <= n && len(out) < 8; i++ {
		if !have[i] {
			out = append(out, i)
		}
	}
	return out
}

// checkStopped: after Stop the handler returned, released its WaitGroup,
// closed dequeueNotification, and nobody hangs.
func (h *hharness) checkStopped() {
	switch {
	case !h.stopRet:
		h.fail("deadlock:"+h.sc.Kind, fmt.Sprintf("scenario %s: Stop() does not return: %s", h.sc, h.describe()))
	case !h.done("worker"):
		h.fail("stop:worker-not-terminated", fmt.Sprintf("scenario %s: Stop() returned but the handler goroutine never returns: %s", h.sc, h.describe()))
	case h.cl.VerifWg() != nil && (h.cl.VerifWg().DoneCount() != 1 || h.cl.VerifWg().Counter() != 0):
		h.fail("stop:wg-not-released", fmt.Sprintf("scenario %s: the handler returned with wg.Done() called %d times: %s", h.sc, h.cl.VerifWg().DoneCount(), h.describe()))
	case !vsched.IsClosed(h.out):
		h.fail("stop:dequeue-not-closed", fmt.Sprintf("scenario %s: the handler returned without closing dequeueNotification: %s", h.sc, h.describe()))
	case !h.done("consumer"):
		h.fail("stop:consumer-not-released", fmt.Sprintf("scenario %s: the consumer hangs after Stop: %s", h.sc, h.describe()))
	case !h.done("producer") || !h.done("reader"):
		h.fail("stop:caller-not-released", fmt.Sprintf("scenario %s: a producer/BlockStamp caller hangs after Stop: %s", h.sc, h.describe()))
	}
}

func (h *hharness) Quiescent() bool {
	switch h.sc.Kind {
	case "a", "r":
		if h.phase == 0 {
			if !h.checkDrained(true) {
				return false
			}
			h.phase = 1
			vsched.GoNamed("stopper", h.stopper)
			return true
		}
		h.checkStopped()
		return false
	case "b":
		switch h.phase {
		case 0:
			if !h.checkDrained(false) {
				return false
			}
			h.phase = 1
			vsched.GoNamed("consumer", h.consumer)
			return true
		case 1:
			if !h.checkDrained(true) {
				return false
			}
			h.phase = 2
			vsched.GoNamed("stopper", h.stopper)
			return true
		}
		h.checkStopped()
		return false
	case "deep":
		return h.deepQuiescent()
	default: // c, d
		h.checkStopped()
		if h.gap && !h.Failed() {
			h.fail(sigGap, fmt.Sprintf("scenario %s: before Stop() was called the consumer had received %v: an earlier item was skipped and never arrived", h.sc, abbrev(h.recv)))
		}
		return false
	}
}

func (h *hharness) Terminal() string {
	return fmt.Sprintf("%s recv=%d sent=%d aborted=%v sawClose=%v %s", h.sc, len(h.recv), h.sent, h.aborted, h.sawClose, h.s.Describe())
}

func (h *hharness) EndOfExecution(trace []string, complete bool) {
	if h.backlog {
		h.sh.nontrivExec++
	}
	if h.failSig == "" {
		return
	}
	what := "schedule = scheduler decisions thread@site:case executed against the extracted handler loop"
	if h.sc.Kind == "deep" {
		what = deepWhat + " the extracted handler loop"
	}
	h.sh.record(h.failSig, h.failMsg, replay{
		Scenario: h.sc, What: what,
		Received: append([]int{}, h.recv...), Sent: h.sent, Threads: h.s.Describe(), Schedule: append([]string{}, trace...)})
}

func setupHandler(sh *shard, sc scen, s *vsched.Sched) vsched.Harness {
	h := &hharness{sh: sh, sc: sc, s: s, total: sc.N + sc.M, take: sc.K, pLo: 1, pHi: sc.N}
	h.cl = newClient(sc.Comp)
	for _, n := range []string{"enqueueNotification", "dequeueNotification", "quit", "currentBlock"} {
		if !h.cl.VerifHasChan(n) {
			vsched.HarnessError("the extracted " + sc.Comp + " handler does not use channel field " + n + ": the scenarios do not apply to this tree")
		}
	}
	h.in, h.out = h.cl.VerifChan("enqueueNotification"), h.cl.VerifChan("dequeueNotification")
	h.quit, h.cur = h.cl.VerifChan("quit"), h.cl.VerifChan("currentBlock")
	vsched.GoNamed("worker", h.cl.VerifRun)
	vsched.GoNamed("producer", h.producer)
	switch sc.Kind {
	case "a":
		vsched.GoNamed("consumer", h.consumer)
	case "r":
		vsched.GoNamed("consumer", h.consumer)
		vsched.GoNamed("reader", h.reader)
	case "c", "d":
		if sc.K > 0 {
			vsched.GoNamed("consumer", h.consumer)
		}
		vsched.GoNamed("stopper", h.stopper)
	}
	return h
}
