package main

// Extraction of a notification handler loop (a method of a chain client) into
// a stand-alone generated package:
//
//   - the root method (and, when it calls them, the methods listed in `also`,
//     e.g. the client's real Stop) are copied from the CURRENT source file, their
//     receiver type replaced by a generated struct `Client` that has exactly the
//     receiver fields the copied bodies use;
//   - channel constructs are rewritten through vsched exactly as for queue.go
//     (nil channel variables keep Go semantics: vsched never finds a nil
//     channel case ready); sync.Mutex/RWMutex fields become vsched.Mutex (Lock
//     is a scheduling point), sync.WaitGroup becomes vsched.WaitGroup;
//   - identifiers are resolved syntactically (go/parser object resolution):
//     exported package-level names of package chain are qualified (`chain.X`,
//     the real package is imported, so BlockConnected, waddrmgr.BlockStamp ...
//     are the real types); unexported package-level constants/variables the
//     body uses are copied; `log` becomes a no-op logger; receiver methods that
//     are neither extractable nor in the stub table are an error;
//   - fields of other types may only be used as `recv.F.M()` statements (no
//     arguments, no results): they become stubs with no-op methods;
//   - the locals declared at the top level of the root method before its loop
//     are registered with vsched.SetLocals so that they are part of the
//     canonical state.
//
// Everything else is a loud failure (exit 2).

import (
	"bytes"
	"fmt"
	"go/ast"
	"go/format"
	"go/parser"
	"go/token"
	"os"
	"path/filepath"
	"reflect"
	"regexp"
	"sort"
	"strconv"
	"strings"
)

type extractCfg struct {
	src      string
	pkgDir   string
	base     string // file name used in sites and to shadow the file of pkgDir
	recvType string
	root     string
	also     []string
	outPkg   string
}

// receiver methods that are replaced by fixed stubs (name -> source)
var methodStubs = map[string]string{
	"GetBestBlock": `func (c *Client) GetBestBlock() (*chainhash.Hash, int32, error) {
	h := chainhash.Hash{}
	return &h, 0, nil
}`,
}
var methodStubImports = map[string][]string{
	"GetBestBlock": {"github.com/btcsuite/btcd/chaincfg/chainhash"},
}

var universe = map[string]bool{}

func init() {
	for _, n := range strings.Fields(`bool byte complex64 complex128 error float32 float64 int int8 int16 int32 int64 rune string
		uint uint8 uint16 uint32 uint64 uintptr any comparable true false iota nil append cap clear close complex copy delete imag len make
		max min new panic print println real recover _`) {
		universe[n] = true
	}
}

var basicTypes = map[string]bool{"bool": true, "int": true, "int8": true, "int16": true, "int32": true, "int64": true,
	"uint": true, "uint8": true, "uint16": true, "uint32": true, "uint64": true, "string": true, "byte": true, "rune": true,
	"float32": true, "float64": true}

type pkgName struct {
	kind string // const var type func
	spec ast.Node
	file *ast.File
}

type extractor struct {
	cfg       extractCfg
	fset      *token.FileSet
	g         *gen
	file      *ast.File                // the source file
	names     map[string]*pkgName      // package-level names of package chain
	methods   map[string]*ast.FuncDecl // methods of recvType, by name
	methFile  map[string]*ast.File
	fields    map[string]ast.Expr // receiver struct fields
	fieldSeq  []string
	usedField map[string]bool
	opaque    map[string]map[string]bool      // opaque field -> methods called
	imports   map[*ast.File]map[string]string // per file: local name -> path
	usedImp   map[string]string               // local name -> path (in output)
	copied    map[string]string               // copied const/var declarations
	copySeq   []string
	stubs     map[string]bool
	needLog   bool
	needChain bool
	done      map[string]bool
	outMeth   []string
}

func (e *extractor) die(p token.Pos, f string, a ...interface{}) {
	where := e.cfg.base
	if p.IsValid() {
		ps := e.fset.Position(p)
		where = fmt.Sprintf("%s:%d", filepath.Base(ps.Filename), ps.Line)
	}
	die("extract %s.%s: %s: %s", e.cfg.recvType, e.cfg.root, where, fmt.Sprintf(f, a...))
}

var versionElem = regexp.MustCompile(`^v[0-9]+$`)

func importName(spec *ast.ImportSpec) (string, string) {
	path, _ := strconv.Unquote(spec.Path.Value)
	if spec.Name != nil {
		return spec.Name.Name, path
	}
	parts := strings.Split(path, "/")
	n := parts[len(parts)-1]
	if versionElem.MatchString(n) && len(parts) > 1 {
		n = parts[len(parts)-2]
	}
	return n, path
}

func recvBase(fd *ast.FuncDecl) (string, bool) {
	if fd.Recv == nil || len(fd.Recv.List) != 1 {
		return "", false
	}
	t := fd.Recv.List[0].Type
	ptr := false
	if s, ok := t.(*ast.StarExpr); ok {
		t, ptr = s.X, true
	}
	if id, ok := t.(*ast.Ident); ok {
		return id.Name, ptr
	}
	return "", false
}

func extract(cfg extractCfg) []byte {
	e := &extractor{cfg: cfg, fset: token.NewFileSet(), names: map[string]*pkgName{}, methods: map[string]*ast.FuncDecl{},
		methFile: map[string]*ast.File{}, fields: map[string]ast.Expr{}, usedField: map[string]bool{}, opaque: map[string]map[string]bool{},
		imports: map[*ast.File]map[string]string{}, usedImp: map[string]string{}, copied: map[string]string{}, stubs: map[string]bool{},
		done: map[string]bool{}}
	e.g = &gen{fset: e.fset, base: cfg.base, chanFields: map[string]ast.Expr{}, localChans: map[string]ast.Expr{}, counts: map[string]int{}}

	// ---- load the package: the source file plus the other files of pkgDir
	paths := []string{cfg.src}
	ents, err := os.ReadDir(cfg.pkgDir)
	if err != nil {
		die("read %s: %v", cfg.pkgDir, err)
	}
	for _, en := range ents {
		n := en.Name()
		if en.IsDir() || !strings.HasSuffix(n, ".go") || strings.HasSuffix(n, "_test.go") || n == cfg.base {
			continue
		}
		paths = append(paths, filepath.Join(cfg.pkgDir, n))
	}
	for i, p := range paths {
		f, err := parser.ParseFile(e.fset, p, nil, 0)
		if err != nil {
			if i == 0 {
				die("parse %s: %v", p, err)
			}
			continue // an unrelated file that does not parse is the build's problem
		}
		if i == 0 {
			e.file = f
		}
		e.imports[f] = map[string]string{}
		for _, is := range f.Imports {
			n, path := importName(is)
			e.imports[f][n] = path
		}
		for _, d := range f.Decls {
			switch x := d.(type) {
			case *ast.GenDecl:
				kind := map[token.Token]string{token.CONST: "const", token.VAR: "var", token.TYPE: "type"}[x.Tok]
				for _, sp := range x.Specs {
					switch s := sp.(type) {
					case *ast.ValueSpec:
						for _, nm := range s.Names {
							e.names[nm.Name] = &pkgName{kind, s, f}
						}
					case *ast.TypeSpec:
						e.names[s.Name.Name] = &pkgName{"type", s, f}
					}
				}
			case *ast.FuncDecl:
				if x.Recv == nil {
					e.names[x.Name.Name] = &pkgName{"func", x, f}
				} else if b, _ := recvBase(x); b == cfg.recvType {
					e.methods[x.Name.Name] = x
					e.methFile[x.Name.Name] = f
				}
			}
		}
	}

	// ---- receiver struct
	ts, ok := e.names[cfg.recvType]
	if !ok || ts.kind != "type" || ts.file != e.file {
		die("extract: type %s is not declared in %s", cfg.recvType, cfg.src)
	}
	st, ok := ts.spec.(*ast.TypeSpec).Type.(*ast.StructType)
	if !ok {
		die("extract: %s is not a struct", cfg.recvType)
	}
	for _, f := range st.Fields.List {
		if len(f.Names) == 0 { // embedded
			t := f.Type
			if s, ok := t.(*ast.StarExpr); ok {
				t = s.X
			}
			name := ""
			switch x := t.(type) {
			case *ast.Ident:
				name = x.Name
			case *ast.SelectorExpr:
				name = x.Sel.Name
			}
			if name != "" {
				e.fields[name] = f.Type
				e.fieldSeq = append(e.fieldSeq, name)
			}
			continue
		}
		for _, nm := range f.Names {
			e.fields[nm.Name] = f.Type
			e.fieldSeq = append(e.fieldSeq, nm.Name)
			if ct, ok := f.Type.(*ast.ChanType); ok {
				e.g.chanFields[nm.Name] = ct.Value
			}
		}
	}

	// ---- methods
	if _, ok := e.methods[cfg.root]; !ok {
		die("extract: method (%s).%s not found in %s", cfg.recvType, cfg.root, cfg.src)
	}
	if e.methFile[cfg.root] != e.file {
		die("extract: method (%s).%s is not declared in %s", cfg.recvType, cfg.root, cfg.src)
	}
	work := []string{cfg.root}
	for len(work) > 0 {
		m := work[0]
		work = work[1:]
		if e.done[m] {
			continue
		}
		e.done[m] = true
		work = append(work, e.method(m)...)
	}
	e.g.report(cfg.src + " (" + cfg.recvType + "." + cfg.root + ")")
	if e.g.counts["select"] == 0 {
		die("extract: (%s).%s contains no select: the transformation does not apply to this tree", cfg.recvType, cfg.root)
	}
	return e.emit()
}

// method processes one receiver method and returns the further receiver
// methods to extract.
func (e *extractor) method(name string) (more []string) {
	fd := e.methods[name]
	f := e.methFile[name]
	if fd.Body == nil {
		e.die(fd.Pos(), "method %s has no body", name)
	}
	if _, ptr := recvBase(fd); !ptr {
		e.die(fd.Pos(), "method %s has a value receiver", name)
	}
	if len(fd.Recv.List[0].Names) != 1 || fd.Recv.List[0].Names[0].Name == "_" {
		e.die(fd.Pos(), "method %s has no named receiver", name)
	}
	if fd.Type.TypeParams != nil {
		e.die(fd.Pos(), "generic method")
	}
	recv := fd.Recv.List[0].Names[0]
	top := map[ast.Node]bool{}
	for _, d := range f.Decls {
		switch x := d.(type) {
		case *ast.GenDecl:
			for _, sp := range x.Specs {
				top[sp] = true
			}
		case *ast.FuncDecl:
			top[x] = true
		}
	}

	// local channel variables (element types), before the rewrite
	ast.Inspect(fd.Body, func(n ast.Node) bool {
		switch x := n.(type) {
		case *ast.AssignStmt:
			if x.Tok == token.DEFINE && len(x.Lhs) == len(x.Rhs) {
				for i := range x.Lhs {
					id, ok := x.Lhs[i].(*ast.Ident)
					if !ok {
						continue
					}
					if et := e.g.elemType(x.Rhs[i]); et != nil {
						if sel, ok := x.Rhs[i].(*ast.SelectorExpr); ok {
							if rid, ok := sel.X.(*ast.Ident); ok && rid.Obj == recv.Obj {
								e.g.localChans[id.Name] = et
							}
						}
					}
				}
			}
		case *ast.ValueSpec:
			if ct, ok := x.Type.(*ast.ChanType); ok {
				for _, nm := range x.Names {
					e.g.localChans[nm.Name] = ct.Value
				}
			}
		}
		return true
	})

	// identifier resolution over signature and body
	more = append(more, e.resolve(fd.Type, f, top, recv.Obj)...)
	more = append(more, e.resolve(fd.Body, f, top, recv.Obj)...)

	// locals snapshot in the root method
	if name == e.cfg.root {
		e.insertLocals(fd)
	}

	// channel rewrite
	e.g.children(reflect.ValueOf(fd.Type))
	e.g.children(reflect.ValueOf(fd.Body))
	e.g.verify(fd)

	fd.Recv.List[0].Type = &ast.StarExpr{X: ast.NewIdent("Client")}
	fd.Doc = nil
	var buf bytes.Buffer
	if err := format.Node(&buf, e.fset, fd); err != nil {
		e.die(fd.Pos(), "format: %v", err)
	}
	e.outMeth = append(e.outMeth, buf.String())
	return more
}

// resolve classifies every identifier below root; it rewrites package-level
// names and records what the generated package must provide.
func (e *extractor) resolve(root ast.Node, f *ast.File, top map[ast.Node]bool, recv *ast.Object) (more []string) {
	var stack []ast.Node
	parentOf := func(k int) ast.Node {
		if len(stack) > k {
			return stack[len(stack)-1-k]
		}
		return nil
	}
	ast.Inspect(root, func(n ast.Node) bool {
		if n == nil {
			stack = stack[:len(stack)-1]
			return true
		}
		parent := parentOf(0)
		grand := parentOf(1)
		stack = append(stack, n)
		id, ok := n.(*ast.Ident)
		if !ok {
			return true
		}
		switch p := parent.(type) {
		case *ast.SelectorExpr:
			if p.Sel == id {
				return true
			}
		case *ast.KeyValueExpr:
			if _, ok := grand.(*ast.CompositeLit); ok && p.Key == id {
				return true // struct field key
			}
		case *ast.LabeledStmt:
			if p.Label == id {
				return true
			}
		case *ast.BranchStmt:
			return true
		}
		if recv != nil && id.Obj == recv {
			sel, ok := parent.(*ast.SelectorExpr)
			if !ok || sel.X != id {
				e.die(id.Pos(), "the receiver is used as a value (only receiver.field / receiver.method() are supported)")
			}
			more = append(more, e.member(sel, grand, parentOf2(stack))...)
			return true
		}
		if id.Obj != nil {
			if !top[declNode(id.Obj)] {
				return true // local
			}
			e.pkgLevel(id, f)
			return true
		}
		if universe[id.Name] {
			return true
		}
		if path, ok := e.imports[f][id.Name]; ok {
			if sel, ok := parent.(*ast.SelectorExpr); ok && sel.X == id {
				if old, dup := e.usedImp[id.Name]; dup && old != path {
					e.die(id.Pos(), "import name %s is ambiguous between files", id.Name)
				}
				e.usedImp[id.Name] = path
				return true
			}
		}
		if _, ok := e.names[id.Name]; ok {
			e.pkgLevel(id, f)
			return true
		}
		e.die(id.Pos(), "cannot resolve identifier %s", id.Name)
		return true
	})
	return more
}

// parentOf2 returns the node three levels above the identifier on the stack
// (ident, selector, grand, great).
func parentOf2(stack []ast.Node) ast.Node {
	if len(stack) >= 4 {
		return stack[len(stack)-4]
	}
	return nil
}

func declNode(o *ast.Object) ast.Node {
	if n, ok := o.Decl.(ast.Node); ok {
		return n
	}
	return nil
}

// member handles receiver.Name.
func (e *extractor) member(sel *ast.SelectorExpr, parent, grand ast.Node) (more []string) {
	name := sel.Sel.Name
	if ft, ok := e.fields[name]; ok {
		e.usedField[name] = true
		if e.fieldKind(ft) == "opaque" {
			// only recv.F.M() as a statement
			msel, ok := parent.(*ast.SelectorExpr)
			if !ok || msel.X != sel {
				e.die(sel.Pos(), "field %s has a type the extractor cannot stub and is used other than as %s.M()", name, name)
			}
			if e.opaque[name] == nil {
				e.opaque[name] = map[string]bool{}
			}
			e.opaque[name][msel.Sel.Name] = true
			e.needStmtCall(msel, grand)
		}
		return nil
	}
	if _, ok := e.methods[name]; ok {
		if name == e.cfg.root {
			return []string{name}
		}
		for _, a := range e.cfg.also {
			if a == name {
				return []string{name}
			}
		}
	}
	if _, ok := methodStubs[name]; ok {
		e.stubs[name] = true
		return nil
	}
	e.die(sel.Pos(), "receiver method or field %q is neither extractable nor in the stub table", name)
	return nil
}

// needStmtCall checks that sel is the function of a zero-argument call; the
// stub method returns nothing, so any use of a result fails to compile.
func (e *extractor) needStmtCall(sel *ast.SelectorExpr, parent ast.Node) {
	c, ok := parent.(*ast.CallExpr)
	if !ok || c.Fun != sel || len(c.Args) != 0 {
		e.die(sel.Pos(), "only zero-argument calls are supported on a stubbed field")
	}
}

func (e *extractor) fieldKind(t ast.Expr) string {
	switch x := t.(type) {
	case *ast.ChanType:
		return "chan"
	case *ast.Ident:
		if basicTypes[x.Name] {
			return "basic"
		}
	case *ast.SelectorExpr:
		if isIdent(x.X, "sync") {
			switch x.Sel.Name {
			case "Mutex", "RWMutex":
				return "mutex"
			case "WaitGroup":
				return "wg"
			}
		}
	}
	return "opaque"
}

// pkgLevel handles a reference to a package-level name of package chain.
func (e *extractor) pkgLevel(id *ast.Ident, f *ast.File) {
	name := id.Name
	pn := e.names[name]
	if pn == nil {
		e.die(id.Pos(), "package-level name %s not found", name)
	}
	if name == e.cfg.recvType {
		e.die(id.Pos(), "the receiver type is referenced by name")
	}
	if ast.IsExported(name) {
		id.Name = "chain." + name
		e.needChain = true
		return
	}
	if name == "log" {
		e.needLog = true
		return
	}
	switch pn.kind {
	case "const", "var":
		if _, ok := e.copied[name]; ok {
			return
		}
		vs := pn.spec.(*ast.ValueSpec)
		if len(vs.Names) != 1 || len(vs.Values) != 1 {
			e.die(id.Pos(), "package-level %s %s: only single-name declarations with a value can be copied", pn.kind, name)
		}
		e.copied[name] = "" // cycle guard
		top := map[ast.Node]bool{}
		for _, d := range pn.file.Decls {
			switch x := d.(type) {
			case *ast.GenDecl:
				for _, sp := range x.Specs {
					top[sp] = true
				}
			case *ast.FuncDecl:
				top[x] = true
			}
		}
		if vs.Type != nil {
			e.resolve(vs.Type, pn.file, top, nil)
		}
		e.resolve(vs.Values[0], pn.file, top, nil)
		var buf bytes.Buffer
		vs.Doc, vs.Comment = nil, nil
		if err := format.Node(&buf, e.fset, vs); err != nil {
			e.die(id.Pos(), "format: %v", err)
		}
		e.copied[name] = pn.kind + " " + buf.String()
		e.copySeq = append(e.copySeq, name)
	default:
		e.die(id.Pos(), "unexported package-level %s %s is used by the loop: not supported", pn.kind, name)
	}
}

// insertLocals registers the top-level locals declared before the loop.
func (e *extractor) insertLocals(fd *ast.FuncDecl) {
	var names []string
	at := -1
	for i, st := range fd.Body.List {
		s := st
		if l, ok := s.(*ast.LabeledStmt); ok {
			s = l.Stmt
		}
		if _, ok := s.(*ast.ForStmt); ok {
			at = i
			break
		}
		switch x := st.(type) {
		case *ast.AssignStmt:
			if x.Tok == token.DEFINE {
				for _, l := range x.Lhs {
					if id, ok := l.(*ast.Ident); ok && id.Name != "_" {
						names = append(names, id.Name)
					}
				}
			}
		case *ast.DeclStmt:
			if gd, ok := x.Decl.(*ast.GenDecl); ok && gd.Tok == token.VAR {
				for _, sp := range gd.Specs {
					for _, nm := range sp.(*ast.ValueSpec).Names {
						if nm.Name != "_" {
							names = append(names, nm.Name)
						}
					}
				}
			}
		}
	}
	if at < 0 {
		e.die(fd.Pos(), "no top-level for loop in %s: cannot place the locals snapshot", fd.Name.Name)
	}
	seen := map[string]bool{}
	var args []string
	for _, n := range names {
		if !seen[n] {
			seen[n] = true
			args = append(args, fmt.Sprintf("%q, %s", n+"=", n))
		}
	}
	src := "package p\nfunc _() {\nvsched.SetLocals(func() string { return fmt.Sprint(" + strings.Join(args, `, " ", `) + ") })\n}\n"
	pf, err := parser.ParseFile(token.NewFileSet(), "locals.go", src, parser.SkipObjectResolution)
	if err != nil {
		e.die(fd.Pos(), "locals snippet: %v", err)
	}
	stmt := pf.Decls[0].(*ast.FuncDecl).Body.List[0]
	clearPos(reflect.ValueOf(stmt))
	list := append([]ast.Stmt{}, fd.Body.List[:at]...)
	list = append(list, stmt)
	fd.Body.List = append(list, fd.Body.List[at:]...)
}

// makeCaps finds `field: make(chan T[, n])` / `x.field = make(chan T[, n])` in
// the source file.
func (e *extractor) makeCaps() map[string]string {
	caps := map[string]string{}
	set := func(field string, v ast.Expr, p token.Pos) {
		c, ok := v.(*ast.CallExpr)
		if !ok || !isIdent(c.Fun, "make") || len(c.Args) == 0 {
			return
		}
		if _, ok := c.Args[0].(*ast.ChanType); !ok {
			return
		}
		n := "0"
		if len(c.Args) == 2 {
			lit, ok := c.Args[1].(*ast.BasicLit)
			if !ok || lit.Kind != token.INT {
				e.die(p, "capacity of channel field %s is not a literal", field)
			}
			n = lit.Value
		}
		if old, ok := caps[field]; ok && old != n {
			e.die(p, "channel field %s is made with different capacities (%s, %s)", field, old, n)
		}
		caps[field] = n
	}
	ast.Inspect(e.file, func(n ast.Node) bool {
		switch x := n.(type) {
		case *ast.KeyValueExpr:
			if id, ok := x.Key.(*ast.Ident); ok && e.g.chanFields[id.Name] != nil {
				set(id.Name, x.Value, x.Pos())
			}
		case *ast.AssignStmt:
			if len(x.Lhs) == len(x.Rhs) {
				for i := range x.Lhs {
					if sel, ok := x.Lhs[i].(*ast.SelectorExpr); ok && e.g.chanFields[sel.Sel.Name] != nil {
						set(sel.Sel.Name, x.Rhs[i], x.Pos())
					}
				}
			}
		}
		return true
	})
	return caps
}

func (e *extractor) emit() []byte {
	caps := e.makeCaps() // before anything else touches the file's make calls
	var b strings.Builder
	fmt.Fprintf(&b, "package %s\n\n", e.cfg.outPkg)

	imps := map[string]string{"fmt": "fmt", "vsched": "verif/harness/c18/vsched"}
	for n, p := range e.usedImp {
		if n == "sync" {
			continue // sync types were replaced
		}
		if old, ok := imps[n]; ok && old != p {
			die("extract: import name %s clashes", n)
		}
		imps[n] = p
	}
	if e.needChain {
		imps["chain"] = "github.com/btcsuite/btcwallet/chain"
	}
	var stubNames []string
	for s := range e.stubs {
		stubNames = append(stubNames, s)
	}
	sort.Strings(stubNames)
	for _, s := range stubNames {
		for _, p := range methodStubImports[s] {
			parts := strings.Split(p, "/")
			imps[parts[len(parts)-1]] = p
		}
	}
	var in []string
	for n := range imps {
		in = append(in, n)
	}
	sort.Strings(in)
	b.WriteString("import (\n")
	for _, n := range in {
		fmt.Fprintf(&b, "\t%s %q\n", n, imps[n])
	}
	b.WriteString(")\n\nvar _ = fmt.Sprint\n\n")

	// receiver stub
	b.WriteString("// Client has the fields of " + e.cfg.recvType + " that the extracted methods use.\ntype Client struct {\n")
	var chans, opaques []string
	wgField, startedField := "", ""
	for _, f := range e.fieldSeq {
		if !e.usedField[f] {
			continue
		}
		switch e.fieldKind(e.fields[f]) {
		case "chan":
			fmt.Fprintf(&b, "\t%s *vsched.Chan\n", f)
			chans = append(chans, f)
		case "mutex":
			fmt.Fprintf(&b, "\t%s vsched.Mutex\n", f)
		case "wg":
			fmt.Fprintf(&b, "\t%s vsched.WaitGroup\n", f)
			wgField = f
		case "basic":
			fmt.Fprintf(&b, "\t%s %s\n", f, e.fields[f].(*ast.Ident).Name)
			if f == "started" && e.fields[f].(*ast.Ident).Name == "bool" {
				startedField = f
			}
		default:
			fmt.Fprintf(&b, "\t%s stub_%s\n", f, f)
			opaques = append(opaques, f)
		}
	}
	b.WriteString("}\n\n")
	for _, f := range opaques {
		fmt.Fprintf(&b, "type stub_%s struct{}\n", f)
		var ms []string
		for m := range e.opaque[f] {
			ms = append(ms, m)
		}
		sort.Strings(ms)
		for _, m := range ms {
			fmt.Fprintf(&b, "func (stub_%s) %s() {}\n", f, m)
		}
		b.WriteString("\n")
	}
	if e.needLog {
		b.WriteString(`type stubLogger struct{}

func (stubLogger) Tracef(string, ...interface{})    {}
func (stubLogger) Debugf(string, ...interface{})    {}
func (stubLogger) Infof(string, ...interface{})     {}
func (stubLogger) Warnf(string, ...interface{})     {}
func (stubLogger) Errorf(string, ...interface{})    {}
func (stubLogger) Criticalf(string, ...interface{}) {}
func (stubLogger) Trace(...interface{})             {}
func (stubLogger) Debug(...interface{})             {}
func (stubLogger) Info(...interface{})              {}
func (stubLogger) Warn(...interface{})              {}
func (stubLogger) Error(...interface{})             {}
func (stubLogger) Critical(...interface{})          {}

var log stubLogger

`)
	}
	for _, n := range e.copySeq {
		b.WriteString(e.copied[n] + "\n")
	}
	b.WriteString("\n")
	for _, s := range stubNames {
		b.WriteString(methodStubs[s] + "\n\n")
	}
	for _, m := range e.outMeth {
		b.WriteString(m + "\n\n")
	}

	// constructor and accessors
	b.WriteString("// New builds the state of a started client: channels as made in the source file,\n// fields without a make stay nil.\nfunc New() *Client {\n\tc := &Client{}\n")
	for _, f := range chans {
		if n, ok := caps[f]; ok {
			fmt.Fprintf(&b, "\tc.%s = vsched.Make(%s)\n", f, n)
		}
	}
	if startedField != "" {
		fmt.Fprintf(&b, "\tc.%s = true\n", startedField)
	}
	if wgField != "" {
		fmt.Fprintf(&b, "\tc.%s.Add(1)\n", wgField)
	}
	b.WriteString("\treturn c\n}\n\n")
	b.WriteString("func (c *Client) VerifChan(name string) *vsched.Chan {\n\tswitch name {\n")
	for _, f := range chans {
		fmt.Fprintf(&b, "\tcase %q:\n\t\treturn c.%s\n", f, f)
	}
	b.WriteString("\t}\n\tpanic(\"the extracted loop does not use channel field \" + name)\n}\n\n")
	b.WriteString("func (c *Client) VerifHasChan(name string) bool {\n\tswitch name {\n")
	if len(chans) > 0 {
		var q []string
		for _, f := range chans {
			q = append(q, strconv.Quote(f))
		}
		fmt.Fprintf(&b, "\tcase %s:\n\t\treturn true\n", strings.Join(q, ", "))
	}
	b.WriteString("\t}\n\treturn false\n}\n\n")
	b.WriteString("func (c *Client) VerifSetChan(name string, ch *vsched.Chan) {\n\tswitch name {\n")
	for _, f := range chans {
		fmt.Fprintf(&b, "\tcase %q:\n\t\tc.%s = ch\n", f, f)
	}
	b.WriteString("\t}\n}\n\n")
	if wgField != "" {
		fmt.Fprintf(&b, "func (c *Client) VerifWg() *vsched.WaitGroup { return &c.%s }\n\n", wgField)
	} else {
		b.WriteString("func (c *Client) VerifWg() *vsched.WaitGroup { return nil }\n\n")
	}
	fmt.Fprintf(&b, "func (c *Client) VerifRun() { c.%s() }\n\n", e.cfg.root)
	if e.done["Stop"] {
		b.WriteString("func (c *Client) VerifStop() { c.Stop() }\n")
	}
	return reformat(e.cfg.outPkg+"/handler.go", []byte(b.String()))
}
