//go:build c18ov

// Package c18 checks property C18 "chain notifications are delivered in order,
// none lost or duplicated" by model checking the IMPLEMENTATION: the current
// /repo/chain/queue.go is rewritten by c18/ovgen so that every channel
// operation goes through the cooperative scheduler vsched, and every
// interleaving of producer, consumer, stopper and the queue's worker goroutine
// -- including every choice among simultaneously ready select cases -- is
// executed against that code, with state hashing, to fixpoint.
//
// A second, deterministic family (deep.go) runs every burst size up to a few
// hundred items -- consumer stalled while the burst is pushed, then drained --
// once each under the canonical non-preempting schedule: exhaustive over the
// burst size, not over interleavings, and reported separately
// (deep_backlog_* counters).
package c18

import (
	"context"
	"encoding/json"
	"fmt"
	"os"
	"os/exec"
	"runtime"
	"sort"
	"strconv"
	"strings"
	"sync"
	"sync/atomic"
	"time"

	"verif/harness/c18/queue"
	"verif/harness/c18/vsched"
	"verif/harness/ev"
)

type scen struct {
	Comp string `json:"component"` // queue | neutrino | btcd
	Kind string `json:"scenario"`
	B    int    `json:"buffer"`
	N    int    `json:"burst"`
	K    int    `json:"consumer_takes"` // items the consumer receives before it stops receiving for good
	// deep backlog family (Kind "deep") only: after the first burst N was
	// pushed with no consumer and K items were taken, M more items are pushed
	// (again with no consumer), then everything is drained. M == 0: plain
	// push-N-then-drain.
	M int `json:"second_burst,omitempty"`
}

func (s scen) String() string {
	if s.Kind == "deep" {
		l := fmt.Sprintf("%s:deep/N%d", s.Comp, s.N)
		if s.Comp == "queue" {
			l = fmt.Sprintf("deep/B%d/N%d", s.B, s.N)
		}
		if s.M > 0 {
			l += fmt.Sprintf("/K%d/M%d", s.K, s.M)
		}
		return l
	}
	if s.Comp != "queue" {
		if s.Kind == "d" {
			return fmt.Sprintf("%s:%s/N%d/K%d", s.Comp, s.Kind, s.N, s.K)
		}
		return fmt.Sprintf("%s:%s/N%d", s.Comp, s.Kind, s.N)
	}
	if s.Kind == "d" {
		return fmt.Sprintf("%s/B%d/N%d/K%d", s.Kind, s.B, s.N, s.K)
	}
	return fmt.Sprintf("%s/B%d/N%d", s.Kind, s.B, s.N)
}

// label is the row of the per-scenario table (d summed over K).
func (s scen) label() string {
	l := fmt.Sprintf("%s/B%d/N%d", s.Kind, s.B, s.N)
	if s.Comp != "queue" {
		l = fmt.Sprintf("%s:%s/N%d", s.Comp, s.Kind, s.N)
	}
	if s.Kind == "d" {
		l += "/K*"
	}
	return l
}

type replay struct {
	Scenario scen     `json:"scenario"`
	What     string   `json:"what"`
	Received []int    `json:"received"`
	Sent     int      `json:"sends_completed"`
	Threads  string   `json:"threads_at_end"`
	Schedule []string `json:"schedule"`
}

type viol struct {
	Sig    string `json:"sig"`
	Msg    string `json:"msg"`
	Replay replay `json:"replay"`
	Count  int    `json:"count"`
}

type shardResult struct {
	Scen             scen           `json:"scen"`
	States           int            `json:"states"`
	Transitions      int            `json:"transitions"`
	Steps            int            `json:"steps"`
	Executions       int            `json:"executions"`
	Complete         int            `json:"complete"`
	Pruned           int            `json:"pruned"`
	Failed           int            `json:"failed"`
	MaxDepth         int            `json:"max_depth"`
	MultiReady       int            `json:"multi_ready"`
	MultiRunnable    int            `json:"multi_runnable"`
	NontrivialStates int            `json:"nontrivial_states"`
	NontrivialExecs  int            `json:"nontrivial_execs"`
	MaxOverflow      int            `json:"max_overflow"`
	Terminals        map[string]int `json:"terminals"`
	Exhaustive       bool           `json:"exhaustive"`
	Sample           []string       `json:"sample"`
	Violations       []*viol        `json:"violations"`
	WallMs           int64          `json:"wall_ms"`
}

// ------------------------------------------------------------------ harness

type shard struct {
	sc          scen
	viols       map[string]*viol
	order       []string
	nontrivExec int
	maxOverflow int
}

func (sh *shard) record(sig, msg string, r replay) {
	if v, ok := sh.viols[sig]; ok {
		v.Count++
		return
	}
	sh.viols[sig] = &viol{Sig: sig, Msg: msg, Count: 1, Replay: r}
	sh.order = append(sh.order, sig)
}

type harness struct {
	sh       *shard
	sc       scen
	s        *vsched.Sched
	q        *queue.ConcurrentQueue
	phase    int
	recv     []int
	sent     int
	stopDone bool
	gap      bool // an item was skipped while Stop had not been called
	sawOvf   bool
	failSig  string
	failMsg  string
	total    int // items the producer sends in the whole execution
	take     int // items after which the consumer stops receiving
	pLo, pHi int // the running producer sends pLo..pHi
	held     int // deep: largest backlog seen at a quiescent point
}

func (h *harness) fail(sig, msg string) {
	if h.failSig == "" {
		h.failSig, h.failMsg = sig, msg
	}
}

func (h *harness) producer() {
	in := h.q.ChanIn()
	for i := h.pLo; i <= h.pHi; i++ {
		vsched.SendAt("producer.send", in, i)
		h.sent = i
	}
}

func (h *harness) consumer() {
	out := h.q.ChanOut()
	for len(h.recv) < h.take {
		v, ok := vsched.RecvAt("consumer.recv", out)
		h.onRecv(v, ok)
		if h.failSig != "" {
			return
		}
	}
}

func (h *harness) stopper() {
	h.q.Stop()
	h.stopDone = true
}

// onRecv holds the safety oracles evaluated at every receive.
func (h *harness) onRecv(v interface{}, ok bool) {
	x, isInt := v.(int)
	if !ok || !isInt || x < 1 || x > h.total {
		h.fail("alien:item-never-sent", fmt.Sprintf("scenario %s: consumer received %v (ok=%v) after %v, which the producer never sent (sent 1..%d)", h.sc, v, ok, abbrev(h.recv), h.total))
		return
	}
	for _, r := range h.recv {
		if r == x {
			h.recv = append(h.recv, x)
			h.fail("dup:item-twice", fmt.Sprintf("scenario %s: consumer received item %d twice: %v", h.sc, x, abbrev(h.recv)))
			return
		}
	}
	if n := len(h.recv); n > 0 && x < h.recv[n-1] {
		h.recv = append(h.recv, x)
		h.fail("order:out-of-order", fmt.Sprintf("scenario %s: consumer received %v but the items were sent as 1..%d in order", h.sc, abbrev(h.recv), h.total))
		return
	}
	if x != len(h.recv)+1 && !h.stopDone {
		h.gap = true // decided later: reorder (fires above) or loss (at the end)
	}
	h.recv = append(h.recv, x)
}

func (h *harness) overflow() []interface{} { return h.q.VerifOverflow() }

func (h *harness) State() string {
	return fmt.Sprintf("%s|ph%d|recv%v|sent%d|stop%v|gap%v|ovf%v", h.sc, h.phase, h.recv, h.sent, h.stopDone, h.gap, h.overflow())
}

func (h *harness) Nontrivial() bool { return len(h.overflow()) > 0 }

func (h *harness) Observe() {
	if h.sc.Kind == "deep" {
		return // measured at the quiescent points (reading the list is linear)
	}
	if n := len(h.overflow()); n > 0 {
		h.sawOvf = true
		if n > h.sh.maxOverflow {
			h.sh.maxOverflow = n
		}
	}
}

// done: every thread of that name (the deep family starts a second producer
// and consumer after the first ones finished) has returned.
func (h *harness) done(name string) bool { return allDone(h.s, name) }

func allDone(s *vsched.Sched, name string) bool {
	for _, t := range s.Threads() {
		if t.Name == name && !t.Done() {
			return false
		}
	}
	return true
}

func (h *harness) Panicked(t *vsched.Thread) {
	h.fail("panic:"+t.PanicSite, fmt.Sprintf("scenario %s: thread %s panicked at %s: %s (received so far %v)", h.sc, t.Name, t.PanicSite, t.PanicVal, h.recv))
}

func (h *harness) Failed() bool { return h.failSig != "" }

// checkDrained is the oracle of a phase in which producer and consumer run to
// completion.
func (h *harness) checkDrained(consumerPresent bool) bool {
	if !h.done("producer") {
		if !consumerPresent {
			h.fail("producer-blocked:deadlock-without-consumer", fmt.Sprintf("scenario %s: no consumer is receiving and the producer is blocked after %d of %d sends (buffer %d); overflow=%v; threads: %s", h.sc, h.sent, h.pHi, h.sc.B, abbrevV(h.overflow()), h.s.Describe()))
		} else {
			h.fail("deadlock:"+h.sc.Kind, fmt.Sprintf("scenario %s: deadlock, producer completed %d of %d sends, consumer received %v; threads: %s", h.sc, h.sent, h.pHi, abbrev(h.recv), h.s.Describe()))
		}
		return false
	}
	if consumerPresent && (len(h.recv) != h.take || !h.done("consumer")) {
		h.fail("loss:item-missing", fmt.Sprintf("scenario %s: all %d sends completed but the consumer, asking for %d items, received only %v (missing %v) and nothing more can arrive; overflow=%v; threads: %s", h.sc, h.sent, h.take, abbrev(h.recv), missing(h.recv, h.take), abbrevV(h.overflow()), h.s.Describe()))
		return false
	}
	return true
}

func (h *harness) checkStopped() {
	if !h.done("worker") {
		h.fail("stop:worker-not-terminated", fmt.Sprintf("scenario %s: Stop() returned but the worker goroutine never returns; threads: %s", h.sc, h.s.Describe()))
	}
}

func (h *harness) Quiescent() bool {
	switch h.sc.Kind {
	case "a":
		switch h.phase {
		case 0:
			if !h.checkDrained(true) {
				return false
			}
			h.phase = 1
			vsched.GoNamed("stopper", h.stopper)
			return true
		default:
			h.checkStopped()
			return false
		}
	case "b":
		switch h.phase {
		case 0:
			if !h.checkDrained(false) {
				return false
			}
			h.phase = 1
			vsched.GoNamed("consumer", h.consumer)
			return true
		case 1:
			if !h.checkDrained(true) {
				return false
			}
			h.phase = 2
			vsched.GoNamed("stopper", h.stopper)
			return true
		default:
			h.checkStopped()
			return false
		}
	case "deep":
		return h.deepQuiescent()
	default: // "c", "d": stop at any point
		if !h.stopDone {
			h.fail("deadlock:"+h.sc.Kind, fmt.Sprintf("scenario %s: the stopper did not complete; threads: %s", h.sc, h.s.Describe()))
			return false
		}
		h.checkStopped()
		if h.gap && !h.Failed() {
			// skipped before Stop and never delivered afterwards: whether the
			// item was overtaken or dropped is decided by scenario a of the
			// same sizes; Run files this under that signature.
			h.fail(sigGap, fmt.Sprintf("scenario %s: before Stop() was called the consumer received %v: an earlier item was skipped and never arrived", h.sc, h.recv))
		}
		return false
	}
}

const sigGap = "gap:skipped-before-stop"

func (h *harness) Terminal() string {
	return fmt.Sprintf("%s recv=%v sent=%d %s", h.sc, h.recv, h.sent, h.s.Describe())
}

func (h *harness) EndOfExecution(trace []string, complete bool) {
	if h.sawOvf {
		h.sh.nontrivExec++
	}
	if h.failSig == "" {
		return
	}
	what := "schedule = scheduler decisions thread@site:case executed against the rewritten queue.go"
	if h.sc.Kind == "deep" {
		what = deepWhat + " the rewritten queue.go"
	}
	h.sh.record(h.failSig, h.failMsg, replay{
		Scenario: h.sc, What: what,
		Received: append([]int{}, h.recv...), Sent: h.sent, Threads: h.s.Describe(), Schedule: append([]string{}, trace...)})
}

// setupScen builds the initial threads of a scenario (kinds b and deep start
// without a consumer).
func setupScen(sh *shard, sc scen, s *vsched.Sched) vsched.Harness {
	if sc.Comp != "queue" {
		return setupHandler(sh, sc, s)
	}
	h := newQueueHarness(sh, sc, s)
	h.q = queue.NewConcurrentQueue(sc.B)
	s.NameNext("worker")
	h.q.Start()
	s.NameNext("")
	vsched.GoNamed("producer", h.producer)
	switch sc.Kind {
	case "a":
		vsched.GoNamed("consumer", h.consumer)
	case "c", "d":
		if sc.K > 0 {
			vsched.GoNamed("consumer", h.consumer)
		}
		vsched.GoNamed("stopper", h.stopper)
	}
	return h
}

func newQueueHarness(sh *shard, sc scen, s *vsched.Sched) *harness {
	return &harness{sh: sh, sc: sc, s: s, total: sc.N + sc.M, take: sc.K, pLo: 1, pHi: sc.N}
}

func runShard(sc scen, deadlineS int) *shardResult {
	sh := &shard{sc: sc, viols: map[string]*viol{}}
	start := time.Now()
	cfg := vsched.Config{
		Deadline:  start.Add(time.Duration(deadlineS) * time.Second),
		MaxFailed: 2000,
		Setup:     func(s *vsched.Sched) vsched.Harness { return setupScen(sh, sc, s) },
	}
	r := vsched.Explore(cfg)
	out := &shardResult{Scen: sc, States: r.States, Transitions: r.Transitions, Steps: r.Steps, Executions: r.Executions,
		Complete: r.Complete, Pruned: r.Pruned, Failed: r.Failed, MaxDepth: r.MaxDepth, MultiReady: r.MultiReady,
		MultiRunnable: r.MultiRunnable, NontrivialStates: r.NontrivialStates, NontrivialExecs: sh.nontrivExec,
		MaxOverflow: sh.maxOverflow, Terminals: r.Terminals, Exhaustive: r.Exhaustive, Sample: r.Sample,
		WallMs: time.Since(start).Milliseconds()}
	for _, k := range sh.order {
		out.Violations = append(out.Violations, sh.viols[k])
	}
	return out
}

// startWatchdog: a thread that never reaches a scheduling point (e.g. a loop
// without channel operations) cannot be explored; that is a harness limit,
// reported as such, never as a verdict. Store 1 in the result to disarm it.
func startWatchdog(label string) *int32 {
	finished := new(int32)
	go func() {
		last := atomic.LoadUint64(&vsched.Progress)
		idle := 0
		for atomic.LoadInt32(finished) == 0 {
			time.Sleep(3 * time.Second)
			now := atomic.LoadUint64(&vsched.Progress)
			if now == last {
				idle++
			} else {
				idle = 0
			}
			last = now
			if idle >= 3 && atomic.LoadInt32(finished) == 0 {
				fmt.Fprintf(os.Stderr, "HARNESS-ERROR: c18 %s: a thread did not reach a scheduling point for 9 s (loop without channel operations?)\n", label)
				os.Exit(2)
			}
		}
	}()
	return finished
}

func shardMain(args []string) {
	if len(args) != 6 {
		ev.Fatal("usage: shard <component> <kind> <B> <N> <K> <deadline_s>")
	}
	comp := args[0]
	args = args[1:]
	b, _ := strconv.Atoi(args[1])
	n, _ := strconv.Atoi(args[2])
	k, _ := strconv.Atoi(args[3])
	dl, _ := strconv.Atoi(args[4])
	vsched.HarnessError = func(msg string) {
		fmt.Fprintf(os.Stderr, "HARNESS-ERROR: c18 %s %s/B%d/N%d/K%d: %s\n", comp, args[0], b, n, k, msg)
		os.Exit(2)
	}
	finished := startWatchdog(fmt.Sprintf("%s %s/B%d/N%d/K%d", comp, args[0], b, n, k))
	res := runShard(scen{Comp: comp, Kind: args[0], B: b, N: n, K: k}, dl)
	atomic.StoreInt32(finished, 1)
	enc := json.NewEncoder(os.Stdout)
	if err := enc.Encode(res); err != nil {
		ev.Fatal("encode: %v", err)
	}
	os.Exit(0)
}

// --------------------------------------------------------------------- Run

// Run is the check entry point: args[0] is quick|thorough (or the internal
// `shard` sub-command).
func Run(args []string) {
	if len(args) > 0 && args[0] == "shard" {
		shardMain(args[1:])
		return
	}
	if len(args) > 0 && args[0] == "deepshard" {
		deepShardMain(args[1:])
		return
	}
	run := ev.NewRun("C18", "model_checking", args)
	maxB, maxN, deadlineS := 3, 5, 30
	if run.Thorough() {
		maxB, maxN, deadlineS = 5, 9, 480
	}
	// development knobs (bounds are reported in the evidence)
	if n, err := strconv.Atoi(os.Getenv("C18_MAXB")); err == nil && n >= 0 {
		maxB = n
	}
	if n, err := strconv.Atoi(os.Getenv("C18_MAXN")); err == nil && n >= 1 {
		maxN = n
	}
	if s := os.Getenv("VERIF_DEADLINE_S"); s != "" {
		if n, err := strconv.Atoi(s); err == nil && n > 0 {
			deadlineS = n
		}
	}
	// simplest first: burst, then buffer, then scenario
	var scens []scen
	for n := 1; n <= maxN; n++ {
		for b := 0; b <= maxB; b++ {
			for _, k := range []string{"a", "b", "c"} {
				scens = append(scens, scen{Comp: "queue", Kind: k, B: b, N: n, K: n})
			}
			for k := 0; k < n; k++ {
				scens = append(scens, scen{Comp: "queue", Kind: "d", B: b, N: n, K: k})
			}
		}
	}
	// The clients' handler loops: every scenario for small bursts, the
	// consumer-absent-then-drain scenario for EVERY burst length up to hMax,
	// and the interleaved scenarios for a few long bursts.
	hSmall, hMax := 5, 40
	longA, longC, longD := []int{8, 16, 24, 33, 40}, []int{8, 16, 20}, []int{8, 16}
	if run.Thorough() {
		hSmall, hMax = 7, 70
		longA = []int{8, 16, 24, 32, 33, 34, 40, 48, 64, 65, 70}
		longC = []int{8, 16, 24, 33, 40}
		longD = []int{8, 16, 24, 33}
	}
	if n, err := strconv.Atoi(os.Getenv("C18_HMAX")); err == nil && n >= 1 {
		hMax = n
	}
	in := func(l []int, n int) bool {
		for _, x := range l {
			if x == n {
				return true
			}
		}
		return false
	}
	for _, comp := range []string{"neutrino", "btcd"} {
		for n := 1; n <= hMax; n++ {
			small := n <= hSmall
			if small || in(longA, n) {
				scens = append(scens, scen{Comp: comp, Kind: "a", B: 0, N: n, K: n})
			}
			scens = append(scens, scen{Comp: comp, Kind: "b", B: 0, N: n, K: n})
			if small || in(longC, n) {
				scens = append(scens, scen{Comp: comp, Kind: "c", B: 0, N: n, K: n})
			}
			if small {
				scens = append(scens, scen{Comp: comp, Kind: "r", B: 0, N: n, K: n})
				for k := 0; k < n; k++ {
					scens = append(scens, scen{Comp: comp, Kind: "d", B: 0, N: n, K: k})
				}
			} else if in(longD, n) {
				scens = append(scens, scen{Comp: comp, Kind: "d", B: 0, N: n, K: 0}, scen{Comp: comp, Kind: "d", B: 0, N: n, K: n / 2})
			}
		}
	}
	// Deep backlog family (deep.go): every burst 1..deepMax, one canonical
	// execution per (component, burst, split); bursts are dealt round-robin
	// to deepStride processes per component.
	deepMax, deepStride := 300, 8
	deepBufs := []int{0, 1, 20}
	if run.Thorough() {
		deepMax, deepStride = 1200, 16
	}
	if n, err := strconv.Atoi(os.Getenv("C18_DEEPMAX")); err == nil && n >= 0 {
		deepMax = n
	}
	type deepJob struct {
		g     deepGroup
		first int
	}
	var deepJobs []deepJob
	var deepGroups []deepGroup
	for _, b := range deepBufs {
		deepGroups = append(deepGroups, deepGroup{"queue", b})
	}
	deepGroups = append(deepGroups, deepGroup{"neutrino", 0}, deepGroup{"btcd", 0})
	for _, g := range deepGroups {
		for f := 1; f <= deepStride && f <= deepMax; f++ {
			deepJobs = append(deepJobs, deepJob{g, f})
		}
	}
	deepResults := make([]*deepResult, len(deepJobs))
	results := make([]*shardResult, len(scens))
	errs := make([]string, len(scens)+len(deepJobs))
	var wg sync.WaitGroup
	// most expensive scenarios first on the pool (estimated: re-execution
	// makes the cost cubic in the burst); results are consumed in list order
	weight := func(sc scen) float64 {
		n := float64(sc.N + sc.B)
		w := n * n * n
		if sc.Comp != "queue" {
			switch sc.Kind {
			case "b":
				w = n * n / 10
			case "c", "d":
				w *= 6
			case "r":
				w *= 3
			}
			if sc.Comp == "neutrino" {
				w *= 2.5
			}
		}
		return w
	}
	orderIdx := make([]int, len(scens))
	for i := range orderIdx {
		orderIdx[i] = i
	}
	sort.SliceStable(orderIdx, func(a, b int) bool { return weight(scens[orderIdx[a]]) > weight(scens[orderIdx[b]]) })
	// the deep shards are the longest single jobs: they go first
	idx := make(chan int, len(scens)+len(deepJobs))
	for j := range deepJobs {
		idx <- len(scens) + j
	}
	for _, i := range orderIdx {
		idx <- i
	}
	close(idx)
	nw := runtime.NumCPU()
	if nw > 16 {
		nw = 16
	}
	ctx, cancel := context.WithCancel(context.Background())
	defer cancel()
	for w := 0; w < nw; w++ {
		wg.Add(1)
		go func() {
			defer wg.Done()
			for i := range idx {
				if ctx.Err() != nil {
					return // a shard reported a harness error: stop
				}
				if i >= len(scens) {
					j := deepJobs[i-len(scens)]
					cmd := exec.CommandContext(ctx, "/proc/self/exe", "deepshard", j.g.comp, strconv.Itoa(j.g.b), strconv.Itoa(j.first), strconv.Itoa(deepStride), strconv.Itoa(deepMax), strconv.Itoa(deadlineS))
					var stderr strings.Builder
					cmd.Stderr = &stderr
					out, err := cmd.Output()
					if err != nil {
						if ctx.Err() == nil {
							errs[i] = fmt.Sprintf("deep shard %s first=%d: %v: %s", j.g.name(), j.first, err, strings.TrimSpace(stderr.String()))
						}
						cancel()
						return
					}
					var r deepResult
					if err := json.Unmarshal(out, &r); err != nil {
						errs[i] = fmt.Sprintf("deep shard %s first=%d: bad output: %v", j.g.name(), j.first, err)
						cancel()
						return
					}
					deepResults[i-len(scens)] = &r
					continue
				}
				sc := scens[i]
				cmd := exec.CommandContext(ctx, "/proc/self/exe", "shard", sc.Comp, sc.Kind, strconv.Itoa(sc.B), strconv.Itoa(sc.N), strconv.Itoa(sc.K), strconv.Itoa(deadlineS))
				var stderr strings.Builder
				cmd.Stderr = &stderr
				out, err := cmd.Output()
				if err != nil {
					if ctx.Err() == nil {
						errs[i] = fmt.Sprintf("shard %s: %v: %s", sc, err, strings.TrimSpace(stderr.String()))
					}
					cancel()
					return
				}
				var r shardResult
				if err := json.Unmarshal(out, &r); err != nil {
					errs[i] = fmt.Sprintf("shard %s: bad output: %v", sc, err)
					cancel()
					return
				}
				results[i] = &r
			}
		}()
	}
	wg.Wait()
	for _, e := range errs {
		if e != "" {
			ev.Fatal("%s", e)
		}
	}

	var tot shardResult
	tot.Exhaustive = true
	terminals := map[string]bool{}
	rows := map[string]*shardResult{} // per (scenario, buffer, burst); d summed over K
	var rowOrder []string
	var samples []string
	wantSample := map[string]bool{"a/B0/N1": true, "b/B1/N3": true, "c/B1/N2": true, "d/B1/N3/K1": true, "neutrino:a/N1": true, "btcd:b/N2": true}
	comps := map[string]*shardResult{}
	compScens := map[string]int{}
	compMaxN := map[string]int{}
	for _, r := range results {
		tot.States += r.States
		tot.Transitions += r.Transitions
		tot.Steps += r.Steps
		tot.Executions += r.Executions
		tot.Complete += r.Complete
		tot.Pruned += r.Pruned
		tot.Failed += r.Failed
		tot.MultiReady += r.MultiReady
		tot.MultiRunnable += r.MultiRunnable
		tot.NontrivialStates += r.NontrivialStates
		tot.NontrivialExecs += r.NontrivialExecs
		if r.MaxDepth > tot.MaxDepth {
			tot.MaxDepth = r.MaxDepth
		}
		if r.MaxOverflow > tot.MaxOverflow {
			tot.MaxOverflow = r.MaxOverflow
		}
		if !r.Exhaustive {
			tot.Exhaustive = false
		}
		for t := range r.Terminals {
			terminals[t] = true
		}
		cname := map[string]string{"queue": "queue.go ConcurrentQueue", "neutrino": "neutrino.go notificationHandler", "btcd": "btcd.go handler"}[r.Scen.Comp]
		ct := comps[cname]
		if ct == nil {
			ct = &shardResult{Exhaustive: true}
			comps[cname] = ct
		}
		compScens[cname]++
		if r.Scen.N > compMaxN[cname] {
			compMaxN[cname] = r.Scen.N
		}
		ct.States += r.States
		ct.Transitions += r.Transitions
		ct.Steps += r.Steps
		ct.Executions += r.Executions
		ct.Complete += r.Complete
		ct.Failed += r.Failed
		ct.MultiReady += r.MultiReady
		ct.NontrivialStates += r.NontrivialStates
		ct.WallMs += r.WallMs
		if r.MaxDepth > ct.MaxDepth {
			ct.MaxDepth = r.MaxDepth
		}
		ct.Exhaustive = ct.Exhaustive && r.Exhaustive
		label := r.Scen.label()
		row := rows[label]
		if row == nil {
			row = &shardResult{Exhaustive: true, Terminals: map[string]int{}}
			rows[label] = row
			rowOrder = append(rowOrder, label)
		}
		row.States += r.States
		row.Transitions += r.Transitions
		row.Executions += r.Executions
		row.Complete += r.Complete
		row.Pruned += r.Pruned
		row.Failed += r.Failed
		row.MultiReady += r.MultiReady
		row.NontrivialStates += r.NontrivialStates
		row.WallMs += r.WallMs
		if r.MaxDepth > row.MaxDepth {
			row.MaxDepth = r.MaxDepth
		}
		if r.MaxOverflow > row.MaxOverflow {
			row.MaxOverflow = r.MaxOverflow
		}
		row.Exhaustive = row.Exhaustive && r.Exhaustive
		for t := range r.Terminals {
			row.Terminals[t]++
		}
		if wantSample[r.Scen.String()] && len(r.Sample) > 0 {
			samples = append(samples, fmt.Sprintf("%s first complete schedule (%d steps): %s", r.Scen, len(r.Sample), strings.Join(r.Sample, " ; ")))
		}
	}
	// One root cause, one signature: an item skipped before Stop (scenarios
	// c, d) is an overtaken item if any execution shows the reordering, else
	// a lost one.
	gapSig := "loss:item-missing"
	for _, r := range results {
		for _, v := range r.Violations {
			if v.Sig == "order:out-of-order" {
				gapSig = v.Sig
			}
		}
	}
	for _, r := range results {
		for _, v := range r.Violations {
			sig := v.Sig
			if sig == sigGap {
				sig = gapSig
			}
			for i := 0; i < v.Count; i++ {
				run.Violation(sig, v.Msg, v.Replay)
			}
		}
	}
	// deep backlog family: reported after the exploration (its witnesses are
	// the longer ones), smallest burst first
	for _, r := range deepResults {
		if r == nil {
			ev.Fatal("a deep backlog shard reported nothing")
		}
	}
	deepTot, deepPer, deepViols := mergeDeep(deepResults)
	for _, v := range deepViols {
		for i := 0; i < v.Count; i++ {
			run.Violation(v.Sig, v.Msg, v.Replay)
		}
	}
	deepBursts, deepContig := contiguous(deepTot.Bursts)
	if deepMax > 0 && (deepTot.Executions == 0 || deepBursts != deepMax || !deepContig || len(deepPer) != len(deepGroups)) {
		ev.Fatal("deep backlog family: executed %d scenarios over %d bursts (contiguous from 1: %v) for %d components, expected every burst 1..%d for %d components", deepTot.Executions, deepBursts, deepContig, len(deepPer), deepMax, len(deepGroups))
	}
	deepComponents := map[string]interface{}{}
	for name, p := range deepPer {
		sort.Ints(p.Bursts)
		nb, contig := contiguous(p.Bursts)
		if deepMax > 0 && (nb != deepMax || !contig) {
			ev.Fatal("deep backlog family: %s was run for %d bursts, expected every burst 1..%d", name, nb, deepMax)
		}
		deepComponents[name] = map[string]interface{}{
			"bursts_each_run": nb, "executions": p.Executions, "plain_push_then_drain": p.Plain, "split_push_take_push_drain": p.Split,
			"complete_executions": p.Complete, "violating_executions": p.Failed, "cut_at_step_bound_or_deadline": p.Aborted,
			"scheduler_steps_executed": p.Steps, "longest_execution_steps": p.MaxSteps, "max_items_held": p.MaxHeld,
			"max_items_delivered_in_one_execution": p.MaxTotal, "every_burst_run": p.Exhaustive, "cpu_ms": p.WallMs,
		}
	}
	var table []map[string]interface{}
	for _, label := range rowOrder {
		r := rows[label]
		table = append(table, map[string]interface{}{
			"scenario": label, "states": r.States, "transitions": r.Transitions, "executions": r.Executions,
			"complete_executions": r.Complete, "pruned_at_visited_state": r.Pruned, "max_depth": r.MaxDepth,
			"multi_ready_select_points": r.MultiReady, "states_with_overflow": r.NontrivialStates, "max_overflow_len": r.MaxOverflow,
			"distinct_terminal_observations": len(r.Terminals), "violating_executions": r.Failed, "exhaustive": r.Exhaustive, "cpu_ms": r.WallMs,
		})
	}
	components := map[string]interface{}{}
	for name, ct := range comps {
		if ct.States == 0 || ct.Executions == 0 {
			ev.Fatal("nothing was explored for %s", name)
		}
		components[name] = map[string]interface{}{
			"scenarios": compScens[name], "max_burst": compMaxN[name], "states": ct.States, "transitions": ct.Transitions,
			"executions": ct.Executions, "complete_executions": ct.Complete, "violating_executions": ct.Failed,
			"scheduler_steps_executed": ct.Steps, "max_depth": ct.MaxDepth, "select_points_multi_ready": ct.MultiReady,
			"nontrivial_states": ct.NontrivialStates, "exhaustive": ct.Exhaustive, "cpu_ms": ct.WallMs,
		}
	}
	if len(components) != 3 {
		ev.Fatal("expected three components, explored %d", len(components))
	}
	if tot.States == 0 || tot.Executions == 0 {
		ev.Fatal("nothing was explored")
	}
	var terms []string
	for t := range terminals {
		terms = append(terms, t)
	}
	sort.Strings(terms)
	for i := 0; i < len(terms) && i < 3; i++ {
		samples = append(samples, "terminal observation: "+terms[i*(len(terms)/3+1)%len(terms)])
	}
	samples = append(samples, deepTot.Samples...)
	if len(samples) == 0 {
		samples = []string{"(no complete execution)"}
	}
	run.Assumption = []string{
		"channel semantics are those of the vsched model (Go memory model / runtime select semantics: ready cases chosen arbitrarily, default only if nothing is ready, FIFO wait queues, direct hand-off to parked counterparts); the rewritten queue.go and the extracted handler loops of neutrino.go / btcd.go (with each client's real Stop) are generated from the current tree at check time",
		"handler loops run against a generated receiver: GetBestBlock returns a fixed stamp, log calls and the rpc client's Shutdown/WaitForShutdown are no-ops, clientMtx/quitMtx are modelled mutexes, rescanErr is nil (no rescan running); producers use the clients' own `select { case enqueue <- n: case <-quit: }` idiom, the consumer ranges over dequeueNotification",
		"channel operations are the only scheduling points: code between two channel operations of a thread touches only thread-local data (overflow list is worker-local, observations are consumer-local)",
		"the canonical state covers the worker's locals through its pending operation (site and offered values) and the overflow list; a mutated worker with further hidden locals could be pruned too early",
		"termination claims are about maximal executions of the finite system (every thread that can move eventually moves)",
		fmt.Sprintf("deep backlog family (deep_backlog_* counters): an exhaustive enumeration over the burst size (every N in 1..%d, plain push-N-then-drain plus the splits (take N/2, push N/2), (take N-1, push N), (take ceil(N/4), push N)) and NOT over interleavings: each scenario is executed once, under the canonical non-preempting schedule (the thread that moved last goes on while it has a pending operation, else the lowest-numbered runnable thread; first ready select case), with the consumer absent while a burst is pushed and the producer absent while the backlog is drained; a defect that needs a backlog of more than %d items, or a deep backlog together with a particular interleaving of producer and consumer, is outside both families", deepMax, deepTot.MaxHeld),
	}
	run.Finish(ev.Coverage{
		"states":                         tot.States,
		"transitions":                    tot.Transitions,
		"traces_validated_against_impl":  tot.Executions,
		"executions":                     tot.Executions,
		"complete_executions":            tot.Complete,
		"pruned_at_visited_state":        tot.Pruned,
		"violating_executions":           tot.Failed,
		"scheduler_steps_executed":       tot.Steps,
		"max_depth":                      tot.MaxDepth,
		"distinct_terminal_observations": len(terminals),
		"select_points_multi_ready":      tot.MultiReady,
		"states_multi_runnable":          tot.MultiRunnable,
		"scenarios":                      len(scens),
		"per_scenario":                   table,
		"components":                     components,
		"handler_bounds":                 fmt.Sprintf("per client (neutrino, btcd): bursts 1..%d with scenarios a, b, c, r (a plus two concurrent BlockStamp() readers), d with K=0..burst-1; scenario b (no consumer until the producer finished, then drain, then Stop) for EVERY burst 1..%d; a for bursts %v; c for bursts %v; d with K in {0, burst/2} for bursts %v", hSmall, hMax, longA, longC, longD),
		"bounds":                         fmt.Sprintf("queue.go: buffer sizes 0..%d x burst lengths 1..%d x scenarios {a: producer||consumer||worker then Stop, b: no consumer until the producer finished, then late consumer, then Stop, c: a with Stop() at any point, d: c with a consumer that stops receiving for good after K items, K=0..burst-1}; unbounded preemptions, no depth bound", maxB, maxN),
		"exhaustive":                     tot.Exhaustive && deepTot.Exhaustive,
		"exhaustive_interleavings_small_scenarios": tot.Exhaustive,
		"deep_backlog_every_burst_run":             deepTot.Exhaustive,
		"deep_backlog_executions":                  deepTot.Executions,
		"deep_backlog_bursts_each_run":             deepBursts,
		"deep_backlog_plain_executions":            deepTot.Plain,
		"deep_backlog_split_executions":            deepTot.Split,
		"deep_backlog_complete_executions":         deepTot.Complete,
		"deep_backlog_violating_executions":        deepTot.Failed,
		"deep_backlog_cut_executions":              deepTot.Aborted,
		"deep_backlog_steps_executed":              deepTot.Steps,
		"deep_backlog_longest_execution_steps":     deepTot.MaxSteps,
		"deep_backlog_multi_choice_decisions":      deepTot.MultiChoice,
		"deep_backlog_executions_with_backlog":     deepTot.Nontrivial,
		"deep_backlog_max_items":                   deepTot.MaxHeld,
		"deep_backlog_max_overflow_len":            deepTot.MaxOverflow,
		"deep_backlog_max_items_delivered":         deepTot.MaxTotal,
		"deep_backlog_components":                  deepComponents,
		"deep_backlog_bounds":                      fmt.Sprintf("per component (queue.go with buffer sizes %v, neutrino handler, btcd handler): EVERY burst N in 1..%d: push N with no consumer, drain, Stop; and for N >= 2 the splits (K,M) in {(N/2,N/2), (N-1,N), (ceil(N/4),N)}: push N, consumer takes K and stalls, push M more, drain all N+M, Stop; ONE execution each under the canonical non-preempting schedule (enumeration over N, not over interleavings)", deepBufs, deepMax),
		"samples":                                  samples,
		"evaluations":                              tot.Executions,
		"distinct_nontrivial":                      tot.NontrivialStates,
		"executions_with_overflow":                 tot.NontrivialExecs,
		"max_overflow_len":                         tot.MaxOverflow,
		"rule":                                     "two families. (1) deep backlog (deep_backlog_* counters, not included in states/transitions/executions/evaluations/distinct_nontrivial): one canonical-schedule execution per (component, burst N, split), for every N up to the bound -- exhaustive over N, not over interleavings; non-trivial = executions in which at least two items were held undelivered. (2) exploration: every reachable canonical state (thread pcs/pending operations, channel buffers and wait queues, closed flags, overflow list, observations) of every scenario; non-trivial = distinct states in which the overflow list is non-empty (queue.go) / in which the handler holds at least two undelivered notifications (handler loops)",
	})
}
