#!/usr/bin/env python3
"""Regenerates MANIFEST.json from the table below (kept valid at all times)."""
import json, subprocess
ALL = ["C%02d" % i for i in range(1, 21)]
MC, FE, EX = "model_checking", "fault_enumeration", "exploration"
checks = {
 "C01": dict(engine="txgraph", level=MC, ref="4/C01",
   text="Explicit-state BFS over the real wtxmgr.Store to fixpoint for every transaction-graph universe in the bound; in every reached state Balance for every (minconf, sync height), UnspentOutputs and OutputsToWatch are compared with a reference ledger written from the statement.",
   note="Small scope: <=3 generated (+curated 4-tx) transactions, heights 1..3, two block ids per height, coinbase maturity scaled to 2; events applied as wallet.addRelevantTx does; reference ledger trusted.",
   technique="explicit-state model checking of the implementation (BFS with state hashing to fixpoint) against a lock-step reference model"),
 "C02": dict(engine="txgraph", level=MC, ref="4/C02",
   text="Same state graph; states are grouped by final facts and every group must be observationally identical (balances, unspent, details, unmined set) and identical to the direct construction of those facts, which is executed explicitly.",
   note="Same bounds as C01; only observations are compared (raw bytes legitimately depend on the path).",
   technique="explicit-state model checking: observational equivalence of all states with equal final facts + differential against direct construction"),
 "C13": dict(engine="txgraph", level=MC, ref="4/C13",
   text="Same state graph; in every state TxDetails, UniqueTxDetails for every block and nil, RangeTransactions for every (begin,end) in both directions and PreviousPkScripts are compared with the reference ledger.",
   note="Same bounds as C01; order inside the unmined group of RangeTransactions is unspecified and not compared.",
   technique="explicit-state model checking of the implementation against a lock-step reference model"),
 "C12": dict(engine="txgraph", level=MC, ref="4/C12",
   text="Explicit-state BFS to fixpoint over chain events plus lease/release (two lock ids, every output of the universe and an unknown outpoint), 1-second clock ticks, expiry sweep and restart, on the real store with a controlled clock; return values, ListLockedOutputs, balances and the unspent set are compared with a lease table model in every state; real commit+close+reopen is validated for every state of the first universe(s).",
   note="Whole-second instants (storage format), clock +0..+3 s, lease duration 2 s, heights 1..2; cases the statement leaves open (output already spent by a confirmed tx, release of an unknown output) follow the implementation.",
   technique="explicit-state model checking of the implementation with a controlled clock against a lock-step lease model"),
 "C14": dict(engine="maporder", level=EX, ref="4/C14",
   text="DependencySort is executed on every DAG with <=4 nodes and 0/1/2 parallel edges per ordered pair (thorough: 5 nodes, 0/1 edges) under every combination of iteration orders of its map ranges (owned through a generated overlay), and Store.UnminedTxs in every reachable state of the tx-graph universes under every map order; result must be a permutation with parents first.",
   note="Map iteration order is the only nondeterminism and is enumerated exhaustively through the ovgen overlay generated from the current tree; graphs beyond 5 nodes not covered.",
   technique="exhaustive enumeration of inputs x all map-iteration orders (controlled nondeterminism) on the real code"),
 "C03": dict(engine="seqx", level=MC, ref="4/C03",
   text="Every operation sequence up to depth 3 (thorough 4 on a reduced alphabet) over next/extend/lookup/derive/mark-used/lock/unlock/passphrase change/new account/imported xpub account/imports/restart is executed on a real manager, per seed (incl. one whose coin-type key has a leading zero byte), per key scope (4 default + custom) and from several base states; after the last operation every address issued so far, however obtained, is compared with an independent BIP32 (legacy rule) derivation, and the private key with its public key.",
   note="State = operation history (live managers cannot be cloned), so the search is stateless bounded-depth; refbip32 and btcutil address encoders are trusted; depth and alphabet are the bound.",
   technique="bounded exhaustive enumeration of operation sequences on the implementation (stateless model checking) against an independent reference derivation"),
 "C17": dict(engine="c17", level=EX, ref="4/C17",
   text="Every single-bit flip, every truncation and 1-3 byte extensions of ciphertexts for all plaintext lengths 0..48 (thorough 0..160) under 4 keys, wrong keys, nonce reuse, every near-miss passphrase of a passphrase set, every truncation/bit flip of the marshalled parameters; the same table through Manager.Encrypt/Decrypt for the three key types and across restart.",
   note="Exhaustive over the stated finite grids only; scrypt cost parameters reduced (not observed by the property). Two genuine findings are listed in known_findings.txt.",
   technique="exhaustive enumeration of a bounded input space on the real code"),
 "C19": dict(engine="c19", level=EX, ref="4/C19",
   text="migration.Upgrade is run inside a real walletdb transaction for every non-empty version table over {1..4} (thorough {1..6}), every declaration order, every nil/ok/fail assignment and every stored version, alone and as two services in one call, against a sorted-filter model with full database dump comparison; wallet.Open is run on real wallet files with every combination of overwritten wtxmgr/waddrmgr versions.",
   note="Exhaustive over the stated finite grids; migrations of the harness manager write marker keys so that rollback is observable.",
   technique="exhaustive enumeration of a bounded input space on the real code with a reference model"),
 "C05": dict(engine="seqx", level=MC, ref="4/C05",
   text="Every sequence up to depth 3 (thorough 4 reduced) over unlock(right/wrong/old)/lock/passphrase change(priv,pub)/address, cache-warming, import and account operations/restart/convert-to-watching-only; in the reached state every private-material accessor is applied to every managed address and path and must fail while locked or watching-only, the build-tagged hook must report every clear-text buffer wiped after each lock (explicit or by failed unlock), wrong/old passphrases must fail and leave it locked and the current one must unlock.",
   note="State = operation history; clear text in unreachable objects or caller-held copies cannot be inspected; error classes other than locked/watching-only are recorded, not required.",
   technique="bounded exhaustive enumeration of operation sequences on the implementation (stateless model checking) with an access-control table and a memory-inspection hook as oracle"),
 "C08": dict(engine="seqx", level=MC, ref="4/C08",
   text="Every operation sequence up to depth 3 in which each mutating operation is tried both committed and rolled-back-after-success; at the commit boundary after the last operation the full observation vector (issued addresses with metadata, next indices, last addresses, names, properties, used flags, sync state, block hashes) of the live manager is compared with a manager freshly opened on a copy of the database, and before a committed issuing call a restarted copy is asked which address it would issue. Failing sequences are delta-debugged to name the culprit operation.",
   note="State = operation history; queries about addresses that were never issued by a committed operation are counted (Q3) but not required to agree. Four rollback leaks are listed as known findings.",
   technique="bounded exhaustive enumeration of operation sequences with commit/rollback outcomes on the implementation, differential oracle live manager vs freshly opened manager"),
 "C18": dict(engine="vsched-chan", level=MC, ref="4/C18",
   text="The current chain/queue.go is rewritten (AST pass, at check time) so that every channel operation, select and goroutine start goes through a cooperative scheduler; all interleavings of producer, consumer, stopper and the queue's worker and all choices among simultaneously ready select cases are explored by DFS with a visited set on the full canonical state, to fixpoint with unbounded preemptions, for buffer sizes 0..3 and bursts 1..5 (thorough 0..5 / 1..9); FIFO/no-loss/no-duplication are checked at every receive and terminal state, producer progress without consumer, and worker termination after Stop.",
   note="Channel operations are the only scheduling points (code between them is thread-local in queue.go); memory-model effects are out of scope of a cooperative scheduler; constructs the rewriter does not understand make the check exit 2, never 0.",
   technique="stateful model checking of the implementation under a controlled scheduler (all interleavings + all select choices, state hashing, fixpoint)"),
 "C04": dict(engine="seqx", level=MC, ref="4/C04",
   text="Every operation sequence up to depth 3 (thorough 4 reduced) over derive/new account/new scope/imports/passphrase changes/lock/unlock/convert-to-watching-only/restart on a real manager; at the commit boundary after the last operation the raw database file (all pages including freed ones) is scanned for every secret that can exist for the seed in raw, hex and serialized text form and for every sensitive public datum (no transaction is recorded in these histories); the image written by wallet.Create is scanned too; after conversion and reopen every address must still be known, no passphrase may unlock and no accessor may return private material.",
   note="Patterns torn across a page boundary of a partially written commit are not modelled; secrets come from the independent reference derivation for a superset of what the alphabet can create.",
   technique="bounded exhaustive enumeration of operation sequences on the implementation with a byte-level scan of the file image at every commit boundary"),
 "C10": dict(engine="faultdb", level=FE, ref="4/C10",
   text="For every (state, mutating operation) pair of the address manager (next/extend/new account/imported xpub account/rename/mark used/imports/passphrase changes/convert to watching-only/set synced/new scope, from several states) and for every chain event, lease, release, sweep and label operation of the transaction store from every reachable state of the curated tx-graph universes, a fault-free run counts the database writes N and then each of the N write positions is failed in turn through a proxy of the walletdb interfaces. Oracle: success implies full effect (observations of live and restarted manager and database key structure, or the store dump, equal the fault-free run); an error implies that after rollback database bytes and manager answers are as before; a retry gives the fault-free result.",
   note="Single-fault model (exactly one failing write per operation); faults in reads and in commit itself are not injected; answers about never-issued addresses are not compared.",
   technique="exhaustive fault-position enumeration on the real code through an interface proxy, differential against the fault-free run"),
 "C15": dict(engine="wsim", level=MC, ref="4/C15",
   text="The real wallet (Create/Open/Start/SynchronizeRPC, notification loop, syncWithChain, rollback loop, rescan hand-over) is driven against a block-tree chain model through a fake chain.Interface; every sequence of up to 4 (thorough 5) evolution steps over extend (empty / paying the wallet / spending a wallet output / re-confirming reorged txs), disconnect, duplicate and stale disconnect notifications, restart, offline extension and offline reorgs of depth 1-2, in three notification orders, is executed; after every step SyncedTo must equal the model tip, BlockHash(h) the best-chain hash for every height in the window, and every transaction's block field must be the model's best-chain block.",
   note="Chains of height <= 5 (MaxReorgDepth 10000 is never reached, stale-height pruning not exercised); all notifications are sent sequentially by the harness; the wallet's own goroutines run free but are driven so that the pipeline is sequential (barrier + quiescence detection).",
   technique="bounded exhaustive enumeration of chain evolutions against the real wallet (stateless model checking) with a chain model as oracle"),
 "C06": dict(engine="wsim", level=MC, ref="4/C06",
   text="Real wallet states are built through wsim for every tuple of 1-2 coins (thorough: all pairs + triples) over {P2PKH, nested P2WPKH, P2WPKH, P2TR} x {account 0,1} x 11 statuses (unconfirmed, 1 conf, deep, coinbase immature/mature, spent by unconfirmed/confirmed tx, rolled back, user-locked, leased, lease expired); in every state every request over scope x account x minconf x amount x selection strategy (largest + every preference order) x every explicit input subset (and duplicated selections) x dry-run is issued through CreateSimpleTx, SendOutputs, SendOutputsWithInput, FundPsbt without and with pre-set inputs, plus all orderings of three successive sends; inputs are checked against an independently recomputed eligible set, explicit ineligible selections must be refused, later sends must not reuse inputs, every signed input is verified with the script engine under standard flags.",
   note="Small scope (<=3 coins, fee rates 1000/3000 sat/kvB, no watch-only or imported accounts); a stricter-than-required wallet is not detected; the FundPsbt pre-set-input family is listed in known_findings.txt.",
   technique="bounded exhaustive enumeration of wallet states x requests on the real wallet (stateless model checking) with an independent eligibility oracle and script verification"),
 "C11": dict(engine="c11", level=MC, ref="4/C11",
   text="Explicit-state BFS to fixpoint over the logical content of a real bdb database (nested map of buckets/keys/values/sequences over small alphabets): each transition is one whole transaction of kind Update/View/Batch/manual begin+commit/manual begin+rollback/read tx x a program of <=2 (thorough 3) operations (put, delete, get, nested bucket create/delete/open, sequences, ForEach, cursor walks in both directions, cursor delete) x outcome (nil, error, panic), or close+reopen; every read and every mutator error class is compared in lock-step with a nested-map model including own writes; after each transaction a fresh dump must equal the model (updated only on commit); the writer lock is probed after every failed transaction; whole commit histories are replayed without restores.",
   note="Bounded alphabets (5 keys + empty key, 2 values, 2 bucket names, depth 2); cursor behaviour after a mid-walk mutation other than the documented cursor.Delete is not asserted; Batch timing is made immediate through bbolt's MaxBatchSize.",
   technique="explicit-state model checking of the implementation against a reference model in lock-step (BFS with state hashing to fixpoint)"),
 "C20": dict(engine="wsim", level=MC, ref="4/C20",
   text="Every wallet history of the plan (1-2 confirmed coins, optional lease, S1 via SendOutputs or PublishTransaction, optional resync by restart or rescan, optional unconfirmed child S2, optional confirming block, optional final resync) is executed on the real wallet; every backend answer is a choice point enumerated exhaustively (accept, already in mempool, already known, already confirmed, each of the 39 other chain sentinel errors, an opaque error, NotifyReceived failure) for initial broadcasts and re-broadcasts. Oracle: an error result leaves balance for every minconf, the spendable set and the unmined set exactly as before the attempt; in-mempool stays recorded once; after every resync the backend was offered exactly the unconfirmed set, each once, parents first.",
   note="Histories with at most two wallet sends and two coins; asynchronous rebroadcast is awaited by goroutine-state quiescence detection; already-known/confirmed answers only require success.",
   technique="bounded exhaustive enumeration of wallet histories x environment answers on the real wallet (stateless model checking, deviation = backend answer)"),
}
pending_reason = "check not built yet in this session (planned, see DESIGN.md section 4)"
def sh(c): return subprocess.run(c, shell=True, capture_output=True, text=True).stdout.strip()
hook_commits = [l.split()[0] for l in sh("git -C /repo log --format='%h %s' | grep -i 'verif hook' || true").splitlines()]
m = {
 "version": 1,
 "setup_cmd": "./setup.sh",
 "hooks": {"guard": "verif", "enable": "go build -tags verif (done by ./vcheck)",
           "baseline_off_cmd": "/verif/baseline_off.sh", "source_commits": hook_commits, "add_only": True},
 "engines": [
  {"name": "maporder", "path": "ovgen + harness/vorder", "serves_properties": ["C14"], "kind_free_text": "go build -overlay generated from the current tree rewrites map ranges into harness-controlled order; DFS over all order choice vectors"},
  {"name": "seqx", "path": "harness/amgr", "serves_properties": ["C03","C04","C05","C08","C10"], "kind_free_text": "stateless bounded-depth enumeration of operation sequences on real waddrmgr managers (fresh copy of a template database per execution), 16 workers"},
  {"name": "vsched-chan", "path": "harness/c18", "serves_properties": ["C18"], "kind_free_text": "controlled scheduler with a channel/select model; queue.go rewritten by an AST pass generated from the current tree; DFS with visited set over canonical global states"},
  {"name": "faultdb", "path": "harness/faultdb", "serves_properties": ["C10"], "kind_free_text": "walletdb bucket/cursor/tx proxy that counts mutating calls and fails exactly the k-th"},
  {"name": "wsim", "path": "harness/wsim", "serves_properties": ["C06","C15","C16","C20"], "kind_free_text": "closed system around the real wallet: block-tree chain model, fake chain.Interface (real BlockFilterer), sequential notification feeder with barriers, goroutine-state quiescence detector, scripted backend answers"},
  {"name": "txgraph", "path": "harness/txgraph", "serves_properties": ["C01","C02","C12","C13","C14","C10"], "kind_free_text": "explicit-state BFS over the real wtxmgr.Store (state = canonical namespace dump) with a reference ledger in lock-step"},
 ],
 "checks": [], "not_applicable": [],
 "notes": "All checks: ./vcheck <id> quick|thorough; replay: ./vcheck replay <file>. See DESIGN.md.",
}
for pid in ALL:
    c = checks.get(pid)
    if not c:
        m["not_applicable"].append({"property_id": pid, "reason": pending_reason}); continue
    e = {"property_id": pid, "quick_cmd": f"./vcheck {pid} quick", "thorough_cmd": f"./vcheck {pid} thorough",
         "evidence_file": f"/verif/evidence/{pid}.json", "replay_cmd_template": "./vcheck replay {path}",
         "engine": c["engine"],
         "level_claimed": {"category": c["level"], "text": c["text"], "design_ref": "DESIGN.md " + c["ref"]},
         "level_note": c["note"], "technique": c["technique"]}
    m["checks"].append(e)
json.dump(m, open("/verif/MANIFEST.json", "w"), indent=1)
print("claimed:", [c["property_id"] for c in m["checks"]])
